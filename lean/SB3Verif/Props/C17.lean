/-
C17 — VecEnv wrappers keep the contract and transform terminal observations alike.

Property theorems only (helper lemmas are in `SB3Verif/Lemmas/Wrappers.lean`).
All statements are about the executable model `SB3Verif/Model/Wrappers.lean`, whose definitions the
driver `SB3Verif/Driver/C17.lean` runs against the real wrapper stack on every check.
-/
import SB3Verif.Lemmas.Wrappers
import SB3Verif.Props.C17C01

namespace SB3Verif.C17

open SB3Verif.Wrappers

/-! ### Frame stacking: the window mechanism equals its specification, for every history -/

/-- **Row-level window invariant** (`window_eq_padded_suffix`): for every stack depth `n ≥ 1`, every frame
width `c` and every history of `reset`/`update` calls (any episode script: length-1 episodes, episodes
shorter than the stack, resets in mid-episode …), the rolling window of `StackedObservations`
(roll by one frame, zero on done, write the new frame last) started from all zeros holds exactly the
last `n` frames of the *current* episode, left-padded with zero frames. -/
theorem window_eq_padded_suffix (n c : Nat) (hn : 0 < n) (h : List REv)
    (hh : ∀ e ∈ h, ∀ f ∈ e.frames, f.length = c) :
    rowRun (List.replicate (n * c) 0) h = paddedRow n c (rowEpisode [] h) := by
  have h0 : List.replicate (n * c) (0 : Int) = paddedRow n c [] := by
    simp [paddedRow, Lemmas.Wrappers.paddedFrames_nil]
  rw [h0]
  exact (Lemmas.Wrappers.rowRun_spec n c hn h [] (by simp) hh).1

/-- **`framestack_spec`** (array level, both stacking axes, every rank): for every stack depth `n ≥ 1`,
every non-empty base shape with positive dimensions, stacking on the first or on the last axis, and every
history of one environment whose observations are frames of the base space, the window of
`StackedObservations` — a copy of which is what `reset()`/`step()` return — equals
`np.concatenate` (along the stacking axis) of the last `n` observations of the *current* episode,
left-padded with zero frames. -/
theorem framestack_spec (first : Bool) (n : Nat) (shape : List Nat) (hn : 0 < n) (hne : shape ≠ [])
    (hpos : 0 < prod shape) (h : List FEv) (hh : ∀ e ∈ h, EvOK shape e) :
    fsRun first (Arr.zeros (stackedShape n first shape)) h = stackOf first n shape (curEpisode [] h) := by
  rw [Lemmas.Wrappers.zeros_eq_specArr first n shape hne hpos,
    Lemmas.Wrappers.stackOf_eq_specArr first n shape hpos]
  exact (Lemmas.Wrappers.fsRun_spec first n shape hn hne hpos h [] (by simp) hh).1

/-- **`terminal_stack_spec`**: when, after any history `h`, a step ends the episode with raw terminal
observation `t` and first observation `o` of the next episode, the stacked terminal observation is the stack
of the episode that just ended completed by `t` (its last `n` frames, zero-padded when the episode was
shorter than the stack), and the returned observation is the stack of the new one-frame episode. -/
theorem terminal_stack_spec (first : Bool) (n : Nat) (shape : List Nat) (hn : 0 < n) (hne : shape ≠ [])
    (hpos : 0 < prod shape) (h : List FEv) (hh : ∀ e ∈ h, EvOK shape e) (o t : Arr)
    (ho : FrameOK shape o) (ht : FrameOK shape t) :
    updateArr first (fsRun first (Arr.zeros (stackedShape n first shape)) h) o true (some t) =
      (stackOf first n shape [o], some (stackOf first n shape (curEpisode [] h ++ [t]))) := by
  obtain ⟨hrun, hep⟩ := Lemmas.Wrappers.fsRun_spec first n shape hn hne hpos h [] (by simp) hh
  rw [Lemmas.Wrappers.zeros_eq_specArr first n shape hne hpos, hrun,
    Lemmas.Wrappers.updateArr_spec first n shape hn hne hpos _ o true (some t) hep ho
      (by intro t' h'; cases h'; exact ht)]
  simp [Lemmas.Wrappers.stackOf_eq_specArr first n shape hpos]

/-- **`framestack_done_window_any_terminal`**: whether or not the VecEnv below supplied a `terminal_observation`
(`term = none`: gym3/procgen-style vectorised environments — the library only warns), a step that ends the episode
leaves — and returns — the window of the NEW episode only: `n - 1` zero frames and its first observation; no frame of
the finished episode survives. A supplied terminal observation is stacked onto the finished episode's window; an
absent one stays absent (nothing is invented, `infos[i]` simply has no `terminal_observation`). -/
theorem framestack_done_window_any_terminal (first : Bool) (n : Nat) (shape : List Nat) (hn : 0 < n)
    (hne : shape ≠ []) (hpos : 0 < prod shape) (h : List FEv) (hh : ∀ e ∈ h, EvOK shape e) (o : Arr)
    (ho : FrameOK shape o) (term : Option Arr) (ht : ∀ t, term = some t → FrameOK shape t) :
    updateArr first (fsRun first (Arr.zeros (stackedShape n first shape)) h) o true term =
      (stackOf first n shape [o], term.map fun t => stackOf first n shape (curEpisode [] h ++ [t])) := by
  obtain ⟨hrun, hep⟩ := Lemmas.Wrappers.fsRun_spec first n shape hn hne hpos h [] (by simp) hh
  rw [Lemmas.Wrappers.zeros_eq_specArr first n shape hne hpos, hrun,
    Lemmas.Wrappers.updateArr_spec first n shape hn hne hpos _ o true term hep ho ht]
  cases term <;> simp [Lemmas.Wrappers.stackOf_eq_specArr first n shape hpos]

/-- the same at row level, for any window contents of the running episode -/
theorem window_cleared_on_done_any_terminal (n c : Nat) (hn : 0 < n) (ep : List (List Int)) (obs : List Int)
    (term : Option (List Int)) (hep : ∀ f ∈ ep, f.length = c) (ho : obs.length = c) :
    (updateRow (paddedRow n c ep) obs true term).1 = paddedRow n c [obs] := by
  rw [Lemmas.Wrappers.updateRow_done n c hn ep obs term hep ho]

/-- An ordinary step (not done) appends the observation to the current episode and leaves `info` alone. -/
theorem framestack_step_spec (first : Bool) (n : Nat) (shape : List Nat) (hn : 0 < n) (hne : shape ≠ [])
    (hpos : 0 < prod shape) (h : List FEv) (hh : ∀ e ∈ h, EvOK shape e) (o : Arr) (ho : FrameOK shape o)
    (term : Option Arr) (ht : ∀ t, term = some t → FrameOK shape t) :
    updateArr first (fsRun first (Arr.zeros (stackedShape n first shape)) h) o false term =
      (stackOf first n shape (curEpisode [] h ++ [o]), term) := by
  obtain ⟨hrun, hep⟩ := Lemmas.Wrappers.fsRun_spec first n shape hn hne hpos h [] (by simp) hh
  rw [Lemmas.Wrappers.zeros_eq_specArr first n shape hne hpos, hrun,
    Lemmas.Wrappers.updateArr_spec first n shape hn hne hpos _ o false term hep ho ht]
  simp [Lemmas.Wrappers.stackOf_eq_specArr first n shape hpos]

/-- Episodes shorter than the stack (in particular right after a reset or an episode end): the window is
`n - len` zero frames followed by the whole episode. -/
theorem stack_short_episode {α : Type} (n : Nat) (z : α) (ep : List α) (h : ep.length ≤ n) :
    paddedFrames n z ep = List.replicate (n - ep.length) z ++ ep :=
  Lemmas.Wrappers.paddedFrames_short n z ep h

/-- Episodes at least as long as the stack: exactly the last `n` frames, no padding. -/
theorem stack_long_episode {α : Type} (n : Nat) (z : α) (ep : List α) (h : n ≤ ep.length) :
    paddedFrames n z ep = ep.drop (ep.length - n) :=
  Lemmas.Wrappers.paddedFrames_long n z ep h

/-- After an auto-reset (or `reset()`): zeros and the first observation. -/
theorem stack_after_reset {α : Type} (n : Nat) (hn : 0 < n) (z o : α) :
    paddedFrames n z [o] = List.replicate (n - 1) z ++ [o] :=
  Lemmas.Wrappers.paddedFrames_singleton n hn z o

/-- The stacked terminal observation ends with the raw terminal observation, preceded by the window of the
ended episode minus its oldest frame. -/
theorem terminal_stack_ends_with_raw {α : Type} (n : Nat) (hn : 0 < n) (z t : α) (ep : List α) :
    paddedFrames n z (ep ++ [t]) = (paddedFrames n z ep).drop 1 ++ [t] :=
  Lemmas.Wrappers.paddedFrames_push n hn z t ep

/-- The specification's `concatFrames` is `np.concatenate` along the first axis: in C order, the frames' elements
one frame after the other. -/
theorem stack_is_concatenate_first (shape : List Nat) (hpos : 0 < prod shape) (fs : List Arr)
    (hfs : ∀ f ∈ fs, FrameOK shape f) :
    (concatFrames true shape fs).data = fs.flatMap (·.data) :=
  Lemmas.Wrappers.concatFrames_first_data shape hpos fs hfs

/-- … and along the last axis: with `C = shape[-1]`, element `c` of row `r` of frame `i` is element
`i*C + c` of row `r` of the result (rows of the result have length `len(fs)*C`). -/
theorem stack_is_concatenate_last (shape : List Nat) (hpos : 0 < prod shape) (fs : List Arr)
    (hfs : ∀ f ∈ fs, FrameOK shape f) (r i c : Nat) (hr : r < prod shape / lastDim shape) (hi : i < fs.length)
    (hc : c < lastDim shape) :
    (concatFrames false shape fs).data.getD ((r * fs.length + i) * lastDim shape + c) 0 =
      fs[i].data.getD (r * lastDim shape + c) 0 :=
  Lemmas.Wrappers.concatFrames_last_index shape hpos fs hfs r i c hr hi hc

/-! ### Any stack of wrappers, in any order -/

/-- **`passthrough`**: for every stack of wrappers (any wrappers, any order, any internal states) and every
step record of an environment, reward, done flag, `TimeLimit.truncated` and the rest of `info` (payload)
come out exactly as they went in. -/
theorem passthrough (ws : List WS) (r : Rec) :
    (stackStep ws r).2.rew = r.rew ∧ (stackStep ws r).2.done = r.done ∧
      (stackStep ws r).2.info.truncated = r.info.truncated ∧ (stackStep ws r).2.info.payload = r.info.payload :=
  Lemmas.Wrappers.stackStep_passthrough ws r

/-- The vectorised stack treats every environment by itself: environment `i`'s result is the single-environment
stack run on environment `i`'s record and state only. -/
theorem env_independent (sts : List (List WS)) (rs : List Rec) (i : Nat) (h1 : i < sts.length) (h2 : i < rs.length) :
    (vecStep sts rs)[i]'(by simp [vecStep]; omega) = stackStep sts[i] rs[i] := by
  simp [vecStep]

/-- **`ordinary_obs`**: on a step that does not end the episode, a stack returns `stackObsFn ws` of the
observation — this *defines* "the transformation given to ordinary observations" by the stack in its
present state (for `VecFrameStack`: push onto the current window). -/
theorem ordinary_obs (ws : List WS) (r : Rec) (hd : r.done = false) :
    (stackStep ws r).2.obs = stackObsFn ws r.obs :=
  Lemmas.Wrappers.stackStep_obs_ordinary ws r hd

/-- **`terminal_like_obs`**: for every stack of wrappers in any order and any states, when a step ends the
episode with terminal observation `t` (of the same keys/shapes as the observation, keys distinct), the
`terminal_observation` that comes out is exactly `stackObsFn ws t`: the transformation the same stack, in the
same (pre-reset) state, gives to an ordinary observation. For `VecFrameStack` this is the window of the
episode that just ended with `t` pushed onto it; for `VecTransposeImage`/`VecExtractDictObs` the same
transposition/projection; `VecMonitor`/`VecCheckNan` leave it alone. -/
theorem terminal_like_obs (ws : List WS) (r : Rec) (t : Obs) (hd : r.done = true)
    (ht : r.info.terminal = some t) (hs : obsSig r.obs = obsSig t) (hk : KeysNodup t) :
    (stackStep ws r).2.info.terminal = some (stackObsFn ws t) :=
  Lemmas.Wrappers.stackStep_terminal_alike ws r t hd ht hs hk

/-- No wrapper invents a terminal observation. -/
theorem terminal_absent (ws : List WS) (r : Rec) (ht : r.info.terminal = none) :
    (stackStep ws r).2.info.terminal = none :=
  Lemmas.Wrappers.stackStep_terminal_none ws r ht

/-- For one `VecFrameStack` sub-stack the statement reads: the stacked terminal observation is what `update`
would have returned had the terminal observation been an ordinary one. -/
theorem framestack_terminal_like_obs (first : Bool) (buf o t : Arr) (hs : o.shape = t.shape)
    (hl : o.data.length = t.data.length) :
    (updateArr first buf o true (some t)).2 = some (updateArr first buf t false none).1 :=
  Lemmas.Wrappers.updateArr_terminal_alike first buf o t hs hl

/-! ### Returned observations belong to the declared observation space (keys, shapes, sizes) -/

/-- **`obs_in_declared_space`** (shape level): for every type-correct stack of wrappers built by the
constructors (`buildStack`, any wrappers in any order, any `n_stack`, channel orders, per-key orders) over any
base space with distinct keys and non-empty shapes, and for every history of `reset`/`step` calls whose inputs
obey the VecEnv contract (`OpOK`), every observation and every `terminal_observation` the stack returns has
exactly the keys, shapes and element counts of the observation space the stack declares. -/
theorem obs_in_declared_space (cfgs : List WCfg) (sp sp' : Space) (ws : List WS)
    (hb : buildStack cfgs sp = .ok (ws, sp')) (hsp : SpaceOK sp) (ops : List Op) (hops : ∀ op ∈ ops, OpOK sp op) :
    ∀ o ∈ stackOutputs ws ops, obsSig o = spaceSig sp' := by
  have hsg := Lemmas.Wrappers.sigOK_of_spaceOK sp hsp
  refine Lemmas.Wrappers.stackOutputs_sig ops (spaceSig sp) (spaceSig sp') ws
    (Lemmas.Wrappers.buildStack_inv cfgs sp sp' ws hb hsg) hsg ?_
  intro op hop
  have := hops op hop
  cases op with
  | reset o => exact this
  | step r => exact this

/-- The shape check the driver applies to every input (`obsHasShape`) is the hypothesis of the theorem. -/
theorem obsHasShape_iff (sp : Space) (o : Obs) : obsHasShape sp o = true ↔ obsSig o = spaceSig sp :=
  Lemmas.Wrappers.obsHasShape_iff sp o

/-- The declared shape of a frame stack: the stacking axis is multiplied by `n`, the element count too. -/
theorem stacked_space_shape (n : Nat) (first : Bool) (b : Box) (hne : b.shape ≠ []) :
    (stackedBox n first b).shape = stackedShape n first b.shape ∧
      prod (stackedBox n first b).shape = n * prod b.shape :=
  ⟨rfl, Lemmas.Wrappers.prod_stackedShape first n b.shape hne⟩

/-! ### Membership in the declared observation space (bounds of a frame stack) -/

/-- **`obs_in_declared_space_bounds_partial`** (full membership, bounds included, for every stack): when every box
of the base space has one scalar pair of bounds `lo ≤ 0 ≤ hi` (a sufficient hypothesis; what is really needed is
that 0 lies inside the bounds — see `obs_in_declared_space_counterexample_zero_padding`; for one `VecFrameStack`
`stack_in_declared_bounds_partial` below allows per-coordinate bounds of any form), then for every type-correct
stack of wrappers in any order and every history whose inputs are members of the base space, every observation and every `terminal_observation` the stack returns is a
member (`Space.contains`: keys, shapes, bounds) of the observation space the stack declares. -/
theorem obs_in_declared_space_bounds_partial (cfgs : List WCfg) (sp sp' : Space) (ws : List WS)
    (hb : buildStack cfgs sp = .ok (ws, sp')) (hsp : SpaceOK sp) (hsc : ScalarBounds sp) (ops : List Op)
    (hops : ∀ op ∈ ops, OpOK sp op ∧ OpIn sp op) :
    ∀ o ∈ stackOutputs ws ops, sp'.contains o = true :=
  Lemmas.Wrappers.stack_contains cfgs sp sp' ws hb hsp hsc ops hops

/-- **`stack_in_declared_bounds_partial`** (one `VecFrameStack`, per-coordinate bounds of any form): for every `n`,
both stacking axes, every Box and every episode of frames that are members of the Box, the stack (zero padding
included) is a member of the stacked space declared by `StackedObservations` (bounds tiled along the stacking
axis) — provided the zero frame is itself inside the Box's bounds (the missing hypothesis, finding K-C17-b). No
uniformity of the bounds along the stacking axis is needed any more (fix e25cae6 of finding K-C17-a). -/
theorem stack_in_declared_bounds_partial (first : Bool) (n : Nat) (b : Box) (ep : List Arr)
    (hz : b.contains (Arr.zeros b.shape) = true) (hep : ∀ f ∈ ep, b.contains f = true) :
    (stackedBox n first b).contains (stackOf first n b.shape ep) = true :=
  Lemmas.Wrappers.stack_within_bounds first n b ep hz hep

/-- **Why the old formula was wrong (finding K-C17-a, fixed by e25cae6)**: with the bounds built by
`np.repeat` (`stackedBoxOld`) the statement above was false: `Box(low=[0,-5], high=[5,0])`, `n = 2`, frame
`[5,-5]` (a member, and so is the zero frame): the stack `[5,-5,5,-5]` was outside the declared bounds
`low = [0,0,-5,-5]`; the tiled bounds `[0,-5,0,-5]` of the current code contain it. -/
theorem old_repeat_bounds_counterexample :
    (¬ ∀ (n : Nat) (first : Bool) (b : Box) (ep : List Arr),
        b.contains (Arr.zeros b.shape) = true → (∀ f ∈ ep, b.contains f = true) →
          (stackedBoxOld n first b).contains (stackOf first n b.shape ep) = true) ∧
      (stackedBox 2 false ⟨[2], [0, -5], [5, 0], "float32"⟩).contains
        (stackOf false 2 [2] [⟨[2], [5, -5]⟩, ⟨[2], [5, -5]⟩]) = true := by
  constructor
  · intro h
    have := h 2 false ⟨[2], [0, -5], [5, 0], "float32"⟩ [⟨[2], [5, -5]⟩, ⟨[2], [5, -5]⟩] (by decide) (by decide)
    revert this
    decide
  · decide

/-- **Counterexample (finding K-C17-b)**: with scalar bounds that exclude 0 (`Box(low=1, high=9)`) the
zero-padded stack after a reset, `[0, 5]`, is outside the declared space `Box(1, 9, (2,))`. -/
theorem obs_in_declared_space_counterexample_zero_padding :
    ¬ ∀ (n : Nat) (first : Bool) (b : Box) (ep : List Arr),
        (∀ f ∈ ep, b.contains f = true) →
          (stackedBox n first b).contains (stackOf first n b.shape ep) = true := by
  intro h
  have := h 2 false ⟨[1], [1], [9], "float32"⟩ [⟨[1], [5]⟩] (by decide)
  revert this
  decide

/-! ### Transposition and projection are what they say -/

/-- **`transpose_index`**: `VecTransposeImage` sends element `[i, j, k]` of an `H×W×C` array to `[k, i, j]` of
a `C×H×W` array (C order on both sides). -/
theorem transpose_index (h w c : Nat) (d : List Int) (i j k : Nat) (hi : i < h) (hj : j < w) (hk : k < c) :
    (transposeHWC ⟨[h, w, c], d⟩).shape = [c, h, w] ∧
      (transposeHWC ⟨[h, w, c], d⟩).data.getD ((k * h + i) * w + j) 0 = d.getD ((i * w + j) * c + k) 0 :=
  ⟨rfl, Lemmas.Wrappers.transposeHWC_index h w c d i j k hi hj hk⟩

/-- **`extract_is_projection`**: `VecExtractDictObs` returns the value stored under its key, for observations
and terminal observations alike, whatever `done` says. -/
theorem extract_is_projection (key : String) (r : Rec) :
    ((WS.extract key).step r).2.obs = [("", getKey key r.obs)] ∧
      ((WS.extract key).step r).2.info.terminal = r.info.terminal.map fun t => [("", getKey key t)] :=
  ⟨rfl, rfl⟩

/-! ### Dict observations: one independent sub-stack per key -/

/-- **`framestack_dict_keywise`**: on a Dict observation (distinct keys) the value returned under key `k` is the
result of the `StackedObservations.update` of key `k`'s own sub-stack (own window, own stacking axis) on key
`k`'s observation and key `k`'s terminal observation — so `framestack_spec`/`terminal_stack_spec` apply per key. -/
theorem framestack_dict_keywise (firsts : List (String × Bool)) (bufs obs : Obs) (done : Bool) (term : Option Obs)
    (hnd : KeysNodup obs) (kv : String × Arr) (hkv : kv ∈ obs) :
    getKey kv.1 (fsUpdate firsts bufs obs done term).1 =
      (updateArr (firstOf firsts kv.1) (getKey kv.1 bufs) kv.2 done (term.map (getKey kv.1))).1 :=
  Lemmas.Wrappers.fsUpdate_keywise firsts bufs obs done term hnd kv hkv

theorem framestack_dict_keywise_terminal (firsts : List (String × Bool)) (bufs obs t : Obs)
    (hnd : KeysNodup obs) (kv : String × Arr) (hkv : kv ∈ obs) :
    ((fsUpdate firsts bufs obs true (some t)).2.map (getKey kv.1)) =
      (updateArr (firstOf firsts kv.1) (getKey kv.1 bufs) kv.2 true (some (getKey kv.1 t))).2 :=
  Lemmas.Wrappers.fsUpdate_keywise_terminal firsts bufs obs t hnd kv hkv

theorem framestack_dict_keywise_reset (firsts : List (String × Bool)) (bufs obs : Obs)
    (hnd : KeysNodup obs) (kv : String × Arr) (hkv : kv ∈ obs) :
    getKey kv.1 (fsReset firsts bufs obs) = resetArr (firstOf firsts kv.1) (getKey kv.1 bufs) kv.2 :=
  Lemmas.Wrappers.fsReset_keywise firsts bufs obs hnd kv hkv

/-- **`framestack_dict_spec`**: for a Dict observation space, every key `k` of a `VecFrameStack`, every history of
`reset`/`step` calls (distinct keys, `k` present, key `k`'s arrays are frames of key `k`'s sub-space): the window
stored and returned under `k` is the stack — along key `k`'s own stacking axis — of the last `n` values of key `k`
in the current episode, zero padded. Keys do not influence each other. -/
theorem framestack_dict_spec (firsts : List (String × Bool)) (n : Nat) (k : String) (shape : List Nat)
    (hn : 0 < n) (hne : shape ≠ []) (hpos : 0 < prod shape) (bufs : Obs)
    (hb : getKey k bufs = Arr.zeros (stackedShape n (firstOf firsts k) shape)) (ops : List Op)
    (hk : ∀ op ∈ ops, KeysNodup op.obs ∧ k ∈ op.obs.map (·.1))
    (hev : ∀ op ∈ ops, EvOK shape (op.proj k)) :
    getKey k (fsRunObs firsts bufs ops) =
      stackOf (firstOf firsts k) n shape (curEpisode [] (ops.map (Op.proj k))) := by
  rw [Lemmas.Wrappers.fsRunObs_keywise firsts k ops bufs hk, hb]
  apply framestack_spec (firstOf firsts k) n shape hn hne hpos
  intro e he
  obtain ⟨op, hop, rfl⟩ := List.mem_map.mp he
  exact hev op hop

/-- `fsRunObs` is the state of the `VecFrameStack` wrapper of the model along the history. -/
theorem fsRunObs_is_wrapper_state (firsts : List (String × Bool)) (bufs : Obs) (r : Rec) (o : Obs) :
    ((WS.frameStack firsts bufs).step r).1 = .frameStack firsts (fsUpdate firsts bufs r.obs r.done r.info.terminal).1 ∧
      ((WS.frameStack firsts bufs).step r).2.obs = (fsUpdate firsts bufs r.obs r.done r.info.terminal).1 ∧
      ((WS.frameStack firsts bufs).reset o).1 = .frameStack firsts (fsReset firsts bufs o) ∧
      ((WS.frameStack firsts bufs).reset o).2 = fsReset firsts bufs o :=
  ⟨rfl, rfl, rfl, rfl⟩

/-! ### End to end: the wrapped VecEnv still satisfies C01's contract (composition with `SB3Verif.VecEnv`)

Thin re-exports of `SB3Verif/Props/C17C01.lean` (definitions `recOf`, `wrappedStep`, `wrappedReset` there), so that the
axiom audit of this file covers them. -/

/-- **`c01_wrapped_step_contract`**: for C01's base vectorised environment (either implementation, any reachable
state, any `n`, any sub-environment answers) under ANY stack of wrappers (any order, any states): `done =
terminated ∨ truncated`, `TimeLimit.truncated = truncated ∧ ¬terminated`, reward passed through; on a continuing
episode no `terminal_observation` and the observation is the stack's transformation of the sub-environment's; on an
ending episode `terminal_observation` = the pre-reset stack's transformation of the sub-environment's last
observation and the returned observation = the stack's `reset` of the first observation of the next episode. -/
theorem c01_wrapped_step_contract (v : VecEnv.Vec Obs Int) (hwf : v.WF) (sts : List (List WS))
    (hs : sts.length = v.n) (acts : List Int) (xs : List (VecEnv.StepResp Obs Int))
    (hv : (VecEnv.Op.step acts xs).valid v.n = true) (i : Nat) (hi : i < v.n) (a : Int)
    (x : VecEnv.StepResp Obs Int) (ha : acts[i]? = some a) (hx : xs[i]? = some x) :
    ∃ R, (C17C01.wrappedStep v sts acts xs).2[i]? = some R ∧
      R.done = (x.raw.terminated || x.raw.truncated) ∧
      R.info.truncated = (x.raw.truncated && !x.raw.terminated) ∧
      R.rew = x.raw.rew ∧
      ((x.raw.terminated || x.raw.truncated) = false →
        VecEnv.dictGet x.raw.info "terminal_observation" = none →
          R.info.terminal = none ∧ R.obs = stackObsFn (sts[i]'(hs ▸ hi)) x.raw.obs) ∧
      ((x.raw.terminated || x.raw.truncated) = true → ∀ z, x.rst = some z →
        obsSig z.obs = obsSig x.raw.obs → KeysNodup x.raw.obs →
          R.info.terminal = some (stackObsFn (sts[i]'(hs ▸ hi)) x.raw.obs) ∧
          R.obs = (stackReset (sts[i]'(hs ▸ hi)) z.obs).2) :=
  C17C01.wrapped_step_contract v hwf sts hs acts xs hv i hi a x ha hx

/-- `reset()` of the wrapped environment: the stack's `reset` of what sub-environment `i` answered. -/
theorem c01_wrapped_reset_contract (v : VecEnv.Vec Obs Int) (hwf : v.WF) (sts : List (List WS))
    (hs : sts.length = v.n) (zs : List (VecEnv.ResetRes Obs)) (hz : zs.length = v.n) (i : Nat) (hi : i < v.n)
    (z : VecEnv.ResetRes Obs) (hzi : zs[i]? = some z) :
    (C17C01.wrappedReset v sts zs).2[i]? = some (stackReset (sts[i]'(hs ▸ hi)) z.obs).2 :=
  C17C01.wrapped_reset_contract v hwf sts hs zs hz i hi z hzi

/-- **`c01_wrapped_framestack_autoreset_window`**: VecFrameStack over C01's base environment: after an automatic
reset the returned window holds `n - 1` zero frames and the first observation of the new episode — no frame of the
finished episode — and `terminal_observation` is the stack of the finished episode completed by its last observation,
whatever history `h` environment `i` had before. -/
theorem c01_wrapped_framestack_autoreset_window (v : VecEnv.Vec Obs Int) (hwf : v.WF) (sts : List (List WS))
    (hs : sts.length = v.n) (acts : List Int) (xs : List (VecEnv.StepResp Obs Int))
    (hv : (VecEnv.Op.step acts xs).valid v.n = true) (i : Nat) (hi : i < v.n) (a : Int)
    (x : VecEnv.StepResp Obs Int) (ha : acts[i]? = some a) (hx : xs[i]? = some x)
    (hdone : (x.raw.terminated || x.raw.truncated) = true) (z : VecEnv.ResetRes Obs) (hz : x.rst = some z)
    (first : Bool) (n : Nat) (shape : List Nat) (hn : 0 < n) (hne : shape ≠ []) (hpos : 0 < prod shape)
    (h : List FEv) (hh : ∀ e ∈ h, EvOK shape e)
    (hst : sts[i]'(hs ▸ hi) = [WS.frameStack [("", first)] [("", fsRun first (Arr.zeros (stackedShape n first shape)) h)]])
    (last next : Arr) (hlast : x.raw.obs = [("", last)]) (hnext : z.obs = [("", next)])
    (hl : FrameOK shape last) (hnx : FrameOK shape next) :
    ∃ R, (C17C01.wrappedStep v sts acts xs).2[i]? = some R ∧
      R.obs = [("", stackOf first n shape [next])] ∧
      R.info.terminal = some [("", stackOf first n shape (curEpisode [] h ++ [last]))] :=
  C17C01.wrapped_framestack_autoreset_window v hwf sts hs acts xs hv i hi a x ha hx hdone z hz first n shape hn hne hpos
    h hh hst last next hlast hnext hl hnx

/-- On a step that ends the episode, any stack returns what its `reset()` would return for the same observation
(for `VecFrameStack`: zeros and the new frame — nothing of the old episode). -/
theorem done_obs_is_reset_obs (ws : List WS) (r : Rec) (hd : r.done = true) :
    (stackStep ws r).2.obs = (stackReset ws r.obs).2 :=
  Lemmas.Wrappers.stackStep_done_obs ws r hd

/-! ### Non-vacuity -/

/-- hypotheses of `terminal_like_obs` on a Dict observation under FrameStack → Transpose → Extract → Monitor -/
example :
    let o : Obs := [("img", ⟨[1, 2, 2], [1, 2, 3, 4]⟩), ("vec", ⟨[2], [5, 6]⟩)]
    let t : Obs := [("img", ⟨[1, 2, 2], [7, 8, 9, 10]⟩), ("vec", ⟨[2], [11, 12]⟩)]
    let ws : List WS := [.frameStack [("img", false), ("vec", false)]
        [("img", ⟨[1, 2, 4], [0, 0, 1, 1, 0, 0, 1, 1]⟩), ("vec", ⟨[4], [0, 0, 2, 2]⟩)],
      .transpose ["img"], .extract "img", .monitor 3 1]
    obsSig o = obsSig t ∧ KeysNodup t ∧
      (stackStep ws ⟨o, 1, true, ⟨some t, false, none, 0⟩⟩).2.info.terminal =
        some [("", ⟨[4, 1, 2], [1, 1, 1, 1, 7, 9, 8, 10]⟩)] := by
  intro o t ws
  unfold KeysNodup
  decide


/-- a history with a length-1 episode and an episode shorter than the stack (n = 3), stacking on the last
axis of a 2×2 box: hypotheses of `framestack_spec` hold and the result is the expected window -/
example : ∀ e ∈ [FEv.reset ⟨[2, 2], [1, 2, 3, 4]⟩, FEv.step ⟨[2, 2], [5, 6, 7, 8]⟩ true (some ⟨[2, 2], [9, 9, 9, 9]⟩),
    FEv.step ⟨[2, 2], [1, 1, 1, 1]⟩ false none], EvOK [2, 2] e := by
  simp [EvOK, FEv.frames, FrameOK, prod]

example : fsRun false (Arr.zeros (stackedShape 3 false [2, 2]))
    [FEv.reset ⟨[2, 2], [1, 2, 3, 4]⟩, FEv.step ⟨[2, 2], [5, 6, 7, 8]⟩ true (some ⟨[2, 2], [9, 9, 9, 9]⟩),
     FEv.step ⟨[2, 2], [1, 1, 1, 1]⟩ false none] = ⟨[2, 6], [0, 0, 5, 6, 1, 1, 0, 0, 7, 8, 1, 1]⟩ := by decide

example : (updateArr true (fsRun true (Arr.zeros (stackedShape 3 true [2, 2])) [FEv.reset ⟨[2, 2], [1, 2, 3, 4]⟩])
    ⟨[2, 2], [5, 6, 7, 8]⟩ true (some ⟨[2, 2], [9, 9, 9, 9]⟩)).2 =
      some ⟨[6, 2], [0, 0, 0, 0, 1, 2, 3, 4, 9, 9, 9, 9]⟩ := by decide

/-- hypotheses of `stack_in_declared_bounds_partial` on a box whose bounds differ along the stacking axis, episode
shorter than the stack: zero frame and frame are members, and so is the stack -/
example : (⟨[2], [0, -5], [5, 0], "float32"⟩ : Box).contains (Arr.zeros [2]) = true ∧
    (⟨[2], [0, -5], [5, 0], "float32"⟩ : Box).contains ⟨[2], [5, -5]⟩ = true ∧
    (stackedBox 3 false ⟨[2], [0, -5], [5, 0], "float32"⟩).contains
      (stackOf false 3 [2] [⟨[2], [5, -5]⟩]) = true := by decide

/-- hypotheses of `obs_in_declared_space`: a Dict space, FrameStack(per-key orders) → Transpose → Extract,
a history with a reset and an episode end -/
example :
    let sp : Space := ⟨true, [("img", ⟨[3, 3, 1], List.replicate 9 0, List.replicate 9 255, "uint8"⟩),
                             ("vec", ⟨[2], [0, 0], [9, 9], "float32"⟩)]⟩
    let cfgs : List WCfg := [.frameStack 2 (.perKey [("img", .auto), ("vec", .first)]), .transpose false,
                             .extract "img"]
    (buildStack cfgs sp).toOption.map (fun x => spaceSig x.2) = some [("", [2, 3, 3], 18)] := by
  decide

example : SpaceOK ⟨true, [("img", ⟨[2, 2, 1], [0, 0, 0, 0], [255, 255, 255, 255], "uint8"⟩),
                          ("vec", ⟨[2], [0, 0], [9, 9], "float32"⟩)]⟩ := by
  unfold SpaceOK; decide

example : OpOK ⟨false, [("", ⟨[2], [0, 0], [9, 9], "float32"⟩)]⟩
    (.step ⟨[("", ⟨[2], [1, 2]⟩)], 1, true, ⟨some [("", ⟨[2], [3, 4]⟩)], false, none, 0⟩⟩) := by
  unfold OpOK; decide

/-- hypotheses of `obs_in_declared_space_bounds_partial`: an image space has scalar bounds containing 0, and a
scripted observation is a member -/
example : ScalarBounds ⟨false, [("", ⟨[1, 1, 2], [0, 0], [255, 255], "uint8"⟩)]⟩ := by
  intro kb hkb
  simp only [List.mem_singleton] at hkb
  subst hkb
  exact ⟨0, 255, by decide, by decide, by decide, by decide⟩

example : OpIn ⟨false, [("", ⟨[1, 1, 2], [0, 0], [255, 255], "uint8"⟩)]⟩
    (.step ⟨[("", ⟨[1, 1, 2], [7, 255]⟩)], 1, true, ⟨some [("", ⟨[1, 1, 2], [3, 4]⟩)], false, none, 0⟩⟩) := by
  unfold OpIn; decide

/-- `framestack_done_window_any_terminal` with NO terminal observation supplied: the window after the done step holds
only the new frame `[5,6,7,8]` (zero padded), nothing of the old episode `[1,2,3,4]`, and no terminal is invented -/
example : updateArr false (fsRun false (Arr.zeros (stackedShape 3 false [2, 2])) [FEv.reset ⟨[2, 2], [1, 2, 3, 4]⟩])
    ⟨[2, 2], [5, 6, 7, 8]⟩ true none = (⟨[2, 6], [0, 0, 0, 0, 5, 6, 0, 0, 0, 0, 7, 8]⟩, none) := by decide

end SB3Verif.C17
