/-
Helper lemmas for C14 (model: `SB3Verif/Model/Dist.lean`).

The ℝ instance of `TScalar` lives here: the theorems of `Props/C14.lean` are statements about the
*same* generic definitions the driver executes at `Float` / `Float32`, instantiated at ℝ with Mathlib's
`Real.exp`, `Real.log`, `Real.tanh`, `Real.sqrt`.
-/
import SB3Verif.Model.Dist
import Mathlib.Probability.Distributions.Gaussian.Real
import Mathlib.Analysis.SpecialFunctions.Artanh
import Mathlib.Analysis.SpecialFunctions.Trigonometric.DerivHyp
import Mathlib.Analysis.Complex.ExponentialBounds
import Mathlib.MeasureTheory.Function.JacobianOneDim

namespace SB3Verif.Lemmas.Dist

open SB3Verif.Dist
open scoped NNReal

/-- The ℝ instance: Mathlib's real functions; `≤` is decided classically. -/
noncomputable instance instTScalarReal : TScalar ℝ where
  ofNat n := (n : ℝ)
  pi := Real.pi
  exp := Real.exp
  log := Real.log
  tanh := Real.tanh
  sqrt := Real.sqrt
  le a b := decide (a ≤ b)

/-! ### unfolding the class operations at ℝ -/

@[simp] theorem ofNat_real (n : ℕ) : (TScalar.ofNat n : ℝ) = (n : ℝ) := rfl
@[simp] theorem pi_real : (TScalar.pi : ℝ) = Real.pi := rfl
@[simp] theorem exp_real (x : ℝ) : TScalar.exp x = Real.exp x := rfl
@[simp] theorem log_real (x : ℝ) : TScalar.log x = Real.log x := rfl
@[simp] theorem tanh_real (x : ℝ) : TScalar.tanh x = Real.tanh x := rfl
@[simp] theorem sqrt_real (x : ℝ) : TScalar.sqrt x = Real.sqrt x := rfl
@[simp] theorem le_real (a b : ℝ) : TScalar.le a b = decide (a ≤ b) := rfl

@[simp] theorem half_real : (half : ℝ) = 1 / 2 := by simp [half]

@[simp] theorem sum_real (l : List ℝ) : SB3Verif.Dist.sum l = l.sum := by
  induction l with
  | nil => simp [SB3Verif.Dist.sum]
  | cons x xs ih =>
    simp only [SB3Verif.Dist.sum, List.foldr_cons, List.sum_cons] at ih ⊢
    rw [ih]

@[simp] theorem max'_real (a b : ℝ) : max' a b = max a b := by
  simp only [max', le_real, decide_eq_true_eq]
  split_ifs with h
  · exact (max_eq_right h).symm
  · exact (max_eq_left (le_of_not_ge h)).symm

@[simp] theorem min'_real (a b : ℝ) : min' a b = min a b := by
  simp only [min', le_real, decide_eq_true_eq]
  split_ifs with h
  · exact (min_eq_left h).symm
  · exact (min_eq_right (le_of_not_ge h)).symm

@[simp] theorem abs'_real (x : ℝ) : abs' x = |x| := by
  simp only [abs', le_real, ofNat_real, Nat.cast_zero, decide_eq_true_eq]
  split_ifs with h
  · exact (abs_of_nonneg h).symm
  · exact (abs_of_neg (lt_of_not_ge h)).symm

theorem ind_real (b : Bool) : (ind b : ℝ) = if b then 1 else 0 := by
  simp [ind]

/-- The cancellation-free `log1p` of the model is `log (1 + x)` over ℝ. -/
@[simp] theorem log1p_real (x : ℝ) : log1p x = Real.log (1 + x) := by
  simp only [log1p, ofNat_real, Nat.cast_one, log_real, le_real, Bool.and_eq_true,
    decide_eq_true_eq]
  by_cases h : x = 0
  · subst h; simp
  · have hne : ¬((1 : ℝ) + x ≤ 1 ∧ 1 ≤ 1 + x) := by
      rintro ⟨h1, h2⟩; exact h (by linarith)
    rw [if_neg hne]
    have : (1 : ℝ) + x - 1 = x := by ring
    rw [this]
    field_simp

/-! ### lists -/

theorem zipWith3_length {β γ δ ε : Type} (f : β → γ → δ → ε) :
    ∀ (b : List β) (c : List γ) (d : List δ), b.length = c.length → b.length = d.length →
      (zipWith3 f b c d).length = b.length
  | [], _, _, _, _ => by simp [zipWith3]
  | _ :: _, [], _, h, _ => by simp at h
  | _ :: _, _ :: _, [], _, h => by simp at h
  | _ :: bs, _ :: cs, _ :: ds, h1, h2 => by
    simp only [zipWith3, List.length_cons, Nat.add_right_cancel_iff] at h1 h2 ⊢
    exact zipWith3_length f bs cs ds h1 h2

/-! ### Normal -/

theorem normalLogProb_real (μ σ a : ℝ) :
    normalLogProb μ σ a
      = -(a - μ) ^ 2 / (2 * σ ^ 2) - Real.log σ - Real.log (Real.sqrt (2 * Real.pi)) := by
  simp only [normalLogProb, ofNat_real, log_real, sqrt_real, pi_real, Nat.cast_ofNat]
  ring_nf

theorem normalEntropy_real (σ : ℝ) :
    normalEntropy σ = 1 / 2 + 1 / 2 * Real.log (2 * Real.pi) + Real.log σ := by
  simp [normalEntropy]

theorem diagStd_real (s : ℝ) : diagStd s = Real.exp s := by
  simp [diagStd]

/-- `σ²` as a non-negative real (the variance argument of Mathlib's Gaussian) -/
noncomputable def nnsq (σ : ℝ) : ℝ≥0 := ⟨σ ^ 2, sq_nonneg σ⟩

@[simp] theorem coe_nnsq (σ : ℝ) : ((nnsq σ : ℝ≥0) : ℝ) = σ ^ 2 := rfl

theorem nnsq_ne_zero {σ : ℝ} (hσ : σ ≠ 0) : nnsq σ ≠ 0 := by
  intro h
  have : ((nnsq σ : ℝ≥0) : ℝ) = 0 := by rw [h]; rfl
  rw [coe_nnsq] at this
  exact hσ (pow_eq_zero_iff (two_ne_zero) |>.mp this)

/-- `exp ∘ Normal.log_prob` is Mathlib's Gaussian density with variance `σ²`. -/
theorem exp_normalLogProb (μ σ a : ℝ) (hσ : 0 < σ) :
    Real.exp (normalLogProb μ σ a) = ProbabilityTheory.gaussianPDFReal μ (nnsq σ) a := by
  rw [normalLogProb_real]
  unfold ProbabilityTheory.gaussianPDFReal
  have h2pi : (0 : ℝ) < 2 * Real.pi := by positivity
  have hs : Real.sqrt (2 * Real.pi * σ ^ 2) = Real.sqrt (2 * Real.pi) * σ := by
    rw [Real.sqrt_mul h2pi.le, Real.sqrt_sq hσ.le]
  rw [coe_nnsq, hs, Real.exp_sub, Real.exp_sub, Real.exp_log hσ, Real.exp_log (Real.sqrt_pos.mpr h2pi)]
  field_simp

/-- the mean maximises the Gaussian log-density -/
theorem normalLogProb_le_mode (μ σ a : ℝ) : normalLogProb μ σ a ≤ normalLogProb μ σ μ := by
  rw [normalLogProb_real, normalLogProb_real]
  have h : -(a - μ) ^ 2 / (2 * σ ^ 2) ≤ 0 := by
    apply div_nonpos_of_nonpos_of_nonneg
    · nlinarith [sq_nonneg (a - μ)]
    · positivity
  simp only [sub_self, ne_eq, OfNat.ofNat_ne_zero, not_false_eq_true, zero_pow, neg_zero, zero_div]
  linarith

/-! ### zipWith3 -/

theorem zipWith3_map {β γ δ ε ζ : Type} (f : β → γ → δ → ε) (g : ε → ζ) :
    ∀ (b : List β) (c : List γ) (d : List δ),
      (zipWith3 f b c d).map g = zipWith3 (fun x y z => g (f x y z)) b c d
  | [], _, _ => by simp [zipWith3]
  | _ :: _, [], _ => by simp [zipWith3]
  | _ :: _, _ :: _, [] => by simp [zipWith3]
  | _ :: bs, _ :: cs, _ :: ds => by
    simp only [zipWith3, List.map_cons, List.cons.injEq, true_and]
    exact zipWith3_map f g bs cs ds

/-- term-wise comparison of two `zipWith3` sums over the same first two lists -/
theorem sum_zipWith3_le (f : ℝ → ℝ → ℝ → ℝ) (h : ∀ m s x, f m s x ≤ f m s m) :
    ∀ (μ s a : List ℝ), μ.length = s.length → μ.length = a.length →
      (zipWith3 f μ s a).sum ≤ (zipWith3 f μ s μ).sum
  | [], _, _, _, _ => by simp [zipWith3]
  | _ :: _, [], _, h1, _ => by simp at h1
  | _ :: _, _ :: _, [], _, h2 => by simp at h2
  | m :: μ, s :: ss, x :: a, h1, h2 => by
    simp only [List.length_cons, Nat.add_right_cancel_iff] at h1 h2
    simp only [zipWith3, List.sum_cons]
    exact add_le_add (h m s x) (sum_zipWith3_le f h μ ss a h1 h2)

theorem exp_sum_eq_prod (l : List ℝ) : Real.exp l.sum = (l.map Real.exp).prod := by
  induction l with
  | nil => simp
  | cons x xs ih => simp [Real.exp_add, ih]

/-! ### DiagGaussian -/

theorem gaussLogProb_real (μ logσ a : List ℝ) :
    gaussLogProb μ logσ a
      = (zipWith3 (fun m s x => normalLogProb m (Real.exp s) x) μ logσ a).sum := by
  simp only [gaussLogProb, gaussLogProbTerms, sum_real, diagStd_real]

theorem gaussLogProb_le_mode (μ logσ a : List ℝ) (h1 : μ.length = logσ.length)
    (h2 : μ.length = a.length) :
    gaussLogProb μ logσ a ≤ gaussLogProb μ logσ (gaussMode μ) := by
  rw [gaussLogProb_real, gaussLogProb_real, gaussMode]
  exact sum_zipWith3_le _ (fun m s x => normalLogProb_le_mode m (Real.exp s) x) μ logσ a h1 h2

/-- the joint density is the product of the per-dimension Gaussian densities -/
theorem exp_gaussLogProb (μ logσ a : List ℝ) :
    Real.exp (gaussLogProb μ logσ a)
      = (zipWith3 (fun m s x => ProbabilityTheory.gaussianPDFReal m (nnsq (Real.exp s)) x) μ logσ a).prod := by
  rw [gaussLogProb_real, exp_sum_eq_prod, zipWith3_map]
  have : (fun x y z => Real.exp (normalLogProb x (Real.exp y) z))
      = (fun m s x => ProbabilityTheory.gaussianPDFReal m (nnsq (Real.exp s)) x) := by
    funext m s x
    exact exp_normalLogProb m (Real.exp s) x (Real.exp_pos s)
  rw [this]

theorem gaussEntropy_real (logσ : List ℝ) :
    gaussEntropy logσ = (logσ.map fun s => 1 / 2 + 1 / 2 * Real.log (2 * Real.pi) + s).sum := by
  simp only [gaussEntropy, gaussEntropyTerms, sum_real, normalEntropy_real, diagStd_real, Real.log_exp]

theorem gaussEntropy_closed (logσ : List ℝ) :
    gaussEntropy logσ = logσ.length * (1 / 2 + 1 / 2 * Real.log (2 * Real.pi)) + logσ.sum := by
  rw [gaussEntropy_real]
  induction logσ with
  | nil => simp
  | cons x xs ih =>
    simp only [List.map_cons, List.sum_cons, List.length_cons, Nat.cast_add, Nat.cast_one, ih]
    ring

/-! ### tanh -/

theorem hasDerivAt_tanh (x : ℝ) : HasDerivAt Real.tanh (1 - Real.tanh x ^ 2) x := by
  have hc : Real.cosh x ≠ 0 := (Real.cosh_pos x).ne'
  have h := (Real.hasDerivAt_sinh x).div (Real.hasDerivAt_cosh x) hc
  have hfun : Real.tanh = fun y => Real.sinh y / Real.cosh y := by
    funext y; exact Real.tanh_eq_sinh_div_cosh y
  have hval : 1 - Real.tanh x ^ 2
      = (Real.cosh x * Real.cosh x - Real.sinh x * Real.sinh x) / Real.cosh x ^ 2 := by
    rw [Real.tanh_eq_sinh_div_cosh]
    field_simp
  rw [hval, hfun]
  exact h

theorem deriv_tanh (x : ℝ) : deriv Real.tanh x = 1 - Real.tanh x ^ 2 := (hasDerivAt_tanh x).deriv

theorem one_sub_tanh_sq_pos (x : ℝ) : 0 < 1 - Real.tanh x ^ 2 := by
  have := Real.tanh_sq_lt_one x; linarith

theorem atanh_real {x : ℝ} (hx : x ∈ Set.Ioo (-1 : ℝ) 1) : atanh x = Real.artanh x := by
  rw [Real.artanh_eq_half_log (Set.Ioo_subset_Icc_self hx)]
  simp only [atanh, half_real, log1p_real]
  obtain ⟨h1, h2⟩ := hx
  rw [Real.log_div (by linarith) (by linarith)]
  ring_nf

theorem clamp_real (lo hi y : ℝ) : clamp lo hi y = min (max y lo) hi := by
  simp [clamp]

theorem clamp_of_mem {lo hi y : ℝ} (h1 : lo ≤ y) (h2 : y ≤ hi) : clamp lo hi y = y := by
  rw [clamp_real, max_eq_left h1, min_eq_left h2]

theorem tanhInverse_real (eps y : ℝ) :
    tanhInverse eps y = atanh (min (max y (-1 + eps)) (1 - eps)) := by
  simp [tanhInverse, clamp_real]

/-- inside the clamp window `TanhBijector.inverse` is the true inverse of `tanh` -/
theorem tanhInverse_tanh {eps g : ℝ}
    (h1 : -1 + eps ≤ Real.tanh g) (h2 : Real.tanh g ≤ 1 - eps) :
    tanhInverse eps (Real.tanh g) = g := by
  rw [tanhInverse_real, max_eq_left h1, min_eq_left h2,
    atanh_real ⟨Real.neg_one_lt_tanh g, Real.tanh_lt_one g⟩, Real.artanh_tanh]

theorem tanhInverse_of_mem {eps y : ℝ} (heps : 0 < eps) (h1 : -1 + eps ≤ y) (h2 : y ≤ 1 - eps) :
    tanhInverse eps y = Real.artanh y := by
  rw [tanhInverse_real, max_eq_left h1, min_eq_left h2]
  exact atanh_real ⟨by linarith, by linarith⟩

/-! ### squash correction -/

theorem squashCorrection_real (ε a : ℝ) : squashCorrection ε a = Real.log (1 - a ^ 2 + ε) := by
  simp only [squashCorrection, ofNat_real, Nat.cast_one, log_real]
  ring_nf

theorem squashCorrection_tanh (x : ℝ) :
    squashCorrection 0 (Real.tanh x) = Real.log (deriv Real.tanh x) := by
  rw [squashCorrection_real, deriv_tanh, add_zero]

theorem bijectorCorrection_real (ε x : ℝ) :
    bijectorCorrection ε x = Real.log (1 - Real.tanh x ^ 2 + ε) := by
  simp only [bijectorCorrection, ofNat_real, Nat.cast_one, log_real, tanh_real]
  ring_nf

/-- the two codings of the correction (on the action, on the pre-squash value) agree -/
theorem bijectorCorrection_eq_squashCorrection (ε x : ℝ) :
    bijectorCorrection ε x = squashCorrection ε (Real.tanh x) := by
  rw [bijectorCorrection_real, squashCorrection_real]

/-- exact effect of the regulariser `ε` on one correction term -/
theorem squashCorrection_eps (ε a : ℝ) (hε : 0 ≤ ε) (ha : a ^ 2 < 1) :
    squashCorrection ε a - squashCorrection 0 a = Real.log (1 + ε / (1 - a ^ 2)) := by
  have hpos : 0 < 1 - a ^ 2 := by linarith
  rw [squashCorrection_real, squashCorrection_real, add_zero,
    ← Real.log_div (by linarith) hpos.ne']
  congr 1
  field_simp

theorem squashCorrection_eps_nonneg (ε a : ℝ) (hε : 0 ≤ ε) (ha : a ^ 2 < 1) :
    0 ≤ squashCorrection ε a - squashCorrection 0 a := by
  rw [squashCorrection_eps ε a hε ha]
  apply Real.log_nonneg
  have hpos : 0 < 1 - a ^ 2 := by linarith
  have : 0 ≤ ε / (1 - a ^ 2) := div_nonneg hε hpos.le
  linarith

theorem squashCorrection_eps_le (ε a : ℝ) (hε : 0 ≤ ε) (ha : a ^ 2 < 1) :
    squashCorrection ε a - squashCorrection 0 a ≤ ε / (1 - a ^ 2) := by
  rw [squashCorrection_eps ε a hε ha]
  have hpos : 0 < 1 - a ^ 2 := by linarith
  have h0 : 0 ≤ ε / (1 - a ^ 2) := div_nonneg hε hpos.le
  have := Real.log_le_sub_one_of_pos (show 0 < 1 + ε / (1 - a ^ 2) by linarith)
  linarith

theorem sum_map_sub (f g : ℝ → ℝ) (l : List ℝ) :
    (l.map f).sum - (l.map g).sum = (l.map fun x => f x - g x).sum := by
  induction l with
  | nil => simp
  | cons x xs ih => simp only [List.map_cons, List.sum_cons, ← ih]; ring

theorem squashedLogProbG_real (ε : ℝ) (μ logσ a g : List ℝ) :
    squashedLogProbG ε μ logσ a g
      = gaussLogProb μ logσ g - (a.map (squashCorrection ε)).sum := by
  simp [squashedLogProbG]

/-- at `a² = 1 - ε` the regularised term is off by exactly `log 2` -/
theorem squashCorrection_at_witness (ε : ℝ) (h0 : 0 < ε) (h1 : ε < 1) :
    squashCorrection ε (Real.sqrt (1 - ε)) - squashCorrection 0 (Real.sqrt (1 - ε)) = Real.log 2 := by
  have hsq : Real.sqrt (1 - ε) ^ 2 = 1 - ε := Real.sq_sqrt (by linarith)
  rw [squashCorrection_eps ε _ h0.le (by rw [hsq]; linarith), hsq]
  congr 1
  have : 1 - (1 - ε) = ε := by ring
  rw [this, div_self h0.ne']; norm_num

/-- beyond the clamp window `TanhBijector.inverse` is *not* the inverse of `tanh` -/
theorem tanhInverse_clamped_lt {eps y : ℝ} (h1 : eps < 1)
    (hy1 : 1 - eps < y) (hy2 : y < 1) : tanhInverse eps y < Real.artanh y := by
  rw [tanhInverse_real]
  have hmax : max y (-1 + eps) = y := max_eq_left (by linarith)
  rw [hmax, min_eq_right hy1.le, atanh_real ⟨by linarith, by linarith⟩]
  exact Real.artanh_lt_artanh (by linarith) hy2 hy1

/-! ### Categorical -/

theorem logSumExp_real (l : List ℝ) :
    logSumExp l = maxList l + Real.log ((l.map fun x => Real.exp (x - maxList l)).sum) := by
  simp [logSumExp]

theorem sum_exp_pos : ∀ (l : List ℝ), l ≠ [] → ∀ m : ℝ, 0 < (l.map fun x => Real.exp (x - m)).sum
  | [], h, _ => absurd rfl h
  | [x], _, m => by simp [Real.exp_pos]
  | x :: y :: ys, _, m => by
    have := sum_exp_pos (y :: ys) (by simp) m
    simp only [List.map_cons, List.sum_cons] at this ⊢
    have := Real.exp_pos (x - m)
    linarith

/-- `logsumexp` really is `log Σ exp` (whatever shift the max provides) -/
theorem exp_logSumExp (l : List ℝ) (hl : l ≠ []) :
    Real.exp (logSumExp l) = (l.map Real.exp).sum := by
  rw [logSumExp_real, Real.exp_add, Real.exp_log (sum_exp_pos l hl _)]
  generalize maxList l = m
  rw [← List.sum_map_mul_left]
  congr 1
  apply List.map_congr_left
  intro x _
  rw [← Real.exp_add]; congr 1; ring

theorem logSumExp_eq_log (l : List ℝ) (hl : l ≠ []) :
    logSumExp l = Real.log ((l.map Real.exp).sum) := by
  rw [← exp_logSumExp l hl, Real.log_exp]

theorem catProbs_real (l : List ℝ) :
    catProbs l = l.map fun x => Real.exp (x - logSumExp l) := by
  simp [catProbs, catLogits, Function.comp_def]

theorem catProbs_eq_softmax (l : List ℝ) (hl : l ≠ []) :
    catProbs l = l.map fun x => Real.exp x / (l.map Real.exp).sum := by
  rw [catProbs_real]
  apply List.map_congr_left
  intro x _
  rw [Real.exp_sub, exp_logSumExp l hl]

theorem sum_map_exp_pos (l : List ℝ) (hl : l ≠ []) : 0 < (l.map Real.exp).sum := by
  have := sum_exp_pos l hl 0
  simpa using this

/-- the probabilities sum to one -/
theorem catProbs_sum (l : List ℝ) (hl : l ≠ []) : (catProbs l).sum = 1 := by
  rw [catProbs_eq_softmax l hl]
  have hpos := sum_map_exp_pos l hl
  have : (l.map fun x => Real.exp x / (l.map Real.exp).sum)
      = (l.map Real.exp).map fun e => e / (l.map Real.exp).sum := by
    simp [Function.comp_def]
  rw [this]
  generalize hS : (l.map Real.exp).sum = S at hpos ⊢
  have hdiv : ((l.map Real.exp).map fun e => e / S) = (l.map Real.exp).map fun e => e * S⁻¹ := by
    apply List.map_congr_left; intro e _; rw [div_eq_mul_inv]
  rw [hdiv, List.sum_map_mul_right, List.map_id', hS]
  exact mul_inv_cancel₀ hpos.ne'

theorem catEntropy_real (l : List ℝ) :
    catEntropy l = -((catProbs l).map fun p => p * Real.log p).sum := by
  simp only [catEntropy, sum_real, exp_real, catProbs, List.map_map, neg_inj]
  congr 1
  apply List.map_congr_left
  intro lp _
  simp only [Function.comp, exp_real, Real.log_exp]
  ring

/-! #### argmax -/

theorem argmaxAux_spec : ∀ (l : List ℝ), l ≠ [] →
    (argmaxAux l).1 < l.length ∧ l[(argmaxAux l).1]? = some (argmaxAux l).2 ∧
      ∀ y ∈ l, y ≤ (argmaxAux l).2
  | [], h => absurd rfl h
  | [x], _ => by simp [argmaxAux]
  | x :: y :: ys, _ => by
    obtain ⟨h1, h2, h3⟩ := argmaxAux_spec (y :: ys) (by simp)
    by_cases hle : (argmaxAux (y :: ys)).2 ≤ x
    · have : argmaxAux (x :: y :: ys) = (0, x) := by
        simp only [argmaxAux, le_real, decide_eq_true_eq, hle, if_true]
      rw [this]
      refine ⟨by simp, by simp, ?_⟩
      intro z hz
      rcases List.mem_cons.mp hz with rfl | hz
      · exact le_refl _
      · exact le_trans (h3 z hz) hle
    · have : argmaxAux (x :: y :: ys) = ((argmaxAux (y :: ys)).1 + 1, (argmaxAux (y :: ys)).2) := by
        simp only [argmaxAux, le_real, decide_eq_true_eq, hle, if_false]
      rw [this]
      refine ⟨by simpa using h1, by simpa using h2, ?_⟩
      intro z hz
      rcases List.mem_cons.mp hz with rfl | hz
      · exact le_of_lt (lt_of_not_ge hle)
      · exact h3 z hz

theorem argmax_lt (l : List ℝ) (hl : l ≠ []) : argmax l < l.length := (argmaxAux_spec l hl).1

theorem le_argmax (l : List ℝ) (hl : l ≠ []) (i : Nat) (hi : i < l.length) :
    l[i] ≤ l[argmax l]'(argmax_lt l hl) := by
  obtain ⟨h1, h2, h3⟩ := argmaxAux_spec l hl
  have hv : l[argmax l]'(argmax_lt l hl) = (argmaxAux l).2 := by
    have := List.getElem?_eq_some_iff.mp h2
    obtain ⟨_, h⟩ := this
    exact h
  rw [hv]
  exact h3 _ (List.getElem_mem hi)

theorem catLogits_length (l : List ℝ) : (catLogits l).length = l.length := by
  simp [catLogits]

theorem catProbs_length (l : List ℝ) : (catProbs l).length = l.length := by
  simp [catProbs, catLogits]

theorem catMode_lt (l : List ℝ) (hl : l ≠ []) : catMode l < l.length := by
  have h : catProbs l ≠ [] := by
    intro h; apply hl; have := catProbs_length l; rw [h] at this; exact List.length_eq_zero_iff.mp this.symm
  have := argmax_lt (catProbs l) h
  rwa [catProbs_length] at this

/-- the mode has maximal log-probability -/
theorem catLogProb_le_mode (l : List ℝ) (hl : l ≠ []) (a : Nat) (lp : ℝ)
    (ha : catLogProb l a = some lp) :
    ∃ lpm, catLogProb l (catMode l) = some lpm ∧ lp ≤ lpm := by
  have hne : catProbs l ≠ [] := by
    intro h; apply hl; have := catProbs_length l; rw [h] at this; exact List.length_eq_zero_iff.mp this.symm
  have hm := catMode_lt l hl
  have hmL : catMode l < (catLogits l).length := by rwa [catLogits_length]
  refine ⟨(catLogits l)[catMode l], by simp [catLogProb, hmL], ?_⟩
  simp only [catLogProb] at ha
  obtain ⟨haL, hav⟩ := List.getElem?_eq_some_iff.mp ha
  have haP : a < (catProbs l).length := by rw [catProbs_length]; rwa [catLogits_length] at haL
  have := le_argmax (catProbs l) hne a haP
  simp only [catProbs, List.getElem_map, exp_real] at this
  rw [← hav]
  exact Real.exp_le_exp.mp this

/-! ### Bernoulli -/

theorem logSigmoid_real (x : ℝ) : logSigmoid x = -Real.log (1 + Real.exp (-x)) := by
  simp only [logSigmoid, min'_real, ofNat_real, Nat.cast_zero, log1p_real, exp_real, abs'_real]
  rcases le_or_gt 0 x with h | h
  · rw [min_eq_right h, abs_of_nonneg h]; ring
  · rw [min_eq_left h.le, abs_of_neg h, neg_neg]
    have h1 : (1 : ℝ) + Real.exp (-x) = Real.exp (-x) * (1 + Real.exp x) := by
      rw [mul_add, mul_one, ← Real.exp_add]; simp [add_comm]
    rw [h1, Real.log_mul (Real.exp_pos _).ne' (by positivity), Real.log_exp]
    ring

theorem sigmoid_real (x : ℝ) : sigmoid x = 1 / (1 + Real.exp (-x)) := by
  simp [sigmoid]

theorem sigmoid_pos (x : ℝ) : 0 < sigmoid x := by
  rw [sigmoid_real]; positivity

theorem sigmoid_lt_one (x : ℝ) : sigmoid x < 1 := by
  rw [sigmoid_real, div_lt_one (by positivity)]
  have := Real.exp_pos (-x); linarith

theorem one_sub_sigmoid (x : ℝ) : 1 - sigmoid x = Real.exp (-x) / (1 + Real.exp (-x)) := by
  rw [sigmoid_real]
  have : (1 : ℝ) + Real.exp (-x) ≠ 0 := by positivity
  field_simp
  ring

theorem log_sigmoid (x : ℝ) : Real.log (sigmoid x) = logSigmoid x := by
  rw [sigmoid_real, logSigmoid_real, one_div, Real.log_inv]

theorem log_one_sub_sigmoid (x : ℝ) : Real.log (1 - sigmoid x) = -x + logSigmoid x := by
  rw [one_sub_sigmoid, logSigmoid_real, Real.log_div (Real.exp_pos _).ne' (by positivity),
    Real.log_exp]
  ring

theorem bernLogProb1_one (l : ℝ) : bernLogProb1 l 1 = Real.log (sigmoid l) := by
  rw [log_sigmoid]
  simp [bernLogProb1]

theorem bernLogProb1_zero (l : ℝ) : bernLogProb1 l 0 = Real.log (1 - sigmoid l) := by
  rw [log_one_sub_sigmoid]
  simp only [bernLogProb1, ofNat_real, Nat.cast_one]
  ring

theorem bern_normalised (l : ℝ) :
    Real.exp (bernLogProb1 l 1) + Real.exp (bernLogProb1 l 0) = 1 := by
  rw [bernLogProb1_one, bernLogProb1_zero, Real.exp_log (sigmoid_pos l),
    Real.exp_log (by have := sigmoid_lt_one l; linarith)]
  ring

theorem sigmoid_le_half_iff (l : ℝ) : sigmoid l ≤ 1 / 2 ↔ l ≤ 0 := by
  rw [sigmoid_real, div_le_div_iff₀ (by positivity) (by norm_num)]
  constructor
  · intro h
    have h1 : (1 : ℝ) ≤ Real.exp (-l) := by linarith
    have := Real.one_le_exp_iff.mp h1  -- 0 ≤ -l
    linarith
  · intro h
    have : (1 : ℝ) ≤ Real.exp (-l) := Real.one_le_exp_iff.mpr (by linarith)
    linarith

theorem bernModeB_real (l : ℝ) : bernModeB l = decide (0 < l) := by
  simp only [bernModeB, le_real, half_real]
  by_cases h : l ≤ 0
  · have := (sigmoid_le_half_iff l).mpr h
    rw [decide_eq_true this, decide_eq_false (not_lt.mpr h)]; rfl
  · have hn : ¬ sigmoid l ≤ 1 / 2 := fun h' => h ((sigmoid_le_half_iff l).mp h')
    rw [decide_eq_false hn, decide_eq_true (lt_of_not_ge h)]; rfl

theorem bernLogProb1_diff (l : ℝ) : bernLogProb1 l 1 - bernLogProb1 l 0 = l := by
  rw [bernLogProb1_one, bernLogProb1_zero, log_sigmoid, log_one_sub_sigmoid]; ring

/-- the rounded probability maximises the mass -/
theorem bernLogProb1_le_mode (l a : ℝ) (ha : a = 0 ∨ a = 1) :
    bernLogProb1 l a ≤ bernLogProb1 l (ind (bernModeB l)) := by
  have hd := bernLogProb1_diff l
  rw [bernModeB_real, ind_real]
  by_cases h : 0 < l
  · simp only [h, decide_true, if_true]
    rcases ha with rfl | rfl
    · linarith
    · exact le_refl _
  · simp only [h, decide_false, Bool.false_eq_true, if_false]
    rcases ha with rfl | rfl
    · exact le_refl _
    · linarith

theorem bernEntropy1_real (l : ℝ) :
    bernEntropy1 l = -(sigmoid l * Real.log (sigmoid l)
        + (1 - sigmoid l) * Real.log (1 - sigmoid l)) := by
  rw [log_sigmoid, log_one_sub_sigmoid]
  simp only [bernEntropy1, ofNat_real, Nat.cast_one]
  ring

theorem sum_zipWith_le (f : ℝ → ℝ → ℝ) (g : ℝ → ℝ) (P : ℝ → Prop)
    (h : ∀ l a, P a → f l a ≤ f l (g l)) :
    ∀ (ls as : List ℝ), (∀ a ∈ as, P a) → ls.length = as.length →
      (List.zipWith f ls as).sum ≤ (List.zipWith f ls (ls.map g)).sum
  | [], _, _, _ => by simp
  | _ :: _, [], _, hlen => by simp at hlen
  | l :: ls, a :: as, hP, hlen => by
    simp only [List.length_cons, Nat.add_right_cancel_iff] at hlen
    simp only [List.zipWith_cons_cons, List.sum_cons, List.map_cons]
    exact add_le_add (h l a (hP a (by simp)))
      (sum_zipWith_le f g P h ls as (fun a ha => hP a (by simp [ha])) hlen)

theorem bernLogProb_le_mode (ls as : List ℝ) (hlen : ls.length = as.length)
    (hsupp : ∀ a ∈ as, a = 0 ∨ a = 1) :
    bernLogProb ls as ≤ bernLogProb ls (bernMode ls) := by
  simp only [bernLogProb, sum_real, bernMode]
  exact sum_zipWith_le bernLogProb1 (fun l => ind (bernModeB l)) (fun a => a = 0 ∨ a = 1)
    bernLogProb1_le_mode ls as hsupp hlen

/-! ### gSDE: std -/

theorem gsdeStd1_exp (ε x : ℝ) : gsdeStd1 false ε x = Real.exp x := by
  simp [gsdeStd1]

/-- the masked arithmetic of `get_std(use_expln=True)` is the piecewise `expln` -/
theorem gsdeStd1_expln (ε x : ℝ) :
    gsdeStd1 true ε x = if x ≤ 0 then Real.exp x else Real.log (1 + (x + ε)) + 1 := by
  simp only [gsdeStd1, if_true, le_real, ofNat_real, Nat.cast_zero, Nat.cast_one, exp_real,
    log1p_real, ind_real]
  by_cases h : x ≤ 0 <;> simp [h]

theorem gsdeStd1_pos (b : Bool) (ε x : ℝ) (hε : 0 ≤ ε) : 0 < gsdeStd1 b ε x := by
  cases b
  · rw [gsdeStd1_exp]; exact Real.exp_pos x
  · rw [gsdeStd1_expln]
    split_ifs with h
    · exact Real.exp_pos x
    · have hx : 0 < x := lt_of_not_ge h
      have : 0 < Real.log (1 + (x + ε)) := Real.log_pos (by linarith)
      linarith

theorem gsdeStd1_expln_continuous : Continuous (gsdeStd1 true (0 : ℝ)) := by
  have : gsdeStd1 true (0 : ℝ)
      = fun x => if x ≤ 0 then Real.exp x else Real.log (1 + max x 0) + 1 := by
    funext x
    rw [gsdeStd1_expln]
    split_ifs with h
    · rfl
    · rw [add_zero, max_eq_left (le_of_lt (lt_of_not_ge h))]
  rw [this]
  refine Continuous.if_le Real.continuous_exp ?_ continuous_id continuous_const ?_
  · refine (Continuous.log (by fun_prop) ?_).add continuous_const
    intro x
    have : 0 ≤ max x 0 := le_max_right _ _
    linarith
  · intro x hx
    have hx0 : x = 0 := hx
    subst hx0
    simp

/-! ### gSDE: variance and noise -/

theorem vecMat_ofFn {k n : ℕ} (v : Fin k → ℝ) (M : Fin k → Fin n → ℝ) :
    vecMat (List.ofFn v) (List.ofFn fun i => List.ofFn (M i)) n
      = List.ofFn fun j : Fin n => ∑ i, v i * M i j := by
  apply List.ext_getElem
  · simp [vecMat]
  · intro j h1 h2
    have hj : j < n := by simpa [vecMat] using h1
    simp only [vecMat, List.getElem_map, List.getElem_range, sum_real, ofNat_real, Nat.cast_zero,
      List.getElem_ofFn]
    rw [← List.sum_ofFn]
    congr 1
    apply List.ext_getElem
    · simp
    · intro i hi1 hi2
      have hi : i < k := by simpa using hi2
      simp [List.getD_eq_getElem?_getD, hj]

theorem gsdeVariance_ofFn {k n : ℕ} (l : Fin k → ℝ) (s : Fin k → Fin n → ℝ) :
    gsdeVariance (List.ofFn l) (List.ofFn fun i => List.ofFn (s i)) n
      = List.ofFn fun j : Fin n => ∑ i, l i ^ 2 * s i j ^ 2 := by
  have h1 : (List.ofFn l).map (fun x => x * x) = List.ofFn fun i => l i ^ 2 := by
    rw [List.map_ofFn]; congr 1; funext i; simp [pow_two]
  have h2 : (List.ofFn fun i => List.ofFn (s i)).map (fun row => row.map fun x => x * x)
      = List.ofFn fun i => List.ofFn fun j => s i j ^ 2 := by
    rw [List.map_ofFn]; congr 1; funext i
    simp only [Function.comp, List.map_ofFn]; congr 1; funext j; simp [pow_two]
  rw [gsdeVariance, h1, h2, vecMat_ofFn]

theorem gsdeNoise_ofFn {k n : ℕ} (l : Fin k → ℝ) (W : Fin k → Fin n → ℝ) :
    gsdeNoise (List.ofFn l) (List.ofFn fun i => List.ofFn (W i)) n
      = List.ofFn fun j : Fin n => ∑ i, l i * W i j := by
  rw [gsdeNoise, vecMat_ofFn]

open MeasureTheory ProbabilityTheory in
/-- variance of a linear combination of pairwise independent square-integrable variables -/
theorem variance_linear_comb {Ω : Type*} [MeasurableSpace Ω] {P : Measure Ω} {k : ℕ}
    (l s : Fin k → ℝ) (W : Fin k → Ω → ℝ) (hL2 : ∀ i, MemLp (W i) 2 P)
    (hind : Pairwise fun i j => IndepFun (W i) (W j) P) (hvar : ∀ i, variance (W i) P = s i ^ 2) :
    variance (fun ω => ∑ i, l i * W i ω) P = ∑ i, l i ^ 2 * s i ^ 2 := by
  have hfun : (fun ω => ∑ i, l i * W i ω) = ∑ i ∈ Finset.univ, fun ω => l i * W i ω := by
    funext ω; simp
  rw [hfun, IndepFun.variance_sum]
  · refine Finset.sum_congr rfl fun i _ => ?_
    rw [variance_const_mul, hvar]
  · intro i _
    exact (hL2 i).const_mul (l i)
  · intro i _ j _ hij
    exact (hind hij).comp (measurable_const_mul (l i)) (measurable_const_mul (l j))

/-- `Normal(mean, sqrt(variance + ε)).log_prob` is the density of `N(mean, variance + ε)` -/
theorem exp_normalLogProb_sqrt (μ v ε a : ℝ) (h : 0 < v + ε) :
    Real.exp (normalLogProb μ (Real.sqrt (v + ε)) a)
      = ProbabilityTheory.gaussianPDFReal μ ⟨v + ε, h.le⟩ a := by
  rw [exp_normalLogProb μ _ a (Real.sqrt_pos.mpr h)]
  congr 1
  apply NNReal.eq
  rw [coe_nnsq, Real.sq_sqrt h.le]; rfl

/-- at the mean, the `ε` added to a variance `v = ε` lowers the log-density by `log 2 / 2` -/
theorem normalLogProb_eps_witness (μ ε : ℝ) (h : 0 < ε) :
    normalLogProb μ (Real.sqrt (ε + ε)) μ = normalLogProb μ (Real.sqrt ε) μ - Real.log 2 / 2 := by
  rw [normalLogProb_real, normalLogProb_real]
  have h2 : ε + ε = 2 * ε := by ring
  rw [h2, Real.log_sqrt (by linarith), Real.log_sqrt h.le, Real.log_mul (by norm_num) h.ne']
  simp only [sub_self, ne_eq, OfNat.ofNat_ne_zero, not_false_eq_true, zero_pow, neg_zero, zero_div]
  ring

/-! ### MultiCategorical -/

theorem splitBy_length {α : Type} : ∀ (nvec : List Nat) (l : List α), (splitBy nvec l).length = nvec.length
  | [], _ => rfl
  | _ :: ns, l => by simp [splitBy, splitBy_length ns]

/-- `th.split` cuts the row into consecutive blocks of the requested sizes -/
theorem splitBy_append {α : Type} (n : Nat) (ns : List Nat) (b rest : List α) (hb : b.length = n) :
    splitBy (n :: ns) (b ++ rest) = b :: splitBy ns rest := by
  simp [splitBy, ← hb]

theorem splitBy_flatten {α : Type} : ∀ (nvec : List Nat) (l : List α), nvec.sum = l.length →
    (splitBy nvec l).flatten = l ∧ (splitBy nvec l).map List.length = nvec
  | [], l, h => by
    have : l = [] := List.length_eq_zero_iff.mp (by simpa using h.symm)
    simp [splitBy, this]
  | n :: ns, l, h => by
    have hn : n ≤ l.length := by simp at h; omega
    have hrest : ns.sum = (l.drop n).length := by simp at h ⊢; omega
    obtain ⟨h1, h2⟩ := splitBy_flatten ns (l.drop n) hrest
    simp only [splitBy, List.flatten_cons, h1, List.take_append_drop, List.map_cons,
      List.length_take, h2, true_and, List.cons.injEq, and_true]
    omega

theorem multiLogProbAux_nil {α : Type} [Add α] [Sub α] [Mul α] [Div α] [Neg α] [TScalar α] :
    multiLogProbAux ([] : List (List α)) [] = some [] := rfl

/-- the joint log-probability is assembled block by block -/
theorem multiLogProbAux_cons (b : List ℝ) (bs : List (List ℝ)) (a : Nat) (as : List Nat)
    (x : ℝ) (r : List ℝ) :
    multiLogProbAux (b :: bs) (a :: as) = some (x :: r)
      ↔ catLogProb b a = some x ∧ multiLogProbAux bs as = some r := by
  simp only [multiLogProbAux]
  cases h1 : catLogProb b a <;> cases h2 : multiLogProbAux bs as <;> simp

theorem multiLogProbAux_length : ∀ (bs : List (List ℝ)) (as : List Nat) (r : List ℝ),
    multiLogProbAux bs as = some r → bs.length = as.length ∧ r.length = bs.length
  | [], [], r, h => by simp [multiLogProbAux] at h; simp [← h]
  | [], _ :: _, _, h => by simp [multiLogProbAux] at h
  | _ :: _, [], _, h => by simp [multiLogProbAux] at h
  | b :: bs, a :: as, r, h => by
    simp only [multiLogProbAux] at h
    cases h1 : catLogProb b a <;> cases h2 : multiLogProbAux bs as <;> simp [h1, h2] at h
    obtain ⟨e1, e2⟩ := multiLogProbAux_length bs as _ h2
    subst h
    simp [e1, e2]

/-- the block-wise modes maximise the joint log-probability -/
theorem multiLogProbAux_le_mode : ∀ (bs : List (List ℝ)) (as : List Nat) (r : List ℝ),
    (∀ b ∈ bs, b ≠ []) → multiLogProbAux bs as = some r →
      ∃ rm, multiLogProbAux bs (bs.map catMode) = some rm ∧ r.sum ≤ rm.sum
  | [], [], r, _, h => ⟨[], rfl, by simp [multiLogProbAux] at h; simp [← h]⟩
  | [], _ :: _, _, _, h => by simp [multiLogProbAux] at h
  | _ :: _, [], _, _, h => by simp [multiLogProbAux] at h
  | b :: bs, a :: as, r, hne, h => by
    simp only [multiLogProbAux] at h
    cases h1 : catLogProb b a <;> cases h2 : multiLogProbAux bs as <;> simp [h1, h2] at h
    rename_i x r'
    obtain ⟨rm, hrm, hle⟩ := multiLogProbAux_le_mode bs as r' (fun b hb => hne b (by simp [hb])) h2
    obtain ⟨xm, hxm, hxle⟩ := catLogProb_le_mode b (hne b (by simp)) a x h1
    refine ⟨xm :: rm, ?_, ?_⟩
    · simp [multiLogProbAux, hxm, hrm]
    · subst h; simp only [List.sum_cons]; linarith

/-- all index tuples of the product space `∏ₖ {0..nvecₖ-1}` -/
def tuples : List Nat → List (List Nat)
  | [] => [[]]
  | n :: ns => (List.range n).flatMap fun i => (tuples ns).map fun t => i :: t

/-- joint log-probability of a tuple (0 outside the support; never used there) -/
noncomputable def jointLogProb (bs : List (List ℝ)) (a : List Nat) : ℝ :=
  ((multiLogProbAux bs a).map List.sum).getD 0

theorem multiLogProbAux_of_mem_tuples : ∀ (bs : List (List ℝ)) (a : List Nat),
    a ∈ tuples (bs.map List.length) → ∃ r, multiLogProbAux bs a = some r
  | [], a, h => by
    simp [tuples] at h; subst h; exact ⟨[], rfl⟩
  | b :: bs, a, h => by
    simp only [List.map_cons, tuples, List.mem_flatMap, List.mem_range, List.mem_map] at h
    obtain ⟨i, hi, t, ht, rfl⟩ := h
    obtain ⟨r, hr⟩ := multiLogProbAux_of_mem_tuples bs t ht
    have hiL : i < (catLogits b).length := by rwa [catLogits_length]
    exact ⟨(catLogits b)[i] :: r, by simp [multiLogProbAux, catLogProb, hiL, hr]⟩

theorem map_range_getD (l : List ℝ) : ((List.range l.length).map fun i => l.getD i 0) = l := by
  apply List.ext_getElem
  · simp
  · intro i h1 h2
    simp [List.getD_eq_getElem?_getD, h2]

theorem sum_map_flatMap {β γ : Type} (l : List β) (f : β → List γ) (g : γ → ℝ) :
    ((l.flatMap f).map g).sum = (l.map fun i => ((f i).map g).sum).sum := by
  induction l with
  | nil => simp
  | cons x xs ih => simp [List.flatMap_cons, ih]

theorem jointLogProb_cons (b : List ℝ) (bs : List (List ℝ)) (i : Nat) (t : List Nat)
    (hi : i < b.length) (ht : t ∈ tuples (bs.map List.length)) :
    Real.exp (jointLogProb (b :: bs) (i :: t))
      = (catProbs b).getD i 0 * Real.exp (jointLogProb bs t) := by
  obtain ⟨r, hr⟩ := multiLogProbAux_of_mem_tuples bs t ht
  have hiL : i < (catLogits b).length := by rwa [catLogits_length]
  have hiP : i < (catProbs b).length := by rwa [catProbs_length]
  have h1 : multiLogProbAux (b :: bs) (i :: t) = some ((catLogits b)[i] :: r) := by
    simp [multiLogProbAux, catLogProb, hiL, hr]
  simp only [jointLogProb, h1, hr, Option.map_some, Option.getD_some, List.sum_cons, Real.exp_add]
  congr 1
  simp [List.getD_eq_getElem?_getD, catProbs, List.getElem?_eq_getElem hiL]

/-- the joint probabilities over the whole product space sum to one -/
theorem multi_normalised : ∀ (bs : List (List ℝ)), (∀ b ∈ bs, b ≠ []) →
    ((tuples (bs.map List.length)).map fun a => Real.exp (jointLogProb bs a)).sum = 1
  | [], _ => by simp [tuples, jointLogProb, multiLogProbAux]
  | b :: bs, hne => by
    have ih := multi_normalised bs (fun b' hb => hne b' (by simp [hb]))
    simp only [List.map_cons, tuples]
    rw [sum_map_flatMap]
    have hinner : ∀ i ∈ List.range b.length,
        (((tuples (bs.map List.length)).map fun t => i :: t).map
            fun a => Real.exp (jointLogProb (b :: bs) a)).sum = (catProbs b).getD i 0 := by
      intro i hi
      have hi' : i < b.length := List.mem_range.mp hi
      rw [List.map_map]
      have : ((tuples (bs.map List.length)).map
            ((fun a => Real.exp (jointLogProb (b :: bs) a)) ∘ fun t => i :: t))
          = (tuples (bs.map List.length)).map
              fun t => (catProbs b).getD i 0 * Real.exp (jointLogProb bs t) := by
        apply List.map_congr_left
        intro t ht
        exact jointLogProb_cons b bs i t hi' ht
      rw [this, List.sum_map_mul_left, ih, mul_one]
    rw [List.map_congr_left hinner]
    have := map_range_getD (catProbs b)
    rw [catProbs_length] at this
    rw [this]
    exact catProbs_sum b (hne b (by simp))

/-! ### the squashed mode is not the arg-max -/

theorem one_sub_tanh_sq (x : ℝ) : 1 - Real.tanh x ^ 2 = 1 / Real.cosh x ^ 2 := by
  have hc : Real.cosh x ≠ 0 := (Real.cosh_pos x).ne'
  rw [Real.tanh_eq_sinh_div_cosh]
  field_simp
  rw [Real.cosh_sq]; ring

theorem one_sub_tanh_one_sq_lt : 1 - Real.tanh 1 ^ 2 < 0.55 := by
  rw [one_sub_tanh_sq]
  have he : (2.7182818283 : ℝ) < Real.exp 1 := Real.exp_one_gt_d9
  have hc : Real.exp 1 / 2 ≤ Real.cosh 1 := by
    rw [Real.cosh_eq]
    have := Real.exp_pos (-1 : ℝ)
    linarith
  have hc2 : (1.84 : ℝ) < Real.cosh 1 ^ 2 := by nlinarith
  rw [div_lt_iff₀ (by linarith)]
  nlinarith

theorem exp_neg_half_gt : (0.6 : ℝ) < Real.exp (-(1 / 2)) := by
  have he : Real.exp 1 < 2.7182818286 := Real.exp_one_lt_d9
  have hh : Real.exp (1 / 2) * Real.exp (1 / 2) = Real.exp 1 := by
    rw [← Real.exp_add]; norm_num
  have hpos := Real.exp_pos (1 / 2 : ℝ)
  have hlt : Real.exp (1 / 2) < 5 / 3 := by nlinarith
  rw [Real.exp_neg, lt_inv_comm₀ (by norm_num) hpos]
  norm_num
  linarith

/-- with mean 0 and unit std the action `tanh 1` is more likely than `mode() = tanh 0`,
for every regulariser `0 ≤ ε ≤ 1/100` (the code's is `1e-6`) -/
theorem squashed_mode_not_argmax (ε : ℝ) (h0 : 0 ≤ ε) (h1 : ε ≤ 1 / 100) :
    squashedLogProbG ε [0] [0] (squashedMode [0]) (gaussMode [0])
      < squashedLogProbG ε [0] [0] [Real.tanh 1] [1] := by
  have hmode : squashedMode ([0] : List ℝ) = [0] := by
    simp [squashedMode, gaussMode]
  rw [hmode, gaussMode, squashedLogProbG_real, squashedLogProbG_real, gaussLogProb_real, gaussLogProb_real]
  simp only [zipWith3, List.sum_cons, List.sum_nil, add_zero, List.map_cons, List.map_nil,
    squashCorrection_real, normalLogProb_real, Real.exp_zero]
  have hlog1 : 0 ≤ Real.log (1 + ε) := Real.log_nonneg (by linarith)
  have harg : 1 - Real.tanh 1 ^ 2 + ε < Real.exp (-(1 / 2)) := by
    have := one_sub_tanh_one_sq_lt
    have := exp_neg_half_gt
    linarith
  have hpos : 0 < 1 - Real.tanh 1 ^ 2 + ε := by
    have := one_sub_tanh_sq_pos 1; linarith
  have hlog2 : Real.log (1 - Real.tanh 1 ^ 2 + ε) < -(1 / 2) := by
    have := Real.log_lt_log hpos harg
    rwa [Real.log_exp] at this
  norm_num
  linarith

/-! ### the law of `tanh ∘ X` -/

open MeasureTheory ProbabilityTheory Set in
/-- density of `tanh ∘ X` for `X ~ N(μ, v)`: `p_X(artanh y) / (1 - y²)` on `(-1, 1)`, `0` elsewhere -/
noncomputable def squashedPDFReal (μ : ℝ) (v : ℝ≥0) (y : ℝ) : ℝ :=
  if y ∈ Ioo (-1 : ℝ) 1 then gaussianPDFReal μ v (Real.artanh y) / (1 - y ^ 2) else 0

theorem continuous_tanh : Continuous Real.tanh :=
  continuous_iff_continuousAt.mpr fun x => (hasDerivAt_tanh x).continuousAt

open Set in
theorem image_tanh_preimage (t : Set ℝ) : Real.tanh '' (Real.tanh ⁻¹' t) = t ∩ Ioo (-1) 1 := by
  rw [image_preimage_eq_inter_range]
  have := Real.tanh_bijOn.image_eq
  rw [image_univ] at this
  rw [this]

open MeasureTheory ProbabilityTheory Set in
/-- **The push-forward of a Gaussian under `tanh` has density `squashedPDFReal`** with respect to
Lebesgue measure (one dimension; change of variables with `tanh' = 1 - tanh²`). -/
theorem map_tanh_gaussianReal (μ : ℝ) {v : ℝ≥0} (hv : v ≠ 0) :
    (gaussianReal μ v).map Real.tanh
      = volume.withDensity (fun y => ENNReal.ofReal (squashedPDFReal μ v y)) := by
  have hmeas : Measurable Real.tanh := continuous_tanh.measurable
  ext t ht
  rw [Measure.map_apply hmeas ht, gaussianReal_apply μ hv, withDensity_apply _ ht]
  have hR : ∫⁻ y in t, ENNReal.ofReal (squashedPDFReal μ v y)
      = ∫⁻ y in t ∩ Ioo (-1) 1, ENNReal.ofReal (squashedPDFReal μ v y) := by
    rw [← lintegral_inter_add_sdiff _ t (measurableSet_Ioo (a := (-1 : ℝ)) (b := 1))]
    have h0 : ∫⁻ y in t \ Ioo (-1) 1, ENNReal.ofReal (squashedPDFReal μ v y) = 0 := by
      apply setLIntegral_eq_zero (ht.diff measurableSet_Ioo)
      intro y hy
      simp [squashedPDFReal, hy.2]
    rw [h0, add_zero]
  rw [hR, ← image_tanh_preimage,
    lintegral_image_eq_lintegral_abs_deriv_mul (hmeas ht)
      (fun x _ => (hasDerivAt_tanh x).hasDerivWithinAt) Real.tanh_injective.injOn]
  apply setLIntegral_congr_fun (hmeas ht)
  intro x _
  have hpos := one_sub_tanh_sq_pos x
  have hmem : Real.tanh x ∈ Ioo (-1 : ℝ) 1 := ⟨Real.neg_one_lt_tanh x, Real.tanh_lt_one x⟩
  simp only [squashedPDFReal, hmem, if_true, Real.artanh_tanh]
  rw [abs_of_pos hpos, ← ENNReal.ofReal_mul hpos.le, gaussianPDF]
  congr 1
  field_simp

open ProbabilityTheory Set in
/-- the model's squashed log-probability (ε = 0, cached pre-squash value `artanh y`) exponentiates to
that density -/
theorem exp_squashedLogProbG_one (μ logσ y : ℝ) (hy : y ∈ Ioo (-1 : ℝ) 1) :
    Real.exp (squashedLogProbG 0 [μ] [logσ] [y] [Real.artanh y])
      = squashedPDFReal μ (nnsq (Real.exp logσ)) y := by
  have hpos : 0 < 1 - y ^ 2 := by
    have : y ^ 2 < 1 := by
      rw [sq_lt_one_iff_abs_lt_one]; exact abs_lt.mpr hy
    linarith
  rw [squashedLogProbG_real, gaussLogProb_real]
  simp only [zipWith3, List.sum_cons, List.sum_nil, add_zero, List.map_cons, List.map_nil,
    squashCorrection_real]
  rw [Real.exp_sub, Real.exp_log hpos, exp_normalLogProb _ _ _ (Real.exp_pos logσ)]
  simp [squashedPDFReal, hy]

/-! ### differential entropy of the Gaussian -/

open MeasureTheory ProbabilityTheory in
theorem integral_sq_sub_mean_gaussianReal (μ : ℝ) (v : ℝ≥0) :
    ∫ x, (x - μ) ^ 2 ∂(gaussianReal μ v) = v := by
  have h := variance_fun_id_gaussianReal (μ := μ) (v := v)
  rw [variance_eq_integral measurable_id'.aemeasurable] at h
  simpa only [integral_id_gaussianReal] using h

open MeasureTheory ProbabilityTheory in
/-- `Normal.entropy` is the differential entropy `-∫ p log p` of the Gaussian with that scale -/
theorem normalEntropy_eq_differential (μ σ : ℝ) (hσ : 0 < σ) :
    normalEntropy σ
      = -∫ x, Real.log (gaussianPDFReal μ (nnsq σ) x) ∂(gaussianReal μ (nnsq σ)) := by
  have hvpos : (0 : ℝ) < ((nnsq σ : ℝ≥0) : ℝ) := by rw [coe_nnsq]; positivity
  have h2pi : (0 : ℝ) < 2 * Real.pi := by positivity
  have hsq : Real.sqrt (2 * Real.pi * (nnsq σ : ℝ≥0)) = Real.sqrt (2 * Real.pi) * σ := by
    rw [coe_nnsq, Real.sqrt_mul h2pi.le, Real.sqrt_sq hσ.le]
  have hspos : 0 < Real.sqrt (2 * Real.pi) * σ := mul_pos (Real.sqrt_pos.mpr h2pi) hσ
  have hlog : ∀ x, Real.log (gaussianPDFReal μ (nnsq σ) x)
      = -Real.log (Real.sqrt (2 * Real.pi) * σ) - (2 * ((nnsq σ : ℝ≥0) : ℝ))⁻¹ * (x - μ) ^ 2 := by
    intro x
    unfold gaussianPDFReal
    rw [hsq, Real.log_mul (inv_ne_zero hspos.ne') (Real.exp_pos _).ne', Real.log_inv, Real.log_exp]
    ring
  have hint : Integrable (fun x => (x - μ) ^ 2) (gaussianReal μ (nnsq σ)) := by
    have : MemLp (fun x : ℝ => x - μ) 2 (gaussianReal μ (nnsq σ)) :=
      (memLp_id_gaussianReal 2).sub (memLp_const μ)
    exact this.integrable_sq
  simp_rw [hlog]
  rw [integral_sub (integrable_const _) (hint.const_mul _), integral_const, integral_const_mul,
    integral_sq_sub_mean_gaussianReal]
  simp only [probReal_univ, smul_eq_mul, one_mul]
  rw [normalEntropy_real, Real.log_mul (Real.sqrt_pos.mpr h2pi).ne' hσ.ne',
    Real.log_sqrt h2pi.le]
  field_simp
  ring

/-! ### the law of the gSDE noise -/

open MeasureTheory ProbabilityTheory in
/-- a finite sum of mutually independent real Gaussians is Gaussian (means and variances add) -/
theorem map_finsetSum_gaussianReal {Ω ι : Type*} [MeasurableSpace Ω] {P : Measure Ω}
    [IsProbabilityMeasure P] [DecidableEq ι] (X : ι → Ω → ℝ) (m : ι → ℝ) (v : ι → ℝ≥0)
    (hX : ∀ i, Measurable (X i)) (hind : iIndepFun X P)
    (hlaw : ∀ i, P.map (X i) = gaussianReal (m i) (v i)) (s : Finset ι) :
    P.map (∑ i ∈ s, X i) = gaussianReal (∑ i ∈ s, m i) (∑ i ∈ s, v i) := by
  induction s using Finset.induction_on with
  | empty =>
    simp only [Finset.sum_empty, gaussianReal_zero_var]
    have : (0 : Ω → ℝ) = fun _ => (0 : ℝ) := rfl
    rw [this, Measure.map_const]
    simp
  | insert a s ha ih =>
    rw [Finset.sum_insert ha, Finset.sum_insert ha, Finset.sum_insert ha]
    exact gaussianReal_add_gaussianReal_of_indepFun
      (hind.indepFun_finsetSum_of_notMem hX ha).symm (hlaw a) ih

open MeasureTheory ProbabilityTheory in
/-- **The gSDE noise component is exactly Gaussian**: for mutually independent exploration weights
`W_i ~ N(0, std_i²)`, `mean + Σ_i latent_i · W_i ~ N(mean, Σ_i latent_i² · std_i²)`. -/
theorem map_gsde_action_gaussianReal {Ω : Type*} [MeasurableSpace Ω] {P : Measure Ω}
    [IsProbabilityMeasure P] {k : ℕ} (mean : ℝ) (l s : Fin k → ℝ) (W : Fin k → Ω → ℝ)
    (hW : ∀ i, Measurable (W i)) (hind : iIndepFun W P)
    (hlaw : ∀ i, P.map (W i) = gaussianReal 0 (nnsq (s i))) :
    P.map (fun ω => mean + ∑ i, l i * W i ω)
      = gaussianReal mean (∑ i, nnsq (l i) * nnsq (s i)) := by
  have hY : ∀ i, Measurable (fun ω => l i * W i ω) := fun i => (hW i).const_mul (l i)
  have hindY : iIndepFun (fun i ω => l i * W i ω) P :=
    hind.comp (fun i x => l i * x) (fun i => measurable_const_mul (l i))
  have hlawY : ∀ i, P.map (fun ω => l i * W i ω) = gaussianReal 0 (nnsq (l i) * nnsq (s i)) := by
    intro i
    have : (fun ω => l i * W i ω) = (fun x => l i * x) ∘ W i := rfl
    rw [this, ← Measure.map_map (measurable_const_mul (l i)) (hW i), hlaw i,
      gaussianReal_map_const_mul, mul_zero]
    rfl
  have hsum := map_finsetSum_gaussianReal (fun i ω => l i * W i ω) (fun _ => 0)
    (fun i => nnsq (l i) * nnsq (s i)) hY hindY hlawY Finset.univ
  have hfun : (fun ω => mean + ∑ i, l i * W i ω)
      = (fun x => mean + x) ∘ (∑ i ∈ Finset.univ, fun ω => l i * W i ω) := by
    funext ω; simp
  have hm : Measurable (∑ i ∈ Finset.univ, fun ω => l i * W i ω) := by
    have h := Finset.measurable_sum (Finset.univ : Finset (Fin k)) (fun i _ => hY i)
    have he : (∑ i ∈ Finset.univ, fun ω => l i * W i ω) = fun a => ∑ i, l i * W i a := by
      funext ω; simp
    rw [he]; exact h
  rw [hfun, ← Measure.map_map (measurable_const_add mean) hm, hsum, gaussianReal_map_const_add]
  simp

theorem coe_sum_nnsq {k : ℕ} (l s : Fin k → ℝ) :
    ((∑ i, nnsq (l i) * nnsq (s i) : ℝ≥0) : ℝ) = ∑ i, l i ^ 2 * s i ^ 2 := by
  simp [NNReal.coe_sum]

end SB3Verif.Lemmas.Dist
