#!/usr/bin/env python3
"""prints the brief for an independent 'seeded change' agent: property text + scratch worktree only"""
import json, sys
pid, wt = sys.argv[1], sys.argv[2]
hint = sys.argv[3] if len(sys.argv) > 3 else ""
p = next(json.loads(l) for l in open('/verif/properties.jsonl') if json.loads(l)['id'] == pid)
print(f"""You are helping to evaluate a verification tool. Your job: introduce ONE realistic, subtle bug into the Python library stable-baselines3 (DLR-RM/stable-baselines3) that BREAKS the semantic property stated below, while the library still imports/compiles and its existing test suite still passes.

Your working copy of the library is the git worktree at {wt} (a full checkout; edit files only there). Python with all dependencies is /venv/bin/python; run things with `cd {wt} && OMP_NUM_THREADS=1 PYTHONPATH={wt} /venv/bin/python ...` so that `import stable_baselines3` resolves to YOUR copy (verify with `stable_baselines3.__file__`). Do not look at or touch /verif or /repo. No network.

THE PROPERTY
 title: {p['title']}
 statement: {p['statement']}
 quantified over: {p['quantifier']['text']}
 anchored in: {', '.join(p['anchors']['files'])}
 mechanisms: {'; '.join(m['name'] + ' (' + m.get('where','') + ')' for m in p['anchors']['mechanism'])}

WHAT I WANT
1. A change (a few lines, in the library source under stable_baselines3/, not in tests) that makes the property FALSE for some inputs/histories/configurations, of the kind a real developer could introduce by mistake (an optimisation, a refactoring, an off-by-one, a wrong index/field, a stale variable, a dropped mask, a changed order of operations, two sites that each look fine alone).
2. It must need something SPECIFIC to manifest — e.g. a wrap-around, a particular episode shape (length-1 episode, terminated and truncated together, episode ending exactly at a rollout boundary), more than one sub-environment, a size that is not divisible, a second call, a particular option combination, an unusual but legal input — NOT something ordinary use or the existing tests would expose at once.{(' Focus: ' + hint) if hint else ''}
3. The existing tests must still pass with your change: run at least the test files that exercise the code you touched (e.g. `cd {wt} && OMP_NUM_THREADS=1 /venv/bin/python -m pytest -q -p no:cacheprovider -x tests/test_<relevant>.py`); tests that already fail without your change (missing optional deps such as tensorboard) do not count.
4. A demonstration: a small stand-alone script `{wt}/demo_{pid}.py` that exits 0 and prints PASS on the ORIGINAL code and exits 1 and prints FAIL on the CHANGED code, by checking the property directly through the library's public API (no access to private test helpers needed). Verify both: run it with your change, then undo the change with `git diff -- stable_baselines3 > {wt}/my.diff; git apply -R {wt}/my.diff`, run it on the original, then re-apply with `git apply {wt}/my.diff` (do NOT use `git stash`: the stash is shared with other worktrees).
5. Save `git diff > {wt}/patch_{pid}.diff` (only the library change, not the demo).

Reply with: the diff, why it breaks the property, what it needs to manifest, which tests you ran (and that they pass), and the two demo outputs. Keep the worktree as it is at the end (change applied, demo and patch files present).""")
