/-
Helper lemmas for C06 (on-policy collection). The property theorems are in `Props/C06.lean`.
-/
import SB3Verif.Model.OnPolicy
import Mathlib.Algebra.Order.Field.Basic
import Mathlib.Tactic.Ring
import Mathlib.Tactic.Linarith

namespace SB3Verif.OnPolicy.Lemmas

open SB3Verif.OnPolicy

section loop
variable {O A α : Type} [Add α] [Mul α]

/-- The state seen by step `t` of a rollout: element `t` of `c :: xs.map carryOf`. -/
theorem collectLoop_rows (γ : α) (V : O → α) (f : A → A) (c : Carry O) (xs : List (StepIn O A α)) :
    (collectLoop γ V f c xs).1 = List.zipWith (slotOf γ V) (c :: xs.map carryOf) xs := by
  induction xs generalizing c with
  | nil => simp [collectLoop]
  | cons x xs ih => simp [collectLoop, ih]

theorem collectLoop_acts (γ : α) (V : O → α) (f : A → A) (c : Carry O) (xs : List (StepIn O A α)) :
    (collectLoop γ V f c xs).2.1 = xs.map (fun x e => f (x.sample e).action) := by
  induction xs generalizing c with
  | nil => simp [collectLoop]
  | cons x xs ih => simp [collectLoop, ih]

theorem collectLoop_carry (γ : α) (V : O → α) (f : A → A) (c : Carry O) (xs : List (StepIn O A α)) :
    (collectLoop γ V f c xs).2.2 = (xs.getLast?.map carryOf).getD c := by
  induction xs generalizing c with
  | nil => simp [collectLoop]
  | cons x xs ih =>
    simp only [collectLoop, ih]
    cases xs with
    | nil => simp
    | cons y ys =>
      rw [List.getLast?_cons_cons, List.getLast?_eq_some_getLast (List.cons_ne_nil y ys)]
      simp

theorem collectLoop_rows_length (γ : α) (V : O → α) (f : A → A) (c : Carry O) (xs : List (StepIn O A α)) :
    (collectLoop γ V f c xs).1.length = xs.length := by
  simp [collectLoop_rows]

theorem rowCarry_slotOf (γ : α) (V : O → α) (p : Carry O) (x : StepIn O A α) :
    rowCarry (slotOf γ V p x) = p := rfl

theorem rows_rowCarry (γ : α) (V : O → α) (f : A → A) (c : Carry O) (xs : List (StepIn O A α)) :
    ((collectLoop γ V f c xs).1).map rowCarry = (c :: xs.map carryOf).take xs.length := by
  induction xs generalizing c with
  | nil => simp [collectLoop]
  | cons x xs ih =>
    simp only [collectLoop, List.map_cons, ih, List.length_cons, List.take_succ_cons]
    rfl

/-- Cutting a list of successive states after a prefix. -/
theorem take_append_carry {β : Type} (c : β) (l m : List β) :
    (c :: (l ++ m)).take (l.length + m.length) =
      (c :: l).take l.length ++ ((l.getLast?.getD c) :: m).take m.length := by
  induction l generalizing c with
  | nil => simp
  | cons a l ih =>
    have h : (a :: l).length + m.length = (l.length + m.length) + 1 := by simp; omega
    rw [h, List.cons_append, List.take_succ_cons, ih a]
    simp only [List.length_cons, List.take_succ_cons, List.cons_append]
    congr 3
    cases l with
    | nil => simp
    | cons b l' =>
      rw [List.getLast?_cons_cons, List.getLast?_eq_some_getLast (List.cons_ne_nil b l')]
      simp

end loop

section gae
open SB3Verif.Rollout
variable {α : Type} [CommRing α]

theorem gaeCol_ne_nil (γ lam lv ln : α) (ss : List (Step α)) (h : ss ≠ []) : gaeCol γ lam lv ln ss ≠ [] := by
  cases ss with
  | nil => exact absurd rfl h
  | cons a rest => simp [gaeCol]

/-- The advantage of the last stored step is its TD residual against the supplied last value. -/
theorem gaeCol_snoc_getLast (γ lam lv ln : α) (ss : List (Step α)) (s : Step α) :
    (gaeCol γ lam lv ln (ss ++ [s])).getLast? = some (s.r + γ * lv * ln - s.v) := by
  induction ss with
  | nil => simp [gaeCol, nextOf, delta]
  | cons a rest ih =>
    have hne : gaeCol γ lam lv ln (rest ++ [s]) ≠ [] := gaeCol_ne_nil _ _ _ _ _ (by simp)
    simp only [List.cons_append, gaeCol]
    rw [List.getLast?_cons_of_ne_nil hne]
    exact ih

end gae

section clip
variable {α : Type} [LinearOrder α]

theorem clip_mem (a lo hi : α) (h : lo ≤ hi) : lo ≤ clip a lo hi ∧ clip a lo hi ≤ hi := by
  unfold clip
  exact ⟨le_min (le_max_right _ _) h, min_le_right _ _⟩

theorem clip_inside (a lo hi : α) (h1 : lo ≤ a) (h2 : a ≤ hi) : clip a lo hi = a := by
  unfold clip
  rw [max_eq_left h1, min_eq_left h2]

theorem clip_below (a lo hi : α) (h : lo ≤ hi) (h1 : a ≤ lo) : clip a lo hi = lo := by
  unfold clip
  rw [max_eq_right h1, min_eq_left h]

theorem clip_above (a lo hi : α) (h : lo ≤ hi) (h1 : hi ≤ a) : clip a lo hi = hi := by
  unfold clip
  rw [max_eq_left (le_trans h h1), min_eq_right h1]

end clip

section unscale
variable {α : Type} [Field α] [LinearOrder α] [IsStrictOrderedRing α]

/-- For a squashed action `a ∈ [-1, 1]` the affine map lands inside `[lo, hi]`, so the clip added by the
rounding fix changes nothing in exact arithmetic. -/
theorem unscale_affine (a lo hi : α) (h : lo ≤ hi) (h1 : -1 ≤ a) (h2 : a ≤ 1) :
    unscale (2⁻¹ : α) a lo hi = lo + (a + 1) / 2 * (hi - lo) := by
  unfold unscale
  have e : lo + (2⁻¹ * (a + 1) * (hi - lo)) = lo + (a + 1) / 2 * (hi - lo) := by ring
  rw [e]
  apply clip_inside
  · have : 0 ≤ (a + 1) / 2 * (hi - lo) :=
      mul_nonneg (div_nonneg (by linarith) (by norm_num)) (by linarith)
    linarith
  · have h3 : (a + 1) / 2 ≤ 1 := by linarith
    have h4 : 0 ≤ hi - lo := by linarith
    have : (a + 1) / 2 * (hi - lo) ≤ 1 * (hi - lo) := mul_le_mul_of_nonneg_right h3 h4
    linarith

end unscale

end SB3Verif.OnPolicy.Lemmas
