/-
Model of the episode-boundary mechanism of `DummyVecEnv` and `SubprocVecEnv`
(stable_baselines3/common/vec_env/{base_vec_env,dummy_vec_env,subproc_vec_env}.py).

* `Dummy`   — the in-process implementation with its staging buffers `buf_obs / buf_rews / buf_dones /
              buf_infos`, the stored `actions`, `reset_infos`, `_seeds`, `_options`; `step_wait` and `reset` are
              the `for env_idx in range(num_envs)` loops writing one slot per iteration.
* `Subproc` — the multi-process implementation: one `Worker` per sub-environment with its private variable
              `reset_info`; the parent sends one command per worker, receives one reply per worker in index
              order and unzips the replies (timing / scheduling is property C02, not modelled here).
* `Vec`     — either of the two, with the common public interface `seed / set_options / reset / step`.
* `EnvSpec` — the specification: ONE sub-environment wrapped on its own (pending seed, pending options, latest
              reset info). The theorems say that a `Vec` of `n` sub-environments is `n` independent copies of it.

A sub-environment is external. What it answered to the calls it received is an argument of the operation
(`Raw` = result of `env.step`, `ResetRes` = result of `env.reset`), and the calls the vectorised environment makes
(`Call`) are part of the output, so "who was called with what, in which order" is observable.

Observations (`ω`) and rewards (`ρ`) are never inspected: the model is generic in both (every observation-space
kind is an instance). Core Lean only, no imports.
-/

namespace SB3Verif.VecEnv

/-! ### Python values that occur in `info` dictionaries and reset options -/

/-- A flat options dictionary (`dict[str, int]`), insertion ordered. Python truthiness = non-empty. -/
abbrev Opts := List (String × Int)

inductive Val (ω : Type) where
  | none
  | bool (b : Bool)
  | int (i : Int)
  | str (s : String)
  | obs (o : ω)
  | dict (d : Opts)
  | list (l : List Int)
  deriving DecidableEq, Repr

/-- A Python `dict[str, Any]`, insertion ordered, keys unique. -/
abbrev Info (ω : Type) := List (String × Val ω)

/-- `d[k] = v` -/
def dictSet {β : Type} (d : List (String × β)) (k : String) (v : β) : List (String × β) :=
  match d with
  | [] => [(k, v)]
  | (k', v') :: rest => if k' = k then (k, v) :: rest else (k', v') :: dictSet rest k v

/-- `d.get(k)` -/
def dictGet {β : Type} (d : List (String × β)) (k : String) : Option β :=
  match d with
  | [] => none
  | (k', v') :: rest => if k' = k then some v' else dictGet rest k

/-! ### What a sub-environment answers, and the calls it receives -/

/-- result of `env.step(action)` -/
structure Raw (ω ρ : Type) where
  obs : ω
  rew : ρ
  terminated : Bool
  truncated : Bool
  info : Info ω
  deriving DecidableEq, Repr

/-- result of `env.reset(...)` -/
structure ResetRes (ω : Type) where
  obs : ω
  info : Info ω
  deriving DecidableEq, Repr

/-- What sub-environment `i` answered during one vectorised step: its `step` result and, if its `reset()` was
called afterwards, that result. -/
structure StepResp (ω ρ : Type) where
  raw : Raw ω ρ
  rst : Option (ResetRes ω)
  deriving DecidableEq, Repr

/-- A call received by a sub-environment. `reset none none` is the argument-less `env.reset()`
(`seed=None`, no `options` keyword). -/
inductive Call where
  | step (action : Int)
  | reset (seed : Option Int) (options : Option Opts)
  deriving DecidableEq, Repr

/-- `terminated or truncated` -/
def Raw.done {ω ρ : Type} (r : Raw ω ρ) : Bool := r.terminated || r.truncated

/-- The lines shared verbatim by `DummyVecEnv.step_wait` and the `"step"` branch of `_worker`:
```
info["TimeLimit.truncated"] = truncated and not terminated
if done: info["terminal_observation"] = observation
``` -/
def stepInfo {ω ρ : Type} (r : Raw ω ρ) : Info ω :=
  let info := dictSet r.info "TimeLimit.truncated" (Val.bool (r.truncated && !r.terminated))
  if r.done then dictSet info "terminal_observation" (Val.obs r.obs) else info

/-- `{"options": o} if o else {}` -/
def maybeOptions (o : Opts) : Option Opts := if o.isEmpty then none else some o

/-- argument of `set_options` -/
inductive OptArg where
  | none
  | dict (d : Opts)
  | list (l : List Opts)
  deriving DecidableEq, Repr

/-- `VecEnv.set_options`: `None → {}`; a dict is replicated; a list is taken as is. -/
def setOptionsList (n : Nat) : OptArg → List Opts
  | .none => List.replicate n []
  | .dict d => List.replicate n d
  | .list l => l

/-- `VecEnv.seed(seed)`: `[seed + idx for idx in range(num_envs)]` -/
def seedList (n : Nat) (s : Int) : List (Option Int) := (List.range n).map fun (i : Nat) => some (s + (i : Int))

/-! ### Output of one public operation (fields that do not apply stay empty) -/

structure Out (ω ρ : Type) where
  obs : List (Option ω) := []        -- `none` = a staging slot that was never written (`np.zeros`)
  rews : List (Option ρ) := []      -- `none` = never written (initial zero)
  dones : List Bool := []
  infos : List (Info ω) := []
  resetInfos : List (Info ω) := []   -- `vec_env.reset_infos` after the operation
  calls : List (List Call) := []     -- calls made to sub-environment `i` during the operation, in order
  seeds : List (Option Int) := []    -- return value of `seed()`
  deriving DecidableEq, Repr

/-! ### DummyVecEnv -/

structure Dummy (ω ρ : Type) where
  n : Nat
  actions : List Int
  bufObs : List (Option ω)
  bufRews : List (Option ρ)          -- `none` = initial zero
  bufDones : List Bool
  bufInfos : List (Info ω)
  resetInfos : List (Info ω)
  seeds : List (Option Int)
  options : List Opts
  deriving Repr

variable {ω ρ : Type}

def Dummy.init (n : Nat) : Dummy ω ρ :=
  { n := n, actions := [],
    bufObs := List.replicate n none, bufRews := List.replicate n none,
    bufDones := List.replicate n false, bufInfos := List.replicate n [],
    resetInfos := List.replicate n [], seeds := List.replicate n none, options := List.replicate n [] }

/-- body of the loop of `step_wait` for `env_idx = i` -/
def Dummy.stepEnv (s : Dummy ω ρ) (i : Nat) (x : StepResp ω ρ) : Dummy ω ρ × List Call :=
  let a := s.actions.getD i 0
  let r := x.raw
  -- obs, buf_rews[i], terminated, truncated, buf_infos[i] = envs[i].step(actions[i]);  buf_dones[i] = ...
  let s1 := { s with bufRews := s.bufRews.set i (some r.rew), bufDones := s.bufDones.set i r.done,
                     bufInfos := s.bufInfos.set i (stepInfo r) }
  if r.done then
    match x.rst with
    | some z =>
      -- obs, reset_infos[i] = envs[i].reset();  _save_obs(i, obs)
      ({ s1 with resetInfos := s1.resetInfos.set i z.info, bufObs := s1.bufObs.set i (some z.obs) },
        [Call.step a, Call.reset none none])
    | none =>
      -- reset() was called but its answer is not given: outside the domain (`Op.valid` rejects it)
      ({ s1 with bufObs := s1.bufObs.set i (some r.obs) }, [Call.step a, Call.reset none none])
  else
    ({ s1 with bufObs := s1.bufObs.set i (some r.obs) }, [Call.step a])

/-- `for env_idx in range(num_envs)` of `step_wait`, from index `i` on -/
def Dummy.stepLoop (s : Dummy ω ρ) (i : Nat) : List (StepResp ω ρ) → Dummy ω ρ × List (List Call)
  | [] => (s, [])
  | x :: rest =>
    let (s', c) := s.stepEnv i x
    let (s'', cs) := Dummy.stepLoop s' (i + 1) rest
    (s'', c :: cs)

def Dummy.stepAsync (s : Dummy ω ρ) (acts : List Int) : Dummy ω ρ := { s with actions := acts }

/-- `step_wait`: the loop, then copies of the four buffers -/
def Dummy.stepWait (s : Dummy ω ρ) (xs : List (StepResp ω ρ)) : Dummy ω ρ × Out ω ρ :=
  let (s', calls) := s.stepLoop 0 xs
  (s', { obs := s'.bufObs, rews := s'.bufRews, dones := s'.bufDones, infos := s'.bufInfos,
         resetInfos := s'.resetInfos, calls := calls })

/-- body of the loop of `reset` for `env_idx = i` -/
def Dummy.resetEnv (s : Dummy ω ρ) (i : Nat) (z : ResetRes ω) : Dummy ω ρ × List Call :=
  let call := Call.reset (s.seeds.getD i none) (maybeOptions (s.options.getD i []))
  ({ s with resetInfos := s.resetInfos.set i z.info, bufObs := s.bufObs.set i (some z.obs) }, [call])

def Dummy.resetLoop (s : Dummy ω ρ) (i : Nat) : List (ResetRes ω) → Dummy ω ρ × List (List Call)
  | [] => (s, [])
  | z :: rest =>
    let (s', c) := s.resetEnv i z
    let (s'', cs) := Dummy.resetLoop s' (i + 1) rest
    (s'', c :: cs)

/-- `reset`: the loop, then `_reset_seeds(); _reset_options()` -/
def Dummy.reset (s : Dummy ω ρ) (zs : List (ResetRes ω)) : Dummy ω ρ × Out ω ρ :=
  let (s', calls) := s.resetLoop 0 zs
  let s'' := { s' with seeds := List.replicate s'.n none, options := List.replicate s'.n [] }
  (s'', { obs := s''.bufObs, resetInfos := s''.resetInfos, calls := calls })

/-! ### SubprocVecEnv -/

/-- process-local state of `_worker`: the variable `reset_info` -/
structure Worker (ω : Type) where
  resetInfo : Info ω
  deriving DecidableEq, Repr

/-- what a worker sends back for `"step"`: `(observation, reward, done, info, reset_info)` -/
structure StepReply (ω ρ : Type) where
  obs : ω
  rew : ρ
  done : Bool
  info : Info ω
  resetInfo : Info ω

/-- `"step"` branch of `_worker` -/
def Worker.step (w : Worker ω) (a : Int) (x : StepResp ω ρ) : Worker ω × StepReply ω ρ × List Call :=
  let r := x.raw
  let info := stepInfo r
  if r.done then
    match x.rst with
    | some z =>
      -- observation, reset_info = env.reset()
      ({ resetInfo := z.info }, { obs := z.obs, rew := r.rew, done := true, info := info, resetInfo := z.info },
        [Call.step a, Call.reset none none])
    | none =>
      (w, { obs := r.obs, rew := r.rew, done := true, info := info, resetInfo := w.resetInfo },
        [Call.step a, Call.reset none none])
  else
    (w, { obs := r.obs, rew := r.rew, done := false, info := info, resetInfo := w.resetInfo }, [Call.step a])

/-- `"reset"` branch of `_worker`; `data = (seed, options)` -/
def Worker.reset (_w : Worker ω) (seed : Option Int) (opts : Opts) (z : ResetRes ω) :
    Worker ω × ResetRes ω × List Call :=
  ({ resetInfo := z.info }, z, [Call.reset seed (maybeOptions opts)])

structure Subproc (ω ρ : Type) where
  n : Nat
  workers : List (Worker ω)
  sent : List Int                    -- `("step", action)` messages in the pipes, one per worker
  resetInfos : List (Info ω)
  seeds : List (Option Int)
  options : List Opts
  deriving Repr

def Subproc.init (n : Nat) : Subproc ω ρ :=
  { n := n, workers := List.replicate n { resetInfo := [] }, sent := [],
    resetInfos := List.replicate n [], seeds := List.replicate n none, options := List.replicate n [] }

/-- `for remote, action in zip(self.remotes, actions): remote.send(("step", action))` -/
def Subproc.stepAsync (p : Subproc ω ρ) (acts : List Int) : Subproc ω ρ := { p with sent := acts.take p.n }

/-- every worker handles its message; replies in worker order -/
def workersStep : List (Worker ω) → List Int → List (StepResp ω ρ) →
    List (Worker ω × StepReply ω ρ × List Call)
  | w :: ws, a :: as, x :: xs => w.step a x :: workersStep ws as xs
  | _, _, _ => []

/-- `step_wait`: `results = [remote.recv() ...]; obs, rews, dones, infos, self.reset_infos = zip(*results)` -/
def Subproc.stepWait (p : Subproc ω ρ) (xs : List (StepResp ω ρ)) : Subproc ω ρ × Out ω ρ :=
  let res := workersStep p.workers p.sent xs
  let p' := { p with workers := res.map (·.1), sent := [], resetInfos := res.map (·.2.1.resetInfo) }
  (p', { obs := res.map (fun t => some t.2.1.obs), rews := res.map (fun t => some t.2.1.rew), dones := res.map (·.2.1.done),
         infos := res.map (·.2.1.info), resetInfos := p'.resetInfos, calls := res.map (·.2.2) })

/-- every worker handles `("reset", (self._seeds[i], self._options[i]))` -/
def workersReset : List (Worker ω) → List (Option Int) → List Opts → List (ResetRes ω) →
    List (Worker ω × ResetRes ω × List Call)
  | w :: ws, s :: ss, o :: os, z :: zs => w.reset s o z :: workersReset ws ss os zs
  | _, _, _, _ => []

/-- `reset`: `obs, self.reset_infos = zip(*results)`, then `_reset_seeds(); _reset_options()` -/
def Subproc.reset (p : Subproc ω ρ) (zs : List (ResetRes ω)) : Subproc ω ρ × Out ω ρ :=
  let res := workersReset p.workers p.seeds p.options zs
  let p' := { p with workers := res.map (·.1), resetInfos := res.map (·.2.1.info),
                     seeds := List.replicate p.n none, options := List.replicate p.n [] }
  (p', { obs := res.map (fun t => some t.2.1.obs), resetInfos := p'.resetInfos, calls := res.map (·.2.2) })

/-! ### Either implementation behind the public `VecEnv` interface -/

inductive Vec (ω ρ : Type) where
  | dummy (d : Dummy ω ρ)
  | subproc (p : Subproc ω ρ)
  deriving Repr

inductive Kind where
  | dummy
  | subproc
  deriving DecidableEq, Repr

def Vec.init (k : Kind) (n : Nat) : Vec ω ρ :=
  match k with
  | .dummy => .dummy (Dummy.init n)
  | .subproc => .subproc (Subproc.init n)

def Vec.n : Vec ω ρ → Nat
  | .dummy d => d.n
  | .subproc p => p.n

def Vec.resetInfos : Vec ω ρ → List (Info ω)
  | .dummy d => d.resetInfos
  | .subproc p => p.resetInfos

def Vec.seeds : Vec ω ρ → List (Option Int)
  | .dummy d => d.seeds
  | .subproc p => p.seeds

def Vec.options : Vec ω ρ → List Opts
  | .dummy d => d.options
  | .subproc p => p.options

/-- `seed(s)` (for `seed(None)` the drawn integer is the argument) -/
def Vec.seed (v : Vec ω ρ) (s : Int) : Vec ω ρ × Out ω ρ :=
  match v with
  | .dummy d => (.dummy { d with seeds := seedList d.n s }, { seeds := seedList d.n s, resetInfos := d.resetInfos })
  | .subproc p => (.subproc { p with seeds := seedList p.n s }, { seeds := seedList p.n s, resetInfos := p.resetInfos })

def Vec.setOptions (v : Vec ω ρ) (o : OptArg) : Vec ω ρ × Out ω ρ :=
  match v with
  | .dummy d => (.dummy { d with options := setOptionsList d.n o }, { resetInfos := d.resetInfos })
  | .subproc p => (.subproc { p with options := setOptionsList p.n o }, { resetInfos := p.resetInfos })

def Vec.reset (v : Vec ω ρ) (zs : List (ResetRes ω)) : Vec ω ρ × Out ω ρ :=
  match v with
  | .dummy d => let (d', o) := d.reset zs; (.dummy d', o)
  | .subproc p => let (p', o) := p.reset zs; (.subproc p', o)

/-- `step(actions)` = `step_async(actions); step_wait()` -/
def Vec.step (v : Vec ω ρ) (acts : List Int) (xs : List (StepResp ω ρ)) : Vec ω ρ × Out ω ρ :=
  match v with
  | .dummy d => let (d', o) := (d.stepAsync acts).stepWait xs; (.dummy d', o)
  | .subproc p => let (p', o) := (p.stepAsync acts).stepWait xs; (.subproc p', o)

/-! ### Histories -/

inductive Op (ω ρ : Type) where
  | seed (s : Int)
  | setOptions (o : OptArg)
  | reset (zs : List (ResetRes ω))
  | step (acts : List Int) (xs : List (StepResp ω ρ))
  deriving Repr

/-- Domain of the model for `n` sub-environments: one action / answer per sub-environment, a reset answer
exactly for the sub-environments whose episode ended, an options list with one entry per sub-environment. -/
def Op.valid (n : Nat) : Op ω ρ → Bool
  | .seed _ => true
  | .setOptions (.list l) => l.length == n
  | .setOptions _ => true
  | .reset zs => zs.length == n
  | .step acts xs => acts.length == n && xs.length == n && xs.all (fun x => x.rst.isSome == x.raw.done)

def Vec.applyT (v : Vec ω ρ) : Op ω ρ → Vec ω ρ × Out ω ρ
  | .seed s => v.seed s
  | .setOptions o => v.setOptions o
  | .reset zs => v.reset zs
  | .step acts xs => v.step acts xs

/-- one operation; outside the domain the model refuses to answer -/
def Vec.apply (v : Vec ω ρ) (op : Op ω ρ) : Except String (Vec ω ρ × Out ω ρ) :=
  if op.valid v.n then .ok (v.applyT op) else .error "operation outside the model's domain"

/-- state after a history -/
def Vec.run (v : Vec ω ρ) (ops : List (Op ω ρ)) : Vec ω ρ := ops.foldl (fun v op => (v.applyT op).1) v

/-- outputs of a history, one per operation -/
def Vec.outs (v : Vec ω ρ) : List (Op ω ρ) → List (Out ω ρ)
  | [] => []
  | op :: ops => (v.applyT op).2 :: Vec.outs (v.applyT op).1 ops

/-! ### Specification: one sub-environment on its own -/

structure EnvSpec (ω : Type) where
  idx : Nat
  resetInfo : Info ω
  seed : Option Int
  opts : Opts
  deriving DecidableEq, Repr

def EnvSpec.init (i : Nat) : EnvSpec ω := { idx := i, resetInfo := [], seed := none, opts := [] }

/-- what concerns sub-environment `i` in an operation -/
inductive EnvOp (ω ρ : Type) where
  | seed (s : Int)
  | setOptions (o : Opts)
  | reset (z : ResetRes ω)
  | step (a : Int) (x : StepResp ω ρ)
  | skip
  deriving Repr

structure EnvOut (ω ρ : Type) where
  obs : Option ω := none
  rew : Option ρ := none
  done : Option Bool := none
  info : Option (Info ω) := none
  resetInfo : Info ω := []
  calls : List Call := []
  seed : Option Int := none
  deriving DecidableEq, Repr

def EnvSpec.apply (e : EnvSpec ω) : EnvOp ω ρ → EnvSpec ω × EnvOut ω ρ
  | .seed s => ({ e with seed := some (s + (e.idx : Int)) }, { seed := some (s + (e.idx : Int)), resetInfo := e.resetInfo })
  | .setOptions o => ({ e with opts := o }, { resetInfo := e.resetInfo })
  | .reset z =>
    ({ e with resetInfo := z.info, seed := none, opts := [] },
      { obs := some z.obs, resetInfo := z.info, calls := [Call.reset e.seed (maybeOptions e.opts)] })
  | .step a x =>
    let r := x.raw
    if r.done then
      match x.rst with
      | some z =>
        ({ e with resetInfo := z.info },
          { obs := some z.obs, rew := some r.rew, done := some true, info := some (stepInfo r), resetInfo := z.info,
            calls := [Call.step a, Call.reset none none] })
      | none =>
        (e, { obs := some r.obs, rew := some r.rew, done := some true, info := some (stepInfo r),
              resetInfo := e.resetInfo, calls := [Call.step a, Call.reset none none] })
    else
      (e, { obs := some r.obs, rew := some r.rew, done := some false, info := some (stepInfo r),
            resetInfo := e.resetInfo, calls := [Call.step a] })
  | .skip => (e, { resetInfo := e.resetInfo })

/-- the part of a vectorised operation that concerns sub-environment `i` -/
def Op.proj (i : Nat) : Op ω ρ → EnvOp ω ρ
  | .seed s => .seed s
  | .setOptions .none => .setOptions []
  | .setOptions (.dict d) => .setOptions d
  | .setOptions (.list l) => match l[i]? with | some o => .setOptions o | none => .skip
  | .reset zs => match zs[i]? with | some z => .reset z | none => .skip
  | .step acts xs => match acts[i]?, xs[i]? with | some a, some x => .step a x | _, _ => .skip

/-- the part of a vectorised output that concerns sub-environment `i` -/
def Out.proj (i : Nat) (o : Out ω ρ) : EnvOut ω ρ :=
  { obs := (o.obs[i]?).join, rew := (o.rews[i]?).join, done := o.dones[i]?, info := o.infos[i]?,
    resetInfo := (o.resetInfos[i]?).getD [], calls := (o.calls[i]?).getD [], seed := (o.seeds[i]?).join }

def EnvSpec.outs (e : EnvSpec ω) : List (EnvOp ω ρ) → List (EnvOut ω ρ)
  | [] => []
  | op :: ops => (e.apply op).2 :: EnvSpec.outs (e.apply op).1 ops


/-! ### Vocabulary of the theorems: well-formed states and the abstraction to `EnvSpec` -/

/-- every per-environment array of a `DummyVecEnv` has one slot per sub-environment -/
structure Dummy.WF (s : Dummy ω ρ) : Prop where
  hObs : s.bufObs.length = s.n
  hRews : s.bufRews.length = s.n
  hDones : s.bufDones.length = s.n
  hInfos : s.bufInfos.length = s.n
  hReset : s.resetInfos.length = s.n
  hSeeds : s.seeds.length = s.n
  hOpts : s.options.length = s.n

/-- one worker per sub-environment, and the parent's `reset_infos` is what the workers hold in `reset_info` -/
structure Subproc.WF (p : Subproc ω ρ) : Prop where
  hWorkers : p.workers.length = p.n
  hCoherent : p.resetInfos = p.workers.map (·.resetInfo)
  hSeeds : p.seeds.length = p.n
  hOpts : p.options.length = p.n

def Vec.WF : Vec ω ρ → Prop
  | .dummy d => d.WF
  | .subproc p => p.WF

/-- the state of the single-environment specification that sub-environment `i` of `v` is in -/
def Vec.abs (v : Vec ω ρ) (i : Nat) : EnvSpec ω :=
  { idx := i, resetInfo := v.resetInfos.getD i [], seed := (v.seeds[i]?).join, opts := v.options.getD i [] }

def Op.isSeed : Op ω ρ → Bool
  | .seed _ => true
  | _ => false

def Op.isSetOptions : Op ω ρ → Bool
  | .setOptions _ => true
  | _ => false

def Op.isReset : Op ω ρ → Bool
  | .reset _ => true
  | _ => false

/-- run of the specification -/
def EnvSpec.run (e : EnvSpec ω) (ops : List (EnvOp ω ρ)) : EnvSpec ω := ops.foldl (fun e op => (e.apply op).1) e


/-! ### Structured observations (Dict / Tuple spaces): the layout of the batched observation

In the mechanism model above an observation is one opaque value `ω`. For a `Dict` / `Tuple` space the code keeps one
array per key (`buf_obs[key]`, `obs_space_info`) and writes / stacks component by component. This section models that
layout; the theorems say it is a faithful transposition: the row of sub-environment `i` is `i`'s own observation,
component by component. Keys `κ`: the single key `None` of an unstructured space, the names of a `Dict` space, the
positions of a `Tuple` space. -/

section Layout
variable {κ α : Type}

/-- `DummyVecEnv.buf_obs`: for every key one array with a row per sub-environment (`none` = the initial zeros) -/
abbrev ObsBuf (κ α : Type) := List (κ × List (Option α))

/-- `OrderedDict([(k, np.zeros((num_envs, *shapes[k]), dtype=dtypes[k])) for k in self.keys])` -/
def ObsBuf.init (keys : List κ) (n : Nat) : ObsBuf κ α := keys.map fun k => (k, List.replicate n none)

/-- `_save_obs(env_idx, obs)`: `for key in self.keys: self.buf_obs[key][env_idx] = obs[key]`
(`obs` itself for the key `None`) -/
def ObsBuf.save (b : ObsBuf κ α) (i : Nat) (obs : κ → α) : ObsBuf κ α :=
  b.map fun kc => (kc.1, kc.2.set i (some (obs kc.1)))

/-- the loop `for env_idx in range(num_envs): … _save_obs(env_idx, obs)`, from index `i` on -/
def ObsBuf.saveAll (b : ObsBuf κ α) (i : Nat) : List (κ → α) → ObsBuf κ α
  | [] => b
  | o :: rest => ObsBuf.saveAll (b.save i o) (i + 1) rest

/-- what `_obs_from_buf()` (`dict_to_obs`) shows for sub-environment `i`: component `k` is row `i` of array `k` -/
def ObsBuf.row (b : ObsBuf κ α) (i : Nat) : List (κ × Option α) := b.map fun kc => (kc.1, (kc.2[i]?).join)

/-- `_stack_obs(obs_list, space)` of `SubprocVecEnv`:
`{key: np.stack([o[key] for o in obs_list]) for key in space.spaces.keys()}` (Tuple: positions; else `np.stack(obs_list)`) -/
def stackObs (keys : List κ) (obsList : List (κ → α)) : List (κ × List α) := keys.map fun k => (k, obsList.map (· k))

/-- row `i` of a stacked observation -/
def stackRow (s : List (κ × List α)) (i : Nat) : List (κ × Option α) := s.map fun kc => (kc.1, kc.2[i]?)

/-- a buffer laid out for the keys `keys` and `n` sub-environments (whatever it contains) -/
def ObsBuf.Shape (b : ObsBuf κ α) (keys : List κ) (n : Nat) : Prop :=
  b.map (·.1) = keys ∧ ∀ kc ∈ b, kc.2.length = n

/-- the observation of one sub-environment, component by component -/
def ownObs (keys : List κ) (obs : κ → α) : List (κ × Option α) := keys.map fun k => (k, some (obs k))

end Layout

end SB3Verif.VecEnv
