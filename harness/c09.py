"""
C09 — Saving then loading reproduces the model.

Implementation under test: stable_baselines3.common.save_util (data_to_json / json_to_data / open_path /
save_to_zip_file / load_from_zip_file / save_to_pkl / load_from_pkl), BaseAlgorithm.save / load /
get_parameters / set_parameters for the six algorithms, OffPolicyAlgorithm.save_replay_buffer /
load_replay_buffer (incl. HerReplayBuffer), VecNormalize.save / load.
Model: lean/SB3Verif/Model/SaveLoad.lean (driver lean/SB3Verif/Driver/C09.lean)
"""
from __future__ import annotations

import base64
import collections
import functools
import io
import json
import os
import pathlib
import shutil
import struct
import tempfile
import types
import warnings
import zipfile
import zlib

import numpy as np

from harness.common import guarded

RULE = (
    "cases from one SplitMix64 stream: (codec) attribute dictionaries of random Python value trees, depth<=4 — None/bool/"
    "int/float(nan,inf,-0.0)/str(unicode)/list/tuple/dict with str,int,bool,None,float,tuple,numpy keys/numpy scalars/"
    "class instances/functions/classes, optional custom_objects, a few dictionaries with a ':serialized:' key — through the "
    "real data_to_json/json_to_data; (native) single values through json.dumps/json.loads/is_json_native; (whole) the six "
    "algorithms x {policy alias, gSDE, fixed/learned ent_coef, callable schedules, custom optimizer, action noise, HER, "
    "tuple/dict net_arch, numpy-scalar hyper-parameters, user attributes with tuples and non-string keys} x save point "
    "{fresh, trained} x path kind {BytesIO, str, str without suffix, pathlib, open file} x exclude/include sets x "
    "load with/without env, kwargs; (partition) exclude/include sets on cached models; (setparams) name sets x exact_match; "
    "(path) open_path targets with pre-existing files; (replay) save/load_replay_buffer incl. HER +/- truncation; (herbuf) HER "
    "buffers with 2-3 envs filled through add() with de-synchronised episode ends (terminated / truncated / open at the last "
    "stored step), truncate_last_traj True/False/default, seeded sample compared; (vecnorm) "
    "VecNormalize.save/load. non-trivial = codec case with a pickled (non JSON-native) attribute, whole case saved after "
    "training (non-empty optimizer state), partition case with a non-empty include or exclude, replay case with an "
    "unfinished HER episode, herbuf case saved with one env terminated on the last step next to an open one and truncated on "
    "load, vecnorm case with updated statistics; distinct = distinct canonical case"
)
STREAMS = {
    "codec_doc": "JSON document written by data_to_json == model's dataToJson (pickle blobs replaced by tokens)",
    "codec_loaded": "json_to_data(data_to_json(d)) == model's roundTrip (type-sensitive, raise/drop included)",
    "native": "json.dumps / json.loads / is_json_native / is_json_serializable == model",
    "partition": "archive members, data keys, torch variable names and the class's member lists == model's save partition",
    "load_attrs": "provenance of every attribute of the loaded model (saved / kwargs / reset / fresh / rebuilt) == model's load",
    "setparams": "set_parameters accepts/rejects == model",
    "path": "file written / read by open_path == model's writeTarget / readTarget",
    "state": "attributes kept / re-bound by __getstate__/__setstate__ (VecNormalize, replay buffers) == model",
}

GRID = [1.0, 0.875, 0.5, 0.25, 0.0]
INFRA = {"device", "env", "replay_buffer", "rollout_buffer", "_vec_normalize_env", "_episode_storage", "_logger",
         "_custom_logger"}


# =============================================================================================
# type-sensitive deep equality (the oracle's notion of "equal — values and types")
# =============================================================================================
def fbits(x: float) -> int:
    return struct.unpack("<Q", struct.pack("<d", x))[0]


def float_of_bits(b: int) -> float:
    return struct.unpack("<d", struct.pack("<Q", b))[0]


def deq(a, b, path="", out=None, depth=0):
    """appends (path, reason) to out for every difference between a and b (values, types, order)"""
    import torch as th
    from gymnasium import spaces

    if out is None:
        out = []
    if len(out) > 5 or depth > 14:
        return out

    def bad(why):
        out.append((path, why))
        return out

    if type(a) is not type(b):
        return bad(f"type {type(a).__name__} vs {type(b).__name__}")
    if a is None:
        return out
    if isinstance(a, np.generic):
        if a.dtype != b.dtype or a.tobytes() != b.tobytes():
            bad(f"numpy scalar {a!r} vs {b!r}")
        return out
    if isinstance(a, float):
        if fbits(a) != fbits(b) and not (a != a and b != b):
            bad(f"value {a!r} vs {b!r}")
        return out
    if isinstance(a, (bool, int, str, bytes)):
        if a != b:
            bad(f"value {a!r} vs {b!r}")
        return out
    if isinstance(a, np.ndarray):
        if a.dtype != b.dtype or a.shape != b.shape:
            return bad(f"array {a.dtype}{a.shape} vs {b.dtype}{b.shape}")
        if a.dtype == object:
            for i, (x, y) in enumerate(zip(a.ravel(), b.ravel())):
                deq(x, y, f"{path}[{i}]", out, depth + 1)
        elif a.tobytes() != b.tobytes():
            bad("array content")
        return out
    if isinstance(a, th.Tensor):
        if a.dtype != b.dtype or a.shape != b.shape or a.requires_grad != b.requires_grad:
            return bad(f"tensor meta {a.dtype}{tuple(a.shape)} grad={a.requires_grad} vs {b.dtype}{tuple(b.shape)} grad={b.requires_grad}")
        if a.detach().cpu().numpy().tobytes() != b.detach().cpu().numpy().tobytes():
            bad("tensor content")
        return out
    if isinstance(a, (list, tuple, collections.deque)):
        if len(a) != len(b):
            return bad(f"len {len(a)} vs {len(b)}")
        if isinstance(a, collections.deque) and a.maxlen != b.maxlen:
            bad("deque maxlen")
        for i, (x, y) in enumerate(zip(a, b)):
            deq(x, y, f"{path}[{i}]", out, depth + 1)
        return out
    if isinstance(a, dict):
        ka, kb = list(a.keys()), list(b.keys())
        if len(ka) != len(kb):
            return bad(f"keys {ka!r} vs {kb!r}")
        for x, y in zip(ka, kb):
            if deq(x, y, f"{path}<key>", [], depth + 1):
                return bad(f"keys {ka!r} vs {kb!r}")
        for x, y in zip(ka, kb):
            deq(a[x], b[y], f"{path}[{x!r}]", out, depth + 1)
        return out
    if isinstance(a, (set, frozenset)):
        if a != b:
            bad("set")
        return out
    if isinstance(a, spaces.Space):
        if a != b or getattr(a, "dtype", None) != getattr(b, "dtype", None):
            bad(f"space {a} vs {b}")
        return out
    if isinstance(a, (th.device, th.dtype)):
        if a != b:
            bad(f"{a} vs {b}")
        return out
    if isinstance(a, type):
        if a is not b and (a.__module__, a.__qualname__) != (b.__module__, b.__qualname__):
            bad(f"class {a} vs {b}")
        return out
    if isinstance(a, th.nn.Module):
        deq(dict(a.state_dict()), dict(b.state_dict()), path + ".state_dict()", out, depth + 1)
        if a.training != b.training:
            bad("module training flag")
        return out
    if isinstance(a, th.optim.Optimizer):
        deq(a.state_dict(), b.state_dict(), path + ".state_dict()", out, depth + 1)
        return out
    if isinstance(a, functools.partial):
        deq(a.func, b.func, path + ".func", out, depth + 1)
        deq(a.args, b.args, path + ".args", out, depth + 1)
        deq(a.keywords, b.keywords, path + ".keywords", out, depth + 1)
        return out
    if isinstance(a, (types.FunctionType, types.MethodType, types.BuiltinFunctionType)):
        if getattr(a, "__defaults__", None) != getattr(b, "__defaults__", None):
            try:
                deq(a.__defaults__, b.__defaults__, path + ".__defaults__", out, depth + 1)
            except Exception:
                pass
        try:
            ra = [a(x) for x in GRID]
        except Exception:
            if getattr(a, "__qualname__", None) != getattr(b, "__qualname__", None):
                bad("callable differs")
            return out
        try:
            rb = [b(x) for x in GRID]
        except Exception as e:
            return bad(f"callable raises {e!r}")
        deq(ra, rb, path + "(grid)", out, depth + 1)
        return out
    if isinstance(a, np.random.Generator):
        if str(a.bit_generator.state) != str(b.bit_generator.state):
            bad("rng state")
        return out
    if hasattr(a, "__dict__"):
        deq(dict(vars(a)), dict(vars(b)), path + ".__dict__", out, depth + 1)
        return out
    if hasattr(a, "__slots__"):
        for s in a.__slots__:
            deq(getattr(a, s, None), getattr(b, s, None), f"{path}.{s}", out, depth + 1)
        return out
    try:
        if a != b:
            bad(f"value {a!r} vs {b!r}")
    except Exception as e:
        bad(f"uncomparable {e!r}")
    return out


# =============================================================================================
# Python values from JSON-able descriptions
# =============================================================================================
class Obj:
    """a user object with attributes (has __dict__, is not JSON-serialisable)"""

    def __init__(self, uid, fields):
        self._uid = uid
        self.__dict__.update(fields)


def make_fn(uid):
    def fn(x, _uid=uid):
        return x * (_uid % 7 + 1) + _uid

    return fn


def sched_module_level(progress):
    return 1e-3 * progress + 1e-4


def _classes():
    import copyreg

    import torch as th

    cl = {"Obj": Obj, "Tanh": th.nn.Tanh, "SGD": th.optim.SGD}
    for c in cl.values():  # pickling caches __slotnames__ in the class __dict__: do it before anything is encoded
        copyreg._slotnames(c)
    return cl


def build(d):
    k = d[0]
    if k == "none":
        return None
    if k == "bool":
        return bool(d[1])
    if k == "int":
        return int(d[1])
    if k == "float":
        return float_of_bits(d[1])
    if k == "str":
        return d[1]
    if k == "list":
        return [build(x) for x in d[1]]
    if k == "tuple":
        return tuple(build(x) for x in d[1])
    if k == "dict":
        r = {}
        for kd, vd in d[1]:
            r[build(kd)] = build(vd)
        return r
    if k == "np":
        return getattr(np, d[1])(d[2])
    if k == "arr":
        return np.array(d[1], dtype=np.int64)
    if k == "obj":
        return Obj(d[1], {n: build(v) for n, v in d[2]})
    if k == "fn":
        return make_fn(d[1])
    if k == "cls":
        return _classes()[d[1]]
    raise ValueError(f"bad desc {d!r}")


SER = ":serialized:"
STRS = ["", "a", "gamma", "net_arch", "é", "日本", "😀", "x y", "a\nb", '"q"', "\\", "1", "true", "null", ":type:", "0.5"]


def gen_scalar(rng):
    c = rng.weighted([("none", 2), ("bool", 2), ("int", 4), ("float", 4), ("str", 4)])
    if c == "none":
        return ["none"]
    if c == "bool":
        return ["bool", rng.chance(0.5)]
    if c == "int":
        return ["int", rng.weighted([(rng.randint(-9, 9), 5), (rng.randint(-10**6, 10**6), 2), (2**70 + rng.randint(0, 99), 1),
                                     (-(2**64), 1), (0, 1), (1, 1)])]
    if c == "float":
        x = rng.weighted([(0.5, 2), (0.1, 2), (-0.0, 1), (float("nan"), 1), (float("inf"), 1), (float("-inf"), 1),
                          (1e-300, 1), (1.0, 2), (3e-4, 2), (rng.randint(-50, 50) / 8.0, 4), (1e22, 1), (2.0**-1074, 1)])
        return ["float", fbits(x)]
    return ["str", rng.choice(STRS)]


def gen_key(rng, strong_str=0.6):
    c = rng.weighted([("str", strong_str * 10), ("int", 1.2), ("bool", 0.5), ("none", 0.3), ("float", 0.5), ("tuple", 0.8),
                      ("npf64", 0.3), ("npi64", 0.3), ("npstr", 0.2)])
    if c == "str":
        return ["str", rng.choice(STRS)]
    if c == "int":
        return ["int", rng.randint(-3, 5)]
    if c == "bool":
        return ["bool", rng.chance(0.5)]
    if c == "none":
        return ["none"]
    if c == "float":
        return ["float", fbits(rng.choice([0.5, 1.0, 2.5, -0.25, 1e-3, 1e22]))]
    if c == "tuple":
        return ["tuple", [["int", rng.randint(0, 3)] for _ in range(rng.randint(0, 2))]]
    if c == "npf64":
        return ["np", "float64", rng.choice([0.5, 1.5, 2.0])]
    if c == "npi64":
        return ["np", "int64", rng.randint(0, 4)]
    return ["np", "str_", rng.choice(["a", "k"])]


def gen_val(rng, depth, native_only=False, ser=0.0):
    """description of a random Python value; ser = probability that a dictionary gets a ':serialized:' key"""
    if depth <= 0:
        return gen_scalar(rng)
    if native_only:
        c = rng.weighted([("scalar", 5), ("list", 2), ("dict", 2)])
    else:
        c = rng.weighted([("scalar", 6), ("list", 2), ("tuple", 2.5), ("dict", 3), ("np", 2), ("obj", 1.2), ("fn", 0.6),
                          ("cls", 0.4), ("arr", 0.3)])
    if c == "scalar":
        return gen_scalar(rng)
    if c in ("list", "tuple"):
        return [c, [gen_val(rng, depth - 1, native_only) for _ in range(rng.randint(0, 3))]]
    if c == "dict":
        items = []
        for _ in range(rng.randint(0, 4)):
            kd = ["str", rng.choice(STRS)] if native_only else gen_key(rng)
            items.append([kd, gen_val(rng, depth - 1, native_only)])
        if ser and rng.chance(ser):
            v = rng.weighted([(["int", 5], 2), (["str", "abc"], 1), (["str", "AAAA"], 1), (["str", ""], 1), (["none"], 1),
                              (["list", []], 1)])
            items.insert(rng.randint(0, len(items)), [["str", SER], v])
        return ["dict", items]
    if c == "np":
        t = rng.choice(["float64", "float32", "int64", "bool_", "str_", "float16", "int32"])
        if t.startswith("float"):
            return ["np", t, rng.choice([0.5, 1.5, 0.1, 3e-4, -2.0])]
        if t.startswith("int"):
            return ["np", t, rng.randint(-5, 99)]
        if t == "bool_":
            return ["np", t, rng.randint(0, 1)]
        return ["np", t, rng.choice(["a", "tanh", ""])]
    if c == "obj":
        names = rng.sample(["a", "b", "net", "lr", "_p", "é"], rng.randint(0, 3))
        fields = [[n, gen_val(rng, depth - 1)] for n in names]
        if ser and rng.chance(ser):
            fields.append([SER, ["int", 7]])
        return ["obj", rng.randint(1, 10**6), fields]
    if c == "fn":
        return ["fn", rng.randint(1, 10**6)]
    if c == "cls":
        return ["cls", rng.choice(["Obj", "Tanh", "SGD"])]
    return ["arr", [rng.randint(0, 9) for _ in range(rng.randint(0, 3))]]


# =============================================================================================
# encoding of Python values / JSON documents for the Lean driver
# =============================================================================================
class JInt:
    def __init__(self, v):
        self.v = v


class JFloat:
    def __init__(self, v):
        self.v = v


class JObj:
    def __init__(self, pairs):
        self.pairs = pairs


def jdoc(text):
    """JSON text -> the driver's JSON-document encoding (keeps repeated keys, int/float distinction)"""
    node = json.loads(text, object_pairs_hook=JObj, parse_int=lambda t: JInt(int(t)),
                      parse_float=lambda t: JFloat(float(t)), parse_constant=lambda t: JFloat(float(t)))
    return jenc(node)


def jenc(n):
    if n is None or isinstance(n, (bool, str)):
        return n
    if isinstance(n, JInt):
        return ["i", n.v]
    if isinstance(n, JFloat):
        return ["f", fbits(n.v)]
    if isinstance(n, list):
        return ["a", [jenc(x) for x in n]]
    if isinstance(n, JObj):
        return ["o", [[k, jenc(v)] for k, v in n.pairs]]
    raise TypeError(n)


NOJSON = object()


def json_render(x):
    """the JSON document json.dumps makes of x, NOJSON when it refuses"""
    try:
        return jdoc(json.dumps(x))
    except (TypeError, ValueError):
        return NOJSON


def ident(x):
    if isinstance(x, np.generic):
        return zlib.crc32(x.tobytes())
    if isinstance(x, Obj):
        return int(x._uid) if type(x.__dict__.get("_uid")) is int else 0
    if isinstance(x, types.FunctionType):
        d = x.__defaults__
        if d and type(d[-1]) is int:
            return d[-1]
        return zlib.crc32(x.__qualname__.encode())
    if isinstance(x, type):
        return zlib.crc32((x.__module__ + "." + x.__qualname__).encode())
    if isinstance(x, np.ndarray):
        return zlib.crc32(x.tobytes() + str(x.dtype).encode() + str(x.shape).encode())
    try:
        rp = repr(x)
    except Exception:
        rp = ""
    if " at 0x" in rp:
        rp = ""
    return zlib.crc32((type(x).__qualname__ + rp).encode())


class Enc:
    """encodes values and collects the externals the model needs (str() of keys/values, float key texts)"""

    def __init__(self, counter_ids=False):
        self.fkeys = {}
        self.counter = 0 if counter_ids else None

    def items_of(self, x):
        if isinstance(x, dict):
            return list(x.items())
        d = getattr(x, "__dict__", None)
        if d is not None:
            try:
                return list(d.items())
            except Exception:
                return []
        return []

    def enc(self, x, depth=0):
        t = type(x)
        if x is None:
            return ["n"]
        if t is bool:
            return ["b", x]
        if t is int:
            return ["i", x]
        if t is float:
            return ["f", fbits(x)]
        if t is str:
            return ["s", x]
        if t is list:
            return ["l", [self.enc(v, depth + 1) for v in x]]
        if t is tuple:
            return ["t", [self.enc(v, depth + 1) for v in x]]
        if t is dict:
            out = []
            for k, v in x.items():
                if isinstance(k, float):
                    self.fkeys[fbits(float(k))] = float.__repr__(k)
                out.append([self.enc(k, depth + 1), self.enc(v, depth + 1)])
            return ["d", out]
        if self.counter is not None:
            self.counter += 1
            oid = self.counter
        else:
            oid = ident(x)
        items = []
        if depth == 0:
            for k, v in self.items_of(x):
                if isinstance(k, float):
                    self.fkeys[fbits(float(k))] = float.__repr__(k)
                items.append([self.enc(k, depth + 1), self.enc(v, depth + 1)])
        js = json_render(x)
        return ["o", str(t), oid, None if js is NOJSON else js, items]


def tables_for(values, enc: Enc):
    """str() of every first-level key that is not a str and of every first-level value json.dumps rejects"""
    strs, seen = [], set()
    for v in values:
        for k, item in enc.items_of(v):
            for obj, need in ((k, type(k) is not str), (item, json_render(item) is NOJSON)):
                if need:
                    e = enc.enc(obj, 1)
                    key = json.dumps(e)
                    if key not in seen:
                        seen.add(key)
                        try:
                            strs.append([e, str(obj)])
                        except Exception:
                            pass
    return strs


def first_level_key_is_serialized(v):
    try:
        return any(str(k) == SER for k, _ in Enc().items_of(v))
    except Exception:
        return False


# =============================================================================================
# stream: codec
# =============================================================================================
ATTR_NAMES = ["gamma", "policy_kwargs", "net_arch", "learning_rate", "x", "user", "é", "a b", ":type:", "n_steps", "seed",
              "clip_range", "_p", "tau"]


def gen_codec(rng, widen):
    n = rng.randint(1, 5)
    names = rng.sample(ATTR_NAMES, n)
    ser = 0.06 if not widen else 0.03
    attrs = [[nm, gen_val(rng, rng.randint(0, 3), native_only=rng.chance(0.25), ser=ser)] for nm in names]
    custom = []
    if rng.chance(0.2):
        for nm in rng.sample(names + ["other"], rng.randint(1, 2)):
            custom.append([nm, gen_val(rng, 1)])
    return {"kind": "codec", "attrs": attrs, "custom": custom}


def classify_unpickle(s):
    import cloudpickle

    try:
        cloudpickle.loads(base64.b64decode(s.encode()))
        return "ok"
    except (RuntimeError, TypeError, AttributeError):
        return "caught"
    except Exception:
        return "raised"


def run_codec(ctx, case):
    """runs the real codec; returns impl observations + the model op"""
    import cloudpickle
    from stable_baselines3.common.save_util import data_to_json, json_to_data

    d = {nm: build(vd) for nm, vd in case["attrs"]}
    custom = {nm: build(vd) for nm, vd in case["custom"]} if case["custom"] else None
    return codec_on(d, custom, data_to_json, json_to_data, cloudpickle)


def codec_on(d, custom, data_to_json, json_to_data, cloudpickle, counter_ids=False):
    enc = Enc(counter_ids)
    names = list(d.keys())
    attrs_e = [[nm, enc.enc(d[nm])] for nm in names]
    tokens, pickles = {}, []
    for i in range(len(names)):  # one token per distinct value
        key = json.dumps(attrs_e[i][1])
        if key not in tokens:
            tokens[key] = f"P{i}"
            pickles.append([attrs_e[i][1], f"P{i}"])
    tok_of = {names[i]: tokens[json.dumps(attrs_e[i][1])] for i in range(len(names))}
    r = {"save_exc": None, "load_exc": None, "doc": None, "loaded": None, "warnings": []}
    try:
        text = data_to_json(d)
    except Exception as e:  # noqa
        r["save_exc"] = f"{type(e).__name__}: {e}"
        text = None
    unp = {}
    if text is not None:
        doc = jdoc(text)
        # replace real pickles by the token of the attribute when they unpickle to the attribute
        if isinstance(doc, list) and doc[0] == "o":
            for pair in doc[1]:
                nm, entry = pair
                if isinstance(entry, list) and entry[0] == "o":
                    for kv in entry[1]:
                        if kv[0] == SER and isinstance(kv[1], str):
                            tok = None
                            if nm in d:
                                try:
                                    back = cloudpickle.loads(base64.b64decode(kv[1].encode()))
                                    if not deq(d[nm], back):
                                        tok = tok_of[nm]
                                except Exception:
                                    tok = None
                            if tok is not None:
                                kv[1] = tok
                            else:
                                c = classify_unpickle(kv[1])
                                if c != "ok":
                                    unp[kv[1]] = c
        r["doc"] = doc
        try:
            with warnings.catch_warnings(record=True) as w:
                warnings.simplefilter("always")
                loaded = json_to_data(text, custom_objects=custom)
            r["warnings"] = [str(x.message)[:60] for x in w]
            r["loaded_raw"] = loaded
            e2 = Enc(counter_ids)
            r["loaded"] = [[k, e2.enc(v)] for k, v in loaded.items()] if not counter_ids else None
        except Exception as e:  # noqa
            r["load_exc"] = f"{type(e).__name__}: {e}"
    # which way each attribute went, read off the document: "json" iff the entry is json.dumps of the value itself
    entries = dict((k, v) for k, v in r["doc"][1]) if (r["doc"] and r["doc"][0] == "o") else {}
    raw = dict((k, v) for k, v in jdoc(text)[1]) if text is not None else {}
    r["stored"] = [[nm, "json" if (nm in raw and json_render(d[nm]) is not NOJSON and json_render(d[nm]) == raw[nm]) else "pickled"]
                   for nm in names] if text is not None else None
    strs = tables_for(list(d.values()), enc)
    custom_e = [[k, enc.enc(v)] for k, v in custom.items()] if custom else []
    r["op"] = {"op": "codec", "attrs": attrs_e, "custom": custom_e, "strs": strs,
               "fkeys": [[b, s] for b, s in enc.fkeys.items()], "pickles": pickles,
               "unp": [[s, c] for s, c in unp.items()]}
    r["d"], r["custom"] = d, custom
    return r


def oracle_codec(ctx, case, r, stream="codec"):
    """json_to_data(data_to_json(d)) == d, values and types (custom_objects win)"""
    rep = ctx.report
    d, custom = r["d"], r["custom"] or {}
    collide = [nm for nm, v in d.items() if first_level_key_is_serialized(v)]

    def sig(kind, nm=None, **kw):
        s = {"stream": stream, "kind": kind,
             "cause": "serialized_key_collision" if (nm in collide if nm is not None else bool(collide)) else "codec"}
        s.update(kw)
        return s

    if r["save_exc"]:
        rep.violation("data_to_json raises on an attribute dictionary", case, sig("save_raises", exception=r["save_exc"].split(":")[0]),
                      r["save_exc"])
        return False
    if r["load_exc"]:
        rep.violation("json_to_data raises on what data_to_json wrote", case, sig("load_raises", exception=r["load_exc"].split(":")[0]),
                      r["load_exc"])
        return False
    got = r["loaded_raw"]
    for nm, v in d.items():
        if nm not in got:
            rep.violation("an attribute is missing after save/load", case, sig("attr_missing", nm, vtype=type(v).__name__), {"attr": nm})
            return False
        if nm in custom:
            if got[nm] is not custom[nm]:
                rep.violation("custom_objects entry not used", case, sig("custom_ignored", nm), {"attr": nm})
                return False
            continue
        diff = deq(v, got[nm], nm)
        if diff:
            rep.violation("an attribute changed value or type through save/load", case,
                          sig("value_changed", nm, vtype=type(v).__name__), {"attr": nm, "diff": [list(x) for x in diff[:3]]})
            return False
    if [k for k in got if k in d] != list(d.keys()) or any(k not in d for k in got):
        rep.violation("attribute names/order changed through save/load", case, sig("names"), {"got": list(got), "want": list(d)})
        return False
    return True


def cmp_codec(ctx, case, r, mo, stream_prefix="codec"):
    rep = ctx.report
    if mo is None:
        return
    if "error" in mo:
        rep.disagree(stream_prefix + "_doc", case, "ok", mo)
        return
    impl_doc = r["doc"]
    if mo["json"] != impl_doc:
        rep.disagree(stream_prefix + "_doc", case, {"doc": impl_doc, "exc": r["save_exc"]}, {"doc": mo["json"]})
        return
    if r["stored"] is not None and mo["stored"] != r["stored"]:
        rep.disagree(stream_prefix + "_doc", case, r["stored"], mo["stored"], "branch json/pickled")
        return
    if r["loaded"] is not None or r["load_exc"] or r["save_exc"]:
        impl_loaded = None if (r["load_exc"] or r["save_exc"]) else r["loaded"]
        if mo["loaded"] != impl_loaded:
            rep.disagree(stream_prefix + "_loaded", case, {"loaded": impl_loaded, "exc": r["load_exc"]}, {"loaded": mo["loaded"]})
            return
    rep.agree()


# =============================================================================================
# stream: native (the JSON layer)
# =============================================================================================
def gen_native(rng, widen):
    return {"kind": "native", "v": gen_val(rng, rng.randint(0, 4), native_only=rng.chance(0.4))}


def has_nonfinite_float_key(x):
    if isinstance(x, dict):
        return any((isinstance(k, float) and (k != k or k in (float("inf"), float("-inf")))) or has_nonfinite_float_key(v)
                   or has_nonfinite_float_key(k) for k, v in x.items())
    if isinstance(x, (list, tuple)):
        return any(has_nonfinite_float_key(v) for v in x)
    return False


def run_native(ctx, case):
    from stable_baselines3.common import save_util

    is_json_native = getattr(save_util, "is_json_native", None)  # absent: only the json layer is compared
    v = build(case["v"])
    enc = Enc()
    e = enc.enc(v)
    r = {"v": v, "native": bool(is_json_native(v)) if is_json_native else None,
         "serializable": bool(save_util.is_json_serializable(v)), "dumps": None, "loads": None,
         "dumped": False}
    try:
        text = json.dumps(v)
        r["dumped"] = True
        r["dumps"] = jdoc(text)
        back = json.loads(text)
        r["back"] = back
        r["loads"] = Enc().enc(back)
    except TypeError:
        pass
    r["op"] = {"op": "native", "v": e, "fkeys": [[b, s] for b, s in enc.fkeys.items()], "strs": []}
    return r


def check_native(ctx, case, r, mo):
    rep = ctx.report
    if r["native"]:
        if not r["dumped"] or deq(r["v"], r["back"]):
            rep.violation("is_json_native accepts a value JSON does not reproduce exactly", case,
                          {"stream": "native", "kind": "native_not_exact", "vtype": type(r["v"]).__name__})
            return
    if mo is None:
        return
    impl = {"native": r["native"], "serializable": r["serializable"], "dumps": r["dumps"], "loads": r["loads"], "wf": True}
    if "error" in mo or any(mo.get(k) != impl[k] for k in impl if impl[k] is not None or k in ("dumps", "loads")):
        rep.disagree("native", case, impl, mo)
    else:
        rep.agree()


# =============================================================================================
# dispatcher
# =============================================================================================
def gen_cases(ctx):
    rng = ctx.rng
    cases = []
    for _ in range(ctx.budget(700, 7000)):
        cases.append(gen_codec(rng, ctx.widen))
    for _ in range(ctx.budget(500, 5000)):
        cases.append(gen_native(rng, ctx.widen))
    cases.extend(gen_model_cases(ctx))
    return cases


def nontrivial_codec(r):
    return any(b == "pickled" for _, b in (r["stored"] or []))


def check_cases(ctx, cases):
    rep = ctx.report
    ops, plan = [], []
    for case in cases:
        k = case.get("kind")
        rep.count(f"kind:{k}")
        if k == "codec":
            r = guarded(ctx, case, lambda: run_codec(ctx, case))
            if r is None:
                rep.case(case, None)
                continue
            rep.case(case, case if nontrivial_codec(r) else None)
            for _, b in r["stored"] or []:
                rep.count(f"codec_attr:{b}")
            if case["custom"]:
                rep.count("codec:custom_objects")
            if any(first_level_key_is_serialized(v) for v in r["d"].values()):
                rep.count("codec:serialized_key")
            oracle_codec(ctx, case, r)
            plan.append((case, r, len(ops), 1))
            ops.append(r["op"])
        elif k == "native":
            r = guarded(ctx, case, lambda: run_native(ctx, case))
            rep.case(case, None)
            if r is None:
                continue
            if has_nonfinite_float_key(r["v"]):
                rep.count("native:skipped_nonfinite_float_key")
                continue
            rep.count("native:" + ("native" if r["native"] else "serializable" if r["serializable"] else "typeerror"))
            if r["native"] is None:
                rep.count("native:is_json_native_absent")
            plan.append((case, r, len(ops), 1))
            ops.append(r["op"])
        else:
            run_model_case(ctx, case, ops, plan)
    outs = ctx.lean.run(ops)
    for case, r, i, n in plan:
        k = case["kind"]
        if k == "codec":
            cmp_codec(ctx, case, r, outs[i])
        elif k == "native":
            check_native(ctx, case, r, outs[i])
        else:
            cmp_model_case(ctx, case, r, outs[i:i + n])


def shrink_candidates(case):
    k = case.get("kind")
    if k == "codec":
        attrs = case["attrs"]
        if len(attrs) > 1:
            for i in range(len(attrs)):
                c = dict(case)
                c["attrs"] = attrs[:i] + attrs[i + 1:]
                yield c
        if case["custom"]:
            c = dict(case)
            c["custom"] = []
            yield c
        for i, (nm, vd) in enumerate(attrs):
            for sub in shrink_desc(vd):
                c = dict(case)
                c["attrs"] = attrs[:i] + [[nm, sub]] + attrs[i + 1:]
                yield c
    elif k == "native":
        for sub in shrink_desc(case["v"]):
            yield {"kind": "native", "v": sub}
    else:
        yield from shrink_model_case(case)


def shrink_desc(d):
    k = d[0]
    if k in ("list", "tuple"):
        for i in range(len(d[1])):
            yield [k, d[1][:i] + d[1][i + 1:]]
        for i, x in enumerate(d[1]):
            yield x
            for s in shrink_desc(x):
                yield [k, d[1][:i] + [s] + d[1][i + 1:]]
    elif k == "dict":
        for i in range(len(d[1])):
            yield ["dict", d[1][:i] + d[1][i + 1:]]
        for i, (kd, vd) in enumerate(d[1]):
            for s in shrink_desc(vd):
                yield ["dict", d[1][:i] + [[kd, s]] + d[1][i + 1:]]
            if vd != ["int", 0]:
                yield ["dict", d[1][:i] + [[kd, ["int", 0]]] + d[1][i + 1:]]
    elif k == "obj":
        for i in range(len(d[2])):
            yield ["obj", d[1], d[2][:i] + d[2][i + 1:]]


# =============================================================================================
# environments and model configurations
# =============================================================================================
import gymnasium as gym  # noqa: E402
from gymnasium import spaces  # noqa: E402


class TinyEnv(gym.Env):
    """deterministic given the actions; obs kinds: box / dict / goal; act kinds: box / disc"""

    def __init__(self, obs="box", act="box", ep_len=5):
        self.obs_kind, self.act_kind, self.ep_len = obs, act, ep_len
        if obs == "box":
            self.observation_space = spaces.Box(-1, 1, (3,), np.float32)
        elif obs == "dict":
            self.observation_space = spaces.Dict({"a": spaces.Box(-1, 1, (2,), np.float32), "b": spaces.Box(-1, 1, (1,), np.float32)})
        else:
            g = spaces.Box(-1, 1, (2,), np.float32)
            self.observation_space = spaces.Dict({"observation": spaces.Box(-1, 1, (2,), np.float32), "achieved_goal": g,
                                                  "desired_goal": g})
        self.action_space = spaces.Discrete(3) if act == "disc" else spaces.Box(-1, 1, (2,), np.float32)
        self.t = 0
        self.acc = 0.0

    def _obs(self):
        x = np.float32(((self.t * 37) % 100) / 100.0 - 0.5)
        y = np.float32(np.clip(self.acc, -1, 1))
        if self.obs_kind == "box":
            return np.array([x, y, -x], np.float32)
        if self.obs_kind == "dict":
            return {"a": np.array([x, y], np.float32), "b": np.array([-x], np.float32)}
        return {"observation": np.array([x, y], np.float32), "achieved_goal": np.array([y, x], np.float32),
                "desired_goal": np.array([0.25, -0.25], np.float32)}

    def reset(self, seed=None, options=None):
        self.t = 0
        self.acc = 0.0
        return self._obs(), {}

    def compute_reward(self, achieved_goal, desired_goal, info):
        return -(np.abs(np.asarray(achieved_goal) - np.asarray(desired_goal)).sum(axis=-1) > 0.3).astype(np.float32)

    def step(self, action):
        self.t += 1
        self.acc = 0.5 * self.acc + 0.1 * float(np.sum(action))
        obs = self._obs()
        if self.obs_kind == "goal":
            rew = float(self.compute_reward(obs["achieved_goal"], obs["desired_goal"], {}))
        else:
            rew = float(np.float32(0.5 - abs(self.acc)))
        trunc = self.t >= self.ep_len
        return obs, rew, False, trunc, {}


def make_vec(cfg, n=None):
    from stable_baselines3.common.vec_env import DummyVecEnv

    n = n or cfg["n_envs"]
    act = "disc" if cfg["algo"] == "dqn" or cfg.get("disc") else "box"
    return DummyVecEnv([functools.partial(TinyEnv, cfg["obs"], act, 4 + i) for i in range(n)])


def algo_cls(name):
    import stable_baselines3 as sb3

    return {"a2c": sb3.A2C, "ppo": sb3.PPO, "dqn": sb3.DQN, "sac": sb3.SAC, "td3": sb3.TD3, "ddpg": sb3.DDPG}[name]


OFF = ("dqn", "sac", "td3", "ddpg")


def gen_cfg(rng, algo=None, her_p=0.2):
    algo = algo or rng.choice(["a2c", "ppo", "dqn", "sac", "td3", "ddpg"])
    off = algo in OFF
    her = off and rng.chance(her_p)
    obs = "goal" if her else rng.weighted([("box", 3), ("dict", 1)])
    o = {}
    if algo in ("a2c", "ppo"):
        o["disc"] = rng.chance(0.4)
        o["use_sde"] = (not o["disc"]) and rng.chance(0.3)
        o["net_arch"] = rng.choice(["list", "tuple", "dict"])
    elif algo == "dqn":
        o["net_arch"] = rng.choice(["list", "tuple"])
    else:
        o["net_arch"] = rng.choice(["list", "dict"])
        o["noise"] = rng.weighted([(None, 2), ("normal", 1), ("ou", 1)])
    if algo == "sac":
        o["use_sde"] = rng.chance(0.3)
        o["ent_coef"] = rng.choice(["auto", "auto_0.5", 0.2])
    if algo == "ppo":
        o["clip_range"] = rng.choice(["const", "lambda"])
    o["lr"] = rng.weighted([("const", 2), ("lambda", 1), ("module_fn", 1), ("np64", 1)])
    o["optimizer"] = rng.weighted([(None, 2), ("sgd", 1), ("rmsprop_kwargs", 1), ("adam_betas", 2)])
    o["activation"] = rng.choice([None, "Tanh", "ReLU"])
    o["np_gamma"] = rng.chance(0.25)
    if off:
        o["train_freq"] = rng.weighted([(None, 2), ([2, "step"], 1), ([1, "episode"], 1)])
        o["her"] = her
        if her:
            o["n_sampled_goal"] = rng.randint(1, 4)
            o["strategy"] = rng.choice(["future", "final", "episode"])
        o["memopt"] = (not her) and obs == "box" and rng.chance(0.2)
    custom = []
    for nm in rng.sample(["user_note", "user_map", "user_obj"], rng.randint(0, 2)):
        custom.append([nm, gen_val(rng, 2)])
    n_envs = rng.choice([1, 1, 2])
    if o.get("train_freq") and o["train_freq"][1] == "episode":
        n_envs = 1  # "You must use only one env when doing episodic training."
    return {"algo": algo, "obs": obs, "n_envs": n_envs, "disc": bool(o.get("disc")), "opts": o,
            "custom_attrs": custom, "seed": rng.randint(0, 10**6)}


def lr_lambda_factory():
    return lambda p: 2e-3 * p + 1e-4


def make_model(cfg, env=None):
    import torch as th
    from stable_baselines3.common.noise import NormalActionNoise, OrnsteinUhlenbeckActionNoise

    algo, o = cfg["algo"], cfg["opts"]
    cls = algo_cls(algo)
    kw = {"device": "cpu", "seed": cfg["seed"], "verbose": 0}
    pk = {}
    na = o.get("net_arch", "list")
    if na == "list":
        pk["net_arch"] = [4]
    elif na == "tuple":
        pk["net_arch"] = (4, 3)
    else:
        pk["net_arch"] = dict(pi=[4], vf=[3]) if algo in ("a2c", "ppo") else dict(pi=[4], qf=[3])
    if o.get("activation"):
        pk["activation_fn"] = getattr(th.nn, o["activation"])
    opt = o.get("optimizer")
    if opt == "sgd":
        pk["optimizer_class"] = th.optim.SGD
        pk["optimizer_kwargs"] = dict(momentum=0.5)
    elif opt == "rmsprop_kwargs":
        pk["optimizer_class"] = th.optim.RMSprop
        pk["optimizer_kwargs"] = dict(alpha=0.9, eps=1e-5)
    elif opt == "adam_betas":
        pk["optimizer_kwargs"] = dict(betas=(0.8, 0.95))
    kw["policy_kwargs"] = pk
    lr = o.get("lr", "const")
    kw["learning_rate"] = {"const": 1e-3, "lambda": lr_lambda_factory(), "module_fn": sched_module_level,
                           "np64": np.float64(2e-3)}[lr]
    if o.get("np_gamma"):
        kw["gamma"] = np.float64(0.95)
    if o.get("use_sde"):
        kw["use_sde"] = True
        kw["sde_sample_freq"] = 4
    if algo == "ppo":
        kw.update(n_steps=8, batch_size=4, n_epochs=2)
        kw["clip_range"] = 0.2 if o.get("clip_range") == "const" else (lambda p: 0.1 + 0.1 * p)
    if algo == "a2c":
        kw.update(n_steps=4)
    if algo in OFF:
        kw.update(learning_starts=4, buffer_size=40, batch_size=4)
        if o.get("train_freq"):
            kw["train_freq"] = tuple(o["train_freq"])
        if o.get("memopt"):
            kw["optimize_memory_usage"] = True
            kw["replay_buffer_kwargs"] = dict(handle_timeout_termination=False)
        if o.get("her"):
            from stable_baselines3 import HerReplayBuffer

            kw["learning_starts"] = 12  # HER cannot sample before the first episode ended
            kw["replay_buffer_class"] = HerReplayBuffer
            kw["replay_buffer_kwargs"] = dict(n_sampled_goal=o["n_sampled_goal"], goal_selection_strategy=o["strategy"])
    if algo == "dqn":
        kw.update(target_update_interval=5)
    if algo == "sac":
        kw["ent_coef"] = o["ent_coef"]
    if o.get("noise") == "normal":
        kw["action_noise"] = NormalActionNoise(np.zeros(2), 0.1 * np.ones(2))
    elif o.get("noise") == "ou":
        kw["action_noise"] = OrnsteinUhlenbeckActionNoise(np.zeros(2), 0.1 * np.ones(2))
    policy = "MlpPolicy" if cfg["obs"] == "box" else "MultiInputPolicy"
    model = cls(policy, env if env is not None else make_vec(cfg), **kw)
    for nm, vd in cfg["custom_attrs"]:
        setattr(model, nm, build(vd))
    return model


SAFE_EXCLUDE = ["ep_info_buffer", "ep_success_buffer", "_n_updates", "start_time", "tensorboard_log", "_episode_num",
                "_last_episode_starts", "_last_original_obs", "_last_obs", "action_noise", "user_note", "user_map", "gamma",
                "num_timesteps", "_total_timesteps", "_num_timesteps_at_start", "_stats_window_size", "sde_sample_freq",
                "_current_progress_remaining", "not_an_attribute"]
TRAIN_AFFECTING = {"gamma", "action_noise", "num_timesteps", "_total_timesteps", "_num_timesteps_at_start", "sde_sample_freq",
                   "_n_updates", "_current_progress_remaining", "_episode_num", "ep_info_buffer", "ep_success_buffer"}
INCLUDE_POOL = ["replay_buffer", "rollout_buffer", "_episode_storage", "_custom_logger", "_vec_normalize_env", "policy",
                "actor", "critic_target", "q_net_target", "gamma", "user_note", "ep_info_buffer", "not_an_attribute"]


def gen_excl_incl(rng, cfg):
    excl = rng.sample(SAFE_EXCLUDE, rng.weighted([(0, 3), (1, 2), (2, 2), (4, 1)]))
    incl = rng.sample(INCLUDE_POOL, rng.weighted([(0, 3), (1, 3), (2, 2)]))
    if excl and rng.chance(0.4):
        incl.append(rng.choice(excl))  # include wins over exclude
    if cfg["opts"].get("her"):
        incl = [x for x in incl if x != "replay_buffer"]
    return excl, sorted(set(incl), key=incl.index)


def gen_whole(rng, widen, algo=None):
    cfg = gen_cfg(rng, algo)
    excl, incl = gen_excl_incl(rng, cfg)
    friendly = rng.chance(0.6)  # a case on which "training continues identically" can be compared
    if friendly:
        excl = [x for x in excl if x not in TRAIN_AFFECTING]
    load_env = friendly or rng.chance(0.6) or bool(cfg["opts"].get("her"))  # HerReplayBuffer needs an env at load time (documented)
    fr = rng.chance(0.8)
    episodic = (cfg["opts"].get("train_freq") or [0, ""])[1] == "episode"
    same_n = friendly or not fr or episodic or rng.chance(0.5)
    kwargs = {} if friendly else rng.weighted([({}, 2), ({"gamma": 0.5}, 1), ({"verbose": 0, "user_extra": [1, 2]}, 1)])
    return {"kind": "whole", "cfg": cfg, "steps": rng.choice([0, 24, 24, 30]), "exclude": excl, "include": incl,
            "path": rng.choice(["bytesio", "str", "str_nosuffix", "pathlib", "pathlib_nosuffix", "file"]),
            "load_env": load_env, "force_reset": fr, "load_n_envs": cfg["n_envs"] if same_n else 3 - cfg["n_envs"],
            "kwargs": kwargs, "probe_seed": rng.randint(0, 10**6)}


# =============================================================================================
# stream: whole models (save -> archive -> load), with partition / load-provenance correspondence
# =============================================================================================
def read_archive(source):
    import torch as th

    if hasattr(source, "seek"):
        source.seek(0)
    with zipfile.ZipFile(source) as z:
        names = z.namelist()
        data_text = z.read("data").decode() if "data" in names else None
        pv = None
        if "pytorch_variables.pth" in names:
            pv = th.load(io.BytesIO(z.read("pytorch_variables.pth")), map_location="cpu", weights_only=False)
    if hasattr(source, "seek"):
        source.seek(0)
    data_keys = None
    if data_text is not None:
        data_keys = [k for k, _ in json.loads(data_text, object_pairs_hook=lambda p: p)]
    pth = [n[:-4] for n in names if n.endswith(".pth") and n != "pytorch_variables.pth"]
    return {"names": names, "data_keys": data_keys, "params": pth, "vars": sorted(pv.keys()) if pv is not None else None,
            "data_text": data_text}


def algo_op_fields(model, cfg):
    learned = cfg["algo"] == "sac" and getattr(model, "ent_coef_optimizer", None) is not None
    return {"algo": cfg["algo"], "learned": bool(learned)}


def rgetattr(obj, dotted):
    for part in dotted.split("."):
        obj = getattr(obj, part)
    return obj


def torch_state(obj):
    import torch as th

    if isinstance(obj, (th.nn.Module, th.optim.Optimizer)):
        return obj.state_dict()
    return obj


BUF_SKIP = {"env", "device"}


def attr_equal(name, a, b):
    """deq for one attribute; buffers are compared without their env/device handles"""
    from stable_baselines3.common.buffers import BaseBuffer

    if isinstance(a, BaseBuffer) and isinstance(b, BaseBuffer) and type(a) is type(b):
        da = {k: v for k, v in vars(a).items() if k not in BUF_SKIP}
        db = {k: v for k, v in vars(b).items() if k not in BUF_SKIP}
        return deq(da, db, name)
    return deq(a, b, name)


def run_whole(ctx, case):
    import torch as th

    cfg = case["cfg"]
    cls = algo_cls(cfg["algo"])
    tmp = tempfile.mkdtemp(prefix="c09_")
    r = {"viol": [], "ops": [], "checks": []}
    try:
        with warnings.catch_warnings():
            warnings.simplefilter("ignore")
            model = make_model(cfg)
            if case["steps"]:
                model.learn(case["steps"])
            orig_attrs = dict(model.__dict__)
            # ---- save ---------------------------------------------------------------------
            pk = case["path"]
            fh = None
            if pk == "bytesio":
                target = io.BytesIO()
            elif pk == "str":
                target = os.path.join(tmp, "model.zip")
            elif pk == "str_nosuffix":
                target = os.path.join(tmp, "sub", "dir", "model")
            elif pk == "pathlib":
                target = pathlib.Path(tmp) / "m.v2.zip"
            elif pk == "pathlib_nosuffix":
                target = pathlib.Path(tmp) / "model"
            else:
                fh = open(os.path.join(tmp, "f.bin"), "wb")
                target = fh
            model.save(target, exclude=case["exclude"] or None, include=case["include"] or None)
            if fh is not None:
                fh.close()
                source = open(os.path.join(tmp, "f.bin"), "rb")
            elif pk == "bytesio":
                target.seek(0)
                source = target
            else:
                source = target
            arch_src = source if hasattr(source, "read") else (str(source) if str(source).endswith(".zip") else str(source) + ".zip")
            ar = read_archive(arch_src)
            # ---- partition: correspondence op + oracle ---------------------------------------
            sd_names, tv_names = model._get_torch_save_params()
            af = algo_op_fields(model, cfg)
            r["ops"].append({"op": "partition", **af, "attrs": list(orig_attrs), "exclude": case["exclude"], "include": case["include"]})
            r["partition_impl"] = {"data": ar["data_keys"], "params": ar["params"], "vars": ar["vars"] if ar["vars"] is not None else [],
                                   "excluded": list(model._excluded_save_params()),
                                   "sd": list(sd_names), "tv": list(tv_names)}
            r["ar"] = ar
            # ---- load -----------------------------------------------------------------------
            held = {}
            orig_setup = cls._setup_model

            def spy(self):
                before = dict(self.__dict__)
                orig_setup(self)
                held["at_entry"] = list(before)
                held["rebuilt"] = [k for k, v in self.__dict__.items() if k not in before or before[k] is not v]
                held["keep"] = before

            kwargs = {k: (list(v) if isinstance(v, list) else v) for k, v in case["kwargs"].items()}
            env2 = make_vec(cfg, case["load_n_envs"]) if case["load_env"] else None
            cls._setup_model = spy
            try:
                loaded = cls.load(source, env=env2, device="cpu", force_reset=case["force_reset"], **kwargs)
            finally:
                cls._setup_model = orig_setup
            if hasattr(source, "close") and fh is not None:
                source.close()
            r["ops"].append({"op": "load", **af, "attrs": list(orig_attrs), "exclude": case["exclude"], "include": case["include"],
                             "env": case["load_env"], "force_reset": case["force_reset"], "kwargs": list(kwargs),
                             "fresh": held["at_entry"], "rebuilt": held["rebuilt"]})
            r.update(model=model, loaded=loaded, orig_attrs=orig_attrs, kwargs=kwargs, env2=env2, held=held)
            oracle_whole(ctx, case, r)
            probe_policy_kwargs_override(ctx, case, model, cls)
    finally:
        shutil.rmtree(tmp, ignore_errors=True)
    return r


def probe_policy_kwargs_override(ctx, case, model, cls):
    """`load(path, policy_kwargs=<other than the stored ones>)`: either refused, or the loaded model still IS the saved one
    (same deterministic predictions); silently building another network around the saved weights is not a reproduction of
    the model (seeded change C09-j)"""
    import io

    import torch as th

    pk = dict(getattr(model, "policy_kwargs", None) or {})
    cur = pk.get("activation_fn")
    on_policy = type(model).__name__ in ("PPO", "A2C")
    effective = cur if cur is not None else (th.nn.Tanh if on_policy else th.nn.ReLU)
    pk["activation_fn"] = th.nn.ReLU if effective is not th.nn.ReLU else th.nn.Tanh
    buf = io.BytesIO()
    try:
        model.save(buf)
    except Exception:  # noqa  (cases whose save() itself is under test)
        return
    buf.seek(0)
    ctx.report.count("whole:load_with_other_policy_kwargs")
    try:
        other = cls.load(buf, device="cpu", policy_kwargs=pk)
    except ValueError:
        return   # refused
    except Exception:  # noqa
        return
    obs = model.observation_space.sample()
    try:
        a1, _ = model.predict(obs, deterministic=True)
        a2, _ = other.predict(obs, deterministic=True)
    except Exception:  # noqa
        return
    if not np.array_equal(np.asarray(a1), np.asarray(a2)) or other.policy_kwargs.get("activation_fn") is not effective:
        ctx.report.violation("load(path, policy_kwargs=<different from the stored ones>) silently built a different network "
                             "around the saved weights", case, {"kind": "whole", "what": "policy_kwargs_override"},
                             {"stored": str(effective), "given": str(pk["activation_fn"])})


def oracle_whole(ctx, case, r):
    """the property, directly: everything not in the *named* exclusion set is equal — values and types"""
    import torch as th

    cfg = case["cfg"]
    model, loaded, orig, kwargs = r["model"], r["loaded"], r["orig_attrs"], r["kwargs"]
    excl, incl = set(case["exclude"]), set(case["include"])
    lat = loaded.__dict__
    V = r["viol"]

    def v(what, sig, detail=None):
        s = {"stream": "whole", "algo": cfg["algo"]}
        s.update(sig)
        V.append((what, s, detail))

    # 1. the archive accounts for every attribute
    ar = r["ar"]
    torch_names = set(r["partition_impl"]["sd"]) | set(r["partition_impl"]["tv"])
    tops = {n.split(".")[0] for n in torch_names}
    # the oracle's own list of what carries learned state (independent of the class's declarations)
    for n in ORACLE_TORCH[cfg["algo"]]:
        try:
            if rgetattr(model, n) is not None:
                torch_names.add(n)
        except AttributeError:
            pass
    for name in orig:
        in_data = name in ar["data_keys"]
        named = (name in excl or name in INFRA or name in ALIASES) and name not in incl
        if name in incl and name not in tops and not in_data:
            v("an attribute listed in include is not in the saved data", {"kind": "include_ignored", "attr": name})
        if not in_data and name not in tops and not named:
            v("an attribute is neither saved nor in the named exclusion set", {"kind": "attr_not_saved", "attr": name})
        if in_data and name in tops:
            v("a torch-saved member is also pickled into data", {"kind": "torch_member_in_data", "attr": name})
    for n in ("policy",):
        if n not in ar["params"]:
            v("the policy state-dict is not in the archive", {"kind": "member_missing", "attr": n})
    # 2. attributes of the loaded model
    for name, val in orig.items():
        if name in ("env", "_logger"):
            continue
        if name not in lat:
            if not ((name in excl or name in INFRA) and name not in incl):
                v("an attribute of the model does not exist after load", {"kind": "attr_missing", "attr": name})
            continue
        if name in kwargs:
            if deq(kwargs[name], lat[name]):
                v("load(**kwargs) value not applied", {"kind": "kwargs", "attr": name})
            continue
        if (name in excl or name in INFRA) and name not in incl:
            continue
        if case["load_env"] and name == "n_envs":
            if lat[name] != r["env2"].num_envs:
                v("n_envs not updated to the new environment", {"kind": "n_envs"})
            continue
        if case["load_env"] and case["force_reset"] and name == "_last_obs":
            if lat[name] is not None:
                v("_last_obs kept although force_reset", {"kind": "force_reset"})
            continue
        if name in INFRA and name != "replay_buffer":
            # saved because of `include`, but not part of what the property demands of the loaded model
            # (OnPolicyAlgorithm._setup_model always builds a new rollout buffer); the archive content is checked above
            continue
        diff = attr_equal(name, val, lat[name])
        if diff:
            v("an attribute changed through save/load", {"kind": "attr_changed", "attr": name, "vtype": type(val).__name__},
              {"diff": [list(x) for x in diff[:3]]})
    # 3. every torch-saved member
    for name in sorted(torch_names):
        try:
            a, b = torch_state(rgetattr(model, name)), torch_state(rgetattr(loaded, name))
        except AttributeError:
            v("a torch-saved member does not exist after load", {"kind": "member_missing", "attr": name})
            continue
        diff = deq(a, b, name)
        if diff:
            v("a state-dict / tensor changed through save/load", {"kind": "state_changed", "attr": name,
                                                                  "trained": bool(case["steps"])}, {"diff": [list(x) for x in diff[:3]]})
    # constructor parameters of the policy (hyper-parameters as the policy sees them: types included)
    try:
        d = deq(model.policy._get_constructor_parameters(), loaded.policy._get_constructor_parameters(), "policy.ctor")
        if d:
            v("the policy's constructor parameters changed through save/load", {"kind": "policy_ctor"}, {"diff": [list(x) for x in d[:3]]})
    except Exception:
        pass
    # 4. predictions
    rs = np.random.RandomState(case["probe_seed"])
    for i in range(20):
        obs = model.observation_space.sample()
        if isinstance(obs, dict):
            obs = {k: (rs.uniform(-1, 1, x.shape).astype(x.dtype)) for k, x in obs.items()}
        else:
            obs = rs.uniform(-1, 1, obs.shape).astype(obs.dtype)
        a1, _ = model.predict(obs, deterministic=True)
        a2, _ = loaded.predict(obs, deterministic=True)
        if deq(a1, a2):
            v("predict differs after load", {"kind": "predict"}, {"obs": str(obs), "a": str(a1), "b": str(a2)})
            break
    # snapshot for the correspondence (the models are trained further below)
    snap = {"names": sorted(lat), "same": {}, "none": {}, "kw": {}, "numenvs": {}, "torch": {}}
    for n, val in lat.items():
        if n in orig:
            snap["same"][n] = not attr_equal(n, orig[n], val)
        snap["none"][n] = val is None
        if n in kwargs:
            snap["kw"][n] = not deq(kwargs[n], val)
        snap["numenvs"][n] = r["env2"] is not None and type(val) is int and val == r["env2"].num_envs
    for n in sorted(torch_names):
        try:
            snap["torch"][n] = not deq(torch_state(rgetattr(model, n)), torch_state(rgetattr(loaded, n)))
        except AttributeError:
            snap["torch"][n] = False
    r["snap"] = snap
    # 5. set_parameters(get_parameters()) changes nothing
    import copy

    before = copy.deepcopy(loaded.get_parameters())
    loaded.set_parameters(loaded.get_parameters(), exact_match=True)
    d = deq(before, loaded.get_parameters(), "params")
    if d:
        v("set_parameters(get_parameters()) changed a parameter", {"kind": "set_get"}, {"diff": [list(x) for x in d[:3]]})
    # 6. training continues identically
    can_continue = (case["load_env"] and not kwargs and not (excl & TRAIN_AFFECTING - incl) and case["load_n_envs"] == cfg["n_envs"])
    r["continued"] = False
    if can_continue:
        envA, envB = make_vec(cfg), make_vec(cfg)
        model.set_env(envA, force_reset=True)
        loaded.set_env(envB, force_reset=True)
        if cfg["algo"] in OFF:
            bio = io.BytesIO()
            model.save_replay_buffer(bio)
            for m in (model, loaded):
                if getattr(m.replay_buffer, "env", None) is not None and cfg["opts"].get("her"):
                    m.replay_buffer.env = None
                bio.seek(0)
                m.load_replay_buffer(bio)
        for m in (model, loaded):
            m.set_random_seed(case["probe_seed"])
            m.learn(16, reset_num_timesteps=False)
        d = deq(model.get_parameters(), loaded.get_parameters(), "params_after_learn")
        d += deq([model.num_timesteps, model._n_updates], [loaded.num_timesteps, loaded._n_updates], "counters_after_learn")
        if d:
            v("training does not continue identically from the loaded model", {"kind": "continue", "trained": bool(case["steps"])},
              {"diff": [list(x) for x in d[:3]]})
        r["continued"] = True


ALIASES = {"actor", "critic", "critic_target", "actor_target", "q_net", "q_net_target"}
ORACLE_TORCH = {
    "a2c": ["policy", "policy.optimizer"], "ppo": ["policy", "policy.optimizer"], "dqn": ["policy", "policy.optimizer"],
    "sac": ["policy", "actor.optimizer", "critic.optimizer", "ent_coef_optimizer", "log_ent_coef", "ent_coef_tensor"],
    "td3": ["policy", "actor.optimizer", "critic.optimizer"], "ddpg": ["policy", "actor.optimizer", "critic.optimizer"],
}


def cmp_whole(ctx, case, r, outs):
    rep = ctx.report
    if outs[0] is None:
        return
    mp, ml = outs[0], outs[1]
    pi = r["partition_impl"]
    impl_p = {"data": pi["data"], "params": sorted(pi["params"]), "vars": sorted(pi["vars"]), "excluded": sorted(pi["excluded"]),
              "sd": sorted(pi["sd"]), "tv": sorted(pi["tv"])}
    if "error" in mp:
        rep.disagree("partition", case, impl_p, mp)
    else:
        mod_p = {"data": mp["data"], "params": sorted(mp["params"]), "vars": sorted(mp["vars"]), "excluded": sorted(mp["excluded"]),
                 "sd": sorted(mp["params"]), "tv": sorted(mp["vars"])}
        if mod_p != impl_p:
            rep.disagree("partition", case, impl_p, mod_p)
        else:
            rep.agree()
    # provenance of every attribute of the loaded model
    if "error" in ml:
        rep.disagree("load_attrs", case, "loaded", ml)
        return
    snap = r["snap"]
    names = list(r["orig_attrs"])
    mnames = [n for n, _ in ml["attrs"]]
    if sorted(mnames) != snap["names"]:
        rep.disagree("load_attrs", case, snap["names"], sorted(mnames), "attribute names of the loaded model")
        return
    for n, src in ml["attrs"]:
        ok = True
        if src.startswith("saved:"):
            ok = names[int(src[6:])] == n and snap["same"].get(n, False)
        elif src == "kwargs":
            ok = snap["kw"].get(n, False)
        elif src == "none":
            ok = snap["none"][n]
        elif src == "numenvs":
            ok = snap["numenvs"][n]
        if not ok:
            rep.disagree("load_attrs", case, {"attr": n, "equal_to_saved": snap["same"].get(n)}, {"attr": n, "source": src})
            return
    for n, src in ml["torch"]:
        if src.startswith("saved:") and not snap["torch"].get(n, False):
            rep.disagree("load_attrs", case, {"member": n, "equal": False}, {"member": n, "source": src})
            return
    rep.agree()


# =============================================================================================
# model-stream dispatch
# =============================================================================================
def gen_model_cases(ctx):
    rng = ctx.rng
    cases = []
    algos = ["a2c", "ppo", "dqn", "sac", "td3", "ddpg"]
    n = ctx.budget(120, 1200)
    start = rng.randint(0, 5)
    for i in range(n):
        cases.append(gen_whole(rng, ctx.widen, algos[(start + i) % 6]))
    for g, (q, t) in EXTRA_GENS:
        for _ in range(ctx.budget(q, t)):
            cases.append(g(rng, ctx.widen))
    return cases


EXTRA_GENS = []
RUNNERS = {}
COMPARERS = {}


def run_model_case(ctx, case, ops, plan):
    rep = ctx.report
    k = case.get("kind")
    if k == "whole":
        r = guarded(ctx, case, lambda: run_whole(ctx, case))
        cfg = case["cfg"]
        nt = bool(case["steps"])
        rep.case(case, case if nt else None)
        rep.count(f"whole:algo={cfg['algo']}")
        rep.count(f"whole:path={case['path']}")
        rep.count("whole:" + ("trained" if case["steps"] else "fresh"))
        for key in ("use_sde", "her", "memopt", "np_gamma"):
            if cfg["opts"].get(key):
                rep.count(f"whole:opt:{key}")
        for key in ("net_arch", "lr", "optimizer", "noise", "ent_coef", "clip_range", "activation"):
            if cfg["opts"].get(key) is not None:
                rep.count(f"whole:opt:{key}={cfg['opts'][key]}")
        rep.count(f"whole:obs={cfg['obs']}")
        if case["exclude"]:
            rep.count("whole:exclude")
        if case["include"]:
            rep.count("whole:include")
        if not case["load_env"]:
            rep.count("whole:load_without_env")
        if case["kwargs"]:
            rep.count("whole:load_kwargs")
        if r is None:
            return
        if r.get("continued"):
            rep.count("whole:continued_training_compared")
        for what, sig, detail in r["viol"][:1]:
            rep.violation(what, case, sig, detail)
        plan.append((case, r, len(ops), len(r["ops"])))
        ops.extend(r["ops"])
        return
    if k in RUNNERS:
        RUNNERS[k](ctx, case, ops, plan)
        return
    raise ValueError(f"unknown case kind {k}")


def cmp_model_case(ctx, case, r, outs):
    k = case["kind"]
    if k == "whole":
        cmp_whole(ctx, case, r, outs)
    else:
        COMPARERS[k](ctx, case, r, outs)


def shrink_model_case(case):
    k = case.get("kind")
    if k == "herbuf":
        sc = case["script"]
        if len(sc) > 1:
            for i in range(len(sc) - 1):
                yield dict(case, script=sc[:i] + sc[i + 1:])
        for f, val in (("path", "bytesio"), ("n_sampled_goal", 1), ("strategy", "final")):
            if case[f] != val:
                yield dict(case, **{f: val})
        return
    if k == "whole":
        for f, val in (("exclude", []), ("include", []), ("kwargs", {}), ("steps", 0), ("path", "bytesio")):
            if case[f] != val:
                c = dict(case)
                c[f] = val
                yield c
        cfg = case["cfg"]
        if cfg["custom_attrs"]:
            c = dict(case)
            c["cfg"] = dict(cfg, custom_attrs=[])
            yield c
        for key, val in cfg["opts"].items():
            if val not in (None, False, "list", "const") and key not in ("ent_coef", "disc"):
                o = dict(cfg["opts"])
                o[key] = {"net_arch": "list", "lr": "const", "clip_range": "const"}.get(key, None if not isinstance(val, bool) else False)
                if key == "her":
                    continue
                c = dict(case)
                c["cfg"] = dict(cfg, opts=o)
                yield c


# =============================================================================================
# streams on cached models: partition (exclude/include sets) and set_parameters
# =============================================================================================
_MODEL_CACHE = {}


def cached_model(cfg):
    key = json.dumps(cfg, sort_keys=True)
    if key not in _MODEL_CACHE:
        if len(_MODEL_CACHE) > 12:
            _MODEL_CACHE.clear()
        with warnings.catch_warnings():
            warnings.simplefilter("ignore")
            m = make_model(cfg)
            m.learn(16)
        _MODEL_CACHE[key] = m
    return _MODEL_CACHE[key]


_CFG_POOL = {}


def pool_cfg(rng):
    """a few configurations per chunk, so that models are built once and saved many times"""
    algo = rng.choice(["a2c", "ppo", "dqn", "sac", "td3", "ddpg"])
    slot = (algo, rng.randint(0, 1))
    if slot not in _CFG_POOL:
        _CFG_POOL[slot] = gen_cfg(rng, algo)
    return _CFG_POOL[slot]


def gen_partition(rng, widen):
    cfg = pool_cfg(rng)
    excl, incl = gen_excl_incl(rng, cfg)
    return {"kind": "partition", "cfg": cfg, "exclude": excl, "include": incl}


def run_partition(ctx, case, ops, plan):
    rep = ctx.report
    rep.case(case, case if (case["exclude"] or case["include"]) else None)

    def go():
        model = cached_model(case["cfg"])
        bio = io.BytesIO()
        with warnings.catch_warnings():
            warnings.simplefilter("ignore")
            model.save(bio, exclude=case["exclude"] or None, include=case["include"] or None)
        ar = read_archive(bio)
        sd, tv = model._get_torch_save_params()
        return {"model": model, "ar": ar, "sd": list(sd), "tv": list(tv), "excluded": list(model._excluded_save_params()),
                "attrs": list(model.__dict__)}

    r = guarded(ctx, case, go)
    if r is None:
        return
    excl, incl = set(case["exclude"]), set(case["include"])
    tops = {n.split(".")[0] for n in r["sd"] + r["tv"]}
    ar = r["ar"]
    for name in r["attrs"]:
        in_data = name in ar["data_keys"]
        named = (name in excl or name in INFRA or name in ALIASES) and name not in incl
        sig = None
        if name in incl and name not in tops and not in_data:
            sig = ("an attribute listed in include is not in the saved data", "include_ignored")
        elif not in_data and name not in tops and not named:
            sig = ("an attribute is neither saved nor in the named exclusion set", "attr_not_saved")
        elif in_data and name in tops:
            sig = ("a torch-saved member is also pickled into data", "torch_member_in_data")
        elif in_data and name in excl and name not in incl:
            sig = ("an excluded attribute is in the saved data", "exclude_ignored")
        if sig:
            rep.violation(sig[0], case, {"stream": "partition", "kind": sig[1], "attr": name, "algo": case["cfg"]["algo"]})
            break
    af = algo_op_fields(r["model"], case["cfg"])
    plan.append((case, r, len(ops), 1))
    ops.append({"op": "partition", **af, "attrs": r["attrs"], "exclude": case["exclude"], "include": case["include"]})


def cmp_partition(ctx, case, r, outs):
    rep = ctx.report
    mp = outs[0]
    if mp is None:
        return
    ar = r["ar"]
    impl = {"data": ar["data_keys"], "params": sorted(ar["params"]), "vars": sorted(ar["vars"] or []), "excluded": sorted(r["excluded"]),
            "sd": sorted(r["sd"]), "tv": sorted(r["tv"])}
    if "error" in mp:
        rep.disagree("partition", case, impl, mp)
        return
    mod = {"data": mp["data"], "params": sorted(mp["params"]), "vars": sorted(mp["vars"]), "excluded": sorted(mp["excluded"]),
           "sd": sorted(mp["params"]), "tv": sorted(mp["vars"])}
    if mod != impl:
        rep.disagree("partition", case, impl, mod)
    else:
        rep.agree()


def gen_setparams(rng, widen):
    cfg = pool_cfg(rng)
    mode = rng.weighted([("full", 3), ("drop", 3), ("extra", 1), ("unknown", 1), ("empty", 1)])
    return {"kind": "setparams", "cfg": cfg, "mode": mode, "pick": rng.randint(0, 7), "exact": rng.chance(0.6)}


def run_setparams(ctx, case, ops, plan):
    import copy

    rep = ctx.report
    rep.case(case, None)
    rep.count(f"setparams:{case['mode']}:exact={case['exact']}")

    def go():
        model = cached_model(case["cfg"])
        params = model.get_parameters()
        names = list(params)
        given = dict(params)
        if case["mode"] == "drop":
            del given[names[case["pick"] % len(names)]]
        elif case["mode"] == "extra":
            # a real object of the model that is not in the declared list
            extra = {"a2c": "policy.mlp_extractor", "ppo": "policy.mlp_extractor", "dqn": "q_net"}.get(case["cfg"]["algo"], "critic")
            given[extra] = rgetattr(model, extra).state_dict()
        elif case["mode"] == "unknown":
            given["no_such_member"] = {}
        elif case["mode"] == "empty":
            given = {}
        before = copy.deepcopy(params)
        try:
            model.set_parameters(given, exact_match=case["exact"])
            ok, exc = True, None
        except ValueError as e:
            ok, exc = False, str(e)[:80]
        after = model.get_parameters()
        have = names + [n for n in given if n not in names and n != "no_such_member"]
        return {"ok": ok, "exc": exc, "same": not deq(before, after), "names": names, "given": list(given), "have": have,
                "model": model}

    r = guarded(ctx, case, go)
    if r is None:
        return
    if not r["same"]:
        rep.violation("set_parameters with the model's own parameters changed a parameter", case,
                      {"stream": "setparams", "kind": "set_get", "mode": case["mode"]})
    if case["mode"] == "full" and not r["ok"]:
        rep.violation("set_parameters(get_parameters()) is rejected", case, {"stream": "setparams", "kind": "rejected"}, r["exc"])
    if case["mode"] in ("drop", "empty") and case["exact"] and r["ok"]:
        rep.violation("set_parameters(exact_match=True) accepts an incomplete parameter dictionary", case,
                      {"stream": "setparams", "kind": "incomplete_accepted"})
    af = algo_op_fields(r["model"], case["cfg"])
    plan.append((case, r, len(ops), 1))
    ops.append({"op": "setparams", **af, "have": r["have"], "given": r["given"], "exact": case["exact"]})


def cmp_setparams(ctx, case, r, outs):
    mo = outs[0]
    if mo is None:
        return
    if "error" in mo or mo["ok"] != r["ok"]:
        ctx.report.disagree("setparams", case, {"ok": r["ok"], "exc": r["exc"]}, mo)
    else:
        ctx.report.agree()


# =============================================================================================
# stream: paths (open_path through save_to_zip_file / load_from_zip_file / save_to_pkl / load_from_pkl)
# =============================================================================================
PATH_NAMES = ["m", "model", "m.zip", "m.pkl", "run.v2", "a/m", "a/b/model", "x.tar.gz", "deep/er/dir/m.zip", "é", "sp ace"]


def gen_path(rng, widen):
    fmt = rng.choice(["zip", "pkl"])
    p = rng.choice(PATH_NAMES)
    pre = []
    # pre-existing files (never directories): the name itself, the name with the suffix, unrelated ones
    for q in (p, f"{p}.{fmt}", "other.zip"):
        if rng.chance(0.25):
            pre.append(q)
    return {"kind": "path", "fmt": fmt, "p": p, "arg": rng.choice(["str", "pathlib", "bytesio", "file"]), "pre": pre,
            "read_arg": rng.choice(["str", "pathlib"]), "tag": rng.randint(1, 10**6)}


def _write_plain(path, fmt, tag):
    """an archive written with a file object (no path logic involved)"""
    from stable_baselines3.common.save_util import save_to_pkl, save_to_zip_file

    os.makedirs(os.path.dirname(path), exist_ok=True)
    with open(path, "wb") as f:
        if fmt == "zip":
            save_to_zip_file(f, data={"tag": tag})
        else:
            save_to_pkl(f, {"tag": tag})


def _read_plain(path, fmt):
    from stable_baselines3.common.save_util import load_from_pkl, load_from_zip_file

    with open(path, "rb") as f:
        if fmt == "zip":
            return load_from_zip_file(f)[0]["tag"]
        return load_from_pkl(f)["tag"]


def _listing(root):
    out = {}
    for dp, _, fns in os.walk(root):
        for fn in fns:
            full = os.path.join(dp, fn)
            out[os.path.relpath(full, root)] = full
    return out


def run_path(ctx, case, ops, plan):
    from stable_baselines3.common.save_util import load_from_pkl, load_from_zip_file, save_to_pkl, save_to_zip_file

    rep = ctx.report
    rep.case(case, None)
    rep.count(f"path:arg={case['arg']}")
    fmt, p, tag = case["fmt"], case["p"], case["tag"]

    def go():
        root = tempfile.mkdtemp(prefix="c09p_")
        try:
            pre_tags = {}
            for i, q in enumerate(case["pre"]):
                pre_tags[q] = -(i + 1)
                _write_plain(os.path.join(root, q), fmt, -(i + 1))
            before = {k: _read_plain(v, fmt) for k, v in _listing(root).items()}
            full = os.path.join(root, p)
            r = {"written": None, "read_tag": None, "handle": False}
            with warnings.catch_warnings():
                warnings.simplefilter("ignore")
                if case["arg"] in ("str", "pathlib"):
                    arg = full if case["arg"] == "str" else pathlib.Path(full)
                    if fmt == "zip":
                        save_to_zip_file(arg, data={"tag": tag})
                    else:
                        save_to_pkl(arg, {"tag": tag})
                    after = {k: _read_plain(v, fmt) for k, v in _listing(root).items()}
                    changed = [k for k in after if before.get(k) != after[k]]
                    r["written"] = changed
                    rarg = full if case["read_arg"] == "str" else pathlib.Path(full)
                    r["fs"] = sorted(after)
                    r["read_tag"] = load_from_zip_file(rarg)[0]["tag"] if fmt == "zip" else load_from_pkl(rarg)["tag"]
                    r["tag_of"] = after
                else:
                    if case["arg"] == "bytesio":
                        f = io.BytesIO()
                    else:
                        os.makedirs(os.path.dirname(full) or root, exist_ok=True)
                        f = open(full + ".handle", "w+b")
                    if fmt == "zip":
                        save_to_zip_file(f, data={"tag": tag})
                    else:
                        save_to_pkl(f, {"tag": tag})
                    r["closed_by_library"] = f.closed
                    if not f.closed:
                        f.seek(0)
                        r["read_tag"] = load_from_zip_file(f)[0]["tag"] if fmt == "zip" else load_from_pkl(f)["tag"]
                        r["still_open"] = not f.closed
                        f.close()
                    r["handle"] = True
                    after = {k: v for k, v in _listing(root).items() if not k.endswith(".handle")}
                    r["written"] = [k for k in after if k not in before]
            return r
        finally:
            shutil.rmtree(root, ignore_errors=True)

    r = guarded(ctx, case, go)
    if r is None:
        return
    has_suffix = pathlib.Path(p).suffix != ""
    stale = (not has_suffix) and p in case["pre"]
    if stale:
        rep.count("path:stale_suffixless_file(read not asserted)")
    if r["handle"]:
        if r.get("closed_by_library") or r["read_tag"] != tag or not r.get("still_open") or r["written"]:
            rep.violation("an open file object is not used as it is", case, {"stream": "path", "kind": "handle", "fmt": fmt}, r)
        plan.append((case, r, len(ops), 2))
        ops.append({"op": "path", "mode": "w", "kind": "file", "p": p, "has_suffix": has_suffix, "suffix": fmt, "fs": []})
        ops.append({"op": "path", "mode": "r", "kind": "file", "p": p, "has_suffix": has_suffix, "suffix": fmt, "fs": []})
        return
    if len(r["written"]) != 1:
        rep.violation("saving to a path does not write exactly one file", case, {"stream": "path", "kind": "written", "fmt": fmt},
                      {"written": r["written"]})
    elif not stale and r["read_tag"] != tag:
        rep.violation("loading the path that was saved does not give what was saved", case,
                      {"stream": "path", "kind": "read_after_write", "fmt": fmt, "has_suffix": has_suffix}, {"read": r["read_tag"]})
    plan.append((case, r, len(ops), 2))
    ops.append({"op": "path", "mode": "w", "kind": case["arg"], "p": p, "has_suffix": has_suffix, "suffix": fmt, "fs": sorted(case["pre"])})
    ops.append({"op": "path", "mode": "r", "kind": case["read_arg"], "p": p, "has_suffix": has_suffix, "suffix": fmt, "fs": r["fs"]})


def cmp_path(ctx, case, r, outs):
    rep = ctx.report
    if outs[0] is None:
        return
    if r["handle"]:
        if outs[0].get("target", 0) is not None or outs[1].get("target", 0) is not None:
            rep.disagree("path", case, "handle", outs)
        else:
            rep.agree()
        return
    w = outs[0].get("target")
    if [w] != r["written"]:
        rep.disagree("path", case, {"written": r["written"]}, outs[0])
        return
    rd = outs[1].get("target")
    if rd not in r["tag_of"] or r["tag_of"][rd] != r["read_tag"]:
        rep.disagree("path", case, {"read_tag": r["read_tag"], "tags": r["tag_of"]}, outs[1])
        return
    rep.agree()


EXTRA_GENS.extend([(gen_partition, (160, 1600)), (gen_setparams, (60, 600)), (gen_path, (120, 1200))])
RUNNERS.update(partition=run_partition, setparams=run_setparams, path=run_path)
COMPARERS.update(partition=cmp_partition, setparams=cmp_setparams, path=cmp_path)


# =============================================================================================
# stream: replay buffers saved on their own
# =============================================================================================
def gen_replay(rng, widen):
    algo = rng.choice(["dqn", "sac", "td3", "ddpg"])
    cfg = gen_cfg(rng, algo, her_p=0.45)
    cfg["custom_attrs"] = []
    her = bool(cfg["opts"].get("her"))
    return {"kind": "replay", "cfg": cfg, "steps": rng.choice([13, 18, 27, 45, 52]), "truncate": rng.chance(0.5),
            "path": rng.choice(["bytesio", "str", "str_nosuffix", "pathlib"]), "her": her}


def expected_truncation(d):
    """HerReplayBuffer.truncate_last_trajectory, from its documentation: the unfinished last episode of every env is
    closed at the current position (done, bootstrappable timeout, episode length recorded, next episode starts at pos)"""
    d = dict(d)
    pos, size = int(d["pos"]), int(d["buffer_size"])
    dones, timeouts = d["dones"].copy(), d["timeouts"].copy()
    ep_length, cur = d["ep_length"].copy(), d["_current_ep_start"].copy()
    touched = False
    for e in range(cur.shape[0]):
        start = int(cur[e])
        if start != pos:
            touched = True
            dones[pos - 1, e] = True
            end = pos if pos >= start else pos + size
            idx = np.arange(start, end) % size
            ep_length[idx, e] = end - start
            cur[e] = pos
            if d["handle_timeout_termination"]:
                timeouts[pos - 1, e] = True
    d.update(dones=dones, timeouts=timeouts, ep_length=ep_length, _current_ep_start=cur)
    return d, touched


def run_replay(ctx, case, ops, plan):
    rep = ctx.report
    cfg = case["cfg"]

    def go():
        tmp = tempfile.mkdtemp(prefix="c09r_")
        try:
            with warnings.catch_warnings():
                warnings.simplefilter("ignore")
                m1 = make_model(cfg)
                m1.learn(case["steps"])
                pk = case["path"]
                if pk == "bytesio":
                    target = io.BytesIO()
                elif pk == "str":
                    target = os.path.join(tmp, "rb.pkl")
                elif pk == "str_nosuffix":
                    target = os.path.join(tmp, "new", "rb")
                else:
                    target = pathlib.Path(tmp) / "rb"
                before = {k: (v.copy() if isinstance(v, np.ndarray) else v) for k, v in vars(m1.replay_buffer).items() if k != "env"}
                m1.save_replay_buffer(target)
                if pk == "bytesio":
                    target.seek(0)
                m2 = make_model(cfg)
                m2.load_replay_buffer(target, truncate_last_traj=case["truncate"])
                return {"b1": before, "b1_after": {k: v for k, v in vars(m1.replay_buffer).items() if k != "env"},
                        "b2": dict(vars(m2.replay_buffer)), "m2": m2, "cls": type(m2.replay_buffer).__name__,
                        "cls1": type(m1.replay_buffer).__name__}
        finally:
            shutil.rmtree(tmp, ignore_errors=True)

    r = guarded(ctx, case, go)
    if r is None:
        rep.case(case, None)
        return
    want = {k: v for k, v in r["b1"].items() if k != "device"}
    touched = False
    if case["her"] and case["truncate"]:
        want, touched = expected_truncation(want)
    rep.case(case, case if touched else None)
    rep.count(f"replay:{r['cls']}")
    if touched:
        rep.count("replay:unfinished_episode_truncated")
    got = {k: v for k, v in r["b2"].items() if k not in ("env", "device")}
    sig = {"stream": "replay", "cls": r["cls"], "truncate": bool(case["truncate"] and case["her"])}
    if r["cls"] != r["cls1"]:
        rep.violation("loaded replay buffer has another class", case, dict(sig, kind="class"))
    d = deq(want, got, "replay_buffer")
    if d:
        rep.violation("replay buffer changed through save_replay_buffer/load_replay_buffer", case, dict(sig, kind="content"),
                      {"diff": [list(x) for x in d[:4]]})
    d = deq({k: v for k, v in r["b1"].items()}, r["b1_after"], "saved_buffer")
    if d:
        rep.violation("save_replay_buffer modified the buffer it saved", case, dict(sig, kind="saver_modified"),
                      {"diff": [list(x) for x in d[:4]]})
    if case["her"] and r["b2"].get("env") is not r["m2"].env:
        rep.violation("loaded HER buffer is not bound to the model's environment", case, dict(sig, kind="env"))
    if r["b2"].get("device") != r["m2"].device:
        rep.violation("loaded buffer keeps the saved device", case, dict(sig, kind="device"))
    # model: plain pickle (nothing dropped) or HER's __getstate__ (env dropped); then env/device re-bound, truncation re-binds 4 arrays
    names = [k for k in list(r["b1"]) if k != "device"] + ["device"] + (["env"] if case["her"] else [])
    dropped = ["env"] if case["her"] else []
    rebind = ["device"] + (["env"] if case["her"] else [])
    if touched:
        rebind += ["dones", "timeouts", "ep_length", "_current_ep_start"]
    r["names"] = names
    r["same"] = {k: not deq(r["b1"].get(k), r["b2"].get(k)) for k in names if k in r["b1"]}
    plan.append((case, r, len(ops), 1))
    ops.append({"op": "state", "dropped": dropped, "attrs": names, "rebind": rebind})


def cmp_state(ctx, case, r, outs):
    rep = ctx.report
    mo = outs[0]
    if mo is None:
        return
    if "error" in mo:
        rep.disagree("state", case, "ok", mo)
        return
    got_names = sorted(k for k in r["b2"])
    if sorted(n for n, _ in mo["attrs"]) != got_names:
        rep.disagree("state", case, got_names, sorted(n for n, _ in mo["attrs"]), "attribute names after load")
        return
    for n, src in mo["attrs"]:
        if src.startswith("saved:") and not (r["names"][int(src[6:])] == n and r["same"].get(n, False)):
            rep.disagree("state", case, {"attr": n, "equal_to_saved": r["same"].get(n)}, {"attr": n, "source": src})
            return
    rep.agree()


# =============================================================================================
# stream: VecNormalize.save / load
# =============================================================================================
def gen_vecnorm(rng, widen):
    obs = rng.choice(["box", "dict", "goal"])
    keys = None
    if obs != "box" and rng.chance(0.6):
        allk = ["a", "b"] if obs == "dict" else ["observation", "achieved_goal", "desired_goal"]
        keys = rng.sample(allk, rng.randint(1, len(allk)))
    return {"kind": "vecnorm", "obs": obs, "keys": keys, "n_envs": rng.randint(1, 3), "steps": rng.choice([0, 1, 7, 20]),
            "norm_obs": rng.chance(0.8), "norm_reward": rng.chance(0.7), "clip_obs": rng.choice([10.0, 0.5, 5.0]),
            "clip_reward": rng.choice([10.0, 1.0]), "gamma": rng.choice([0.99, 0.5]), "training": rng.chance(0.8),
            "load_n_envs": rng.randint(1, 3), "seed": rng.randint(0, 10**6), "path": rng.choice(["str", "pathlib"])}


VN_DROPPED = ["venv", "class_attributes", "returns"]
VN_REBOUND = ["venv", "num_envs", "class_attributes", "render_mode", "returns"]


def run_vecnorm(ctx, case, ops, plan):
    from stable_baselines3.common.vec_env import VecNormalize

    rep = ctx.report
    rep.case(case, case if (case["steps"] and case["training"]) else None)
    rep.count(f"vecnorm:obs={case['obs']}")

    def go():
        tmp = tempfile.mkdtemp(prefix="c09v_")
        try:
            cfg = {"algo": "sac", "obs": case["obs"], "n_envs": case["n_envs"]}
            kw = dict(norm_obs=case["norm_obs"], norm_reward=case["norm_reward"], clip_obs=case["clip_obs"],
                      clip_reward=case["clip_reward"], gamma=case["gamma"], training=case["training"])
            if case["keys"] is not None and case["norm_obs"]:
                kw["norm_obs_keys"] = list(case["keys"])
            v1 = VecNormalize(make_vec(cfg), **kw)
            rs = np.random.RandomState(case["seed"])
            v1.reset()
            for _ in range(case["steps"]):
                v1.step(rs.uniform(-1, 1, (case["n_envs"], 2)).astype(np.float32))
            path = os.path.join(tmp, "vn.pkl")
            a1 = dict(vars(v1))
            v1.save(path if case["path"] == "str" else pathlib.Path(path))
            venv2 = make_vec(cfg, case["load_n_envs"])
            v2 = VecNormalize.load(path if case["path"] == "str" else pathlib.Path(path), venv2)
            probe = v1.get_original_obs()
            rew = rs.uniform(-3, 3, (case["n_envs"],))
            return {"a1": a1, "a2": dict(vars(v2)), "v2": v2, "venv2": venv2,
                    "n1": v1.normalize_obs(probe), "n2": v2.normalize_obs(probe),
                    "r1": v1.normalize_reward(rew), "r2": v2.normalize_reward(rew)}
        finally:
            shutil.rmtree(tmp, ignore_errors=True)

    r = guarded(ctx, case, go)
    if r is None:
        return
    sig = {"stream": "vecnorm", "obs": case["obs"]}
    a1, a2 = r["a1"], r["a2"]
    for k, val in a1.items():
        if k in VN_REBOUND:
            continue
        if k not in a2:
            rep.violation("a VecNormalize attribute is missing after load", case, dict(sig, kind="attr_missing", attr=k))
            break
        d = deq(val, a2[k], k)
        if d:
            rep.violation("a VecNormalize attribute changed through save/load", case, dict(sig, kind="attr_changed", attr=k),
                          {"diff": [list(x) for x in d[:3]]})
            break
    if deq(r["n1"], r["n2"]) or deq(r["r1"], r["r2"]):
        rep.violation("normalisation differs after VecNormalize.load", case, dict(sig, kind="normalize"))
    v2 = r["v2"]
    if v2.venv is not r["venv2"] or v2.num_envs != case["load_n_envs"] or deq(v2.returns, np.zeros(case["load_n_envs"])):
        rep.violation("loaded VecNormalize is not bound to the new environment", case, dict(sig, kind="rebind"))
    names = list(a1)
    r["names"], r["b2"] = names, a2
    r["same"] = {k: not deq(a1[k], a2.get(k)) for k in names}
    plan.append((case, r, len(ops), 1))
    ops.append({"op": "state", "dropped": VN_DROPPED, "attrs": names, "rebind": VN_REBOUND})


EXTRA_GENS.extend([(gen_replay, (40, 400)), (gen_vecnorm, (60, 600))])
RUNNERS.update(replay=run_replay, vecnorm=run_vecnorm)
COMPARERS.update(replay=cmp_state, vecnorm=cmp_state)


# =============================================================================================
# stream: HER buffers filled through add() with de-synchronised episode ends, saved on their own
# =============================================================================================
def gen_herbuf(rng, widen):
    n = rng.choice([2, 2, 3])
    rows = rng.randint(6, 10)
    T = rng.weighted([(rng.randint(2, rows - 1), 3), (rng.randint(rows, 2 * rows), 2)])
    script, run = [], [0] * n
    for t in range(T):
        step = []
        for e in range(n):
            run[e] += 1
            k = rng.weighted([("cont", 5), ("term", 1.5), ("trunc", 1.5)]) if run[e] < 4 else rng.choice(["term", "trunc"])
            if k != "cont":
                run[e] = 0
            step.append(k)
        script.append(step)
    if rng.chance(0.7):
        # the interesting shapes at the moment of saving: one env truly terminated on the last stored step,
        # another one mid-episode, a third one truncated / anything
        last = ["term", "cont"] + ([rng.choice(["trunc", "cont", "term"])] if n == 3 else [])
        rng.shuffle(last)
        script[-1] = last
    return {"kind": "herbuf", "n_envs": n, "rows": rows, "script": script,
            "truncate": rng.choice([True, False, "default"]), "handle_timeout": rng.chance(0.85),
            "strategy": rng.choice(["future", "final", "episode"]), "n_sampled_goal": rng.randint(1, 3),
            "path": rng.choice(["bytesio", "str", "str_nosuffix", "pathlib"]), "sample_seed": rng.randint(0, 10**6)}


def her_model(case):
    import stable_baselines3 as sb3
    from stable_baselines3 import HerReplayBuffer

    cfg = {"algo": "sac", "obs": "goal", "n_envs": case["n_envs"]}
    return sb3.SAC("MultiInputPolicy", make_vec(cfg), replay_buffer_class=HerReplayBuffer,
                   replay_buffer_kwargs=dict(n_sampled_goal=case["n_sampled_goal"], goal_selection_strategy=case["strategy"],
                                             handle_timeout_termination=case["handle_timeout"]),
                   buffer_size=case["rows"] * case["n_envs"], learning_starts=10**6, policy_kwargs=dict(net_arch=[4]),
                   device="cpu", seed=1, verbose=0)


def her_fill(buf, case):
    n = case["n_envs"]

    def obs_at(t):
        base = np.array([[(t * 8 + e * 3 + 1) / 256.0, -(t * 8 + e * 3 + 2) / 256.0] for e in range(n)], np.float32)
        return {"observation": base, "achieved_goal": base[:, ::-1].copy(), "desired_goal": np.full((n, 2), 0.25, np.float32)}

    for t, step in enumerate(case["script"]):
        done = np.array([k != "cont" for k in step])
        infos = [({"TimeLimit.truncated": True} if k == "trunc" else {}) for k in step]
        buf.add(obs_at(t), obs_at(t + 1), np.full((n, 2), (t + 1) / 64.0, np.float32),
                np.array([-(t % 3) / 2.0 for _ in range(n)], np.float32), done, infos)


def sample_fields(buf, seed, batch=16):
    np.random.seed(seed)
    s = buf.sample(batch)
    out = {"actions": s.actions.numpy(), "dones": s.dones.numpy(), "rewards": s.rewards.numpy()}
    for k, v in s.observations.items():
        out["obs." + k] = v.numpy()
    for k, v in s.next_observations.items():
        out["next." + k] = v.numpy()
    return out


def run_herbuf(ctx, case, ops, plan):
    rep = ctx.report
    trunc = case["truncate"] in (True, "default")

    def go():
        tmp = tempfile.mkdtemp(prefix="c09h_")
        try:
            with warnings.catch_warnings():
                warnings.simplefilter("ignore")
                m1 = her_model(case)
                b1 = m1.replay_buffer
                her_fill(b1, case)
                before = {k: (v.copy() if isinstance(v, np.ndarray) else ({kk: vv.copy() for kk, vv in v.items()}
                                                                          if isinstance(v, dict) and k.endswith("observations") else v))
                          for k, v in vars(b1).items() if k != "env"}
                open_envs = [int(e) for e in np.where(b1._current_ep_start != b1.pos)[0]]
                can_sample = bool((b1.ep_length > 0).any())
                s1 = sample_fields(b1, case["sample_seed"]) if can_sample else None
                pk = case["path"]
                target = (io.BytesIO() if pk == "bytesio" else os.path.join(tmp, "rb.pkl") if pk == "str"
                          else os.path.join(tmp, "d", "rb") if pk == "str_nosuffix" else pathlib.Path(tmp) / "rb")
                m1.save_replay_buffer(target)
                if pk == "bytesio":
                    target.seek(0)
                m2 = her_model(case)
                if case["truncate"] == "default":
                    m2.load_replay_buffer(target)
                else:
                    m2.load_replay_buffer(target, truncate_last_traj=case["truncate"])
                b2 = m2.replay_buffer
                same_sampling = can_sample and (not trunc or not open_envs)
                s2 = sample_fields(b2, case["sample_seed"]) if same_sampling else None
                return {"b1": before, "b2": dict(vars(b2)), "m2": m2, "open": open_envs, "s1": s1, "s2": s2,
                        "same_sampling": same_sampling, "after1": {k: v for k, v in vars(b1).items() if k != "env"}}
        finally:
            shutil.rmtree(tmp, ignore_errors=True)

    r = guarded(ctx, case, go)
    last = case["script"][-1]
    desync = "term" in last and "cont" in last
    rep.case(case, case if (trunc and desync) else None)
    rep.count(f"herbuf:n_envs={case['n_envs']}")
    rep.count(f"herbuf:truncate={case['truncate']}")
    if desync:
        rep.count("herbuf:terminated_env_next_to_open_env_at_save")
    if r is None:
        return
    if r["open"] and trunc:
        rep.count("herbuf:open_episode_truncated")
    want = {k: v for k, v in r["b1"].items() if k != "device"}
    touched = False
    if trunc:
        want, touched = expected_truncation(want)
    got = {k: v for k, v in r["b2"].items() if k not in ("env", "device")}
    sig = {"stream": "herbuf", "truncate": trunc, "open_envs": len(r["open"]), "n_envs": case["n_envs"]}
    d = deq(want, got, "replay_buffer")
    if d:
        field = d[0][0].split("[")[1].strip("'\"]") if "[" in d[0][0] else d[0][0]
        rep.violation("a HER replay buffer does not round-trip through save_replay_buffer/load_replay_buffer: outside the episode "
                      "that was open when it was saved, a stored array changed", case, dict(sig, kind="content", field=field),
                      {"diff": [list(x) for x in d[:4]], "open_envs": r["open"]})
    # the effective done flag of every transition of a finished episode (what the critic bootstraps on)
    b1, b2 = r["b1"], r["b2"]
    eff1 = b1["dones"] * (1 - b1["timeouts"])
    eff2 = b2["dones"] * (1 - b2["timeouts"])
    fin = b1["ep_length"] > 0
    if not d and not np.array_equal(eff1[fin], eff2[fin]):
        rep.violation("effective done flag of a finished episode changed", case, dict(sig, kind="effective_done"))
    if r["same_sampling"]:
        ds = deq(r["s1"], r["s2"], "sample")
        if ds:
            rep.violation("the same seeded sample differs before save / after load", case, dict(sig, kind="sample"),
                          {"diff": [list(x) for x in ds[:3]]})
        else:
            rep.count("herbuf:seeded_sample_compared")
    if deq(r["b1"], r["after1"], "saved"):
        rep.violation("save_replay_buffer modified the buffer it saved", case, dict(sig, kind="saver_modified"))
    if r["b2"].get("env") is not r["m2"].env:
        rep.violation("loaded HER buffer is not bound to the model's environment", case, dict(sig, kind="env"))
    names = [k for k in list(r["b1"]) if k != "device"] + ["device", "env"]
    rebind = ["device", "env"] + (["dones", "timeouts", "ep_length", "_current_ep_start"] if touched else [])
    r["names"] = names
    r["same"] = {k: not deq(r["b1"].get(k), r["b2"].get(k)) for k in names if k in r["b1"]}
    plan.append((case, r, len(ops), 1))
    ops.append({"op": "state", "dropped": ["env"], "attrs": names, "rebind": rebind})


EXTRA_GENS.append((gen_herbuf, (90, 900)))
RUNNERS.update(herbuf=run_herbuf)
COMPARERS.update(herbuf=cmp_state)
