/-
Model of the *seeding plumbing* of stable-baselines3 (property C10: seeded training is reproducible).

What is modelled.  Bit-identity of two training runs is a non-interference statement: the outputs of a run may
depend on the ambient state of the random generators (what the process did before, OS entropy) only through
the seed.  The model makes every generator the library can read explicit

  py        python `random`                       (seeded by `utils.set_random_seed`, utils.py:37)
  np        NumPy global `RandomState`            (utils.py:39; read by buffers.py:114,302-309,483,671,809,
                                                   her_replay_buffer.py:212,374,378, noise.py:45,88, dqn.py:245)
  torch     torch default generator               (utils.py:41; network initialisation, distributions.py
                                                   sample/rsample, gSDE `sample_weights`, td3.py:169)
  actSpace  `action_space.np_random`              (base_class.py:570; off_policy_algorithm.py:384 warm-up,
                                                   dqn.py:251/253 epsilon-greedy)
  env i     `np_random` of sub-environment `i`    (base_class.py:573 -> base_vec_env.py:308 `_seeds[i] = seed + i`
                                                   -> delivered by the next `reset`, dummy_vec_env.py:78)
  noise     the state inside the action-noise object of the configuration (`OrnsteinUhlenbeckActionNoise.noise_prev`,
            per sub-noise for `VectorizedActionNoise`): not random by itself, but it survives from whatever used
            the object before; `_setup_learn` (base_class.py:410) re-initialises it with `action_noise.reset()`
            before the first step of every `learn()`, which makes it a constant
  obsSpace  `observation_space.np_random`         never seeded by the library
  os        OS entropy (`default_rng()`, a lazily created `np_random`)   can not be seeded

as an abstract stream `(origin, position)`: the values a PRNG hands out are a function of where its state came
from (`Origin.seed s`, or `Origin.ambient a` = anything else) and how many values were taken since.  A draw
site is a transition that reads exactly one named generator; what it returns is the token
`(generator, origin, position, count)`.  Everything else a training run computes is a deterministic function
of these tokens, the configuration and the environment (that part is *measured* by the differential in
`harness/c10.py`, not modelled).

`libTrace cfg resetDraws events` is the list of seeding operations and draw sites of a whole training run of
the library for configuration `cfg`, in program order: `_setup_model` (seeding, then network initialisation),
`_setup_learn` (first `env.reset()`), then one segment per observable event of the `learn` loop.  Data
dependent choices (epsilon-greedy exploration, how often each sub-environment draws, how many gradient steps)
are arguments of the events; the theorems quantify over all of them.

`traceOK` is a static taint analysis over such a list ("every draw site reads a generator that was assigned from
the seed before"); `Props/C10.lean` proves that it is sound *and* complete for non-interference and that every
`libTrace` passes it.  The driver runs the same `traceOK`, `lowRun`, `deliveries`, `segOps` on the trace
measured from the real code.
-/
namespace SB3Verif.Seeding

/-- where the state of a generator came from -/
inductive Origin where
  | seed (s : Nat)
  | ambient (a : Nat)
  /-- re-initialised to a constant by the library (`action_noise.reset()`) -/
  | const
  deriving DecidableEq, Repr

/-- abstract PRNG state: origin and number of values taken since -/
structure Stream where
  origin : Origin
  pos : Nat
  deriving DecidableEq, Repr

inductive Gen where
  | py | np | torch | actSpace | obsSpace | os | noise
  | env (i : Nat)
  deriving DecidableEq, Repr

/-- what a draw site returns: a function of the generator's origin and position only -/
structure Draw where
  gen : Gen
  origin : Origin
  pos : Nat
  count : Nat
  deriving DecidableEq, Repr

/-- all random state a run can read; `pending i` is `VecEnv._seeds[i]` (seed handed to sub-env `i` at the next reset) -/
structure RngState where
  gens : Gen → Stream
  pending : Nat → Option Nat
  /-- `VecEnv._options[i]`: reset options handed to sub-env `i` at the next reset, as an inert payload
  (`none` = `{}`); set by `VecEnv.set_options`, typically by the env constructor before the model exists -/
  options : Nat → Option Nat

inductive Op where
  /-- `random.seed(s)`, `np.random.seed(s)`, `th.manual_seed(s)`, `action_space.seed(s)`; OS entropy can not be seeded -/
  | seed (g : Gen) (s : Nat)
  /-- `VecEnv.seed(s)`: `_seeds[i] = s + i` for the `n` sub-environments -/
  | envSeed (s n : Nat)
  /-- `VecEnv.set_options(opts)`: `_options[i] = opts[i]` (entries beyond the list: `{}`) -/
  | setOptions (opts : List (Option Nat))
  /-- `VecEnv.reset()`: sub-env `i` gets `reset(seed=_seeds[i], options=_options[i])` — BOTH, independently:
  re-seeds iff the seed is not `None`, whatever the options are — then `_seeds` and `_options` are cleared -/
  | envReset (n : Nat)
  /-- `action_noise.reset()`: the state becomes a constant (OS entropy can not be reset) -/
  | reset (g : Gen)
  /-- a draw site whose values are used: `k` values from generator `g` -/
  | draw (g : Gen) (k : Nat)
  /-- a draw whose values are thrown away (`observation_space.sample()` used for its shape, torch_layers.py:102) -/
  | discard (g : Gen) (k : Nat)
  deriving DecidableEq, Repr

def RngState.setGen (st : RngState) (g : Gen) (v : Stream) : RngState :=
  { st with gens := fun h => if h = g then v else st.gens h }

def RngState.advance (st : RngState) (g : Gen) (k : Nat) : RngState :=
  st.setGen g ⟨(st.gens g).origin, (st.gens g).pos + k⟩

/-- generators after `VecEnv.reset()` over `n` sub-environments -/
def deliver (st : RngState) (n : Nat) : Gen → Stream
  | .env i =>
    if i < n then
      match st.pending i with
      | some k => ⟨.seed k, 0⟩
      | none => st.gens (.env i)
    else st.gens (.env i)
  | g => st.gens g

def step (st : RngState) : Op → RngState × List Draw
  | .seed g s => if g = .os then (st, []) else (st.setGen g ⟨.seed s, 0⟩, [])
  | .reset g => if g = .os then (st, []) else (st.setGen g ⟨.const, 0⟩, [])
  | .envSeed s n => ({ st with pending := fun i => if i < n then some (s + i) else st.pending i }, [])
  | .setOptions opts => ({ st with options := fun i => opts.getD i none }, [])
  | .envReset n =>
    ({ gens := deliver st n, pending := fun i => if i < n then none else st.pending i,
       options := fun i => if i < n then none else st.options i }, [])
  | .draw g k => (st.advance g k, [⟨g, (st.gens g).origin, (st.gens g).pos, k⟩])
  | .discard g k => (st.advance g k, [])

/-- final state and everything the draw sites returned, in order -/
def run : List Op → RngState → RngState × List Draw
  | [], st => (st, [])
  | op :: t, st =>
    let r := step st op
    let r' := run t r.1
    (r'.1, r.2 ++ r'.2)

def outputs (t : List Op) (st : RngState) : List Draw := (run t st).2

/-- the (seed, options) pairs handed to sub-envs `0 … n-1` at each `envReset` of the trace -/
def deliveries : List Op → RngState → List (List (Option Nat × Option Nat))
  | [], _ => []
  | op :: t, st =>
    (match op with
      | .envReset n => [(List.range n).map fun i => (st.pending i, st.options i)]
      | _ => []) ++ deliveries t (step st op).1

/-! ### Static taint analysis -/

/-- what two runs from different ambient states are known to share about `pending i` -/
inductive PendK where
  | unknown   -- nothing
  | none      -- `None` in both
  | some      -- the same seed in both
  deriving DecidableEq, Repr

/-- `gens g = true`: generator `g` is in the same state in any two runs of the trace so far -/
structure Low where
  gens : Gen → Bool
  pend : Nat → PendK

/-- nothing is known about the ambient state -/
def Low.bot : Low := ⟨fun _ => false, fun _ => .unknown⟩

def lowStep (L : Low) : Op → Low
  | .seed g _ => if g = .os then L else { L with gens := fun h => if h = g then true else L.gens h }
  | .reset g => if g = .os then L else { L with gens := fun h => if h = g then true else L.gens h }
  | .envSeed _ n => { L with pend := fun i => if i < n then .some else L.pend i }
  | .setOptions _ => L
  | .envReset n =>
    { gens := fun h =>
        match h with
        | .env i =>
          if i < n then
            match L.pend i with
            | .some => true
            | .none => L.gens (.env i)
            | .unknown => false
          else L.gens (.env i)
        | g => L.gens g
      pend := fun i => if i < n then .none else L.pend i }
  | .draw _ _ => L
  | .discard _ _ => L

/-- a draw site whose values are used must read a seed-determined generator -/
def opOK (L : Low) : Op → Bool
  | .draw g _ => L.gens g
  | _ => true

def traceOK : Low → List Op → Bool
  | _, [] => true
  | L, op :: t => opOK L op && traceOK (lowStep L op) t

def lowRun : Low → List Op → Low
  | L, [] => L
  | L, op :: t => lowRun (lowStep L op) t

/-- index of the first draw site that reads a generator not determined by the seed -/
def firstBad : Low → List Op → Nat → Option Nat
  | _, [], _ => none
  | L, op :: t, i => if opOK L op then firstBad (lowStep L op) t (i + 1) else some i

/-! ### The library's draw sites -/

inductive Algo where
  | ppo | a2c | dqn | sac | td3 | ddpg
  deriving DecidableEq, Repr

def Algo.onPolicy : Algo → Bool
  | .ppo | .a2c => true
  | _ => false

inductive Noise where
  | none | normal | ou
  deriving DecidableEq, Repr

structure Cfg where
  algo : Algo
  nEnvs : Nat
  seed : Nat
  /-- `use_sde` (PPO, A2C, SAC) -/
  useSde : Bool
  /-- `sde_sample_freq`; the library's values `<= 0` ("only at the start of a rollout") are `0` here -/
  sdeFreq : Nat
  useSdeAtWarmup : Bool
  /-- action noise of SAC / TD3 / DDPG (`VectorizedActionNoise` for several envs): `np.random.normal` -/
  noise : Noise
  learningStarts : Nat
  /-- NatureCNN features extractor: `observation_space.sample()` for the shape of the flattened output -/
  cnn : Bool
  /-- the environment also draws from python `random` / the global NumPy generator -/
  envPy : Bool
  envNp : Bool
  /-- number of values taken from the torch generator by the network initialisation -/
  initDraws : Nat
  deriving Repr

/-- observable events of `learn` after `_setup_learn`; their arguments are the data-dependent facts -/
inductive Ev where
  /-- `_setup_learn` of a `learn()` call up to `env.reset()`: `action_noise.reset()` -/
  | learnStart
  /-- `collect_rollouts` up to `callback.on_rollout_start()` -/
  | rolloutStart
  /-- one iteration of the collection loop: `t = num_timesteps` before it, `k` = index in the rollout,
  `branch` = epsilon-greedy took the random action, `envDraws[i]` = draws of sub-env `i` (step + auto-reset) -/
  | step (t k : Nat) (branch : Bool) (envDraws : List Nat)
  | rolloutEnd
  /-- one `train()` call with `n` gradient steps / epochs; `single`: the replay buffer of a single env holds one
  transition (a uniform choice among one index takes no value from the generator); `branch`: the optional
  draws happened (that choice did consume values; DDPG's `normal_(0, 0)` target noise did) -/
  | train (n : Nat) (single : Bool) (branch : Bool)
  /-- `env.reset()` of a later `learn()` call -/
  | reset (envDraws : List Nat)
  | idle
  deriving Repr

/-- `set_random_seed(seed)`; `action_space.seed(seed)`; `env.seed(seed)`; then the policy is built -/
def construct (cfg : Cfg) : List Op :=
  [.seed .py cfg.seed, .seed .np cfg.seed, .seed .torch cfg.seed, .seed .actSpace cfg.seed,
   .envSeed cfg.seed cfg.nEnvs]
  ++ (if cfg.cnn then [.discard .os 1] else [])
  ++ [.draw .torch cfg.initDraws]

def perEnv (cfg : Cfg) (i k : Nat) : List Op :=
  [.draw (.env i) k] ++ (if cfg.envPy then [.draw .py k] else []) ++ (if cfg.envNp then [.draw .np k] else [])

/-- draws made by the sub-environments `i, i+1, …` (entries beyond `nEnvs` do not exist and are ignored) -/
def envDrawOps (cfg : Cfg) : Nat → List Nat → List Op
  | _, [] => []
  | i, k :: ks => if i < cfg.nEnvs then perEnv cfg i k ++ envDrawOps cfg (i + 1) ks else []

/-- gSDE: `reset_noise` = `sample_weights` = two `rsample`s -/
def sdeResample (cfg : Cfg) (k : Nat) : List Op :=
  if cfg.useSde && decide (0 < cfg.sdeFreq) && decide (k % cfg.sdeFreq = 0) then [.draw .torch 2] else []

/-- `predict(deterministic=False)` -/
def predictOps (cfg : Cfg) (branch : Bool) : List Op :=
  match cfg.algo with
  | .dqn => [.draw .np 1] ++ (if branch then [.draw .actSpace cfg.nEnvs] else [])
  | .td3 | .ddpg => []
  | .sac | .ppo | .a2c => if cfg.useSde then [] else [.draw .torch 1]

def warmup (cfg : Cfg) (t : Nat) : Bool :=
  decide (t < cfg.learningStarts) && !(cfg.useSde && cfg.useSdeAtWarmup)

/-- `action_noise()`: Gaussian noise is stateless; the Ornstein-Uhlenbeck process also reads (and moves) its
own state `noise_prev` -/
def noiseOps (cfg : Cfg) : List Op :=
  match cfg.noise with
  | .none => []
  | .normal => [.draw .np cfg.nEnvs]
  | .ou => [.draw .noise cfg.nEnvs, .draw .np cfg.nEnvs]

/-- `BaseAlgorithm._setup_learn`: `if self.action_noise is not None: self.action_noise.reset()`, for every
number of envs (several envs: after `VectorizedActionNoise` deep-copied the object, all copies are reset) -/
def learnStartOps (cfg : Cfg) : List Op :=
  match cfg.noise with
  | .none => []
  | _ => [.reset .noise]

/-- `_sample_action` (off-policy) / `policy.forward` (on-policy) -/
def actionOps (cfg : Cfg) (t : Nat) (branch : Bool) : List Op :=
  if cfg.algo.onPolicy then predictOps cfg branch
  else (if warmup cfg t then [.draw .actSpace cfg.nEnvs] else predictOps cfg branch) ++ noiseOps cfg

/-- `train()`: minibatch permutation / replay (and HER goal) sampling from `np`; SAC actor samples, gSDE
`reset_noise`, TD3 target smoothing from `torch` -/
def trainOps (cfg : Cfg) (n : Nat) (single branch : Bool) : List Op :=
  (if single && !branch then [] else [.draw .np n]) ++
  match cfg.algo with
  | .ppo | .a2c | .dqn => []
  | .sac | .td3 => [.draw .torch n]
  | .ddpg => if branch then [.draw .torch n] else []

def segOps (cfg : Cfg) : Ev → List Op
  | .learnStart => learnStartOps cfg
  | .rolloutStart => if cfg.useSde then [.draw .torch 2] else []
  | .step t k b ds => sdeResample cfg k ++ actionOps cfg t b ++ envDrawOps cfg 0 ds
  | .rolloutEnd => []
  | .train n s b => trainOps cfg n s b
  | .reset ds => [.envReset cfg.nEnvs] ++ envDrawOps cfg 0 ds
  | .idle => []

def eventsOps (cfg : Cfg) : List Ev → List Op
  | [] => []
  | e :: es => segOps cfg e ++ eventsOps cfg es

/-- `_setup_learn` of the first `learn()`: noise reset, then the first `env.reset()` -/
def firstLearn (cfg : Cfg) (resetDraws : List Nat) : List Op :=
  learnStartOps cfg ++ segOps cfg (.reset resetDraws)

/-- the whole run: `__init__`, `_setup_learn` of the first `learn()`, then the events of `learn` (later `learn()`
calls appear as `learnStart` / `reset` events) -/
def libTrace (cfg : Cfg) (resetDraws : List Nat) (evs : List Ev) : List Op :=
  construct cfg ++ (firstLearn cfg resetDraws ++ eventsOps cfg evs)

/-- generators a list of operations takes at least one value from -/
def drawnGens : List Op → List Gen
  | [] => []
  | .draw g k :: t => if k = 0 then drawnGens t else g :: drawnGens t
  | .discard g k :: t => if k = 0 then drawnGens t else g :: drawnGens t
  | _ :: t => drawnGens t

/-- an ambient state for executing the model: every generator has its own ambient origin `a` -/
def ambientState (a : Nat) (pend : Option Nat) : RngState :=
  ⟨fun _ => ⟨.ambient a, a⟩, fun _ => pend, fun _ => none⟩

/-- the same state with reset options pending (what `set_options` in the env constructor leaves behind) -/
def RngState.withOptions (st : RngState) (opts : List (Option Nat)) : RngState :=
  { st with options := fun i => opts.getD i none }

end SB3Verif.Seeding
