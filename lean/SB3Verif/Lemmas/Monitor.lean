/-
Helper lemmas for C18 (model: `SB3Verif/Model/Monitor.lean`).
-/
import SB3Verif.Model.Monitor
import Mathlib.Algebra.BigOperators.Group.Finset.Basic
import Mathlib.Tactic.Ring
import Mathlib.Tactic.Linarith
import Mathlib.Data.List.Chain
import Mathlib.Algebra.Order.Ring.Rat
import Mathlib.Tactic.FieldSimp
import Mathlib.Tactic.NormNum

set_option linter.unusedSectionVars false
set_option linter.unusedSimpArgs false
set_option linter.unusedVariables false

namespace SB3Verif.Lemmas.Mon
open SB3Verif.Monitor

variable {α : Type}

theorem openSeg_nil : openSeg ([] : List (Call α)) = [] := by simp [openSeg]

theorem openSeg_snoc (calls : List (Call α)) (c : Call α) :
    openSeg (calls ++ [c]) = if c.isOpen then openSeg calls ++ (c.rew?.toList) else [] := by
  unfold openSeg
  rw [List.reverse_append]
  simp only [List.reverse_cons, List.reverse_nil, List.nil_append, List.singleton_append, List.takeWhile_cons]
  by_cases h : c.isOpen
  · simp only [h, if_true, List.reverse_cons, List.filterMap_append]
    cases c with
    | reset => simp [Call.isOpen] at h
    | step r d => simp [Call.rew?]
  · simp [h]

theorem openSeg_snoc_reset (calls : List (Call α)) : openSeg (calls ++ [Call.reset]) = [] := by
  rw [openSeg_snoc]; simp [Call.isOpen]

theorem openSeg_snoc_open (calls : List (Call α)) (r : α) :
    openSeg (calls ++ [Call.step r false]) = openSeg calls ++ [r] := by
  rw [openSeg_snoc]; simp [Call.isOpen, Call.rew?]

theorem openSeg_snoc_done (calls : List (Call α)) (r : α) :
    openSeg (calls ++ [Call.step r true]) = [] := by
  rw [openSeg_snoc]; simp [Call.isOpen]

section sum
variable [Add α] [Zero α]
theorem pySum_nil : pySum ([] : List α) = 0 := rfl
theorem pySum_snoc (l : List α) (r : α) : pySum (l ++ [r]) = pySum l + r := by
  simp [pySum, List.foldl_append]
end sum

theorem pySum_eq_sum {β : Type} [AddMonoid β] (l : List β) : pySum l = l.sum := by
  induction l using List.reverseRecOn with
  | nil => simp [pySum]
  | append_singleton l a ih => rw [pySum_snoc, ih]; simp

/-! targets -/
theorem targets_length (N n : ℕ) : (targets N n).length = n := by simp [targets]

theorem targets_getD (N n i : ℕ) (hi : i < n) : (targets N n).getD i 0 = (N + i) / n := by
  simp [targets, List.getD_eq_getElem?_getD, hi]

theorem sum_shift (n N : ℕ) (hn : 0 < n) :
    ∑ i ∈ Finset.range n, (N + 1 + i) / n = (∑ i ∈ Finset.range n, (N + i) / n) + 1 := by
  have h1 := Finset.sum_range_succ (fun i => (N + i) / n) n
  have h2 := Finset.sum_range_succ' (fun i => (N + i) / n) n
  have h3 : (N + n) / n = N / n + 1 := Nat.add_div_right N hn
  have h4 : ∀ i, (N + (i + 1)) / n = (N + 1 + i) / n := by intro i; congr 1; omega
  simp only [h4, Nat.add_zero] at h2
  omega

theorem targets_sum_finset (N n : ℕ) (hn : 0 < n) : ∑ i ∈ Finset.range n, (N + i) / n = N := by
  induction N with
  | zero =>
    apply Finset.sum_eq_zero
    intro i hi
    simp only [Nat.zero_add]
    exact Nat.div_eq_of_lt (Finset.mem_range.mp hi)
  | succ N ih => rw [sum_shift n N hn, ih]

theorem list_sum_range_eq (f : ℕ → ℕ) (n : ℕ) : ((List.range n).map f).sum = ∑ i ∈ Finset.range n, f i := by
  induction n with
  | zero => simp
  | succ n ih => rw [List.range_succ, List.map_append, List.sum_append, ih, Finset.sum_range_succ]; simp

theorem targets_sum (N n : ℕ) (hn : 0 < n) : (targets N n).sum = N := by
  unfold targets
  rw [list_sum_range_eq, targets_sum_finset N n hn]

theorem targets_balanced (N n i : ℕ) (hi : i < n) :
    (targets N n).getD i 0 = N / n + (if n - N % n ≤ i then 1 else 0) := by
  rw [targets_getD N n i hi]
  have hn : 0 < n := by omega
  obtain ⟨q, r, hr, rfl⟩ : ∃ q r, r < n ∧ N = n * q + r :=
    ⟨N / n, N % n, Nat.mod_lt _ hn, (Nat.div_add_mod N n).symm⟩
  have hq : (n * q + r) / n = q := by rw [Nat.mul_add_div hn, Nat.div_eq_of_lt hr]; simp
  have hm : (n * q + r) % n = r := by rw [Nat.mul_add_mod, Nat.mod_eq_of_lt hr]
  rw [hq, hm, Nat.add_assoc, Nat.mul_add_div hn]
  congr 1
  split
  · rename_i h
    have h1 : r + i = n + (r + i - n) := by omega
    rw [h1, Nat.add_div_left _ hn, Nat.div_eq_of_lt (by omega)]
  · rename_i h
    exact Nat.div_eq_of_lt (by omega)


section monitor
variable [Add α] [Zero α] (cfg : MonCfg) (rnd : α → α)

theorem bindResetKw_ok (keys : List String) (kw cur : KV)
    (h : keys.all (fun k => (kvGet kw k).isSome) = true) : (bindResetKw keys kw cur).2 = true := by
  induction keys generalizing cur with
  | nil => simp [bindResetKw]
  | cons k ks ih =>
    simp only [List.all_cons, Bool.and_eq_true] at h
    obtain ⟨hk, hks⟩ := h
    unfold bindResetKw
    cases hv : kvGet kw k with
    | none => simp [hv] at hk
    | some v => simpa using ih _ hks

theorem infoExtra_ok (keys : List String) (info acc : KV)
    (h : keys.all (fun k => (kvGet info k).isSome) = true) : (infoExtra keys info acc).isSome = true := by
  induction keys generalizing acc with
  | nil => simp [infoExtra]
  | cons k ks ih =>
    simp only [List.all_cons, Bool.and_eq_true] at h
    obtain ⟨hk, hks⟩ := h
    unfold infoExtra
    cases hv : kvGet info k with
    | none => simp [hv] at hk
    | some v => simpa using ih _ hks

theorem run_nil (m : Mon α) : Mon.run cfg rnd m [] = (m, []) := rfl

theorem run_cons (m : Mon α) (op : Op α) (ops : List (Op α)) :
    Mon.run cfg rnd m (op :: ops) =
      ((Mon.run cfg rnd (m.step cfg rnd op).1 ops).1, (m.step cfg rnd op).2 :: (Mon.run cfg rnd (m.step cfg rnd op).1 ops).2) := rfl

theorem run_append (m : Mon α) (a b : List (Op α)) :
    Mon.run cfg rnd m (a ++ b) =
      ((Mon.run cfg rnd (Mon.run cfg rnd m a).1 b).1,
       (Mon.run cfg rnd m a).2 ++ (Mon.run cfg rnd (Mon.run cfg rnd m a).1 b).2) := by
  induction a generalizing m with
  | nil => simp [run_nil]
  | cons op a ih => simp [run_cons, ih]

theorem run_outs_length (m : Mon α) (ops : List (Op α)) : (Mon.run cfg rnd m ops).2.length = ops.length := by
  induction ops generalizing m with
  | nil => simp [run_nil]
  | cons op ops ih => simp [run_cons, ih]

theorem trace_nil (m : Mon α) : Mon.trace cfg rnd m [] = [] := by simp [Mon.trace]

theorem trace_cons (m : Mon α) (op : Op α) (ops : List (Op α)) :
    Mon.trace cfg rnd m (op :: ops) =
      (callOf op (m.step cfg rnd op).2).toList ++ Mon.trace cfg rnd (m.step cfg rnd op).1 ops := by
  simp only [Mon.trace, run_cons, List.zip_cons_cons, List.filterMap_cons]
  cases callOf op (m.step cfg rnd op).2 <;> simp

theorem trace_append (m : Mon α) (a b : List (Op α)) :
    Mon.trace cfg rnd m (a ++ b) = Mon.trace cfg rnd m a ++ Mon.trace cfg rnd (Mon.run cfg rnd m a).1 b := by
  induction a generalizing m with
  | nil => simp [trace_nil, run_nil]
  | cons op a ih => simp [trace_cons, run_cons, ih]

/-- `needs_reset` as determined by the history: nothing happened yet, or the last call ended an episode -/
def lastDone (calls : List (Call α)) : Bool :=
  match calls.getLast? with
  | none => true
  | some c => c.isDone

omit [Add α] [Zero α] in
theorem lastDone_snoc (calls : List (Call α)) (c : Call α) : lastDone (calls ++ [c]) = c.isDone := by
  simp [lastDone]

/-- what the monitor's state knows about the history the wrapped env has seen -/
def Inv (cfg : MonCfg) (m : Mon α) (calls : List (Call α)) : Prop :=
  (m.needsReset = false → m.rewards = openSeg calls) ∧
  (m.needsReset = lastDone calls) ∧
  (∀ c ∈ calls.head?, c = Call.reset) ∧
  calls.IsChain (fun a b => a.isDone = true → b = Call.reset) ∧
  (cfg.allowEarly = false → calls.IsChain (fun a b => b = Call.reset → a.isDone = true))

omit [Add α] [Zero α] in
theorem inv_init : Inv cfg (Mon.init : Mon α) [] := by simp [Inv, Mon.init, lastDone]

omit [Add α] [Zero α] in
theorem head?_snoc_of (calls : List (Call α)) (c : Call α) (h : ∀ x ∈ calls.head?, x = Call.reset)
    (hc : calls = [] → c = Call.reset) : ∀ x ∈ (calls ++ [c]).head?, x = Call.reset := by
  cases calls with
  | nil => simpa using hc rfl
  | cons a as => simpa using h

omit [Add α] [Zero α] in
theorem lastDone_false_ne_nil (calls : List (Call α)) (h : lastDone calls = false) : calls ≠ [] := by
  intro hc; simp [hc, lastDone] at h

omit [Add α] [Zero α] in
theorem chain_snoc (R : Call α → Call α → Prop) (calls : List (Call α)) (c : Call α)
    (h : calls.IsChain R) (hl : ∀ x ∈ calls.getLast?, R x c) : (calls ++ [c]).IsChain R := by
  apply List.IsChain.append h (by simp)
  intro x hx y hy
  simp at hy
  subst hy
  exact hl x hx

theorem inv_step (m : Mon α) (calls : List (Call α)) (op : Op α) (h : Inv cfg m calls) :
    Inv cfg (m.step cfg rnd op).1 (calls ++ (callOf op (m.step cfg rnd op).2).toList) := by
  obtain ⟨h1, h2, h3, h4, h5⟩ := h
  cases op with
  | reset kw =>
    unfold Mon.step
    by_cases hE : (!cfg.allowEarly && !m.needsReset) = true
    · simp only [hE, if_true, callOf, Option.toList, List.append_nil]
      exact ⟨h1, h2, h3, h4, h5⟩
    · by_cases hb : (bindResetKw cfg.resetKeys kw m.resetInfo).2 = true
      swap
      · -- the reset is rejected (keyword missing): rewards / needs_reset untouched, env not called
        simp only [hE, Bool.false_eq_true, if_false, hb, callOf, Option.toList, List.append_nil]
        exact ⟨h1, h2, h3, h4, h5⟩
      simp only [hE, Bool.false_eq_true, if_false, hb, if_true, callOf, Option.toList]
      refine ⟨fun _ => (openSeg_snoc_reset calls).symm, ?_, ?_, ?_, ?_⟩
      · simp [lastDone_snoc, Call.isDone]
      · exact head?_snoc_of calls _ h3 (fun _ => rfl)
      · exact chain_snoc _ calls _ h4 (fun _ _ _ => rfl)
      · intro hA
        refine chain_snoc _ calls _ (h5 hA) ?_
        intro x hx _
        have hnr : m.needsReset = true := by
          cases hm : m.needsReset with
          | true => rfl
          | false => simp [hA, hm] at hE
        rw [h2] at hnr
        simp only [lastDone] at hnr
        simp only [Option.mem_def] at hx
        rw [hx] at hnr
        exact hnr
  | step r te tr info =>
    unfold Mon.step
    by_cases hN : m.needsReset = true
    · simp only [hN, if_true, callOf, Option.toList, List.append_nil]
      exact ⟨fun h => by simp [hN] at h, by rw [← h2, hN], h3, h4, h5⟩
    · have hN' : m.needsReset = false := by simpa using hN
      have hld : lastDone calls = false := by rw [← h2]; exact hN'
      have hne := lastDone_false_ne_nil calls hld
      have hlast : ∀ x ∈ calls.getLast?, x.isDone = false := by
        intro x hx
        simp only [Option.mem_def] at hx
        simpa [lastDone, hx] using hld
      have key : ∀ (m' : Mon α) (d : Bool), m'.needsReset = d → (d = false → m'.rewards = m.rewards ++ [r]) →
          Inv cfg m' (calls ++ [Call.step r d]) := by
        intro m' d hd hr
        refine ⟨?_, ?_, ?_, ?_, ?_⟩
        · intro hf
          have hdf : d = false := by rw [← hd]; exact hf
          subst hdf
          rw [openSeg_snoc_open, hr rfl, h1 hN']
        · rw [lastDone_snoc, hd]; cases d <;> rfl
        · exact head?_snoc_of calls _ h3 (fun hc => absurd hc hne)
        · refine chain_snoc _ calls _ h4 ?_
          intro x hx hxd
          rw [hlast x hx] at hxd
          exact absurd hxd (by simp)
        · intro hA
          refine chain_snoc _ calls _ (h5 hA) ?_
          intro x _ hc
          cases hc
      simp only [hN', Bool.false_eq_true, if_false]
      by_cases hd : (te || tr) = true
      · simp only [hd, if_true]
        cases infoExtra cfg.infoKeys info [] with
        | none => simpa [callOf, hd] using key _ true rfl (by simp)
        | some ex => simpa [callOf, hd] using key _ true rfl (by simp)
      · have hd' : (te || tr) = false := by simpa using hd
        simp only [hd', Bool.false_eq_true, if_false, callOf, Option.toList]
        exact key _ false rfl (fun _ => rfl)

theorem inv_run (m : Mon α) (calls : List (Call α)) (ops : List (Op α))
    (h : Inv cfg m calls) :
    Inv cfg (Mon.run cfg rnd m ops).1 (calls ++ Mon.trace cfg rnd m ops) := by
  induction ops generalizing m calls with
  | nil => simpa [run_nil, trace_nil] using h
  | cons op ops ih =>
    rw [run_cons, trace_cons, ← List.append_assoc]
    exact ih _ _ (inv_step cfg rnd m calls op h)

/-- the answer to call `k` is the answer of the state reached after the first `k` calls -/
theorem outs_getElem? (m : Mon α) (ops : List (Op α)) (k : ℕ) (hk : k < ops.length) :
    (Mon.run cfg rnd m ops).2[k]? = some ((Mon.run cfg rnd m (ops.take k)).1.step cfg rnd ops[k]).2 := by
  induction ops generalizing m k with
  | nil => simp at hk
  | cons op ops ih =>
    cases k with
    | zero => simp [run_cons, run_nil]
    | succ k =>
      simp only [run_cons, List.getElem?_cons_succ, List.take_succ_cons, List.getElem_cons_succ]
      exact ih _ k (by simpa using hk)

/-- the only way `Monitor.step` produces an `episode` entry -/
theorem step_emits (m : Mon α) (op : Op α) (ep : EpInfo α) (h : (m.step cfg rnd op).2 = Out.stepOk (some ep)) :
    ∃ r te tr info, op = Op.step r te tr info ∧ m.needsReset = false ∧ (te || tr) = true ∧
      ep.r = rnd (pySum (m.rewards ++ [r])) ∧ ep.l = m.rewards.length + 1 := by
  cases op with
  | reset kw =>
    simp only [Mon.step] at h
    split at h
    · simp at h
    · split at h <;> simp at h
  | step r te tr info =>
    refine ⟨r, te, tr, info, rfl, ?_⟩
    simp only [Mon.step] at h
    by_cases hN : m.needsReset = true
    · simp [hN] at h
    · have hN' : m.needsReset = false := by simpa using hN
      simp only [hN', Bool.false_eq_true, if_false] at h
      by_cases hd : (te || tr) = true
      · simp only [hd, if_true] at h
        cases hx : infoExtra cfg.infoKeys info [] with
        | none => simp [hx] at h
        | some ex =>
          simp only [hx, Out.stepOk.injEq, Option.some.injEq] at h
          subst h
          exact ⟨hN', hd, rfl, by simp⟩
      · have hd' : (te || tr) = false := by simpa using hd
        simp [hd'] at h

end monitor


section monitor2
variable [Add α] [Zero α] (cfg : MonCfg) (rnd : α → α)

theorem episode_exact (ops : List (Op α)) (k : ℕ) (ep : EpInfo α)
    (hk : (Mon.run cfg rnd Mon.init ops).2[k]? = some (Out.stepOk (some ep))) :
    ∃ r te tr info, ops[k]? = some (Op.step r te tr info) ∧ (te || tr) = true ∧
      ep.r = rnd (pySum (openSeg (Mon.trace cfg rnd Mon.init (ops.take k)) ++ [r])) ∧
      ep.l = (openSeg (Mon.trace cfg rnd Mon.init (ops.take k))).length + 1 := by
  have hlen : k < ops.length := by
    have := (List.getElem?_eq_some_iff.mp hk).1
    rwa [run_outs_length] at this
  rw [outs_getElem? cfg rnd _ _ k hlen] at hk
  obtain ⟨r, te, tr, info, hop, hnr, hd, hr, hl⟩ := step_emits cfg rnd _ _ ep (Option.some.inj hk)
  have hinv := inv_run cfg rnd Mon.init [] (ops.take k) (inv_init cfg)
  rw [List.nil_append] at hinv
  have hrew := hinv.1 hnr
  refine ⟨r, te, tr, info, ?_, hd, ?_, ?_⟩
  · rw [List.getElem?_eq_getElem hlen, hop]
  · rw [hr, hrew]
  · rw [hl, hrew]

/-- the calls that reach the wrapped env respect its protocol -/
theorem protocol (ops : List (Op α)) :
    (∀ c ∈ (Mon.trace cfg rnd Mon.init ops).head?, c = Call.reset) ∧
    (Mon.trace cfg rnd Mon.init ops).IsChain (fun a b => a.isDone = true → b = Call.reset) ∧
    (cfg.allowEarly = false →
      (Mon.trace cfg rnd Mon.init ops).IsChain (fun a b => b = Call.reset → a.isDone = true)) := by
  have hinv := inv_run cfg rnd Mon.init [] ops (inv_init cfg)
  rw [List.nil_append] at hinv
  exact ⟨hinv.2.2.1, hinv.2.2.2.1, hinv.2.2.2.2⟩

theorem step_rows (m : Mon α) (op : Op α) :
    (m.step cfg rnd op).1.rows = m.rows ++ ((m.step cfg rnd op).2.ep?).toList ∧
    (m.step cfg rnd op).1.lengths = m.lengths ++ (((m.step cfg rnd op).2.ep?).toList.map (·.l)) ∧
    (m.step cfg rnd op).1.returns.map rnd = m.returns.map rnd ++ (((m.step cfg rnd op).2.ep?).toList.map (·.r)) := by
  cases op with
  | reset kw =>
    simp only [Mon.step]
    split
    · simp [Out.ep?]
    · split <;> simp [Out.ep?]
  | step r te tr info =>
    simp only [Mon.step]
    split
    · simp [Out.ep?]
    · split
      · split <;> simp [Out.ep?]
      · simp [Out.ep?]

theorem run_rows (m : Mon α) (ops : List (Op α)) :
    (Mon.run cfg rnd m ops).1.rows = m.rows ++ (Mon.run cfg rnd m ops).2.filterMap Out.ep? ∧
    (Mon.run cfg rnd m ops).1.lengths = m.lengths ++ ((Mon.run cfg rnd m ops).2.filterMap Out.ep?).map (·.l) ∧
    (Mon.run cfg rnd m ops).1.returns.map rnd =
      m.returns.map rnd ++ ((Mon.run cfg rnd m ops).2.filterMap Out.ep?).map (·.r) := by
  induction ops generalizing m with
  | nil => simp [run_nil]
  | cons op ops ih =>
    obtain ⟨h1, h2, h3⟩ := ih (m.step cfg rnd op).1
    obtain ⟨s1, s2, s3⟩ := step_rows cfg rnd m op
    rw [run_cons]
    simp only [h1, h2, h3, s1, s2, s3, List.filterMap_cons]
    cases (m.step cfg rnd op).2.ep? <;> simp

theorem step_presence (m : Mon α) (r : α) (te tr : Bool) (info : KV)
    (hinfo : (Op.step r te tr info).infoOk cfg = true) :
    ((m.step cfg rnd (Op.step r te tr info)).2 = Out.errNeedsReset ∧ m.needsReset = true) ∨
    (∃ ep, (m.step cfg rnd (Op.step r te tr info)).2 = Out.stepOk ep ∧ ep.isSome = (te || tr) ∧ m.needsReset = false) := by
  simp only [Mon.step]
  by_cases hN : m.needsReset = true
  · left; simp [hN]
  · right
    have hN' : m.needsReset = false := by simpa using hN
    simp only [hN', Bool.false_eq_true, if_false]
    by_cases hd : (te || tr) = true
    · have hx := infoExtra_ok cfg.infoKeys info [] (by simpa [Op.infoOk, hd] using hinfo)
      simp only [hd, if_true]
      cases hy : infoExtra cfg.infoKeys info [] with
      | none => simp [hy] at hx
      | some ex => simp
    · have hd' : (te || tr) = false := by simpa using hd
      simp [hd']

theorem presence (ops : List (Op α)) (k : ℕ) (r : α) (te tr : Bool) (info : KV)
    (hop : ops[k]? = some (Op.step r te tr info)) (hinfo : (Op.step r te tr info).infoOk cfg = true) :
    (Mon.run cfg rnd Mon.init ops).2[k]? = some Out.errNeedsReset ∨
    ∃ ep, (Mon.run cfg rnd Mon.init ops).2[k]? = some (Out.stepOk ep) ∧ ep.isSome = (te || tr) := by
  have hlen : k < ops.length := (List.getElem?_eq_some_iff.mp hop).1
  have hopk : ops[k] = Op.step r te tr info := by
    rw [List.getElem?_eq_getElem hlen] at hop; exact Option.some.inj hop
  rw [outs_getElem? cfg rnd _ _ k hlen, hopk]
  rcases step_presence cfg rnd (Mon.run cfg rnd Mon.init (List.take k ops)).1 r te tr info hinfo with h | ⟨ep, h, he, _⟩
  · left; rw [h.1]
  · right; exact ⟨ep, by rw [h], he⟩

end monitor2

/-! ### Why the order inside `Monitor.reset` matters (F-C18-a, fixed in /repo by 43bb017)

Before the fix `reset` cleared `self.rewards` / `needs_reset` *before* the keyword loop. `stepOld` is that
old behaviour; on the history below it reports an episode of return 2 and length 1 although the wrapped
environment saw one episode of two steps with return 3 — the invariant `Inv` does not survive a rejected
reset. (Only used for this remark: the driver and all property theorems use `Mon.step`.) -/

def stepOld [Add α] [Zero α] (cfg : MonCfg) (rnd : α → α) (m : Mon α) : Op α → Mon α × Out α
  | .reset kw =>
    if !cfg.allowEarly && !m.needsReset then (m, .errEarlyReset)
    else
      let (ri, ok) := bindResetKw cfg.resetKeys kw m.resetInfo
      ({ m with rewards := [], needsReset := false, resetInfo := ri }, if ok then .resetOk else .errMissingKw)
  | op => m.step cfg rnd op

def runOld [Add α] [Zero α] (cfg : MonCfg) (rnd : α → α) : Mon α → List (Op α) → Mon α × List (Out α)
  | m, [] => (m, [])
  | m, op :: ops =>
    let r1 := stepOld cfg rnd m op
    let r2 := runOld cfg rnd r1.1 ops
    (r2.1, r1.2 :: r2.2)

def cexCfg : MonCfg := { allowEarly := true, infoKeys := [], resetKeys := ["k"] }
def cexOps : List (Op Int) := [.reset [("k", 1)], .step 1 false false [], .reset [], .step 2 true false []]

theorem old_order_wrong : ((runOld cexCfg id Mon.init cexOps).2.filterMap Out.ep?).map (fun e => (e.r, e.l)) = [(2, 1)] := by
  decide

theorem new_order_right : ((Mon.run cexCfg id Mon.init cexOps).2.filterMap Out.ep?).map (fun e => (e.r, e.l)) = [(3, 2)] ∧
    (Mon.run cexCfg id Mon.init cexOps).2[2]? = some Out.errMissingKw ∧
    Mon.trace cexCfg id Mon.init cexOps = [.reset, .step 1 false, .step 2 true] := by
  decide

section vec
variable [Add α] [Zero α] (n : ℕ) (keys : List String)

theorem vrun_nil (v : VecMon α) : VecMon.run n keys v [] = (v, []) := rfl

theorem vrun_cons (v : VecMon α) (op : VOp α) (ops : List (VOp α)) :
    VecMon.run n keys v (op :: ops) =
      ((VecMon.run n keys (v.step n keys op).1 ops).1,
       (v.step n keys op).2 :: (VecMon.run n keys (v.step n keys op).1 ops).2) := rfl

theorem vrun_outs_length (v : VecMon α) (ops : List (VOp α)) : (VecMon.run n keys v ops).2.length = ops.length := by
  induction ops generalizing v with
  | nil => simp [vrun_nil]
  | cons op ops ih => simp [vrun_cons, ih]

theorem vouts_getElem? (v : VecMon α) (ops : List (VOp α)) (k : ℕ) (hk : k < ops.length) :
    (VecMon.run n keys v ops).2[k]? = some ((VecMon.run n keys v (ops.take k)).1.step n keys ops[k]).2 := by
  induction ops generalizing v k with
  | nil => simp at hk
  | cons op ops ih =>
    cases k with
    | zero => simp [vrun_cons, vrun_nil]
    | succ k =>
      simp only [vrun_cons, List.getElem?_cons_succ, List.take_succ_cons, List.getElem_cons_succ]
      exact ih _ k (by simpa using hk)

omit [Add α] in
theorem vtrace_snoc (i : ℕ) (ops : List (VOp α)) (op : VOp α) :
    vtrace i (ops ++ [op]) = vtrace i ops ++ vtrace i [op] := by simp [vtrace]

/-- accumulators of every env = running episode of that env according to the history -/
def VInv (v : VecMon α) (ops : List (VOp α)) : Prop :=
  v.rets = (List.range n).map (fun i => pySum (openSeg (vtrace i ops))) ∧
  v.lens = (List.range n).map (fun i => (openSeg (vtrace i ops)).length)

theorem vinv_init : VInv n (VecMon.init n : VecMon α) [] := by
  constructor
  · simp only [VecMon.init, vtrace, List.map_nil, openSeg_nil, pySum_nil]
    exact (List.map_const' ..).symm ▸ by simp
  · simp only [VecMon.init, vtrace, List.map_nil, openSeg_nil, List.length_nil]
    exact (List.map_const' ..).symm ▸ by simp

theorem vinv_getD (v : VecMon α) (ops : List (VOp α)) (h : VInv n v ops) (i : ℕ) (hi : i < n) :
    v.rets.getD i 0 = pySum (openSeg (vtrace i ops)) ∧ v.lens.getD i 0 = (openSeg (vtrace i ops)).length := by
  obtain ⟨h1, h2⟩ := h
  rw [h1, h2]
  simp [List.getD_eq_getElem?_getD, hi]

theorem vinv_step (v : VecMon α) (ops : List (VOp α)) (op : VOp α) (h : VInv n v ops) :
    VInv n (v.step n keys op).1 (ops ++ [op]) := by
  cases op with
  | reset =>
    simp only [VecMon.step, VInv, vtrace_snoc]
    constructor
    · have : ∀ i, openSeg (vtrace i ops ++ vtrace i [VOp.reset]) = ([] : List α) := by
        intro i; simpa [vtrace] using openSeg_snoc_reset (vtrace i ops)
      simp only [this, pySum_nil]
      exact (List.map_const' ..).symm ▸ by simp
    · have : ∀ i, openSeg (vtrace i ops ++ vtrace i [VOp.reset]) = ([] : List α) := by
        intro i; simpa [vtrace] using openSeg_snoc_reset (vtrace i ops)
      simp only [this, List.length_nil]
      exact (List.map_const' ..).symm ▸ by simp
  | step row =>
    simp only [VecMon.step, VInv, List.map_map]
    constructor
    · apply List.map_congr_left
      intro i hi
      have hi' : i < n := List.mem_range.mp hi
      obtain ⟨g1, g2⟩ := vinv_getD n v ops h i hi'
      simp only [Function.comp, vecEnvStep, g1, g2, vtrace_snoc]
      cases hd : (row.getD i ⟨0, false, []⟩).done with
      | true =>
        have : vtrace i [VOp.step row] = [Call.step (row.getD i ⟨0, false, []⟩).rew true] := by
          simp only [vtrace, List.map_cons, List.map_nil]; rw [hd]
        simp [this, openSeg_snoc_done, pySum_nil]
      | false =>
        have : vtrace i [VOp.step row] = [Call.step (row.getD i ⟨0, false, []⟩).rew false] := by
          simp only [vtrace, List.map_cons, List.map_nil]; rw [hd]
        simp [this, openSeg_snoc_open, pySum_snoc]
    · apply List.map_congr_left
      intro i hi
      have hi' : i < n := List.mem_range.mp hi
      obtain ⟨g1, g2⟩ := vinv_getD n v ops h i hi'
      simp only [Function.comp, vecEnvStep, g1, g2, vtrace_snoc]
      cases hd : (row.getD i ⟨0, false, []⟩).done with
      | true =>
        have : vtrace i [VOp.step row] = [Call.step (row.getD i ⟨0, false, []⟩).rew true] := by
          simp only [vtrace, List.map_cons, List.map_nil]; rw [hd]
        simp [this, openSeg_snoc_done]
      | false =>
        have : vtrace i [VOp.step row] = [Call.step (row.getD i ⟨0, false, []⟩).rew false] := by
          simp only [vtrace, List.map_cons, List.map_nil]; rw [hd]
        simp [this, openSeg_snoc_open]

theorem vinv_run (v : VecMon α) (pre ops : List (VOp α)) (h : VInv n v pre) :
    VInv n (VecMon.run n keys v ops).1 (pre ++ ops) := by
  induction ops generalizing v pre with
  | nil => simpa [vrun_nil] using h
  | cons op ops ih =>
    rw [vrun_cons]
    have := ih _ (pre ++ [op]) (vinv_step n keys v pre op h)
    simpa using this

/-- complete description of what `VecMonitor.step_wait` reports for env `i` at call `k` -/
theorem vec_episode_exact (ops : List (VOp α)) (k i : ℕ) (hi : i < n) (row : List (Raw α))
    (hop : ops[k]? = some (VOp.step row)) :
    (((VecMon.run n keys (VecMon.init n) ops).2[k]?).getD []).getD i none =
      if (row.getD i ⟨0, false, []⟩).done then
        some { r := pySum (openSeg (vtrace i (ops.take k)) ++ [(row.getD i ⟨0, false, []⟩).rew]),
               l := (openSeg (vtrace i (ops.take k))).length + 1,
               extra := (infoExtra keys (row.getD i ⟨0, false, []⟩).info []).getD [] }
      else none := by
  have hlen : k < ops.length := (List.getElem?_eq_some_iff.mp hop).1
  have hopk : ops[k] = VOp.step row := by
    rw [List.getElem?_eq_getElem hlen] at hop; exact Option.some.inj hop
  rw [vouts_getElem? n keys _ _ k hlen, hopk]
  have hinv := vinv_run n keys (VecMon.init n) [] (ops.take k) (vinv_init n)
  rw [List.nil_append] at hinv
  obtain ⟨g1, g2⟩ := vinv_getD n _ _ hinv i hi
  simp only [VecMon.step, Option.getD_some, List.map_map]
  simp only [List.getD_eq_getElem?_getD, List.getElem?_map, List.getElem?_range hi, Option.map_some,
    Option.getD_some, Function.comp]
  simp only [← List.getD_eq_getElem?_getD, g1, g2, vecEnvStep]
  split <;> simp [pySum_snoc]

theorem vstep_rows (v : VecMon α) (op : VOp α) :
    (v.step n keys op).1.rows = v.rows ++ (v.step n keys op).2.filterMap id ∧
    (v.step n keys op).1.count = v.count + ((v.step n keys op).2.filterMap id).length := by
  cases op <;> simp [VecMon.step]

theorem vrun_rows (v : VecMon α) (ops : List (VOp α)) :
    (VecMon.run n keys v ops).1.rows = v.rows ++ (VecMon.run n keys v ops).2.flatMap (fun o => o.filterMap id) ∧
    (VecMon.run n keys v ops).1.count = v.count + ((VecMon.run n keys v ops).2.flatMap (fun o => o.filterMap id)).length := by
  induction ops generalizing v with
  | nil => simp [vrun_nil]
  | cons op ops ih =>
    obtain ⟨h1, h2⟩ := ih (v.step n keys op).1
    obtain ⟨s1, s2⟩ := vstep_rows n keys v op
    rw [vrun_cons]
    simp only [h1, h2, s1, s2, List.flatMap_cons, List.length_append, List.append_assoc]
    exact ⟨trivial, by omega⟩

end vec

section evalcount
variable [Add α] [Zero α]

theorem envStep_count (mon : Bool) (tg : ℕ) (e : EnvAcc α) (o : StepOut α) :
    (envStep mon tg e o).1.count = e.count + (if (envStep mon tg e o).2.isSome then 1 else 0) ∧
    (e.count ≤ tg → (envStep mon tg e o).1.count ≤ tg) := by
  unfold envStep
  by_cases h1 : e.count < tg
  · by_cases h2 : o.done = true
    · cases mon with
      | true =>
        cases hep : o.ep with
        | none => simp [h1, h2, hep]
        | some p => simp [h1, h2, hep]; omega
      | false => simp [h1, h2]; omega
    · simp [h1, h2]
  · simp [h1]

theorem length_filterMap_eq_sum {β γ : Type} (l : List β) (g : β → Option γ) :
    (l.filterMap g).length = (l.map (fun x => if (g x).isSome then 1 else 0)).sum := by
  induction l with
  | nil => simp
  | cons a l ih =>
    simp only [List.filterMap_cons, List.map_cons, List.sum_cons]
    cases h : g a <;> simp [ih]
    omega

theorem sum_map_add_range (n : ℕ) (f g : ℕ → ℕ) :
    ((List.range n).map (fun i => f i + g i)).sum = ((List.range n).map f).sum + ((List.range n).map g).sum := by
  induction n with
  | zero => simp
  | succ n ih => simp only [List.range_succ, List.map_append, List.sum_append, ih]; simp; omega

/-- book-keeping invariant of the quota loop -/
def CountInv (n : ℕ) (tg : List ℕ) (s : EvalSt α) : Prop :=
  (∀ i, i < n → (s.envs.getD i ⟨0, 0, 0⟩).count ≤ tg.getD i 0) ∧
  s.out.length = ((List.range n).map (fun i => (s.envs.getD i ⟨0, 0, 0⟩).count)).sum

theorem countInv_init (n : ℕ) (tg : List ℕ) : CountInv n tg (EvalSt.init n : EvalSt α) := by
  constructor
  · intro i hi
    simp [EvalSt.init, List.getD_eq_getElem?_getD, List.getElem?_replicate, hi]
  · simp only [EvalSt.init, List.length_nil]
    symm
    apply List.sum_eq_zero
    intro x hx
    simp only [List.mem_map, List.mem_range] at hx
    obtain ⟨i, hi, rfl⟩ := hx
    simp [List.getD_eq_getElem?_getD, List.getElem?_replicate, hi]

theorem rowStep_envs_getD (mon : Bool) (n : ℕ) (tg : List ℕ) (s : EvalSt α) (row : List (StepOut α)) (i : ℕ) (hi : i < n) :
    (rowStep mon n tg s row).envs.getD i ⟨0, 0, 0⟩ =
      (envStep mon (tg.getD i 0) (s.envs.getD i ⟨0, 0, 0⟩) (row.getD i ⟨0, false, none⟩)).1 := by
  simp [rowStep, List.getD_eq_getElem?_getD, hi]

theorem countInv_rowStep (mon : Bool) (n : ℕ) (tg : List ℕ) (s : EvalSt α) (row : List (StepOut α))
    (h : CountInv n tg s) : CountInv n tg (rowStep mon n tg s row) := by
  obtain ⟨h1, h2⟩ := h
  constructor
  · intro i hi
    rw [rowStep_envs_getD mon n tg s row i hi]
    exact (envStep_count mon _ _ _).2 (h1 i hi)
  · have hmap : (List.range n).map (fun i => ((rowStep mon n tg s row).envs.getD i ⟨0, 0, 0⟩).count) =
        (List.range n).map (fun i => (s.envs.getD i ⟨0, 0, 0⟩).count +
          (if (envStep mon (tg.getD i 0) (s.envs.getD i ⟨0, 0, 0⟩) (row.getD i ⟨0, false, none⟩)).2.isSome then 1 else 0)) := by
      apply List.map_congr_left
      intro i hi
      rw [rowStep_envs_getD mon n tg s row i (List.mem_range.mp hi)]
      exact (envStep_count mon _ _ _).1
    rw [hmap, sum_map_add_range, ← h2]
    simp only [rowStep, List.length_append, List.filterMap_map, length_filterMap_eq_sum, Function.comp]

theorem countInv_loop (mon : Bool) (n : ℕ) (tg : List ℕ) (s : EvalSt α) (rows : List (List (StepOut α)))
    (h : CountInv n tg s) : CountInv n tg (evalLoop mon n tg s rows) := by
  induction rows generalizing s with
  | nil => simpa [evalLoop] using h
  | cons row rest ih =>
    unfold evalLoop
    split
    · exact ih _ (countInv_rowStep mon n tg s row h)
    · exact h

theorem evaluate_count (mon : Bool) (N n : ℕ) (hn : 0 < n) (rows : List (List (StepOut α)))
    (hfin : (evaluate mon N n rows).finished n (targets N n) = true) : (evaluate mon N n rows).out.length = N := by
  have hinv := countInv_loop mon n (targets N n) (EvalSt.init n) rows (countInv_init n _)
  obtain ⟨h1, h2⟩ := hinv
  change (evaluate mon N n rows).out.length = _ at h2
  rw [h2]
  have hact : ∀ i, i < n → ((evaluate mon N n rows).envs.getD i ⟨0, 0, 0⟩).count = (targets N n).getD i 0 := by
    intro i hi
    have hle := h1 i hi
    simp only [EvalSt.finished, active, Bool.not_eq_true', List.any_eq_false, List.mem_range, decide_eq_true_eq] at hfin
    have := hfin i hi
    change ((evaluate mon N n rows).envs.getD i ⟨0, 0, 0⟩).count ≤ _ at hle
    omega
  have : (List.range n).map (fun i => ((evaluate mon N n rows).envs.getD i ⟨0, 0, 0⟩).count) = targets N n := by
    unfold targets
    apply List.map_congr_left
    intro i hi
    have hi' := List.mem_range.mp hi
    rw [hact i hi', targets_getD N n i hi']
  change ((List.range n).map (fun i => ((evaluate mon N n rows).envs.getD i ⟨0, 0, 0⟩).count)).sum = N
  rw [this, targets_sum N n hn]

end evalcount

section evalspec
variable [Add α] [Zero α]

/-- number of episodes that ended in a call history -/
def dones (cs : List (Call α)) : ℕ := cs.countP Call.isDone

omit [Add α] [Zero α] in
theorem dones_nil : dones ([] : List (Call α)) = 0 := rfl

omit [Add α] [Zero α] in
theorem dones_append (a b : List (Call α)) : dones (a ++ b) = dones a + dones b := by
  simp [dones, List.countP_append]

omit [Add α] [Zero α] in
theorem dones_snoc (a : List (Call α)) (r : α) (d : Bool) :
    dones (a ++ [Call.step r d]) = dones a + (if d then 1 else 0) := by
  rw [dones_append]; cases d <;> simp [dones, Call.isDone]

omit [Add α] in
theorem colCalls_append (i : ℕ) (a b : List (List (Raw α))) : colCalls i (a ++ b) = colCalls i a ++ colCalls i b := by
  simp [colCalls]

omit [Add α] in
theorem colCalls_length (i : ℕ) (a : List (List (Raw α))) : (colCalls i a).length = a.length := by
  simp [colCalls]

/-- `specEmit` only looks at the history up to and including step `t` -/
theorem specEmit_append_left (tg : ℕ) (a b : List (Call α)) (t : ℕ) (ht : t < a.length) :
    specEmit tg (a ++ b) t = specEmit tg a t := by
  unfold specEmit
  rw [List.getElem?_append_left ht, List.take_append_of_le_length (Nat.le_of_lt ht)]

/-- at the end of the history: the new call decides -/
theorem specEmit_snoc (tg : ℕ) (a : List (Call α)) (r : α) (d : Bool) :
    specEmit tg (a ++ [Call.step r d]) a.length =
      if d = true ∧ dones a < tg then some (pySum (openSeg a ++ [r]), (openSeg a).length + 1) else none := by
  unfold specEmit
  have h1 : (a ++ [Call.step r d])[a.length]? = some (Call.step r d) := by simp
  have h2 : (a ++ [Call.step r d]).take a.length = a := by simp
  rw [h1, h2]
  cases d <;> simp [dones]

/-- once the quota is reached nothing is contributed any more -/
theorem specEmit_none_of_quota (tg : ℕ) (a b : List (Call α)) (t : ℕ) (ht : a.length ≤ t) (hq : tg ≤ dones a) :
    specEmit tg (a ++ b) t = none := by
  unfold specEmit
  have : dones a ≤ dones ((a ++ b).take t) := by
    rw [List.take_append, List.take_of_length_le ht, dones_append]
    omega
  split
  · rw [if_neg (by unfold dones at *; omega)]
  · rfl

theorem evalSpec_snoc (n : ℕ) (tg : List ℕ) (pre : List (List (Raw α))) (row : List (Raw α)) :
    evalSpec n tg (pre ++ [row]) = evalSpec n tg pre ++
      (List.range n).filterMap fun i => specEmit (tg.getD i 0) (colCalls i (pre ++ [row])) pre.length := by
  unfold evalSpec
  rw [List.length_append, List.length_singleton, List.range_succ, List.flatMap_append]
  congr 1
  · apply List.flatMap_congr
    intro t ht
    have ht' : t < pre.length := List.mem_range.mp ht
    apply List.filterMap_congr
    intro i _
    rw [colCalls_append, specEmit_append_left _ _ _ _ (by rw [colCalls_length]; exact ht')]
  · simp

theorem evalSpec_append_of_quota (n : ℕ) (tg : List ℕ) (pre rest : List (List (Raw α)))
    (hq : ∀ i, i < n → tg.getD i 0 ≤ dones (colCalls i pre)) :
    evalSpec n tg (pre ++ rest) = evalSpec n tg pre := by
  unfold evalSpec
  rw [List.length_append, List.range_add, List.flatMap_append]
  have h2 : ((List.range rest.length).map (pre.length + ·)).flatMap (fun t =>
      (List.range n).filterMap fun i => specEmit (tg.getD i 0) (colCalls i (pre ++ rest)) t) = [] := by
    rw [List.flatMap_eq_nil_iff]
    intro t ht
    simp only [List.mem_map, List.mem_range] at ht
    obtain ⟨t', _, rfl⟩ := ht
    rw [List.filterMap_eq_nil_iff]
    intro i hi
    rw [colCalls_append]
    exact specEmit_none_of_quota _ _ _ _ (by rw [colCalls_length]; omega) (hq i (List.mem_range.mp hi))
  rw [h2, List.append_nil]
  apply List.flatMap_congr
  intro t ht
  have ht' : t < pre.length := List.mem_range.mp ht
  apply List.filterMap_congr
  intro i _
  rw [colCalls_append, specEmit_append_left _ _ _ _ (by rw [colCalls_length]; exact ht')]

/-- what the accumulators of one env know about that env's history (`cs`) -/
def EInv (mon : Bool) (tg : ℕ) (e : EnvAcc α) (cs : List (Call α)) : Prop :=
  e.count = min tg (dones cs) ∧
  (mon = false → e.count < tg → e.curRet = pySum (openSeg cs) ∧ e.curLen = (openSeg cs).length)

/-- one env, one step: invariant kept, and the contribution is the specified one -/
theorem envStep_spec (mon : Bool) (f : α → α) (tg : ℕ) (e : EnvAcc α) (cs : List (Call α)) (o : StepOut α)
    (r : α) (h : EInv mon tg e cs)
    (hr : mon = false → o.rew = r)
    (hep : mon = true → o.ep = if o.done then
      some (f (pySum (openSeg cs ++ [r])), (openSeg cs).length + 1) else none) :
    EInv mon tg (envStep mon tg e o).1 (cs ++ [Call.step r o.done]) ∧
    (envStep mon tg e o).2 =
      (if o.done = true ∧ dones cs < tg then
        some ((if mon then f else id) (pySum (openSeg cs ++ [r])), (openSeg cs).length + 1) else none) := by
  obtain ⟨hc, ha⟩ := h
  obtain ⟨r', d, ep⟩ := o
  simp only at hep hr ⊢
  have hr' : mon = false → r' = r := hr
  unfold envStep
  simp only [EInv, dones_snoc]
  by_cases h1 : e.count < tg
  · have hlt : dones cs < tg := by omega
    cases d with
    | true =>
      cases mon with
      | true =>
        have hep' := hep rfl
        simp only [if_true] at hep'
        subst hep'
        simp only [h1, if_true]
        refine ⟨⟨by omega, by simp⟩, by simp [hlt]⟩
      | false =>
        obtain ⟨a1, a2⟩ := ha rfl h1
        have := hr' rfl
        subst this
        simp only [h1, if_true, Bool.false_eq_true, if_false]
        refine ⟨⟨by omega, fun _ _ => by simp [openSeg_snoc_done, pySum_nil]⟩, ?_⟩
        simp [hlt, a1, a2, pySum_snoc]
    | false =>
      simp only [h1, if_true, Bool.false_eq_true, if_false]
      refine ⟨⟨by omega, fun hm _ => ?_⟩, by simp⟩
      obtain ⟨a1, a2⟩ := ha hm h1
      have := hr' hm
      subst this
      simp [openSeg_snoc_open, pySum_snoc, a1, a2]
  · have hge : tg ≤ dones cs := by omega
    simp only [h1, if_false]
    refine ⟨⟨by split <;> omega, fun _ hlt' => hlt'.elim⟩, ?_⟩
    rw [if_neg (by omega)]

/-- the view of the raw rows that `evaluate_policy` gets: rewards and dones are the raw ones; when
`mon`, `info["episode"]` is present exactly at episode ends and holds `f` of the true return, and the
true length, of the episode that ended -/
def Sees (mon : Bool) (f : α → α) (n : ℕ) :
    List (List (Raw α)) → List (List (Raw α)) → List (List (StepOut α)) → Prop
  | _, [], [] => True
  | pre, row :: rest, srow :: seen =>
    (∀ i, i < n →
      (mon = false → (srow.getD i ⟨0, false, none⟩).rew = (row.getD i ⟨0, false, []⟩).rew) ∧
      (srow.getD i ⟨0, false, none⟩).done = (row.getD i ⟨0, false, []⟩).done ∧
      (mon = true → (srow.getD i ⟨0, false, none⟩).ep =
        if (row.getD i ⟨0, false, []⟩).done then
          some (f (pySum (openSeg (colCalls i pre) ++ [(row.getD i ⟨0, false, []⟩).rew])),
                (openSeg (colCalls i pre)).length + 1)
        else none)) ∧
    Sees mon f n (pre ++ [row]) rest seen
  | _, _, _ => False

/-- global invariant of the loop after the rows `pre` -/
def LInv (mon : Bool) (f : α → α) (n : ℕ) (tg : List ℕ) (s : EvalSt α) (pre : List (List (Raw α))) : Prop :=
  (∀ i, i < n → EInv mon (tg.getD i 0) (s.envs.getD i ⟨0, 0, 0⟩) (colCalls i pre)) ∧
  s.out = (evalSpec n tg pre).map (fun p => ((if mon then f else id) p.1, p.2)) ∧
  s.steps = pre.length

theorem linv_init (mon : Bool) (f : α → α) (n : ℕ) (tg : List ℕ) : LInv mon f n tg (EvalSt.init n : EvalSt α) [] := by
  refine ⟨?_, by simp [EvalSt.init, evalSpec], by simp [EvalSt.init]⟩
  intro i hi
  simp [EvalSt.init, List.getD_eq_getElem?_getD, hi, EInv, colCalls, dones, openSeg_nil, pySum_nil]

theorem linv_rowStep (mon : Bool) (f : α → α) (n : ℕ) (tg : List ℕ) (s : EvalSt α) (pre : List (List (Raw α)))
    (row : List (Raw α)) (srow : List (StepOut α)) (h : LInv mon f n tg s pre)
    (hs : ∀ i, i < n →
      (mon = false → (srow.getD i ⟨0, false, none⟩).rew = (row.getD i ⟨0, false, []⟩).rew) ∧
      (srow.getD i ⟨0, false, none⟩).done = (row.getD i ⟨0, false, []⟩).done ∧
      (mon = true → (srow.getD i ⟨0, false, none⟩).ep =
        if (row.getD i ⟨0, false, []⟩).done then
          some (f (pySum (openSeg (colCalls i pre) ++ [(row.getD i ⟨0, false, []⟩).rew])),
                (openSeg (colCalls i pre)).length + 1)
        else none)) :
    LInv mon f n tg (rowStep mon n tg s srow) (pre ++ [row]) := by
  obtain ⟨h1, h2, h3⟩ := h
  have hcol : ∀ i, colCalls i (pre ++ [row]) =
      colCalls i pre ++ [Call.step (row.getD i ⟨0, false, []⟩).rew (row.getD i ⟨0, false, []⟩).done] := by
    intro i; simp [colCalls]
  have key : ∀ i, i < n →
      EInv mon (tg.getD i 0) (envStep mon (tg.getD i 0) (s.envs.getD i ⟨0, 0, 0⟩) (srow.getD i ⟨0, false, none⟩)).1
        (colCalls i (pre ++ [row])) ∧
      (envStep mon (tg.getD i 0) (s.envs.getD i ⟨0, 0, 0⟩) (srow.getD i ⟨0, false, none⟩)).2 =
        (specEmit (tg.getD i 0) (colCalls i (pre ++ [row])) pre.length).map
          (fun p => ((if mon then f else id) p.1, p.2)) := by
    intro i hi
    obtain ⟨e1, e2, e3⟩ := hs i hi
    have := envStep_spec mon f (tg.getD i 0) _ (colCalls i pre) (srow.getD i ⟨0, false, none⟩)
      (row.getD i ⟨0, false, []⟩).rew (h1 i hi) e1 (by intro hm; rw [e2]; exact e3 hm)
    rw [e2] at this
    rw [hcol i]
    refine ⟨this.1, ?_⟩
    rw [this.2]
    have hl : pre.length = (colCalls i pre).length := (colCalls_length i pre).symm
    rw [hl, specEmit_snoc]
    split <;> simp
  refine ⟨?_, ?_, by simp [rowStep, h3]⟩
  · intro i hi
    rw [rowStep_envs_getD mon n tg s srow i hi]
    exact (key i hi).1
  · rw [evalSpec_snoc, List.map_append, ← h2]
    simp only [rowStep, List.filterMap_map, List.map_filterMap]
    congr 1
    apply List.filterMap_congr
    intro i hi
    simp only [Function.comp]
    rw [(key i (List.mem_range.mp hi)).2]

theorem active_iff (mon : Bool) (f : α → α) (n : ℕ) (tg : List ℕ) (s : EvalSt α) (pre : List (List (Raw α)))
    (h : LInv mon f n tg s pre) :
    active n tg s.envs = true ↔ ∃ i, i < n ∧ dones (colCalls i pre) < tg.getD i 0 := by
  simp only [active, List.any_eq_true, List.mem_range, decide_eq_true_eq]
  constructor
  · rintro ⟨i, hi, hlt⟩
    have := (h.1 i hi).1
    exact ⟨i, hi, by omega⟩
  · rintro ⟨i, hi, hlt⟩
    have := (h.1 i hi).1
    exact ⟨i, hi, by omega⟩

theorem loop_spec (mon : Bool) (f : α → α) (n : ℕ) (tg : List ℕ) (s : EvalSt α)
    (pre rest : List (List (Raw α))) (seen : List (List (StepOut α)))
    (h : LInv mon f n tg s pre) (hs : Sees mon f n pre rest seen) :
    (evalLoop mon n tg s seen).out = (evalSpec n tg (pre ++ rest)).map (fun p => ((if mon then f else id) p.1, p.2)) := by
  induction rest generalizing s pre seen with
  | nil =>
    cases seen with
    | nil => simpa [evalLoop] using h.2.1
    | cons a b => simp [Sees] at hs
  | cons row rest ih =>
    cases seen with
    | nil => simp [Sees] at hs
    | cons srow seen =>
      obtain ⟨hrow, hrest⟩ := hs
      unfold evalLoop
      by_cases hact : active n tg s.envs = true
      · rw [if_pos hact]
        have := ih (rowStep mon n tg s srow) (pre ++ [row]) seen (linv_rowStep mon f n tg s pre row srow h hrow) hrest
        simpa using this
      · rw [if_neg hact]
        have hq : ∀ i, i < n → tg.getD i 0 ≤ dones (colCalls i pre) := by
          intro i hi
          by_contra hlt
          exact hact ((active_iff mon f n tg s pre h).mpr ⟨i, hi, by omega⟩)
        rw [evalSpec_append_of_quota n tg pre _ hq]
        exact h.2.1

end evalspec

section views
variable [Add α] [Zero α]

theorem range_map_getD {β : Type} (n : ℕ) (g : ℕ → β) (d : β) (i : ℕ) (hi : i < n) :
    ((List.range n).map g).getD i d = g i := by
  simp [List.getD_eq_getElem?_getD, hi]

theorem sees_plain (f : α → α) (n : ℕ) (pre rows : List (List (Raw α))) :
    Sees false f n pre rows (plainRows n rows) := by
  induction rows generalizing pre with
  | nil => simp [plainRows, Sees]
  | cons row rest ih =>
    simp only [plainRows, List.map_cons, Sees]
    refine ⟨?_, ih (pre ++ [row])⟩
    intro i hi
    rw [range_map_getD n _ _ i hi]
    simp

omit [Add α] in
theorem vtrace_steps (i : ℕ) (pre : List (List (Raw α))) : vtrace i (pre.map VOp.step) = colCalls i pre := by
  simp [vtrace, colCalls]

theorem sees_vecmon (n : ℕ) (v : VecMon α) (pre rows : List (List (Raw α))) (hv : VInv n v (pre.map VOp.step)) :
    Sees true id n pre rows (throughVecMon n v rows) := by
  induction rows generalizing v pre with
  | nil => simp [throughVecMon, Sees]
  | cons row rest ih =>
    simp only [throughVecMon, Sees]
    refine ⟨?_, ih _ (pre ++ [row]) (by simpa using vinv_step n [] v (pre.map VOp.step) (VOp.step row) hv)⟩
    intro i hi
    rw [range_map_getD n _ _ i hi]
    refine ⟨fun _ => rfl, rfl, fun _ => ?_⟩
    obtain ⟨g1, g2⟩ := vinv_getD n v _ hv i hi
    rw [vtrace_steps] at g1 g2
    simp only [VecMon.step, List.map_map]
    rw [range_map_getD n _ _ i hi]
    simp only [Function.comp, vecEnvStep, g1, g2]
    split <;> simp [pySum_snoc]

/-- a `Monitor` inside a `DummyVecEnv` between two vectorised steps: reset, and it has recorded the
running episode -/
def MInv (m : Mon α) (cs : List (Call α)) : Prop := m.needsReset = false ∧ m.rewards = openSeg cs

theorem minv_fresh (cfg : MonCfg) (rnd : α → α) (hk : cfg.resetKeys = []) : MInv (Mon.fresh cfg rnd) ([] : List (Call α)) := by
  simp [MInv, Mon.fresh, Mon.step, Mon.init, hk, bindResetKw, openSeg_nil]

theorem monAutoStep_spec (cfg : MonCfg) (rnd : α → α) (hk : cfg.resetKeys = []) (m : Mon α) (cs : List (Call α))
    (o : Raw α) (h : MInv m cs) (hinfo : o.done = true → cfg.infoKeys.all (fun k => (kvGet o.info k).isSome) = true) :
    MInv (monAutoStep cfg rnd m o).1 (cs ++ [Call.step o.rew o.done]) ∧
    (monAutoStep cfg rnd m o).2 = (⟨o.rew, o.done,
      if o.done then some (rnd (pySum (openSeg cs ++ [o.rew])), (openSeg cs).length + 1) else none⟩ : StepOut α) := by
  obtain ⟨h1, h2⟩ := h
  obtain ⟨r, d, info⟩ := o
  simp only at hinfo ⊢
  cases d with
  | false =>
    simp [monAutoStep, Mon.step, h1, MInv, h2, openSeg_snoc_open, Out.ep?]
  | true =>
    have hx := infoExtra_ok cfg.infoKeys info [] (hinfo rfl)
    cases hy : infoExtra cfg.infoKeys info [] with
    | none => simp [hy] at hx
    | some ex =>
      simp [monAutoStep, Mon.step, h1, MInv, h2, openSeg_snoc_done, Out.ep?, hy, hk, bindResetKw]

theorem sees_monitors (cfg : MonCfg) (rnd : α → α) (hk : cfg.resetKeys = []) (n : ℕ) (ms : List (Mon α))
    (pre rows : List (List (Raw α)))
    (hm : ∀ i, i < n → MInv (ms.getD i Mon.init) (colCalls i pre))
    (hinfo : ∀ row ∈ rows, ∀ i, i < n → (row.getD i ⟨0, false, []⟩).done = true →
      cfg.infoKeys.all (fun k => (kvGet (row.getD i ⟨0, false, []⟩).info k).isSome) = true) :
    Sees true rnd n pre rows (throughMonitors cfg rnd n ms rows) := by
  induction rows generalizing ms pre with
  | nil => simp [throughMonitors, Sees]
  | cons row rest ih =>
    simp only [throughMonitors, Sees]
    have key : ∀ i, i < n → _ := fun i hi =>
      monAutoStep_spec cfg rnd hk (ms.getD i Mon.init) (colCalls i pre) (row.getD i ⟨0, false, []⟩) (hm i hi)
        (hinfo row (by simp) i hi)
    refine ⟨?_, ih _ (pre ++ [row]) ?_ (fun r hr => hinfo r (by simp [hr]))⟩
    · intro i hi
      rw [List.map_map, range_map_getD n _ _ i hi]
      simp only [Function.comp]
      rw [(key i hi).2]
      exact ⟨fun _ => rfl, rfl, fun _ => rfl⟩
    · intro i hi
      rw [List.map_map, range_map_getD n _ _ i hi]
      simp only [Function.comp]
      have : colCalls i (pre ++ [row]) =
          colCalls i pre ++ [Call.step (row.getD i ⟨0, false, []⟩).rew (row.getD i ⟨0, false, []⟩).done] := by
        simp [colCalls]
      rw [this]
      exact (key i hi).1

/-! final statements about `evaluate` -/

theorem evaluate_plain (N n : ℕ) (rows : List (List (Raw α))) :
    (evaluate false N n (plainRows n rows)).out = evalSpec n (targets N n) rows := by
  have := loop_spec false id n (targets N n) (EvalSt.init n) [] rows (plainRows n rows)
    (linv_init false id n _) (sees_plain id n [] rows)
  simpa [evaluate] using this

theorem evaluate_vecmon (N n : ℕ) (rows : List (List (Raw α))) :
    (evaluate true N n (throughVecMon n (VecMon.init n) rows)).out = evalSpec n (targets N n) rows := by
  have := loop_spec true id n (targets N n) (EvalSt.init n) [] rows (throughVecMon n (VecMon.init n) rows)
    (linv_init true id n _) (sees_vecmon n (VecMon.init n) [] rows (by simpa using vinv_init n))
  simpa [evaluate] using this

theorem evaluate_monitors (cfg : MonCfg) (rnd : α → α) (hk : cfg.resetKeys = []) (N n : ℕ) (rows : List (List (Raw α)))
    (hinfo : ∀ row ∈ rows, ∀ i, i < n → (row.getD i ⟨0, false, []⟩).done = true →
      cfg.infoKeys.all (fun k => (kvGet (row.getD i ⟨0, false, []⟩).info k).isSome) = true) :
    (evaluate true N n (throughMonitors cfg rnd n (List.replicate n (Mon.fresh cfg rnd)) rows)).out =
      (evalSpec n (targets N n) rows).map (fun p => (rnd p.1, p.2)) := by
  have hm : ∀ i, i < n → MInv ((List.replicate n (Mon.fresh cfg rnd)).getD i Mon.init) (colCalls i ([] : List (List (Raw α)))) := by
    intro i hi
    simp only [List.getD_eq_getElem?_getD, List.getElem?_replicate, hi, if_true, Option.getD_some, colCalls, List.map_nil]
    exact minv_fresh cfg rnd hk
  have := loop_spec true rnd n (targets N n) (EvalSt.init n) [] rows _
    (linv_init true rnd n _) (sees_monitors cfg rnd hk n _ [] rows hm hinfo)
  simpa [evaluate] using this

end views

section steps
variable [Add α] [Zero α]

/-- how far the loop runs: `k` more rows, every one of them needed, and it stops early only when done -/
theorem loop_steps (mon : Bool) (f : α → α) (n : ℕ) (tg : List ℕ) (s : EvalSt α)
    (pre rest : List (List (Raw α))) (seen : List (List (StepOut α)))
    (h : LInv mon f n tg s pre) (hs : Sees mon f n pre rest seen) :
    ∃ k, k ≤ rest.length ∧ LInv mon f n tg (evalLoop mon n tg s seen) (pre ++ rest.take k) ∧
      (k < rest.length → active n tg (evalLoop mon n tg s seen).envs = false) ∧
      (∀ j, j < k → ∃ i, i < n ∧ dones (colCalls i (pre ++ rest.take j)) < tg.getD i 0) := by
  induction rest generalizing s pre seen with
  | nil =>
    cases seen with
    | nil => exact ⟨0, by simp, by simpa [evalLoop] using h, by simp, by simp⟩
    | cons a b => simp [Sees] at hs
  | cons row rest ih =>
    cases seen with
    | nil => simp [Sees] at hs
    | cons srow seen =>
      obtain ⟨hrow, hrest⟩ := hs
      unfold evalLoop
      by_cases hact : active n tg s.envs = true
      · rw [if_pos hact]
        obtain ⟨k, hk, hinv, hstop, hneed⟩ :=
          ih (rowStep mon n tg s srow) (pre ++ [row]) seen (linv_rowStep mon f n tg s pre row srow h hrow) hrest
        refine ⟨k + 1, by simpa using hk, by simpa using hinv, ?_, ?_⟩
        · intro hlt; exact hstop (by simpa using hlt)
        · intro j hj
          cases j with
          | zero => simpa using (active_iff mon f n tg s pre h).mp hact
          | succ j => simpa using hneed j (by omega)
      · rw [if_neg hact]
        exact ⟨0, by simp, by simpa using h, fun _ => by simpa using hact, by simp⟩

theorem sees_length (mon : Bool) (f : α → α) (n : ℕ) (pre rest : List (List (Raw α))) (seen : List (List (StepOut α)))
    (hs : Sees mon f n pre rest seen) : seen.length = rest.length := by
  induction rest generalizing pre seen with
  | nil => cases seen with
    | nil => rfl
    | cons a b => simp [Sees] at hs
  | cons row rest ih => cases seen with
    | nil => simp [Sees] at hs
    | cons srow seen => simp [ih _ _ hs.2]

/-- `evaluate_policy` steps the environments exactly as long as some environment is below its quota -/
theorem evaluate_steps_of_sees (mon : Bool) (f : α → α) (N n : ℕ) (rows : List (List (Raw α)))
    (seen : List (List (StepOut α))) (hs : Sees mon f n [] rows seen) :
    (evaluate mon N n seen).steps ≤ rows.length ∧
    (∀ j, j < (evaluate mon N n seen).steps →
      ∃ i, i < n ∧ dones (colCalls i (rows.take j)) < (targets N n).getD i 0) ∧
    ((evaluate mon N n seen).finished n (targets N n) = true ↔
      ∀ i, i < n → (targets N n).getD i 0 ≤ dones (colCalls i (rows.take (evaluate mon N n seen).steps))) ∧
    ((evaluate mon N n seen).steps < rows.length → (evaluate mon N n seen).finished n (targets N n) = true) := by
  obtain ⟨k, hk, hinv, hstop, hneed⟩ :=
    loop_steps mon f n (targets N n) (EvalSt.init n) [] rows seen (linv_init mon f n _) hs
  simp only [List.nil_append] at hinv hneed
  change LInv mon f n (targets N n) (evaluate mon N n seen) _ at hinv
  have hsteps : (evaluate mon N n seen).steps = k := by
    rw [hinv.2.2, List.length_take]; omega
  rw [hsteps]
  refine ⟨hk, hneed, ?_, ?_⟩
  · have hai := active_iff mon f n (targets N n) _ _ hinv
    simp only [EvalSt.finished, Bool.not_eq_true']
    constructor
    · intro hfin i hi
      by_contra hlt
      have : active n (targets N n) (evaluate mon N n seen).envs = true := hai.mpr ⟨i, hi, by omega⟩
      rw [hfin] at this
      exact absurd this (by simp)
    · intro hall
      by_contra hne
      have hact : active n (targets N n) (evaluate mon N n seen).envs = true := by simpa using hne
      obtain ⟨i, hi, hlt⟩ := hai.mp hact
      have := hall i hi
      omega
  · intro hlt
    simp only [EvalSt.finished, Bool.not_eq_true']
    exact hstop hlt

end steps

section load
variable {β : Type}

theorem eq_of_time_eq (l : List (Rat × β)) (h : l.Pairwise (fun a b => a.1 < b.1)) :
    ∀ a ∈ l, ∀ b ∈ l, a.1 = b.1 → a = b := by
  induction h with
  | nil => simp
  | @cons x l hx _ ih =>
    intro a ha b hb hab
    rcases List.mem_cons.mp ha with rfl | ha' <;> rcases List.mem_cons.mp hb with rfl | hb'
    · rfl
    · exact absurd hab (ne_of_lt (hx b hb'))
    · exact absurd hab.symm (ne_of_lt (hx a ha'))
    · exact ih a ha' b hb' hab

/-- `load_results` returns the events in the order of their time stamps, however they were spread over files -/
theorem loadResults_sorted (files : List (MFile β)) (events : List (Rat × β))
    (hsorted : events.Pairwise (fun a b => a.1 < b.1)) (hperm : (absRows files).Perm events) :
    loadResults files = events.map (fun p => (p.1 - minStart files, p.2)) := by
  unfold loadResults
  congr 1
  have hle : events.Pairwise (fun a b => decide (a.1 ≤ b.1) = true) :=
    hsorted.imp (fun h => by simpa using le_of_lt h)
  have hms := List.pairwise_mergeSort (le := fun (a b : Rat × β) => decide (a.1 ≤ b.1))
    (fun a b c h1 h2 => by simp only [decide_eq_true_eq] at *; exact le_trans h1 h2)
    (fun a b => by simp only [Bool.or_eq_true, decide_eq_true_eq]; exact le_total a.1 b.1) (absRows files)
  have hp : ((absRows files).mergeSort fun a b => decide (a.1 ≤ b.1)).Perm events :=
    (List.mergeSort_perm _ _).trans hperm
  refine List.Perm.eq_of_pairwise (le := fun (a b : Rat × β) => decide (a.1 ≤ b.1)) ?_ hms hle hp
  intro a b ha hb h1 h2
  simp only [decide_eq_true_eq] at h1 h2
  exact eq_of_time_eq events hsorted a (hp.subset ha) b hb (le_antisymm h1 h2)

end load

section rounding

theorem roundHalfEven_intCast (z : Int) : roundHalfEven (z : Rat) = z := by
  unfold roundHalfEven
  simp only [Rat.floor_intCast, sub_self]
  norm_num

/-- `round(x, 6)` leaves a value with at most six decimals unchanged -/
theorem round6_exact (q : Rat) (z : Int) (h : q * 1000000 = z) : round6 q = q := by
  unfold round6
  rw [h, roundHalfEven_intCast, ← h]
  field_simp

theorem round6_dyadic64 (k : Int) : round6 ((k : Rat) / 64) = (k : Rat) / 64 := by
  apply round6_exact _ (k * 15625)
  push_cast
  ring

theorem roundHalfEven_err (x : Rat) : |(roundHalfEven x : Rat) - x| ≤ 1 / 2 := by
  have h1 := Rat.floor_le x
  have h2 := Rat.lt_floor_add_one x
  push_cast at h2
  unfold roundHalfEven
  simp only
  split
  · rename_i h; rw [abs_le]; constructor <;> linarith
  · split
    · rename_i h h'; push_cast; rw [abs_le]; constructor <;> linarith
    · rename_i h h'
      have : x - (x.floor : Rat) = 1 / 2 := le_antisymm (not_lt.mp h') (not_lt.mp h)
      split
      · rw [abs_le]; constructor <;> linarith
      · push_cast; rw [abs_le]; constructor <;> linarith

/-- `round(x, 6)` is within half a unit of the sixth decimal -/
theorem round6_err (q : Rat) : |round6 q - q| ≤ 1 / 2000000 := by
  unfold round6
  have h := roundHalfEven_err (q * 1000000)
  rw [abs_le] at h ⊢
  constructor
  · have : -(1 / 2 : Rat) / 1000000 ≤ ((roundHalfEven (q * 1000000) : Rat) - q * 1000000) / 1000000 :=
      div_le_div_of_nonneg_right h.1 (by norm_num)
    have e : ((roundHalfEven (q * 1000000) : Rat) - q * 1000000) / 1000000 =
        (roundHalfEven (q * 1000000) : Rat) / 1000000 - q := by field_simp
    rw [e] at this
    linarith
  · have : ((roundHalfEven (q * 1000000) : Rat) - q * 1000000) / 1000000 ≤ (1 / 2 : Rat) / 1000000 :=
      div_le_div_of_nonneg_right h.2 (by norm_num)
    have e : ((roundHalfEven (q * 1000000) : Rat) - q * 1000000) / 1000000 =
        (roundHalfEven (q * 1000000) : Rat) / 1000000 - q := by field_simp
    rw [e] at this
    linarith

end rounding

/-- K-C18-b on a concrete file: a first session wrote two episodes (t = 1, 3 after `t_start = 1000`), a second
session, started much later with `override_existing=False`, appended one episode 1/2 s after *its* start -/
def cexFile : MFile Nat := { tStart := 1000, rows := [(1, 0), (3, 1), (1 / 2, 2)] }

theorem cex_load : (loadResults [cexFile]).map (·.2) = [2, 0, 1] := by
  have h := loadResults_sorted [cexFile] [(1 / 2 + 1000, 2), (1 + 1000, 0), (3 + 1000, 1)]
    (by simp only [List.pairwise_cons, List.mem_cons, List.not_mem_nil, or_false, forall_eq_or_imp, forall_eq,
          List.Pairwise.nil, and_true, IsEmpty.forall_iff, implies_true]
        norm_num)
    (by
      have : absRows [cexFile] = [(1 + 1000, 0), (3 + 1000, 1), (1 / 2 + 1000, 2)] := by
        simp [absRows, cexFile]
      rw [this]
      exact List.perm_middle (l₁ := [(1 + 1000, 0), (3 + 1000, 1)]) (l₂ := []))
  rw [h]
  rfl


section share
variable [Add α] [Zero α]

/-- how many steps of a history contribute to the evaluation result under quota `tg` -/
def contributions (tg : ℕ) (calls : List (Call α)) : ℕ :=
  (List.range calls.length).countP fun t => (specEmit tg calls t).isSome

theorem contributions_snoc (tg : ℕ) (calls : List (Call α)) (r : α) (d : Bool) :
    contributions tg (calls ++ [Call.step r d]) =
      contributions tg calls + (if d = true ∧ dones calls < tg then 1 else 0) := by
  unfold contributions
  rw [List.length_append, List.length_singleton, List.range_succ, List.countP_append]
  congr 1
  · apply List.countP_congr
    intro t ht
    rw [specEmit_append_left tg calls _ t (List.mem_range.mp ht)]
  · rw [List.countP_singleton, specEmit_snoc]
    by_cases h : d = true ∧ dones calls < tg <;> simp [h]

/-- **each environment contributes exactly `min(quota, number of its completed episodes)` episodes** -/
theorem contributions_eq (tg : ℕ) (calls : List (Call α)) (hsteps : ∀ c ∈ calls, c ≠ Call.reset) :
    contributions tg calls = min tg (dones calls) := by
  induction calls using List.reverseRecOn with
  | nil => simp [contributions, dones_nil]
  | append_singleton calls c ih =>
    have ih' := ih (fun x hx => hsteps x (by simp [hx]))
    cases c with
    | reset => exact absurd rfl (hsteps Call.reset (by simp))
    | step r d =>
      rw [contributions_snoc, dones_snoc, ih']
      cases d with
      | false => simp
      | true =>
        simp only [true_and, if_true]
        split <;> omega

omit [Add α] in
theorem colCalls_no_reset (i : ℕ) (rows : List (List (Raw α))) : ∀ c ∈ colCalls i rows, c ≠ Call.reset := by
  intro c hc
  simp only [colCalls, List.mem_map] at hc
  obtain ⟨row, _, rfl⟩ := hc
  simp

end share
end SB3Verif.Lemmas.Mon
