"""
C06 — On-policy collection records what happened and bootstraps time-limit truncations.

Implementation under test: `OnPolicyAlgorithm.collect_rollouts` / `learn` (on_policy_algorithm.py), `_setup_learn`
(base_class.py), `RolloutBuffer.add` / `DictRolloutBuffer.add` (buffers.py), `ActorCriticPolicy.forward /
predict_values / evaluate_actions / unscale_action` (policies.py), driven by real `PPO` / `A2C` training runs.
Model: lean/SB3Verif/Model/OnPolicy.lean (driver lean/SB3Verif/Driver/C06.lean).

Observation points (all from the harness process, nothing in /repo is touched):
  * scripted sub-environments with uniquely tagged observations and their own call logs (ground truth);
  * a recording VecEnvWrapper as the outermost wrapper: exactly what `env.reset()` / `env.step()` received and
    returned (copies), so that "what the policy saw" is defined even under VecNormalize;
  * an instance-level wrapper around `policy.forward`: (input observation, action, value, log-prob) of every
    collection step;
  * an instance-level wrapper around `rollout_buffer.compute_returns_and_advantage`: the `last_values` / `dones` it
    is really called with;
  * a callback that copies `model.rollout_buffer` and `_last_obs` / `_last_episode_starts` at `on_rollout_end`, and recomputes — with the policy of that moment,
    independently of the collection code — `evaluate_actions(obs, action)` for every slot, and the critic value of
    every observation and terminal observation the environment delivered through the path training uses
    (`evaluate_actions(obs, ·)[0]`, the same network `forward()` evaluates), never through `predict_values`;
    `predict_values` is evaluated on the same inputs only to require that it agrees.

Two detectors:
  * oracle: the property sentence, slot by slot, against the recorder / the sub-environments' logs and the
    independently recomputed values (no use of the Lean model);
  * correspondence: the Lean model is fed the externals (sub-environment outputs, actor samples, critic table) and
    must reproduce buffer rows, environment actions, done / TimeLimit flags, last values / dones and carried state.
"""
from __future__ import annotations

import warnings
from fractions import Fraction as F

import gymnasium as gym  # noqa: F401
import numpy as np
from gymnasium import spaces

from harness.common import guarded, ratj, unratj
from harness.envs import ScriptedEnv, gen_script, make_tag, split_tag

RULE = (
    "cases from one SplitMix64 stream: PPO or A2C (MlpPolicy / MultiInputPolicy, net_arch=[4], cpu), n_envs 1..3, "
    "n_steps 1..8, scripted sub-environments (episode ends scripted: terminated / truncated / both / length-1 / never / "
    "ending exactly on the rollout boundary), observation kinds float-bit Box (1-D, 2-D), MultiBinary, MultiDiscrete, "
    "Discrete, Dict; action kinds Box (asymmetric, symmetric, bounds at which float32 unscaling overshoots), Discrete, MultiDiscrete, MultiBinary; with/without "
    "VecNormalize (obs and/or reward), with/without gSDE (with/without squashed output, resampling every k steps); "
    "default (parameterless) or custom Linear+Tanh features extractor, shared or one differently initialised copy each "
    "for actor and critic; sub-environments returning a fresh info dict per step or (35%) ONE reused dict object for "
    "their lifetime (a truncation followed by further steps is forced then; half of those under a vectorised environment "
    "that writes TimeLimit.truncated only at episode ends, so stale flag and stale terminal observation reach non-terminal "
    "steps); gamma in {0.5,0.75,0.9,0.99,1}; 1-3 learn() calls of 1-3 rollouts each, with/without reset_num_timesteps. "
    "non-trivial = the run contains a truncation-only episode end, a termination, and a terminated-and-truncated end; "
    "distinct = distinct canonical case"
)
STREAMS = {
    "config": "clip / unscale / identity choice == model's actKind",
    "learn": "_last_obs tags / _last_episode_starts after _setup_learn (reset or not) == model's setupLearn",
    "rows": "rollout buffer slots (obs tag, action, start exact; reward exact unless bootstrapped, then 1e-4; value 1e-4; "
            "log-prob exact) == model's rows",
    "env_actions": "actions received by env.step == model's clip (exact) / unscale (1e-5) / identity",
    "vec": "dones / TimeLimit.truncated / terminal observation (incl. stale ones of a reused info dict) of every step == model's "
           "vecOut (DummyVecEnv) or vecOutLazy (flag written at episode ends only) of the scripted outcome",
    "gae": "rollout_buffer.advantages / returns after the rollout == C05 GAE model on the model's rows, last values and "
           "last dones (1e-3)",
    "last": "values (1e-4) and dones handed to compute_returns_and_advantage, carried _last_obs / _last_episode_starts "
            "== model's",
}

OBS_KINDS = ["fbits", "fbits2d", "multibinary", "multidiscrete", "discrete", "dict"]
ACT_KINDS = ["box", "box_sym", "box_odd", "discrete", "multidiscrete", "multibinary"]
BOX_KINDS = ("box", "box_sym", "box_odd")
# bounds for which the float32 affine map of unscale_action leaves [low, high] at +1 (finding F-C11-a, fixed by a clip)
ODD_LOW = [-0.5766505, -0.9008126258850098]
ODD_HIGH = [0.19603631, 0.15236231684684753]
NBITS = 20
MAX_ENV_STEPS = 60  # per sub-environment and case (episode < 64, step < 64 for the compact Discrete encoding)
GAMMAS = [0.5, 0.75, 0.9, 0.99, 1.0]


# ------------------------------------------------------------------------------------------------
# observation encodings the tiny networks can tell apart (bits), one per observation-space kind
def c06_obs_space(kind):
    if kind == "fbits":
        return spaces.Box(-1.0, 2.0, (NBITS,), np.float32)
    if kind == "fbits2d":
        return spaces.Box(-1.0, 2.0, (4, 5), np.float32)
    if kind == "multibinary":
        return spaces.MultiBinary(NBITS)
    if kind == "multidiscrete":
        return spaces.MultiDiscrete([8, 512, 256])
    if kind == "discrete":
        return spaces.Discrete(8 * 4096)
    if kind == "dict":
        return spaces.Dict({"vec": c06_obs_space("fbits"), "mb": c06_obs_space("multibinary"),
                            "md": c06_obs_space("multidiscrete")})
    raise ValueError(kind)


def c06_encode(tag, kind):
    if kind == "fbits":
        return np.array([(tag >> i) & 1 for i in range(NBITS)], dtype=np.float32)
    if kind == "fbits2d":
        return c06_encode(tag, "fbits").reshape(4, 5)
    if kind == "multibinary":
        return np.array([(tag >> i) & 1 for i in range(NBITS)], dtype=np.int8)
    if kind == "multidiscrete":
        e, ep, st = split_tag(tag)
        return np.array([e, ep, st], dtype=np.int64)
    if kind == "discrete":
        e, ep, st = split_tag(tag)
        assert ep < 64 and st < 64, (ep, st)
        return np.int64(e * 4096 + ep * 64 + st)
    if kind == "dict":
        return {"vec": c06_encode(tag, "fbits"), "mb": c06_encode(tag, "multibinary"), "md": c06_encode(tag, "multidiscrete")}
    raise ValueError(kind)


def c06_decode(obs, kind):
    """raw (un-normalised) observation of one sub-environment -> tag, or None if it is not an encoding"""
    try:
        if kind in ("fbits", "fbits2d", "multibinary"):
            o = np.asarray(obs, dtype=np.float64).reshape(-1)
            if o.size != NBITS or not np.all((o == 0) | (o == 1)):
                return None
            return int(sum(int(o[i]) << i for i in range(NBITS)))
        if kind == "multidiscrete":
            o = np.asarray(obs, dtype=np.float64).reshape(-1)
            if o.size != 3 or not np.all(o == np.round(o)):
                return None
            return make_tag(int(o[0]), int(o[1]), int(o[2]))
        if kind == "discrete":
            v = float(np.asarray(obs, dtype=np.float64).reshape(-1)[0])
            if v != round(v):
                return None
            v = int(v)
            return make_tag(v // 4096, (v // 64) % 64, v % 64)
        if kind == "dict":
            ts = {c06_decode(obs["vec"], "fbits"), c06_decode(obs["mb"], "multibinary"), c06_decode(obs["md"], "multidiscrete")}
            return ts.pop() if len(ts) == 1 else None
    except Exception:
        return None
    return None


class C06Env(ScriptedEnv):
    """ScriptedEnv (shared) with the observation re-encoded as bits; same tags, same script, same call log."""

    def __init__(self, env_id=0, okind="fbits", act_kind="discrete", script=None, info_mode="fresh"):
        super().__init__(env_id=env_id, obs_kind="discrete", act_kind="box" if act_kind == "box_odd" else act_kind,
                         script=script, info_mode=info_mode)
        self.okind = okind
        self.observation_space = c06_obs_space(okind)
        if act_kind == "box_odd":
            self.action_space = spaces.Box(np.array(ODD_LOW, dtype=np.float32), np.array(ODD_HIGH, dtype=np.float32))

    def reset(self, *, seed=None, options=None):
        o, info = super().reset(seed=seed, options=options)
        return c06_encode(int(o), self.okind), info

    def step(self, action):
        o, r, te, tr, info = super().step(action)
        return c06_encode(int(o), self.okind), r, te, tr, info


class EnvMaker:
    def __init__(self, **kw):
        self.kw = kw

    def __call__(self):
        return C06Env(**self.kw)


# ------------------------------------------------------------------------------------------------
def gen_case(rng, widen=False):
    algo = rng.choice(["PPO", "A2C"])
    n_envs = rng.randint(1, 3)
    n_steps = rng.weighted([(1, 2), (2, 2), (3, 2), (4, 2), (5, 1), (6, 1), (7, 1), (8, 1)])
    act_kind = rng.choice(ACT_KINDS)
    obs_kind = rng.choice(OBS_KINDS)
    sde = None
    if act_kind in BOX_KINDS and rng.chance(0.45):
        # log_std_init 3: exploration noise large enough to saturate tanh at exactly +/-1 (squashed) and to leave
        # the bounds at almost every step (unsquashed)
        sde = {"squash": rng.chance(0.5), "freq": rng.choice([-1, 1, 2, 3]), "log_std_init": rng.choice([0.0, 3.0])}
    if act_kind == "box_odd" and rng.chance(0.6):
        # the family where rounding of the unscaling matters: squashed, saturating
        sde = {"squash": True, "freq": rng.choice([-1, 1, 2]), "log_std_init": 3.0}
    vecnorm = None
    if rng.chance(0.4):
        can_norm_obs = obs_kind in ("fbits", "fbits2d", "dict")
        vecnorm = {
            "norm_obs": bool(can_norm_obs and rng.chance(0.7)),
            "norm_reward": rng.chance(0.6),
            "clip_obs": rng.choice([10.0, 1.0, 5.0]),
            "gamma": rng.choice([0.99, 0.5]),
        }
    gamma = rng.choice([0.5, 0.9, 1.0]) if widen else rng.choice(GAMMAS)
    fe = {"share": rng.chance(0.35)} if rng.chance(0.5) else None
    # learn() calls
    n_learn = rng.weighted([(1, 3), (2, 4), (3, 2)])
    max_roll = max(1, MAX_ENV_STEPS // n_steps)
    learns = []
    total = 0
    for i in range(n_learn):
        k = rng.randint(1, 3)
        k = min(k, max_roll - total)
        if k <= 0:
            break
        total += k
        reset = rng.chance(0.5)
        # `set_env(env)` (force_reset) in front of a continuing learn(): the environment is reset although the counter is
        # not, and everything carried from the previous call (last observation, episode-start flags) must restart with it
        # (seeded change C06-h)
        learns.append({"rollouts": k, "reset": reset, "rebind": bool(i > 0 and not reset and rng.chance(0.4))})
    # scripts
    scripts = []
    for e in range(n_envs):
        style = rng.weighted([("gen", 6), ("boundary", 2 if not widen else 5), ("len1", 1 if not widen else 3)])
        if style == "gen":
            scripts.append(gen_script(rng))
        elif style == "len1":
            scripts.append(gen_script(rng, style="len1"))
        else:
            # episodes that end exactly on the last step of a rollout (or every other rollout)
            L = n_steps * rng.choice([1, 1, 2])
            sc = []
            for rep in range(rng.randint(1, 3)):
                for i in range(L - 1):
                    sc.append([rng.choice([0.0, 1.0, -1.0, 0.5, 2.0]), False, False])
                term, trunc = rng.weighted([((False, True), 3), ((True, False), 2), ((True, True), 1)])
                sc.append([rng.choice([0.0, 1.0, -1.0, 0.5, 2.0]), term, trunc])
            scripts.append(sc)
    info_mode = "reuse" if rng.chance(0.35) else "fresh"
    if info_mode == "reuse":
        # make sure a time-limit truncation (and in half of the cases also a plain termination later) is followed by
        # further steps of the next episode inside the run
        while sum(l["rollouts"] for l in learns) * n_steps < 4:
            learns[-1]["rollouts"] += 1
        e = rng.randint(0, n_envs - 1)
        sc = [list(x) for x in scripts[e]]
        while len(sc) < 4:
            sc.append([rng.choice([0.0, 1.0, -1.0, 0.5]), False, False])
        pos = rng.randint(0, 1)
        sc[pos] = [sc[pos][0], False, True]
        sc[pos + 1] = [sc[pos + 1][0], False, False]
        sc[pos + 2] = [sc[pos + 2][0], rng.chance(0.5), False]
        scripts[e] = sc
    return {
        "algo": algo, "n_envs": n_envs, "n_steps": n_steps, "obs_kind": obs_kind, "act_kind": act_kind,
        "sde": sde, "vecnorm": vecnorm, "gamma": gamma, "gae_lambda": rng.choice([0.95, 1.0, 0.5]),
        "lr": rng.choice([3e-4, 3e-3]), "learns": learns, "scripts": scripts, "seed": rng.randint(0, 2**31 - 1),
        # features extractor WITH parameters (default: parameterless Flatten / CombinedExtractor), shared between actor
        # and critic or one differently initialised copy each
        "fe": fe,
        # "reuse": every sub-environment returns ONE info dict object for its whole lifetime, so keys the vectorised
        # environment wrote into it (terminal_observation, ...) are still there on later, non-terminal steps
        "info_mode": info_mode,
        # "lazy": a vectorised environment that writes TimeLimit.truncated only when an episode ends (a thin wrapper
        # right above DummyVecEnv restores the last episode-end value on the other steps): together with a reused info
        # dict, a stale TimeLimit.truncated=True AND a stale terminal_observation reach collect_rollouts on
        # non-terminal steps -- only `dones` tells that no episode ended
        "vec": "lazy" if (info_mode == "reuse" and rng.chance(0.5)) else "dummy",
    }


def gen_cases(ctx):
    return [gen_case(ctx.rng, ctx.widen) for _ in range(ctx.budget(400, 4000))]


def shrink_candidates(case):
    ls = case["learns"]
    if len(ls) > 1:
        for i in range(len(ls)):
            c = dict(case)
            c["learns"] = ls[:i] + ls[i + 1:]
            yield c
    for i, l in enumerate(ls):
        if l["rollouts"] > 1:
            c = dict(case)
            c["learns"] = [dict(x) for x in ls]
            c["learns"][i]["rollouts"] = l["rollouts"] - 1
            yield c
    if case["n_envs"] > 1:
        for e in range(case["n_envs"]):
            c = dict(case)
            c["n_envs"] = case["n_envs"] - 1
            c["scripts"] = [s for j, s in enumerate(case["scripts"]) if j != e]
            yield c
    if case["n_steps"] > 1:
        c = dict(case)
        c["n_steps"] = case["n_steps"] - 1
        yield c
    for key in ("vecnorm", "sde", "fe"):
        if case.get(key) is not None:
            c = dict(case)
            c[key] = None
            yield c
    if case.get("vec", "dummy") != "dummy":
        c = dict(case)
        c["vec"] = "dummy"
        yield c
    if case.get("info_mode", "fresh") != "fresh":
        c = dict(case)
        c["info_mode"] = "fresh"
        c["vec"] = "dummy"
        yield c
    if case["obs_kind"] != "fbits":
        c = dict(case)
        c["obs_kind"] = "fbits"
        if c["vecnorm"] is not None:
            c["vecnorm"] = dict(c["vecnorm"])
        yield c
    if case["act_kind"] not in ("discrete",) + BOX_KINDS and case["sde"] is None:
        c = dict(case)
        c["act_kind"] = "discrete"
        yield c
    if case["algo"] != "A2C":
        c = dict(case)
        c["algo"] = "A2C"
        yield c
    for e, s in enumerate(case["scripts"]):
        if len(s) > 1:
            for cut in (s[: len(s) // 2], s[1:], s[:-1]):
                c = dict(case)
                c["scripts"] = [cut if j == e else x for j, x in enumerate(case["scripts"])]
                yield c


# ------------------------------------------------------------------------------------------------
def _copy_obs(o):
    if isinstance(o, dict):
        return {k: np.array(v, copy=True) for k, v in o.items()}
    return np.array(o, copy=True)


def _slice(o, e):
    """observation of sub-environment e out of a batched observation"""
    if isinstance(o, dict):
        return {k: v[e] for k, v in o.items()}
    return o[e]


def _key(o):
    """canonical byte key of one (un-batched) observation, independent of dtype / trailing shape"""
    if isinstance(o, dict):
        return b"|".join(k.encode() + b":" + np.asarray(o[k], dtype=np.float64).reshape(-1).tobytes() for k in sorted(o))
    return np.asarray(o, dtype=np.float64).reshape(-1).tobytes()


def _same(a, b):
    return _key(a) == _key(b)


def run_case(case):
    """run the real training; returns everything observed"""
    import torch as th
    import stable_baselines3 as sb3
    from stable_baselines3.common.callbacks import BaseCallback
    from stable_baselines3.common.utils import obs_as_tensor
    from stable_baselines3.common.vec_env import DummyVecEnv, VecEnvWrapper, VecNormalize

    warnings.filterwarnings("ignore")
    n, T = case["n_envs"], case["n_steps"]
    okind, akind = case["obs_kind"], case["act_kind"]
    fns = [EnvMaker(env_id=e, okind=okind, act_kind=akind, script=case["scripts"][e],
                    info_mode=case.get("info_mode", "fresh")) for e in range(n)]
    base = DummyVecEnv(fns)
    venv = base
    if case.get("vec", "dummy") == "lazy":
        class LazyFlag(VecEnvWrapper):
            def __init__(self, venv):
                super().__init__(venv)
                self.sticky = [None] * venv.num_envs

            def reset(self):
                return self.venv.reset()

            def step_wait(self):
                obs, rew, dones, infos = self.venv.step_wait()
                for e, info in enumerate(infos):
                    if dones[e]:
                        self.sticky[e] = bool(info.get("TimeLimit.truncated", False))
                    elif self.sticky[e] is None:
                        info.pop("TimeLimit.truncated", None)
                    else:
                        info["TimeLimit.truncated"] = self.sticky[e]
                return obs, rew, dones, infos

        venv = LazyFlag(base)
    vn = None
    if case["vecnorm"] is not None:
        v = case["vecnorm"]
        kw = {}
        if okind == "dict" and v["norm_obs"]:
            kw["norm_obs_keys"] = ["vec"]
        vn = VecNormalize(venv, norm_obs=v["norm_obs"], norm_reward=v["norm_reward"], clip_obs=v["clip_obs"],
                          gamma=v["gamma"], **kw)
        venv = vn

    class Recorder(VecEnvWrapper):
        def __init__(self, venv):
            super().__init__(venv)
            self.events = []
            self._act = None

        def reset(self):
            obs = self.venv.reset()
            self.events.append({"k": "reset", "obs": _copy_obs(obs),
                                "orig": _copy_obs(vn.get_original_obs()) if vn is not None else None})
            return obs

        def step_async(self, actions):
            self._act = np.array(actions, copy=True)
            self.venv.step_async(actions)

        def step_wait(self):
            obs, rew, dones, infos = self.venv.step_wait()
            self.events.append({
                "k": "step", "actions": self._act, "obs": _copy_obs(obs), "rew": np.array(rew, copy=True),
                "dones": np.array(dones, copy=True),
                "term": [_copy_obs(i["terminal_observation"]) if i.get("terminal_observation") is not None else None
                         for i in infos],
                "tl": [bool(i.get("TimeLimit.truncated", False)) for i in infos],
                "orig": _copy_obs(vn.get_original_obs()) if vn is not None else None,
            })
            return obs, rew, dones, infos

    rec = Recorder(venv)
    pk = dict(net_arch=[4])
    if case.get("fe") is not None:
        from stable_baselines3.common.preprocessing import get_flattened_obs_dim
        from stable_baselines3.common.torch_layers import BaseFeaturesExtractor

        class TinyExtractor(BaseFeaturesExtractor):
            """flatten (every key of) the preprocessed observation -> Linear -> Tanh: an extractor with parameters"""

            def __init__(self, observation_space, features_dim=6):
                super().__init__(observation_space, features_dim)
                if isinstance(observation_space, spaces.Dict):
                    self.keys = sorted(observation_space.spaces)
                    d = sum(get_flattened_obs_dim(observation_space.spaces[k]) for k in self.keys)
                else:
                    self.keys = None
                    d = get_flattened_obs_dim(observation_space)
                self.net = th.nn.Sequential(th.nn.Linear(d, features_dim), th.nn.Tanh())

            def forward(self, obs):
                if self.keys is not None:
                    x = th.cat([obs[k].float().flatten(start_dim=1) for k in self.keys], dim=1)
                else:
                    x = obs.float().flatten(start_dim=1)
                return self.net(x)

        pk["features_extractor_class"] = TinyExtractor
        pk["share_features_extractor"] = bool(case["fe"]["share"])
    use_sde, freq = False, -1
    if case["sde"] is not None:
        use_sde, freq = True, case["sde"]["freq"]
        if case["sde"]["squash"]:
            pk["squash_output"] = True
        pk["log_std_init"] = case["sde"].get("log_std_init", 0.0)
    kw = dict(gamma=case["gamma"], gae_lambda=case["gae_lambda"], learning_rate=case["lr"], policy_kwargs=pk,
              use_sde=use_sde, sde_sample_freq=freq, seed=case["seed"], device="cpu", verbose=0, n_steps=T)
    pol = "MultiInputPolicy" if okind == "dict" else "MlpPolicy"
    if case["algo"] == "PPO":
        model = sb3.PPO(pol, rec, batch_size=T * n, n_epochs=1, normalize_advantage=T * n > 1, **kw)
    else:
        model = sb3.A2C(pol, rec, **kw)
    policy = model.policy

    fw_log = []
    orig_forward = policy.forward

    def forward_spy(obs, deterministic=False):
        out = orig_forward(obs, deterministic)
        o = {k: v.detach().cpu().numpy().copy() for k, v in obs.items()} if isinstance(obs, dict) \
            else obs.detach().cpu().numpy().copy()
        fw_log.append({"obs": o, "a": out[0].detach().cpu().numpy().copy(), "v": out[1].detach().cpu().numpy().copy(),
                       "lp": out[2].detach().cpu().numpy().copy()})
        return out

    policy.forward = forward_spy

    # what compute_returns_and_advantage is really called with (not the names of local variables)
    gae_args = []
    rb = model.rollout_buffer
    orig_gae = rb.compute_returns_and_advantage

    def gae_spy(*args, **kwargs):
        lv = kwargs["last_values"] if "last_values" in kwargs else (args[0] if len(args) > 0 else None)
        ld = kwargs["dones"] if "dones" in kwargs else (args[1] if len(args) > 1 else None)
        gae_args.append((lv.detach().clone() if lv is not None else None, None if ld is None else np.array(ld, copy=True)))
        return orig_gae(*args, **kwargs)

    rb.compute_returns_and_advantage = gae_spy
    is_discrete = isinstance(model.action_space, spaces.Discrete)

    def predicted(obs):
        """policy.predict_values — what collect_rollouts itself calls; NOT the oracle's reference"""
        with th.no_grad():
            return policy.predict_values(obs_as_tensor(obs, model.device)).cpu().numpy().reshape(-1).astype(np.float64)

    def pvalues(obs):
        """V(obs) through the critic path that forward() uses and train() optimises: evaluate_actions(obs, a)[0]
        (the value does not depend on the action; a fixed valid action is supplied; no random numbers consumed)"""
        ot = obs_as_tensor(obs, model.device)
        b = next(iter(ot.values())).shape[0] if isinstance(ot, dict) else ot.shape[0]
        if is_discrete:
            a = th.zeros(b, dtype=th.long)
        else:
            a = th.zeros((b, *model.action_space.shape), dtype=th.float32)
        with th.no_grad():
            v, _, _ = policy.evaluate_actions(ot, a)
        return v.cpu().numpy().reshape(-1).astype(np.float64)

    fe_distinct = None
    if case.get("fe") is not None and not case["fe"]["share"]:
        pa = [p.detach().numpy() for p in policy.pi_features_extractor.parameters()]
        pc = [p.detach().numpy() for p in policy.vf_features_extractor.parameters()]
        fe_distinct = bool(policy.pi_features_extractor is not policy.vf_features_extractor
                           and any(not np.array_equal(x, y) for x, y in zip(pa, pc)))

    class Cb(BaseCallback):
        def __init__(self):
            super().__init__()
            self.rollouts = []
            self._mark = None

        def _on_rollout_start(self):
            self._mark = (len(rec.events), len(fw_log))

        def _on_step(self):
            return True

        def _on_rollout_end(self):
            buf = self.model.rollout_buffer
            ev0, fw0 = self._mark
            snap = {}
            for f in ("actions", "rewards", "episode_starts", "values", "log_probs", "advantages", "returns"):
                snap[f] = np.array(getattr(buf, f), copy=True)
            snap["observations"] = _copy_obs(buf.observations)
            lv, ld = gae_args[-1] if gae_args else (None, None)
            r = {
                "ev0": ev0, "ev1": len(rec.events), "fw0": fw0, "fw1": len(fw_log), "buf": snap,
                "full": bool(buf.full), "pos": int(buf.pos),
                "n_gae_calls": len(gae_args),
                "loc_values": None if lv is None else lv.detach().cpu().numpy().reshape(-1).astype(np.float64).copy(),
                "loc_dones": None if ld is None else np.array(ld, copy=True).reshape(-1),
                "last_obs": _copy_obs(self.model._last_obs) if getattr(self.model, "_last_obs", None) is not None else None,
                "last_starts": np.array(self.model._last_episode_starts, copy=True)
                if getattr(self.model, "_last_episode_starts", None) is not None else None,
            }
            # --- independent recomputation with the policy of this moment -------------------------
            Tn = snap["actions"].shape[0] * snap["actions"].shape[1]
            if isinstance(snap["observations"], dict):
                flat_obs = {k: v.reshape((Tn, *v.shape[2:])) for k, v in snap["observations"].items()}
            else:
                flat_obs = snap["observations"].reshape((Tn, *snap["observations"].shape[2:]))
            acts = th.as_tensor(snap["actions"].reshape((Tn, *snap["actions"].shape[2:])))
            if is_discrete:
                acts = acts.long().flatten()
            with th.no_grad():
                ev_v, ev_lp, _ = policy.evaluate_actions(obs_as_tensor(flat_obs, self.model.device), acts)
            shape = snap["values"].shape
            r["ev_values"] = ev_v.cpu().numpy().astype(np.float64).reshape(shape)
            r["ev_logp"] = ev_lp.cpu().numpy().astype(np.float64).reshape(shape)
            # critic on everything the environment delivered: the state in front of the rollout, every step output,
            # every terminal observation
            r["pv"] = {}       # critic path (reference)
            r["pred"] = {}     # policy.predict_values on the same inputs (must agree)
            for i in range(max(ev0 - 1, 0), len(rec.events)):
                ev = rec.events[i]
                r["pv"][i] = pvalues(ev["obs"])
                r["pred"][i] = predicted(ev["obs"])
                if ev["k"] == "step":
                    for e, tobs in enumerate(ev["term"]):
                        if tobs is not None:
                            one = {k: v[None] for k, v in tobs.items()} if isinstance(tobs, dict) else np.asarray(tobs)[None]
                            r["pv"][(i, e)] = float(pvalues(one)[0])
                            r["pred"][(i, e)] = float(predicted(one)[0])
            self.rollouts.append(r)

    cb = Cb()
    learn_marks = []
    for lc in case["learns"]:
        m0 = len(rec.events)
        if lc.get("rebind"):
            model.set_env(model.get_env())
        model.learn(total_timesteps=lc["rollouts"] * T * n, callback=cb, reset_num_timesteps=lc["reset"])
        learn_marks.append({"ev0": m0, "n_rollouts_after": len(cb.rollouts)})
    logs = base.env_method("get_log")
    low = high = None
    if isinstance(model.action_space, spaces.Box):
        low, high = model.action_space.low.copy(), model.action_space.high.copy()
    return {"events": rec.events, "fw": fw_log, "rollouts": cb.rollouts, "learn_marks": learn_marks, "logs": logs,
            "is_box": isinstance(model.action_space, spaces.Box), "squash": bool(policy.squash_output), "low": low,
            "high": high, "gamma": float(model.gamma), "vn": vn is not None,
            "norm_obs": bool(vn is not None and vn.norm_obs), "norm_reward": bool(vn is not None and vn.norm_reward),
            "fe_distinct": fe_distinct}


# ------------------------------------------------------------------------------------------------
def parse_log(log):
    """sub-environment call log -> list of blocks: ('reset', tag) / ('step', {...}) in call order"""
    out = []
    for ent in log:
        if ent[0] == "reset":
            out.append(("reset", ent[3]))
        else:
            out.append(("step", {"action": ent[1], "tag": ent[2], "rew": ent[3], "term": ent[4], "trunc": ent[5],
                                 "in_space": ent[6]}))
    return out


def ground_truth(case, r):
    """
    Aligns the recorder's event list with the sub-environments' own logs.
    Returns per event index i: tags[i][e] (tag of the observation returned for env e), and for step events
    truth[i][e] = {tag (of the step's own observation), rew, term, trunc, reset_tag, action, in_space}.
    Raises ValueError when the two do not line up (vectorised-environment contract broken: not C06's subject).
    """
    n = case["n_envs"]
    logs = [parse_log(l) for l in r["logs"]]
    ptr = [0] * n
    tags, truth = {}, {}
    reuse = case.get("info_mode", "fresh") == "reuse"
    stale_term = [None] * n   # terminal_observation still in the sub-environment's reused info dict
    stale_tl = [False] * n    # TimeLimit.truncated as written at the last episode end
    for i, ev in enumerate(r["events"]):
        tags[i] = [None] * n
        if ev["k"] == "reset":
            for e in range(n):
                if ptr[e] >= len(logs[e]) or logs[e][ptr[e]][0] != "reset":
                    raise ValueError(f"event {i}: reset not in the log of env {e}")
                tags[i][e] = logs[e][ptr[e]][1]
                ptr[e] += 1
        else:
            truth[i] = [None] * n
            for e in range(n):
                if ptr[e] >= len(logs[e]) or logs[e][ptr[e]][0] != "step":
                    raise ValueError(f"event {i}: step not in the log of env {e}")
                st = dict(logs[e][ptr[e]][1])
                ptr[e] += 1
                st["reset_tag"] = None
                if st["term"] or st["trunc"]:
                    if ptr[e] >= len(logs[e]) or logs[e][ptr[e]][0] != "reset":
                        raise ValueError(f"event {i}: env {e} ended an episode but was not reset")
                    st["reset_tag"] = logs[e][ptr[e]][1]
                    ptr[e] += 1
                st["stale_term"], st["stale_tl"] = stale_term[e], stale_tl[e]
                if reuse and (st["term"] or st["trunc"]):
                    stale_term[e], stale_tl[e] = st["tag"], bool(st["trunc"] and not st["term"])
                truth[i][e] = st
                tags[i][e] = st["reset_tag"] if st["reset_tag"] is not None else st["tag"]
    for e in range(n):
        if ptr[e] != len(logs[e]):
            raise ValueError(f"env {e} received calls the training environment never made")
    return tags, truth


def rel_ok(a, b, tol):
    return abs(a - b) <= tol * max(1.0, abs(a), abs(b))


VTOL = 1e-4


def oracle(ctx, case, r, tags, truth):
    """the property, slot by slot, against recorder + env logs + independently recomputed values; True if clean"""
    rep = ctx.report
    n, T = case["n_envs"], case["n_steps"]
    okind, akind = case["obs_kind"], case["act_kind"]
    events, fw = r["events"], r["fw"]
    gamma = r["gamma"]
    sig0 = {"algo": case["algo"]}

    def bad(what, kind, **detail):
        rep.violation(what, case, dict(sig0, kind=kind), detail)
        return False

    # ---- the venv outputs carry the scripted observations (sanity of the ground truth) ------------
    for i, ev in enumerate(events):
        raw = ev["orig"] if (r["norm_obs"] and ev["orig"] is not None) else ev["obs"]
        for e in range(n):
            if c06_decode(_slice(raw, e), okind) != tags[i][e]:
                return bad("training environment returned an observation that is not the scripted one", "venv_obs",
                           event=i, env=e)
    # ---- learn() calls reset the environment exactly when they must ---------------------------------
    expect_resets = 0
    for li, (lc, lm) in enumerate(zip(case["learns"], r["learn_marks"])):
        must = lc["reset"] or li == 0 or bool(lc.get("rebind"))
        got = lm["ev0"] < len(events) and events[lm["ev0"]]["k"] == "reset"
        expect_resets += int(must)
        if must != got:
            return bad("learn() reset the environment when it must not / did not when it must", "learn_reset",
                       learn=li, reset_num_timesteps=lc["reset"], reset_seen=got)
    if sum(1 for ev in events if ev["k"] == "reset") != expect_resets:
        return bad("unexpected number of environment resets during training", "learn_reset")
    n_roll = sum(lc["rollouts"] for lc in case["learns"])
    if len(r["rollouts"]) != n_roll:
        return bad("number of rollouts differs from total_timesteps / (n_steps * n_envs)", "rollout_count",
                   got=len(r["rollouts"]), expected=n_roll)
    if len(fw) != n_roll * T:
        return bad("policy forward passes during collection differ from the number of environment steps", "forward_count",
                   got=len(fw), expected=n_roll * T)

    for k, ro in enumerate(r["rollouts"]):
        buf = ro["buf"]
        where = {"rollout": k}
        if ro["ev1"] - ro["ev0"] != T or ro["fw1"] - ro["fw0"] != T or any(
                events[i]["k"] != "step" for i in range(ro["ev0"], ro["ev1"])):
            return bad("a rollout did not consist of n_steps environment steps", "rollout_shape", **where)
        if not ro["full"] or buf["rewards"].shape[0] != T:
            return bad("rollout buffer not full at on_rollout_end", "rollout_shape", **where)
        if ro["ev0"] == 0:
            return bad("rollout started before any observation was available", "rollout_shape", **where)
        for t in range(T):
            i = ro["ev0"] + t
            ev, prev, f = events[i], events[i - 1], fw[ro["fw0"] + t]
            for e in range(n):
                loc = dict(where, t=t, env=e)
                prev_obs = _slice(prev["obs"], e)
                # (1) the observation the policy saw
                if not _same(_slice(f["obs"], e), prev_obs):
                    return bad("the policy was not shown the latest observation of the environment", "policy_input", **loc)
                if not _same(_slice(_slice(buf["observations"], t), e), prev_obs):
                    return bad("slot observation is not the observation the policy saw", "slot_obs", **loc)
                # (2) episode start = previous done (true after a reset)
                exp_start = 1.0 if prev["k"] == "reset" else float(prev["dones"][e])
                if float(buf["episode_starts"][t][e]) != exp_start:
                    return bad("slot episode_start is not the previous step's done", "slot_start",
                               got=float(buf["episode_starts"][t][e]), expected=exp_start,
                               after_reset=prev["k"] == "reset", **loc)
                # (3) the action the policy sampled, as sampled
                a = np.asarray(f["a"][e], dtype=np.float64).reshape(-1)
                if not np.array_equal(np.asarray(buf["actions"][t][e], dtype=np.float64).reshape(-1), a):
                    return bad("slot action is not the action the policy sampled", "slot_action", **loc)
                # (4) what the environment received
                got = np.asarray(ev["actions"][e], dtype=np.float64).reshape(-1)
                tr = truth[i][e]
                if not np.array_equal(np.asarray(tr["action"], dtype=np.float64).reshape(-1), got):
                    return bad("sub-environment received another action than the training environment was given",
                               "env_action_passthrough", **loc)
                if r["is_box"]:
                    lo, hi = r["low"].astype(np.float64), r["high"].astype(np.float64)
                    if np.any(got < lo) or np.any(got > hi) or tr["in_space"] is False:
                        return bad("environment received an action outside its bounds", "env_action_bounds",
                                   got=got.tolist(), **loc)
                    if r["squash"]:
                        exp = np.minimum(np.maximum(lo + 0.5 * (a + 1.0) * (hi - lo), lo), hi)
                        if not np.all(np.abs(exp - got) <= 1e-5 * np.maximum(1.0, np.abs(exp))):
                            return bad("environment did not receive the unsquashed action", "env_action_unscale",
                                       got=got.tolist(), expected=exp.tolist(), **loc)
                    else:
                        exp = np.minimum(np.maximum(a, lo), hi)
                        if not np.array_equal(exp, got):
                            return bad("environment did not receive the sampled action clipped to its bounds",
                                       "env_action_clip", got=got.tolist(), expected=exp.tolist(), **loc)
                else:
                    if not np.array_equal(got, a) or tr["in_space"] is False:
                        return bad("environment did not receive the sampled action", "env_action_ident",
                                   got=got.tolist(), expected=a.tolist(), **loc)
                # (5) value and log-prob the current policy assigns
                bv, blp = float(buf["values"][t][e]), float(buf["log_probs"][t][e])
                fv, flp = float(np.asarray(f["v"]).reshape(-1)[e]), float(np.asarray(f["lp"]).reshape(-1)[e])
                if bv != fv or not rel_ok(bv, float(ro["ev_values"][t][e]), VTOL):
                    return bad("slot value is not the value the current policy assigns to the slot observation", "slot_value",
                               got=bv, forward=fv, recomputed=float(ro["ev_values"][t][e]), **loc)
                if blp != flp or not rel_ok(blp, float(ro["ev_logp"][t][e]), 1e-3):
                    return bad("slot log-prob is not the log-probability the current policy assigns to the slot action",
                               "slot_logp", got=blp, forward=flp, recomputed=float(ro["ev_logp"][t][e]), **loc)
                # (6) reward, bootstrapped exactly on time-limit truncation
                rr = float(ev["rew"][e])
                if not r["norm_reward"] and rr != tr["rew"]:
                    return bad("training environment reward differs from the scripted reward", "venv_reward", **loc)
                br = float(buf["rewards"][t][e])
                must = tr["trunc"] and not tr["term"]
                if must:
                    vt = ro["pv"].get((i, e))
                    if vt is None:
                        return bad("no terminal observation delivered for a truncated episode", "venv_terminal", **loc)
                    exp = rr + gamma * vt
                    if not rel_ok(br, exp, VTOL):
                        sub = "missing_bootstrap" if br == rr else "wrong_amount"
                        rep.violation("reward of a time-limit truncated step is not r + gamma * V(terminal observation)",
                                      case, dict(sig0, kind="slot_reward", sub=sub),
                                      dict(loc, got=br, reward=rr, gamma=gamma, v_terminal=vt, expected=exp,
                                           predict_values_terminal=ro["pred"].get((i, e))))
                        return False
                elif br != rr:
                    sub = "terminated_bootstrapped" if tr["term"] else "running_changed"
                    rep.violation("reward of a step that was not cut by a time limit differs from the environment's reward",
                                  case, dict(sig0, kind="slot_reward", sub=sub),
                                  dict(loc, got=br, reward=rr, terminated=tr["term"], truncated=tr["trunc"]))
                    return False
        # (7) the rollout is bootstrapped with the values of the observation after its last step
        last = events[ro["ev1"] - 1]
        pv_last = ro["pv"][ro["ev1"] - 1]
        for e in range(n):
            loc = dict(where, env=e)
            d = float(last["dones"][e])
            if ro["n_gae_calls"] != k + 1:
                return bad("compute_returns_and_advantage was not called exactly once per rollout", "gae_calls",
                           calls=ro["n_gae_calls"], **where)
            if ro["loc_values"] is not None and ro["loc_dones"] is not None:
                if not rel_ok(float(ro["loc_values"][e]), float(pv_last[e]), VTOL):
                    return bad("last values handed to GAE are not the values of the observation after the last step",
                               "last_values", got=float(ro["loc_values"][e]), expected=float(pv_last[e]), **loc)
                if float(ro["loc_dones"][e]) != d:
                    return bad("dones handed to GAE are not the dones of the last step", "last_dones", **loc)
            else:
                rep.count("gae_args_unavailable")
            exp_adv = float(buf["rewards"][T - 1][e]) + gamma * float(pv_last[e]) * (1.0 - d) - float(buf["values"][T - 1][e])
            if not rel_ok(float(buf["advantages"][T - 1][e]), exp_adv, 1e-3):
                return bad("advantage of the last step is not r + gamma * V(successor observation) * (1 - done) - V",
                           "last_advantage", got=float(buf["advantages"][T - 1][e]), expected=exp_adv, **loc)
            if not rel_ok(float(ro["pred"][ro["ev1"] - 1][e]), float(pv_last[e]), VTOL):
                return bad("predict_values differs from the value the policy's forward / evaluate_actions assigns "
                           "(successor observation of the rollout)", "predict_values_inconsistent",
                           predict_values=float(ro["pred"][ro["ev1"] - 1][e]), critic=float(pv_last[e]), **loc)
            # (8) state left for the next rollout / learn() call
            if ro["last_obs"] is not None and not _same(_slice(ro["last_obs"], e), _slice(last["obs"], e)):
                return bad("_last_obs after the rollout is not the observation returned by its last step", "carry_obs", **loc)
            if ro["last_starts"] is not None and float(ro["last_starts"][e]) != d:
                return bad("_last_episode_starts after the rollout is not the dones of its last step", "carry_starts", **loc)
        # (9) predict_values (used for the time-limit bootstrap and the last values) is the critic of forward() /
        #     evaluate_actions() on everything the environment delivered during this rollout
        for key, pred in ro["pred"].items():
            ref = ro["pv"][key]
            ok = rel_ok(float(pred), float(ref), VTOL) if isinstance(key, tuple) else \
                all(rel_ok(float(a), float(b), VTOL) for a, b in zip(pred, ref))
            if not ok:
                return bad("predict_values differs from the value the policy's forward / evaluate_actions assigns",
                           "predict_values_inconsistent", rollout=k, terminal=isinstance(key, tuple))
    return True


# ------------------------------------------------------------------------------------------------
def fr(x):
    return ratj(F(float(x)))


def build_ops(case, r, tags, truth):
    """model operations + the implementation-side answers they must reproduce"""
    n, T = case["n_envs"], case["n_steps"]
    events = r["events"]
    ops, impl = [], []
    ops.append({"op": "new", "n": n, "gamma": fr(r["gamma"]), "lam": fr(case["gae_lambda"]), "is_box": r["is_box"], "squash": r["squash"],
                "lazy_vec": case.get("vec", "dummy") == "lazy",
                "low": [fr(x) for x in r["low"].reshape(-1)] if r["is_box"] else [],
                "high": [fr(x) for x in r["high"].reshape(-1)] if r["is_box"] else []})
    kind = "ident" if not r["is_box"] else ("unscale" if r["squash"] else "clip")
    impl.append(("config", {"ok": True, "act": kind}))

    # tag lookup for arrays that came back from the library
    keymap = {}
    for i, ev in enumerate(events):
        for e in range(n):
            keymap.setdefault(_key(_slice(ev["obs"], e)), set()).add(tags[i][e])

    def tag_of(o, expected):
        c = keymap.get(_key(o), set())
        if expected in c:
            return expected
        return min(c) if c else -1

    roll_i = 0
    for li, lc in enumerate(case["learns"]):
        lm = r["learn_marks"][li]
        ev0 = lm["ev0"]
        saw_reset = ev0 < len(events) and events[ev0]["k"] == "reset"
        if lc.get("rebind"):
            ops.append({"op": "set_env"})
            impl.append(("set_env", None))
        ops.append({"op": "learn", "reset": lc["reset"], "obs": tags[ev0] if saw_reset else []})
        # the carried state right after _setup_learn is observed through the first rollout's first row; the
        # implementation-side answer is built from the recorder: state = last event before the first rollout
        first_ro = r["rollouts"][roll_i] if roll_i < len(r["rollouts"]) else None
        if first_ro is not None:
            p = events[first_ro["ev0"] - 1]
            impl.append(("learn", {"last_obs": [tag_of(_slice(_slice(first_ro["buf"]["observations"], 0), e),
                                                       tags[first_ro["ev0"] - 1][e]) for e in range(n)],
                                   "starts": [bool(first_ro["buf"]["episode_starts"][0][e]) for e in range(n)]}))
        else:
            impl.append(("learn", None))
        for _ in range(lc["rollouts"]):
            ro = r["rollouts"][roll_i]
            roll_i += 1
            buf = ro["buf"]
            table = {}
            prev_i = ro["ev0"] - 1
            for i in range(prev_i, ro["ev1"]):
                for e in range(n):
                    table[tags[i][e]] = fr(ro["pv"][i][e])
                if events[i]["k"] == "step" and i >= ro["ev0"]:
                    for e in range(n):
                        if (i, e) in ro["pv"] and (truth[i][e]["term"] or truth[i][e]["trunc"]):
                            table[truth[i][e]["tag"]] = fr(ro["pv"][(i, e)])
            steps, rows, eacts, vec = [], [], [], []
            for t in range(T):
                i = ro["ev0"] + t
                ev, f = events[i], r["fw"][ro["fw0"] + t]
                steps.append({
                    "samples": [{"a": [fr(x) for x in np.asarray(f["a"][e]).reshape(-1)],
                                 "logp": fr(np.asarray(f["lp"]).reshape(-1)[e])} for e in range(n)],
                    "raw": [{"obs": truth[i][e]["tag"], "r": fr(ev["rew"][e]), "term": truth[i][e]["term"],
                             "trunc": truth[i][e]["trunc"], "reset": truth[i][e]["reset_tag"] or 0,
                             "stale_term": truth[i][e]["stale_term"], "stale_tl": truth[i][e]["stale_tl"]}
                            for e in range(n)],
                })
                rows.append([{
                    "obs": tag_of(_slice(_slice(buf["observations"], t), e), tags[i - 1][e]),
                    "action": [F(float(x)) for x in np.asarray(buf["actions"][t][e]).reshape(-1)],
                    "reward": F(float(buf["rewards"][t][e])),
                    "start": bool(buf["episode_starts"][t][e]),
                    "value": F(float(buf["values"][t][e])),
                    "logp": F(float(buf["log_probs"][t][e])),
                } for e in range(n)])
                eacts.append([[F(float(x)) for x in np.asarray(ev["actions"][e]).reshape(-1)] for e in range(n)])
                vrow = []
                for e in range(n):
                    tobs = ev["term"][e]
                    if tobs is None:
                        tt = None
                    elif r["norm_obs"] and ev["dones"][e]:
                        tt = truth[i][e]["tag"]  # normalised terminal observations cannot be decoded: presence only
                    else:
                        tt = c06_decode(tobs, case["obs_kind"])
                        tt = -1 if tt is None else tt
                    vrow.append({"obs": tags[i][e],
                                 "done": bool(ev["dones"][e]), "tl": bool(ev["tl"][e]), "term_obs": tt})
                vec.append(vrow)
            last_i = ro["ev1"] - 1
            ops.append({"op": "rollout", "V": [[k, v] for k, v in sorted(table.items())], "steps": steps})
            impl.append(("rollout", {
                "rows": rows, "env_actions": eacts, "vec": vec,
                "adv": [[F(float(x)) for x in row] for row in buf["advantages"]],
                "ret": [[F(float(x)) for x in row] for row in buf["returns"]],
                "last_values": None if ro["loc_values"] is None else [F(float(x)) for x in ro["loc_values"]],
                "last_dones": None if ro["loc_dones"] is None else [bool(x) for x in ro["loc_dones"]],
                "last_obs": None if ro["last_obs"] is None else
                [tag_of(_slice(ro["last_obs"], e), tags[last_i][e]) for e in range(n)],
                "starts": None if ro["last_starts"] is None else [bool(x) for x in ro["last_starts"]],
                "kind": kind,
            }))
    return ops, impl


def q_close(a, b, tol):
    a, b = F(a), F(b)
    return abs(a - b) <= F(tol) * max(F(1), abs(a), abs(b))


def compare(ctx, case, impl, mouts):
    """True if every model answer equals the implementation's"""
    rep = ctx.report
    for (stream, im), mo in zip(impl, mouts):
        if mo is None:
            return None
        if "error" in mo:
            rep.disagree(stream, case, "ok", mo)
            return False
        if stream == "config":
            if mo != im:
                rep.disagree("config", case, im, mo)
                return False
        elif stream == "set_env":
            continue
        elif stream == "learn":
            if im is not None and (mo["last_obs"] != im["last_obs"] or mo["starts"] != im["starts"]):
                rep.disagree("learn", case, im, mo)
                return False
        else:
            T, n = len(im["rows"]), case["n_envs"]
            if len(mo["rows"]) != T:
                rep.disagree("rows", case, {"T": T}, {"T": len(mo["rows"])})
                return False
            for t in range(T):
                for e in range(n):
                    a, b = im["rows"][t][e], mo["rows"][t][e]
                    m_rew = unratj(b["reward"])
                    boot = mo["vec"][t][e]["tl"] and mo["vec"][t][e]["done"] and mo["vec"][t][e]["term_obs"] is not None
                    ok = (a["obs"] == b["obs"] and a["start"] == b["start"]
                          and a["action"] == [unratj(x) for x in b["action"]]
                          and a["logp"] == unratj(b["logp"])
                          and q_close(a["value"], unratj(b["value"]), VTOL)
                          and (q_close(a["reward"], m_rew, VTOL) if boot else a["reward"] == m_rew))
                    if not ok:
                        rep.disagree("rows", case, dict(a, t=t, e=e, action=[float(x) for x in a["action"]],
                                                        reward=float(a["reward"]), value=float(a["value"]),
                                                        logp=float(a["logp"])),
                                     dict(b, reward=float(m_rew), value=float(unratj(b["value"]))))
                        return False
                    ia, ma = im["env_actions"][t][e], [unratj(x) for x in mo["env_actions"][t][e]]
                    if im["kind"] == "unscale":
                        okA = len(ia) == len(ma) and all(q_close(x, y, 1e-5) for x, y in zip(ia, ma))
                    else:
                        okA = ia == ma
                    if not okA:
                        rep.disagree("env_actions", case, {"t": t, "e": e, "a": [float(x) for x in ia]},
                                     {"a": [float(x) for x in ma]})
                        return False
                    if im["vec"][t][e] != mo["vec"][t][e]:
                        rep.disagree("vec", case, dict(im["vec"][t][e], t=t, e=e), mo["vec"][t][e])
                        return False
            for fld in ("adv", "ret"):
                for t in range(T):
                    for e in range(n):
                        if not q_close(im[fld][t][e], unratj(mo[fld][t][e]), 1e-3):
                            rep.disagree("gae", case, {"field": fld, "t": t, "e": e, "v": float(im[fld][t][e])},
                                         {"v": float(unratj(mo[fld][t][e]))})
                            return False
            if im["last_values"] is not None:
                if not all(q_close(x, unratj(y), VTOL) for x, y in zip(im["last_values"], mo["last_values"])) \
                        or im["last_dones"] != mo["last_dones"]:
                    rep.disagree("last", case, {"values": [float(x) for x in im["last_values"]], "dones": im["last_dones"]},
                                 {"values": [float(unratj(y)) for y in mo["last_values"]], "dones": mo["last_dones"]})
                    return False
            if im["last_obs"] is not None and (im["last_obs"] != mo["last_obs"] or im["starts"] != mo["starts"]):
                rep.disagree("last", case, {"last_obs": im["last_obs"], "starts": im["starts"]},
                             {"last_obs": mo["last_obs"], "starts": mo["starts"]})
                return False
    return True


# ------------------------------------------------------------------------------------------------
def classify(case, r, truth):
    ends = set()
    for i, row in truth.items():
        for st in row:
            if st["term"] and st["trunc"]:
                ends.add("both")
            elif st["term"]:
                ends.add("term")
            elif st["trunc"]:
                ends.add("trunc")
    return ends


def check_cases(ctx, cases):
    rep = ctx.report
    all_ops, plan = [], []
    for case in cases:
        r = guarded(ctx, case, lambda: run_case(case))
        rep.count("algo:" + case["algo"])
        rep.count("obs:" + case["obs_kind"])
        rep.count("act:" + case["act_kind"])
        rep.count("n_envs=%d" % case["n_envs"])
        rep.count("n_steps=%d" % case["n_steps"])
        rep.count("vecnorm:" + ("none" if case["vecnorm"] is None else
                                (("obs" if case["vecnorm"]["norm_obs"] else "") +
                                 ("+rew" if case["vecnorm"]["norm_reward"] else "")) or "wrapper-only"))
        rep.count("sde:" + ("none" if case["sde"] is None else ("squash" if case["sde"]["squash"] else "plain")))
        rep.count("info_mode:" + case.get("info_mode", "fresh") + "/vec:" + case.get("vec", "dummy"))
        rep.count("features_extractor:" + ("default" if case.get("fe") is None else
                                           ("custom-shared" if case["fe"]["share"] else "custom-separate")))
        if r is not None and r.get("fe_distinct") is False:
            rep.count("separate_extractors_not_distinct")
        rep.count("learn_calls=%d" % len(case["learns"]))
        if any(lc.get("rebind") for lc in case["learns"]):
            rep.count("set_env_before_continuing_learn")
        if r is None:
            rep.case(case, None)
            continue
        try:
            tags, truth = ground_truth(case, r)
        except ValueError as ex:
            rep.case(case, None)
            rep.violation("training environment calls do not line up with the sub-environments' logs", case,
                          {"kind": "venv_contract", "algo": case["algo"]}, str(ex))
            continue
        ends = classify(case, r, truth)
        for x in sorted(ends):
            rep.count("episode_end:" + x)
        if case.get("info_mode") == "reuse":
            # non-terminal steps taken while the reused info dict still carries a terminal_observation of an
            # earlier, time-limit truncated episode
            seen = [False] * case["n_envs"]
            stale = 0
            for i in sorted(truth):
                for e, st in enumerate(truth[i]):
                    if seen[e] and not (st["term"] or st["trunc"]):
                        stale += 1
                    if st["trunc"] and not st["term"]:
                        seen[e] = True
            rep.count("reuse:nonterminal_steps_after_a_truncation", stale)
            if stale:
                rep.count("reuse:cases_with_steps_after_a_truncation")
        n_boot = sum(1 for row in truth.values() for st in row if st["trunc"] and not st["term"])
        rep.count("bootstrapped_steps", n_boot)
        rep.count("env_steps", sum(len(row) for row in truth.values()))
        if any(lc["reset"] is False for lc in case["learns"][1:]):
            rep.count("learn_continued_without_reset")
        if r["is_box"]:
            allA = np.concatenate([np.asarray(f["a"], dtype=np.float64).reshape(-1, r["low"].size) for f in r["fw"]]) \
                if r["fw"] else np.zeros((0, r["low"].size))
            if r["squash"]:
                rep.count("squashed_components_saturated_at_+-1", int(np.sum(np.abs(allA) == 1.0)))
                rep.count("squashed_components", int(allA.size))
            else:
                lo, hi = r["low"].astype(np.float64).reshape(-1), r["high"].astype(np.float64).reshape(-1)
                rep.count("box_components_outside_bounds", int(np.sum((allA < lo) | (allA > hi))))
                rep.count("box_components", int(allA.size))
        T = case["n_steps"]
        for ro in r["rollouts"]:
            if ro["ev1"] > ro["ev0"] and ro["ev1"] - 1 in truth and any(
                    st["term"] or st["trunc"] for st in truth[ro["ev1"] - 1]):
                rep.count("episode_end_on_rollout_boundary")
        finite = all(np.all(np.isfinite(ro["buf"][f])) for ro in r["rollouts"] for f in ("values", "log_probs", "rewards"))
        if not finite:
            rep.count("nonfinite_skipped")
            rep.case(case, None)
            continue
        nt = ends >= {"both", "term", "trunc"}
        rep.case(case, case if nt else None)
        clean = oracle(ctx, case, r, tags, truth)
        if not clean:
            continue
        ops, impl = build_ops(case, r, tags, truth)
        plan.append((case, impl, len(all_ops), len(ops)))
        all_ops.extend(ops)
    outs = ctx.lean.run(all_ops)
    for case, impl, i, k in plan:
        res = compare(ctx, case, impl, outs[i:i + k])
        if res is True:
            rep.agree(k)
