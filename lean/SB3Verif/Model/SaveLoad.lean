/-
Model of saving and loading in stable-baselines3 (property C09).

* `stable_baselines3/common/save_util.py`
    `is_json_serializable`, `is_json_native`, `data_to_json`, `json_to_data` (the attribute codec),
    `open_path` (str / `pathlib.Path` / file object), `save_to_zip_file`, `load_from_zip_file`,
    `save_to_pkl`, `load_from_pkl`;
* `stable_baselines3/common/base_class.py`
    `save` (attribute partition into data / state-dicts / torch variables), `load`
    (rebuild, `__dict__.update(data)`, `_setup_model`, `set_parameters(exact_match=True)`, torch
    variables), `get_parameters`, `set_parameters`;
* the per-algorithm member lists `_excluded_save_params` / `_get_torch_save_params`
    (`base_class.py`, `on_policy_algorithm.py`, `dqn.py`, `sac.py`, `td3.py`);
* `__getstate__` / `__setstate__` of `VecNormalize` and `HerReplayBuffer`.

Values are Python values (`PyVal`), JSON documents are value trees (`JVal`: what `json.dumps` emits
and `json.loads` reads — the text layer in between is CPython's and is not modelled).
Everything only `pickle` / `cloudpickle` / `th.save` can carry is external (`Ext`).

Core only: no Mathlib.
-/

namespace SB3Verif.SaveLoad

/-! ## Values -/

/-- A JSON document as a tree. Integers and floats are distinct (`1` vs `1.0` in the text);
a float is its IEEE-754 bit pattern. Objects are association lists in document order (the text may
repeat a key). -/
inductive JVal where
  | null
  | bool (b : Bool)
  | int (i : Int)
  | float (bits : Nat)
  | str (s : String)
  | arr (xs : List JVal)
  | obj (kvs : List (String × JVal))
  deriving Repr, Inhabited

/-- A Python value.
`obj cls id js vars` is any value whose type is not exactly one of the builtin JSON types: class
instances, classes, functions, numpy scalars, spaces, subclasses of builtins …
`cls` = `str(type(x))`, `id` = identity tag, `js` = how `json.dumps` renders it if it does
(`np.float64(1.5)` → `1.5`, `np.str_("a")` → `"a"`; `none`: `TypeError`), `vars` = the items of
`x.__dict__` (of `x.items()` for a `dict` subclass), `[]` when it has none.
Dictionaries are association lists in insertion order with arbitrary keys. -/
inductive PyVal where
  | none
  | bool (b : Bool)
  | int (i : Int)
  | float (bits : Nat)
  | str (s : String)
  | list (xs : List PyVal)
  | tuple (xs : List PyVal)
  | dict (kvs : List (PyVal × PyVal))
  | obj (cls : String) (id : Nat) (js : Option JVal) (vars : List (PyVal × PyVal))
  deriving Repr, Inhabited

/-- What `cloudpickle.loads(base64.b64decode(s.encode()))` does inside `json_to_data`:
gives a value, raises one of the exceptions `json_to_data` catches (`RuntimeError`, `TypeError`,
`AttributeError`: warning, attribute dropped), or raises something else (propagates). -/
inductive Unpickled where
  | ok (v : PyVal)
  | caught
  | raised
  deriving Repr, Inhabited

/-- Externals of the codec. -/
structure Ext where
  /-- `base64.b64encode(cloudpickle.dumps(v)).decode()` -/
  pickle : PyVal → String
  /-- `cloudpickle.loads(base64.b64decode(s.encode()))` -/
  unpickle : String → Unpickled
  /-- `str(v)` -/
  pyStr : PyVal → String
  /-- the JSON text of a float used as a dictionary key (`float.__repr__`) -/
  floatKey : Nat → String

/-! ## Insertion-ordered dictionaries with string keys -/

/-- `d[k] = v`: overwrite in place when the key exists, append otherwise. -/
def dictSet {β : Type} (d : List (String × β)) (k : String) (v : β) : List (String × β) :=
  match d with
  | [] => [(k, v)]
  | (k', v') :: r => if k' = k then (k', v) :: r else (k', v') :: dictSet r k v

/-- `d.get(k)` -/
def dictGet {β : Type} (d : List (String × β)) (k : String) : Option β :=
  match d with
  | [] => none
  | (k', v') :: r => if k' = k then some v' else dictGet r k

/-- `k in d` -/
def dictHas {β : Type} (d : List (String × β)) (k : String) : Bool := (dictGet d k).isSome

/-- a dictionary built by assigning the items one after the other (`json.loads` of an object,
`dict.update`) -/
def dictUpdate {β : Type} (d items : List (String × β)) : List (String × β) :=
  items.foldl (fun acc kv => dictSet acc kv.1 kv.2) d

/-- `d.pop(k, None)` -/
def dictPop {β : Type} (d : List (String × β)) (k : String) : List (String × β) :=
  d.filter (fun kv => kv.1 != k)

/-- a string-keyed dictionary as a Python value -/
def strDict (d : List (String × PyVal)) : List (PyVal × PyVal) := d.map fun kv => (PyVal.str kv.1, kv.2)

/-! ## `json.dumps` / `json.loads` on value trees (CPython's encoder rules) -/

/-- The key coercion of `json.dumps` (`skipkeys=False`): `str` as is, `int`/`float`/`bool`/`None`
to their JSON text, subclasses of `str`/`int`/`float` alike; anything else is a `TypeError`. -/
def jsonKey (E : Ext) : PyVal → Option String
  | .str s => some s
  | .int i => some (toString i)
  | .bool true => some "true"
  | .bool false => some "false"
  | .none => some "null"
  | .float b => some (E.floatKey b)
  | .obj _ _ (some (.str s)) _ => some s
  | .obj _ _ (some (.int i)) _ => some (toString i)
  | .obj _ _ (some (.float b)) _ => some (E.floatKey b)
  | _ => Option.none

mutual
/-- `json.dumps(v)`: `none` = `TypeError`. Tuples become arrays, keys are coerced. -/
def jsonDumps (E : Ext) : PyVal → Option JVal
  | .none => some .null
  | .bool b => some (.bool b)
  | .int i => some (.int i)
  | .float b => some (.float b)
  | .str s => some (.str s)
  | .list xs => (dumpsList E xs).map .arr
  | .tuple xs => (dumpsList E xs).map .arr
  | .dict kvs => (dumpsItems E kvs).map .obj
  | .obj _ _ js _ => js
def dumpsList (E : Ext) : List PyVal → Option (List JVal)
  | [] => some []
  | x :: xs =>
    match jsonDumps E x, dumpsList E xs with
    | some j, some js => some (j :: js)
    | _, _ => Option.none
def dumpsItems (E : Ext) : List (PyVal × PyVal) → Option (List (String × JVal))
  | [] => some []
  | (k, v) :: r =>
    match jsonKey E k, jsonDumps E v, dumpsItems E r with
    | some ks, some j, some js => some ((ks, j) :: js)
    | _, _, _ => Option.none
end

/-- `is_json_serializable` -/
def isJsonSerializable (E : Ext) (v : PyVal) : Bool := (jsonDumps E v).isSome

mutual
/-- `json.loads`: arrays become lists, objects dictionaries with string keys (a repeated key keeps
its first position and its last value). -/
def jsonLoads : JVal → PyVal
  | .null => .none
  | .bool b => .bool b
  | .int i => .int i
  | .float b => .float b
  | .str s => .str s
  | .arr xs => .list (loadsList xs)
  | .obj kvs => .dict (strDict (dictUpdate [] (loadsItems kvs)))
def loadsList : List JVal → List PyVal
  | [] => []
  | x :: xs => jsonLoads x :: loadsList xs
def loadsItems : List (String × JVal) → List (String × PyVal)
  | [] => []
  | (k, v) :: r => (k, jsonLoads v) :: loadsItems r
end

mutual
/-- `is_json_native`: JSON reproduces the value exactly — `None`, exact `bool`/`int`/`float`/`str`,
lists of those, dictionaries with `str` keys. -/
def isNative : PyVal → Bool
  | .none | .bool _ | .int _ | .float _ | .str _ => true
  | .list xs => allNative xs
  | .dict kvs => allNativeItems kvs
  | .tuple _ | .obj _ _ _ _ => false
def allNative : List PyVal → Bool
  | [] => true
  | x :: xs => isNative x && allNative xs
def allNativeItems : List (PyVal × PyVal) → Bool
  | [] => true
  | (k, v) :: r => (match k with | .str _ => true | _ => false) && isNative v && allNativeItems r
end

/-- the key of an item when it is a string -/
def strKey? : PyVal → Option String
  | .str s => some s
  | _ => Option.none

/-- the string keys of a dictionary's items, in order -/
def strKeys (kvs : List (PyVal × PyVal)) : List String := kvs.filterMap fun kv => strKey? kv.1

/-- pairwise different -/
def nodupB : List String → Bool
  | [] => true
  | x :: xs => !xs.contains x && nodupB xs

mutual
/-- Well-formedness of a Python value as far as the codec depends on it: inside every dictionary
(and `__dict__`) the keys that are strings are pairwise different — a Python dictionary cannot hold a
key twice. -/
def wfKeys : PyVal → Bool
  | .none | .bool _ | .int _ | .float _ | .str _ => true
  | .list xs => wfKeysList xs
  | .tuple xs => wfKeysList xs
  | .dict kvs => nodupB (strKeys kvs) && wfKeysItems kvs
  | .obj _ _ _ vars => nodupB (strKeys vars) && wfKeysItems vars
def wfKeysList : List PyVal → Bool
  | [] => true
  | x :: xs => wfKeys x && wfKeysList xs
def wfKeysItems : List (PyVal × PyVal) → Bool
  | [] => true
  | (k, v) :: r => wfKeys k && wfKeys v && wfKeysItems r
end

/-! ## `data_to_json` / `json_to_data` -/

/-- `str(type(v))` -/
def typeStr : PyVal → String
  | .none => "<class 'NoneType'>"
  | .bool _ => "<class 'bool'>"
  | .int _ => "<class 'int'>"
  | .float _ => "<class 'float'>"
  | .str _ => "<class 'str'>"
  | .list _ => "<class 'list'>"
  | .tuple _ => "<class 'tuple'>"
  | .dict _ => "<class 'dict'>"
  | .obj cls _ _ _ => cls

/-- `str(variable_name)` for a first-level key -/
def keyStr (E : Ext) : PyVal → String
  | .str s => s
  | k => E.pyStr k

/-- the first-level items `data_to_json` lists next to a pickled value:
`data_item.items()` for a dictionary, `data_item.__dict__.items()` for an object -/
def infoItems : PyVal → List (PyVal × PyVal)
  | .dict kvs => kvs
  | .obj _ _ _ vars => vars
  | _ => []

/-- `cloudpickle_serialization[str(variable_name)] = variable_item if serialisable else str(variable_item)` -/
def infoValue (E : Ext) (x : PyVal) : PyVal :=
  if isJsonSerializable E x then x else .str (E.pyStr x)

/-- the dictionary stored for a value that goes through cloudpickle:
`{":type:": …, ":serialized:": …}` and then the first-level items assigned on top. -/
def pickledEntry (E : Ext) (v : PyVal) : List (String × PyVal) :=
  (infoItems v).foldl (fun acc kx => dictSet acc (keyStr E kx.1) (infoValue E kx.2))
    [(":type:", .str (typeStr v)), (":serialized:", .str (E.pickle v))]

/-- what `data_to_json` puts under an attribute's name -/
def storeAttr (E : Ext) (v : PyVal) : PyVal :=
  if isJsonSerializable E v && isNative v then v else .dict (strDict (pickledEntry E v))

/-- `serializable_data` -/
def serializableData (E : Ext) (d : List (String × PyVal)) : List (String × PyVal) :=
  d.foldl (fun acc kv => dictSet acc kv.1 (storeAttr E kv.2)) []

/-- `data_to_json(data)`: the JSON document written to the archive member `data`
(`none`: `json.dumps` raises `TypeError`). -/
def dataToJson (E : Ext) (d : List (String × PyVal)) : Option JVal :=
  jsonDumps E (.dict (strDict (serializableData E d)))

/-- value stored under the string key `k` of a dictionary with arbitrary keys -/
def lookupStr (kvs : List (PyVal × PyVal)) (k : String) : Option PyVal :=
  match kvs with
  | [] => Option.none
  | (k', v) :: r => if strKey? k' = some k then some v else lookupStr r k

inductive Loaded where
  | keep (v : PyVal)
  | drop
  | raise
  deriving Repr, Inhabited

/-- one item of `json_to_data`: a dictionary with a `":serialized:"` key is taken for a pickled
value (whoever wrote it), anything else is read as it is. A `":serialized:"` entry that is not a
string makes `.encode()` raise `AttributeError`, which is caught. -/
def loadItem (E : Ext) (item : PyVal) : Loaded :=
  match item with
  | .dict kvs =>
    match lookupStr kvs ":serialized:" with
    | Option.none => .keep item
    | some (.str s) =>
      match E.unpickle s with
      | .ok v => .keep v
      | .caught => .drop
      | .raised => .raise
    | some _ => .drop
  | _ => .keep item

/-- the loop of `json_to_data` (`acc` = `return_data`); `none`: an exception propagates -/
def loadItems (E : Ext) (custom : List (String × PyVal)) :
    List (PyVal × PyVal) → List (String × PyVal) → Option (List (String × PyVal))
  | [], acc => some acc
  | (k, item) :: r, acc =>
    match strKey? k with
    | Option.none => Option.none
    | some key =>
      match dictGet custom key with
      | some c => loadItems E custom r (dictSet acc key c)
      | Option.none =>
        match loadItem E item with
        | .keep v => loadItems E custom r (dictSet acc key v)
        | .drop => loadItems E custom r acc
        | .raise => Option.none

/-- `json_to_data(json_string, custom_objects)` on the parsed document
(`custom_objects=None` is `[]`); `none`: an exception propagates. -/
def jsonToData (E : Ext) (custom : List (String × PyVal)) (j : JVal) : Option (List (String × PyVal)) :=
  match jsonLoads j with
  | .dict items => loadItems E custom items []
  | _ => Option.none

/-- save then load of an attribute dictionary through the `data` member -/
def roundTrip (E : Ext) (custom : List (String × PyVal)) (d : List (String × PyVal)) :
    Option (List (String × PyVal)) :=
  match dataToJson E d with
  | Option.none => Option.none
  | some j => jsonToData E custom j

/-- The finding K-C09-a is excluded by this predicate: no attribute that is a dictionary or an object
has a first-level key whose `str()` is `":serialized:"`. -/
def noSerializedKey (E : Ext) (d : List (String × PyVal)) : Bool :=
  d.all fun kv => (infoItems kv.2).all fun kx => keyStr E kx.1 != ":serialized:"

/-! ### The codec before commits ae37983 / 38e7f22 (for the documented negative results) -/

/-- old `pickledEntry`: the first-level key is used as it is, so it must be acceptable to `json.dumps` -/
def pickledEntryOld (E : Ext) (v : PyVal) : List (PyVal × PyVal) :=
  [(.str ":type:", .str (typeStr v)), (.str ":serialized:", .str (E.pickle v))] ++
    (infoItems v).map fun kx => (kx.1, infoValue E kx.2)

/-- old `data_to_json`: JSON whenever `json.dumps` accepts the value -/
def storeAttrOld (E : Ext) (v : PyVal) : PyVal :=
  if isJsonSerializable E v then v else .dict (pickledEntryOld E v)

def dataToJsonOld (E : Ext) (d : List (String × PyVal)) : Option JVal :=
  jsonDumps E (.dict (strDict (d.foldl (fun acc kv => dictSet acc kv.1 (storeAttrOld E kv.2)) [])))

def roundTripOld (E : Ext) (d : List (String × PyVal)) : Option (List (String × PyVal)) :=
  match dataToJsonOld E d with
  | Option.none => Option.none
  | some j => jsonToData E [] j

/-! ## `save`: the attribute partition -/

/-- What an algorithm class declares about its members. -/
structure Spec where
  /-- `_excluded_save_params()` -/
  excluded : List String
  /-- `_get_torch_save_params()[0]`: dotted names of objects saved through `state_dict()` -/
  stateDicts : List String
  /-- `_get_torch_save_params()[1]`: dotted names of tensors saved with `th.save` -/
  torchVars : List String
  deriving Repr, Inhabited

/-- `torch_var.split(".")[0]` -/
def topName (dotted : String) : String := String.ofList (dotted.toList.takeWhile (· != '.'))

/-- names of the attributes that hold torch-saved members -/
def torchTops (s : Spec) : List String := (s.stateDicts ++ s.torchVars).map topName

/-- the final `exclude` set of `save()`:
`(exclude ∪ defaults) − include`, then the top-level names of all torch-saved members added. -/
def effExclude (s : Spec) (excl incl : List String) : List String :=
  ((excl ++ s.excluded).filter fun n => !incl.contains n) ++ torchTops s

/-- the `data` dictionary handed to `save_to_zip_file` -/
def saveData (s : Spec) (excl incl : List String) (attrs : List (String × PyVal)) :
    List (String × PyVal) :=
  attrs.filter fun kv => !(effExclude s excl incl).contains kv.1

inductive Algo where
  | a2c | ppo | dqn | sac (learnedEntCoef : Bool) | td3 | ddpg
  deriving Repr, Inhabited, DecidableEq

/-- `BaseAlgorithm._excluded_save_params` -/
def baseExcluded : List String :=
  ["policy", "device", "env", "replay_buffer", "rollout_buffer", "_vec_normalize_env", "_episode_storage",
   "_logger", "_custom_logger"]

/-- the member lists of the six algorithms (SAC's depend on whether the entropy coefficient is learned) -/
def Algo.spec : Algo → Spec
  | .a2c | .ppo => ⟨baseExcluded, ["policy", "policy.optimizer"], []⟩
  | .dqn => ⟨baseExcluded ++ ["q_net", "q_net_target"], ["policy", "policy.optimizer"], []⟩
  | .sac true => ⟨baseExcluded ++ ["actor", "critic", "critic_target"],
      ["policy", "actor.optimizer", "critic.optimizer", "ent_coef_optimizer"], ["log_ent_coef"]⟩
  | .sac false => ⟨baseExcluded ++ ["actor", "critic", "critic_target"],
      ["policy", "actor.optimizer", "critic.optimizer"], ["ent_coef_tensor"]⟩
  | .td3 | .ddpg => ⟨baseExcluded ++ ["actor", "critic", "actor_target", "critic_target"],
      ["policy", "actor.optimizer", "critic.optimizer"], []⟩

/-! ## Torch-saved members, `get_parameters` / `set_parameters` -/

/-- The torch side of a model: for every dotted name the state (a state-dict or a tensor), as an
opaque value; `th.save` / `th.load` / `state_dict()` / `load_state_dict()` are external and assumed
to carry the state unchanged. -/
abbrev Torch := List (String × PyVal)

/-- `get_parameters()` -/
def getParameters (s : Spec) (t : Torch) : List (String × PyVal) :=
  s.stateDicts.filterMap fun n => (dictGet t n).map fun v => (n, v)

def sameNames (a b : List String) : Bool := a.all b.contains && b.all a.contains

/-- `set_parameters(params, exact_match)`: every named object must exist (`ValueError` otherwise);
with `exact_match` the set of names must be exactly the declared one. `none` = `ValueError`. -/
def setParameters (s : Spec) (t : Torch) (params : List (String × PyVal)) (exact : Bool) : Option Torch :=
  if !(params.all fun kv => dictHas t kv.1) then Option.none
  else if exact && !sameNames (params.map (·.1)) s.stateDicts then Option.none
  else some (dictUpdate t params)

/-! ## The archive, `save` and `load` -/

structure Archive where
  /-- member `data` -/
  data : JVal
  /-- members `<name>.pth` -/
  params : List (String × PyVal)
  /-- member `pytorch_variables.pth` -/
  vars : List (String × PyVal)
  deriving Repr, Inhabited

/-- A model: its `__dict__` (without the torch-saved members' objects) and the torch side. -/
structure Model where
  attrs : List (String × PyVal)
  torch : Torch
  deriving Repr, Inhabited

/-- `model.save(path, exclude, include)`; `none`: raises. -/
def save (E : Ext) (s : Spec) (excl incl : List String) (m : Model) : Option Archive :=
  match dataToJson E (saveData s excl incl m.attrs) with
  | Option.none => Option.none
  | some j => some ⟨j, getParameters s m.torch, s.torchVars.filterMap fun n => (dictGet m.torch n).map fun v => (n, v)⟩

/-- What the caller of `load` supplies and what the class does while rebuilding. -/
structure LoadArgs where
  /-- `env is not None` -/
  envGiven : Bool
  forceReset : Bool
  /-- `env.num_envs` -/
  numEnvs : Int
  /-- `**kwargs` -/
  kwargs : List (String × PyVal)
  custom : List (String × PyVal)
  /-- `__dict__` of `cls(policy, env, device, _init_setup_model=False)` -/
  fresh : List (String × PyVal)
  /-- `_setup_model()` on the attributes -/
  setup : List (String × PyVal) → List (String × PyVal)
  /-- torch members as `_setup_model()` creates them -/
  freshTorch : Torch

/-- `cls.load(path, env, custom_objects, force_reset, **kwargs)`; `none`: raises. -/
def load (E : Ext) (s : Spec) (a : LoadArgs) (ar : Archive) : Option Model :=
  match jsonToData E a.custom ar.data with
  | Option.none => Option.none
  | some data =>
    if !(dictHas data "observation_space" && dictHas data "action_space") then Option.none
    else
      let data1 := if a.envGiven && a.forceReset then dictSet data "_last_obs" .none else data
      let data2 := if a.envGiven then dictSet data1 "n_envs" (.int a.numEnvs) else data1
      let attrs := a.setup (dictUpdate (dictUpdate a.fresh data2) a.kwargs)
      match setParameters s a.freshTorch ar.params true with
      | Option.none => Option.none
      | some t =>
        -- `recursive_setattr(model, name + ".data", value)`: the tensor must exist
        if !(ar.vars.all fun kv => dictHas t kv.1) then Option.none
        else some ⟨attrs, dictUpdate t ar.vars⟩

/-! ## Paths -/

/-- A file system as far as `open_path` looks at it: the names of the files that exist. -/
abbrev FS := List String

inductive PathArg where
  | str (p : String)
  | pathlib (p : String)
  | file (handle : Nat)
  deriving Repr, Inhabited, DecidableEq

inductive Target where
  | named (p : String)
  | handle (h : Nat)
  deriving Repr, Inhabited, DecidableEq

/-- the file written by `open_path(path, "w", suffix)`; `hasSuffix` = `pathlib.Path(p).suffix != ""` -/
def writeTarget (hasSuffix : String → Bool) (suffix : String) : PathArg → Target
  | .str p | .pathlib p => .named (if !hasSuffix p && suffix != "" then p ++ "." ++ suffix else p)
  | .file h => .handle h

/-- the file read by `open_path(path, "r", suffix)`: the path itself when it exists, else path.suffix -/
def readTarget (fs : FS) (suffix : String) : PathArg → Target
  | .str p | .pathlib p => .named (if fs.contains p || suffix == "" then p else p ++ "." ++ suffix)
  | .file h => .handle h

/-! ## Objects pickled on their own (`VecNormalize`, `HerReplayBuffer`) -/

/-- `__getstate__`: a copy of `__dict__` without the named members -/
def getState (dropped : List String) (attrs : List (String × PyVal)) : List (String × PyVal) :=
  attrs.filter fun kv => !dropped.contains kv.1

/-- `__setstate__` on a blank object, followed by the assignments `rebind` (`self.venv = None`, and
later `set_venv` / `set_env`) -/
def setState (state rebind : List (String × PyVal)) : List (String × PyVal) :=
  dictUpdate (dictUpdate [] state) rebind

end SB3Verif.SaveLoad
