"""
C12 — learn(): step, update and schedule accounting.

Implementation under test: BaseAlgorithm._setup_learn / _update_current_progress_remaining / _update_learning_rate,
OnPolicyAlgorithm.learn + collect_rollouts, OffPolicyAlgorithm.learn + collect_rollouts, should_collect_more_steps,
get_schedule_fn / get_linear_fn, and the train() loops of PPO, A2C, DQN, SAC, TD3, DDPG (real training runs, tiny nets).
Model: lean/SB3Verif/Model/Learn.lean (driver lean/SB3Verif/Driver/C12.lean)

Observation points (no source hooks): a callback (training start / rollout start / step / rollout end / training
end: num_timesteps, _current_progress_remaining, dones), optimizer step pre-hooks (which optimizer, lr of every param
group), user schedules that record their argument and result (lr, PPO clip ranges), DQN's exploration schedule wrapped.
"""
from __future__ import annotations

import math
import warnings
from fractions import Fraction as F

import numpy as np

from harness.common import guarded, unratj
from harness.envs import ScriptedEnv, make_tag

RULE = (
    "cases from one SplitMix64 stream: algorithm in PPO/A2C/DQN/SAC/TD3/DDPG; n_envs 1..4; on-policy n_steps 1..6, "
    "batch_size 1..R+3, n_epochs 1..3; PPO with target_kl in 1e-9..3e-2 (45% of PPO cases: >= 3 minibatches per epoch, "
    "2..4 epochs, lr 3e-3..3e-2, per-minibatch KL recomputed through evaluate_actions / rollout_buffer.get); off-policy train_freq (1..5 steps | 1..2 episodes, "
    "one env), gradient_steps in {-1,0,1,2,3}, learning_starts in {0, random, exactly a rollout boundary, beyond the "
    "target}, TD3 policy_delay 1..3, SAC ent_coef auto/fixed; scripted episode ends; user lr schedules (5 shapes, "
    "recording), PPO clip schedules, DQN exploration schedule wrapped; 1..3 consecutive learn() calls with total "
    "0..40 (weight on totals that are not a multiple of the rollout size), with/without reset_num_timesteps, a callback "
    "stop request at a random step in 25% of the calls. non-trivial = a call that overshoots its target, or a call "
    "without counter reset, or gradient_steps = -1; distinct = distinct canonical case"
)
STREAMS = {
    "trace": "event sequence of every learn() call (setup / rollout start / step+counter+seen progress / rollout end+steps / "
             "train: optimizer steps, actor steps, progress used / finish) == model trace",
    "progress": "every schedule argument and every _current_progress_remaining seen by the callback == the model's exact "
                "rational (1e-12; zero iff zero)",
    "state": "num_timesteps, _total_timesteps, _num_timesteps_at_start, _n_updates, _current_progress_remaining, "
             "optimizer-step count after every call == model state",
    "linear": "get_linear_fn(start, end, fraction)(p) == model linearFn on dyadic inputs (exact)",
    "actor": "TD3 actor optimizer steps per train() == model actorSteps",
}

ON = ("PPO", "A2C")
OFF = ("DQN", "SAC", "TD3", "DDPG")
LR_SCHEDS = ["linear", "const", "quad", "tent", "steps"]


# ---------------------------------------------------------------------------------------------
# schedules (pure functions of the progress; the harness calls the same function to know the expected lr)
def sched_value(name: str, base: float, p: float) -> float:
    if name == "linear":
        return base * (0.5 + p)
    if name == "const":
        return base
    if name == "quad":
        return base * (0.1 + p * p)
    if name == "tent":
        return base * (1.5 - abs(p - 0.5))
    if name == "steps":
        return base * (1.0 if p > 0.66 else 0.5 if p > 0.33 else 0.25)
    raise ValueError(name)


def clamp_progress(num: int, total: int) -> float:
    """the property's reading of 'progress remaining': 1 - num/total, never below 0"""
    return max(1.0 - float(num) / float(total), 0.0)


# ---------------------------------------------------------------------------------------------
class SmallObsEnv(ScriptedEnv):
    """ScriptedEnv whose observations are small numbers (the nets are really trained here; tags of 2^17 blow them up)"""

    def __init__(self, **kw):
        super().__init__(obs_kind="box1", **kw)
        from gymnasium import spaces

        self.observation_space = spaces.Box(-1.0, 1.0, (2,), np.float32)

    def _small(self):
        return np.array([(self.step_in_ep % 16) / 16.0, self.env_id / 8.0], dtype=np.float32)

    def reset(self, *, seed=None, options=None):
        _, info = super().reset(seed=seed, options=options)
        return self._small(), info

    def step(self, action):
        _, rew, term, trunc, info = super().step(action)
        return self._small(), rew, term, trunc, info


class SmallEnvFn:
    def __init__(self, **kw):
        self.kw = kw

    def __call__(self):
        return SmallObsEnv(**self.kw)


# ---------------------------------------------------------------------------------------------
def gen_script(rng, must_end: bool):
    n = rng.randint(2, 7)
    style = rng.weighted([("mixed", 5), ("len1", 1), ("never", 0 if must_end else 2), ("rare", 2)])
    out = []
    for _ in range(n):
        rew = rng.choice([0.0, 1.0, -1.0, 0.5])
        if style == "never":
            term = trunc = False
        elif style == "len1":
            term, trunc = rng.choice([(True, False), (False, True), (True, True)])
        elif style == "rare":
            term, trunc = False, False
        else:
            term, trunc = rng.weighted([((False, False), 5), ((True, False), 2), ((False, True), 2), ((True, True), 1)])
        out.append([rew, term, trunc])
    if must_end or style == "rare":
        i = rng.randint(0, n - 1)
        out[i] = [out[i][0], True, False] if rng.chance(0.5) else [out[i][0], False, True]
    return out


def gen_total(rng, R: int, widen: bool) -> int:
    hi = 60 if widen else 40
    kind = rng.weighted([("over", 5), ("mult", 2), ("any", 3), ("zero", 0.4), ("one", 0.6), ("below", 1)])
    if kind == "zero":
        return 0
    if kind == "one":
        return 1
    if kind == "mult":
        return R * rng.randint(1, max(1, min(4, hi // R)))
    if kind == "below":
        return rng.randint(1, max(1, R))
    if kind == "over":
        m = rng.randint(0, max(0, min(3, hi // R - 1)))
        return m * R + rng.randint(1, max(1, R - 1)) if R > 1 else rng.randint(1, 6)
    return rng.randint(1, hi)


def gen_calls(rng, R: int, n_envs: int, widen: bool):
    ncalls = rng.weighted([(1, 5), (2, 4), (3, 2)])
    calls = []
    for i in range(ncalls):
        T = gen_total(rng, R, widen)
        if ncalls > 1:
            T = min(T, 28)
        reset = True if i == 0 and rng.chance(0.7) else rng.chance(0.45)
        stop_at = None
        if rng.chance(0.25):
            stop_at = rng.randint(1, max(1, (T + n_envs - 1) // n_envs + 2))
        # `set_env(env)` in front of a later call: resets the environment at the next learn(), must not touch any clock
        calls.append({"total": T, "reset": reset, "stop_at": stop_at, "set_env": bool(calls and rng.chance(0.3)),
                      "via_load": bool(calls and rng.chance(0.3))})
    return calls


def gen_case(rng, widen=False):
    algo = rng.weighted([("PPO", 4), ("A2C", 2), ("DQN", 4), ("SAC", 2), ("TD3", 2), ("DDPG", 1)])
    case = {"algo": algo, "seed": rng.randint(0, 2**31 - 1), "lr_sched": rng.choice(LR_SCHEDS + ["float"]),
            "lr_base": rng.choice([1e-3, 3e-3, 5e-4])}
    if algo in ON:
        n_envs = rng.randint(1, 4)
        n_steps = rng.randint(1, 6)
        R = n_envs * n_steps
        case.update({"n_envs": n_envs, "n_steps": n_steps})
        if algo == "PPO":
            kl = rng.weighted([(None, 5.5), ("set", 4.5)])
            if kl is not None:
                # several minibatches per epoch so that the KL test can fire in the middle of an epoch
                n_steps = rng.randint(3, 8)
                R = n_envs * n_steps
                case["n_steps"] = n_steps
                kl = rng.choice([1e-9, 1e-7, 1e-6, 1e-5, 3e-5, 1e-4, 3e-4, 1e-3, 3e-3, 1e-2, 3e-2])
                batch = rng.randint(1, max(1, R // 3))
            else:
                batch = rng.weighted([(rng.randint(1, R + 3), 5), (R, 1), (1, 1), (max(1, R - 1), 1)])
            case.update({
                "batch_size": batch,
                "n_epochs": rng.randint(1, 3) if kl is None else rng.randint(2, 4),
                "target_kl": kl,
                "clip_sched": rng.choice(LR_SCHEDS + ["float"]),
                "clip_vf": rng.weighted([(None, 2), ("sched", 2), ("const", 1)]),
            })
            case["norm_adv"] = bool(batch > 1 and R > 1 and rng.chance(0.6))
            if case["target_kl"] is not None:
                case["lr_base"] = rng.choice([3e-3, 1e-2, 3e-2])
        must_end = False
    else:
        unit = rng.weighted([("step", 7), ("episode", 3)])
        n_envs = 1 if unit == "episode" else rng.randint(1, 4)
        freq = rng.randint(1, 2) if unit == "episode" else rng.randint(1, 5)
        R = n_envs * freq
        case.update({
            "n_envs": n_envs,
            "train_freq": [freq, unit],
            "gradient_steps": rng.weighted([(-1, 3), (0, 1), (1, 3), (2, 1.5), (3, 1)]),
            "batch_size": rng.randint(1, 4),
            "buffer_size": rng.randint(20, 60),
        })
        if algo == "TD3":
            case["policy_delay"] = rng.randint(1, 3)
        if algo == "SAC":
            case["ent_auto"] = rng.chance(0.6)
        if algo == "DQN":
            case["expl_fraction"] = rng.choice([0.1, 0.5, 1.0, 0.25])
            case["expl_final"] = rng.choice([0.05, 0.0, 0.5])
            case["target_update_interval"] = rng.randint(1, 9)
        must_end = unit == "episode"
    case["scripts"] = [gen_script(rng, must_end) for _ in range(n_envs)]
    case["calls"] = gen_calls(rng, R, n_envs, widen)
    if algo in OFF:
        T0 = case["calls"][0]["total"]
        ls_kind = rng.weighted([("zero", 3), ("rand", 3), ("boundary", 4), ("beyond", 1)])
        if ls_kind == "zero":
            ls = 0
        elif ls_kind == "rand":
            ls = rng.randint(0, max(1, T0))
        elif ls_kind == "boundary":
            ls = R * rng.randint(1, max(1, min(4, (T0 + R - 1) // R)))
        else:
            ls = T0 + R + rng.randint(0, 5)
        case["learning_starts"] = ls
    return case


def grid_cases(ctx):
    """widened search: every (total, rollout size) pair with total <= 40, rollout size <= 24, on A2C and DQN"""
    rng = ctx.rng
    out = []
    pairs = [(T, R) for T in range(1, 41) for R in range(1, 25)]
    for i, (T, R) in enumerate(pairs):
        if i % ctx.nchunks != ctx.chunk:
            continue
        n_envs = rng.choice([n for n in (1, 2, 3, 4) if R % n == 0])
        L = R // n_envs
        base = {"seed": rng.randint(0, 2**31 - 1), "lr_sched": rng.choice(LR_SCHEDS), "lr_base": 1e-3, "n_envs": n_envs,
                "scripts": [gen_script(rng, False) for _ in range(n_envs)],
                "calls": [{"total": T, "reset": True, "stop_at": None}]}
        if i % 2 == 0:
            base.update({"algo": "A2C", "n_steps": L})
        else:
            base.update({"algo": "DQN", "train_freq": [L, "step"], "gradient_steps": rng.choice([1, -1]),
                         "batch_size": 2, "buffer_size": 40, "learning_starts": rng.choice([0, R, 2 * R]),
                         "expl_fraction": 0.5, "expl_final": 0.05, "target_update_interval": 4})
        out.append(base)
    return out


def gen_cases(ctx):
    rng = ctx.rng
    cases = [gen_case(rng, ctx.widen) for _ in range(ctx.budget(640, 8000))] + \
        [{"kind": "linear", **gen_linear(rng)} for _ in range(ctx.budget(80, 800))]
    if ctx.widen:
        cases += grid_cases(ctx)
    return cases


def gen_linear(rng):
    # dyadic inputs and a power-of-two end fraction: every float operation of get_linear_fn is exact
    den = rng.choice([4, 8, 16, 64])
    fd = rng.choice([1, 2, 4, 8])
    return {"start": [rng.randint(0, 8), 8], "end": [rng.randint(0, 8), 8], "frac": [1, fd],
            "p": [rng.randint(0, den), den]}


def shrink_candidates(case):
    if case.get("kind") == "linear":
        return
    calls = case["calls"]
    if len(calls) > 1:
        c = dict(case)
        c["calls"] = calls[:-1]
        yield c
        c = dict(case)
        c["calls"] = calls[1:]
        yield c
    for i, call in enumerate(calls):
        if call["stop_at"] is not None:
            c = dict(case)
            c["calls"] = [dict(x) for x in calls]
            c["calls"][i]["stop_at"] = None
            yield c
        for T in (call["total"] // 2, call["total"] - 1):
            if 0 <= T < call["total"]:
                c = dict(case)
                c["calls"] = [dict(x) for x in calls]
                c["calls"][i]["total"] = T
                yield c
    if case["n_envs"] > 1 and not (case["algo"] in OFF and case["train_freq"][1] == "episode"):
        c = dict(case)
        c["n_envs"] = case["n_envs"] - 1
        c["scripts"] = case["scripts"][:-1]
        yield c
    if case.get("target_kl") is not None:
        c = dict(case)
        c["target_kl"] = None
        yield c
    if case["lr_sched"] not in ("linear", "float"):
        c = dict(case)
        c["lr_sched"] = "linear"
        yield c


# ---------------------------------------------------------------------------------------------
def rollout_size(case):
    return case["n_envs"] * (case["n_steps"] if case["algo"] in ON else case["train_freq"][0])


def build(case, trace):
    import stable_baselines3 as sb3
    from stable_baselines3.common.logger import Logger
    from stable_baselines3.common.vec_env import DummyVecEnv

    algo = case["algo"]
    act = "discrete" if algo in ("DQN", "PPO", "A2C") else "box_sym"
    env = DummyVecEnv([SmallEnvFn(env_id=i, act_kind=act, script=case["scripts"][i]) for i in range(case["n_envs"])])

    def mk_sched(kind, name, base):
        def f(p):
            v = sched_value(name, base, p)
            trace.append(["sc", kind, float(p), float(v)])
            return v

        return f

    kw = dict(policy_kwargs=dict(net_arch=[4]), device="cpu", verbose=0, seed=case["seed"],
              learning_rate=(case["lr_base"] if case["lr_sched"] == "float"
                             else mk_sched("lr", case["lr_sched"], case["lr_base"])))
    cls = getattr(sb3, algo)
    if algo == "PPO":
        kw.update(n_steps=case["n_steps"], batch_size=case["batch_size"], n_epochs=case["n_epochs"],
                  target_kl=case["target_kl"], normalize_advantage=case["norm_adv"],
                  clip_range=(0.2 if case["clip_sched"] == "float" else mk_sched("clip", case["clip_sched"], 0.2)))
        if case["clip_vf"] == "sched" and case["clip_sched"] != "float":
            kw["clip_range_vf"] = mk_sched("clipvf", case["clip_sched"], 0.3)
        elif case["clip_vf"] == "const":
            kw["clip_range_vf"] = 0.25
    elif algo == "A2C":
        kw.update(n_steps=case["n_steps"])
    else:
        kw.update(train_freq=(case["train_freq"][0], case["train_freq"][1]), gradient_steps=case["gradient_steps"],
                  learning_starts=case["learning_starts"], batch_size=case["batch_size"], buffer_size=case["buffer_size"])
        if algo == "TD3":
            kw["policy_delay"] = case["policy_delay"]
        if algo == "SAC":
            kw["ent_coef"] = "auto" if case["ent_auto"] else 0.1
        if algo == "DQN":
            kw.update(exploration_fraction=case["expl_fraction"], exploration_final_eps=case["expl_final"],
                      target_update_interval=case["target_update_interval"])
    model = cls("MlpPolicy", env, **kw)
    instrument(model, case, trace)
    # what a later `load(..., custom_objects=...)` must re-inject: the live schedule wrappers (the pickled copies would
    # write into a pickled copy of the trace)
    model._c12_custom = {k: kw[k] for k in ("learning_rate", "clip_range", "clip_range_vf") if callable(kw.get(k))}
    return model, env


def instrument(model, case, trace):
    """observation points on a (constructed or loaded) model: optimizer steps, PPO's KL test, DQN's epsilon schedule"""
    from stable_baselines3.common.logger import Logger

    algo = case["algo"]
    model.set_logger(Logger(folder=None, output_formats=[]))

    def hook(name):
        def h(opt, args, kwargs):
            trace.append(["op", name, [float(g["lr"]) for g in opt.param_groups]])

        return h

    if algo in ("PPO", "A2C", "DQN"):
        model.policy.optimizer.register_step_pre_hook(hook("main"))
    else:
        model.critic.optimizer.register_step_pre_hook(hook("main"))
        model.actor.optimizer.register_step_pre_hook(hook("actor"))
        if getattr(model, "ent_coef_optimizer", None) is not None:
            model.ent_coef_optimizer.register_step_pre_hook(hook("ent"))
    if algo == "PPO" and case["target_kl"] is not None:
        import torch as th

        orig_get = model.rollout_buffer.get
        orig_eval = model.policy.evaluate_actions
        pend = {}
        thr = 1.5 * case["target_kl"]

        def get_wrapper(batch_size=None):
            for data in orig_get(batch_size):
                pend["old"] = data.old_log_prob.detach().clone()
                yield data

        def eval_wrapper(obs, actions):
            values, log_prob, entropy = orig_eval(obs, actions)
            if "old" in pend:
                with th.no_grad():
                    log_ratio = log_prob.detach() - pend.pop("old")
                    kl = th.mean((th.exp(log_ratio) - 1) - log_ratio).cpu().numpy()
                trace.append(["kl", float(kl), bool(kl > thr)])
            return values, log_prob, entropy

        model.rollout_buffer.get = get_wrapper
        model.policy.evaluate_actions = eval_wrapper
    if algo == "DQN":
        orig = model.exploration_schedule

        def eps(p):
            v = orig(p)
            trace.append(["sc", "eps", float(p), float(v)])
            return v

        model.exploration_schedule = eps


def priv(model, name, conv):
    """private attribute, or None when the implementation no longer has it (then it is simply not compared)"""
    v = getattr(model, name, None)
    return None if v is None else conv(v)


def make_callback(trace, stop_at):
    from stable_baselines3.common.callbacks import BaseCallback

    class CB(BaseCallback):
        def __init__(self):
            super().__init__()
            self.k = 0
            self.asked_stop = False

        def _on_training_start(self):
            tot = self.locals.get("total_timesteps") if isinstance(self.locals, dict) else None
            if tot is None:
                tot = priv(self.model, "_total_timesteps", int)
            trace.append(["ts", int(self.model.num_timesteps), None if tot is None else int(tot)])

        def _on_rollout_start(self):
            trace.append(["rs", int(self.model.num_timesteps), priv(self.model, "_current_progress_remaining", float)])

        def _on_step(self):
            self.k += 1
            trace.append(["st", int(self.model.num_timesteps), priv(self.model, "_current_progress_remaining", float)])
            if stop_at is not None and self.k == stop_at:
                self.asked_stop = True
                return False
            return True

        def _on_rollout_end(self):
            trace.append(["re", int(self.model.num_timesteps), priv(self.model, "_current_progress_remaining", float)])

        def _on_training_end(self):
            trace.append(["te", int(self.model.num_timesteps), priv(self.model, "_current_progress_remaining", float)])

    return CB()


def run_impl(case):
    warnings.filterwarnings("ignore")
    trace = []
    model, env = build(case, trace)
    out = []
    opt_total = 0
    log_pos = [0] * case["n_envs"]
    try:
        for call in case["calls"]:
            trace.clear()
            cb = make_callback(trace, call["stop_at"])
            if call.get("set_env"):
                model.set_env(model.get_env())
            if call.get("via_load"):
                # the call continues on `load(save(model), env)`: every clock (counters, target, progress, update
                # counts) must come back from the file; the loaded model is instrumented like the constructed one
                import io

                buf = io.BytesIO()
                custom = model._c12_custom
                model.save(buf)
                buf.seek(0)
                model = type(model).load(buf, env=env, device="cpu", custom_objects=dict(custom))
                model._c12_custom = custom
                instrument(model, case, trace)
                trace.clear()   # (schedule evaluations made while the model is rebuilt are not part of the call)
            model.learn(call["total"], callback=cb, reset_num_timesteps=call["reset"])
            tr = [list(e) for e in trace]
            opt_total += sum(1 for e in tr if e[0] == "op" and e[1] == "main")
            logs = env.env_method("get_log")
            ends = []  # per env: list of bool (episode ended) for the steps of this call
            for i, lg in enumerate(logs):
                new = lg[log_pos[i]:]
                log_pos[i] = len(lg)
                ends.append([bool(e[4] or e[5]) for e in new if e[0] == "step"])
            out.append({
                "trace": tr,
                "stopped": cb.asked_stop,
                "ends": ends,
                "state": {
                    "num": int(model.num_timesteps), "total": priv(model, "_total_timesteps", int),
                    "start": priv(model, "_num_timesteps_at_start", int), "n_updates": priv(model, "_n_updates", int),
                    "progress": priv(model, "_current_progress_remaining", float),
                    "episode_num": priv(model, "_episode_num", int), "opt_steps": opt_total,
                },
            })
    finally:
        env.close()
    return out


# ---------------------------------------------------------------------------------------------
# canonical event sequence of one call (the vocabulary of the Lean model)
def canon_call(case, rec):
    """-> (events, step_inputs)   events: list of model-vocabulary events; step_inputs: [[stop, dones, kl]]"""
    algo = case["algo"]
    tr = rec["trace"]
    evs = []
    steps = []
    k_in_rollout = 0
    i = 0
    n = len(tr)
    full = None
    if algo == "PPO":
        full = case["n_epochs"] * math.ceil(case["n_steps"] * case["n_envs"] / case["batch_size"])
    while i < n:
        e = tr[i]
        t = e[0]
        if t == "ts":
            evs.append(["setup", e[1], e[2]])
        elif t == "rs":
            evs.append(["rs", e[1], e[2]])
            k_in_rollout = 0
        elif t == "st":
            evs.append(["st", e[1], e[2]])
            k_in_rollout += 1
            # episode ends of this vectorised step: from the scripted environments' own logs
            kk = len(steps)
            steps.append([False, sum(1 for en in rec["ends"] if kk < len(en) and en[kk]), None])
        elif t == "re":
            evs.append(["re", e[1], k_in_rollout, e[2]])
        elif t == "te":
            evs.append(["fin", e[1], bool(rec["stopped"])])
        elif t == "sc" and e[1] == "eps":
            evs.append(["eps", e[2]])
        elif t in ("sc", "op", "kl"):
            j = i
            grp = {"main": 0, "actor": 0, "ent": 0, "args": [], "lrs": [], "num": None, "kls": []}
            while j < n and ((tr[j][0] == "sc" and tr[j][1] != "eps") or tr[j][0] in ("op", "kl")):
                if tr[j][0] == "sc":
                    grp["args"].append(tr[j][2])
                elif tr[j][0] == "kl":
                    grp["kls"].append(bool(tr[j][2]))
                else:
                    grp[tr[j][1]] += 1
                    grp["lrs"].extend(tr[j][2])
                j += 1
            evs.append(["tr", grp])
            if algo == "PPO" and case["target_kl"] is not None and steps:
                if grp["kls"]:
                    # one flag per evaluated minibatch: "its own approximate KL exceeds 1.5 * target_kl"
                    steps[-1][2] = grp["kls"]
                elif grp["main"] < full:
                    # the per-minibatch KL is not observable on this implementation: only the cut is
                    steps[-1][2] = [False] * grp["main"] + [True]
            i = j
            continue
        i += 1
    if rec["stopped"] and steps:
        steps[-1][0] = True
    return evs, steps


def near(q: F, x) -> bool:
    if x is None:  # not observable on this implementation
        return True
    return abs(float(q) - x) <= 1e-12 and ((q == 0) == (x == 0.0))


def compare_call(case, rec, mout):
    """model answer vs canonical implementation events; returns None or a description of the first difference"""
    if "error" in mout:
        return {"model_error": mout["error"]}
    algo = case["algo"]
    impl, _ = canon_call(case, rec)
    model = mout["events"]
    # progress updates: DQN shows them through the exploration schedule; PPO/A2C/others through the train event
    # a train() that makes no optimizer step at all (gradient_steps = 0 handled inside train(), a KL exit before
    # the first minibatch) is not an update: dropped on both sides
    impl = [e for e in impl if not (e[0] == "tr" and e[1]["main"] == 0 and e[1]["actor"] == 0 and e[1]["ent"] == 0)]
    mseq = []
    for e in model:
        if e[0] == "pr":
            if algo == "DQN":
                mseq.append(e)
            continue
        if e[0] == "tr" and e[2] == 0 and e[3] == 0:
            continue
        mseq.append(e)
    if len(mseq) != len(impl):
        return {"what": "length", "impl": [x[0] for x in impl], "model": [x[0] for x in mseq]}
    for idx, (a, m) in enumerate(zip(impl, mseq)):
        ok = True
        if a[0] == "setup":
            ok = m[0] == "setup" and m[1] == a[1] and (a[2] is None or m[2] == a[2])
        elif a[0] == "rs":
            ok = m[0] == "rs" and m[1] == a[1] and near(unratj(m[2]), a[2])
        elif a[0] == "st":
            ok = m[0] == "st" and m[1] == a[1] and near(unratj(m[2]), a[2])
        elif a[0] == "re":
            ok = m[0] == "re" and m[1] == a[1] and m[2] == a[2] and near(unratj(m[3]), a[3])
        elif a[0] == "eps":
            ok = m[0] == "pr" and near(unratj(m[3]), a[1])
        elif a[0] == "fin":
            ok = m[0] == "fin" and m[1] == a[1] and m[2] == a[2]
        elif a[0] == "tr":
            g = a[1]
            ok = m[0] == "tr" and m[2] == g["main"] and all(near(unratj(m[4]), x) for x in g["args"])
            if ok and algo in ("SAC", "TD3", "DDPG"):
                ok = m[3] == g["actor"]
        if not ok:
            return {"what": "event", "index": idx, "impl": a, "model": m}
    st, ms = rec["state"], mout["state"]
    for key in ("num", "total", "start", "n_updates", "opt_steps"):
        if st[key] is not None and st[key] != ms[key]:
            return {"what": "state", "field": key, "impl": st[key], "model": ms[key]}
    if not near(unratj(ms["progress"]), st["progress"]):
        return {"what": "state", "field": "progress", "impl": st["progress"], "model": ms["progress"]}
    if ms["running"] or ms["stopped"] != bool(rec["stopped"]):
        return {"what": "state", "field": "running/stopped", "impl": rec["stopped"], "model": [ms["running"], ms["stopped"]]}
    return None


# ---------------------------------------------------------------------------------------------
# the property, evaluated directly on what the implementation did (independent of the Lean model)
def oracle(ctx, case, recs):
    rep = ctx.report
    algo = case["algo"]
    n_envs = case["n_envs"]
    on = algo in ON
    prev_num = 0
    crit_total = 0  # gradient steps so far (TD3: == _n_updates)
    first = [True]

    def viol(what, check, call_i, **detail):
        if first[0]:
            first[0] = False
            rep.violation(what, case, {"check": check, "algo": algo, "family": "on" if on else "off"},
                          {"call": call_i, **detail})

    for ci, (call, rec) in enumerate(zip(case["calls"], recs)):
        tr = rec["trace"]
        T, reset, stop_at = call["total"], call["reset"], call["stop_at"]
        start = 0 if reset else prev_num
        target = start + T
        # --- reset semantics --------------------------------------------------------------------
        ts = [e for e in tr if e[0] == "ts"]
        if len(ts) != 1 or ts[0][1] != start or (ts[0][2] is not None and ts[0][2] != target):
            viol("learn() does not start from the right counter / target (reset_num_timesteps)", "reset", ci,
                 seen=ts, expected=[start, target])
            return
        # --- counter advances by n_envs per step -------------------------------------------------
        st_idx = [i for i, e in enumerate(tr) if e[0] == "st"]
        K = len(st_idx)
        for k, i in enumerate(st_idx, 1):
            if tr[i][1] != start + k * n_envs:
                viol("num_timesteps does not advance by n_envs per vectorised step", "advance", ci,
                     step=k, seen=tr[i][1], expected=start + k * n_envs)
                return
        if rec["state"]["num"] != start + K * n_envs:
            viol("final num_timesteps differs from the counter after the last step", "final_num", ci,
                 seen=rec["state"]["num"], expected=start + K * n_envs)
            return
        prev_num = rec["state"]["num"]
        # --- rollout boundaries (ground truth: configuration + scripted episode ends) -------------
        if on:
            L = case["n_steps"]
            boundary = [k % L == 0 for k in range(1, K + 2)]
        elif case["train_freq"][1] == "step":
            L = case["train_freq"][0]
            boundary = [k % L == 0 for k in range(1, K + 2)]
        else:
            f = case["train_freq"][0]
            ends = rec["ends"][0]
            boundary, acc = [], 0
            for k in range(1, K + 1):
                acc += 1 if (k - 1 < len(ends) and ends[k - 1]) else 0
                if acc >= f:
                    boundary.append(True)
                    acc = 0
                else:
                    boundary.append(False)
            boundary.append(False)
        stopped = stop_at is not None and K >= stop_at
        # --- stop request is immediate ------------------------------------------------------------
        if stop_at is not None and K > stop_at:
            viol("learn() kept stepping after the callback asked to stop", "stop", ci, steps=K, stop_at=stop_at)
            return
        if stopped:
            after = [e for e in tr[st_idx[-1] + 1:] if e[0] != "te"]
            if after:
                viol("something happened after the callback asked to stop", "stop", ci, after=after[:4])
                return
        else:
            # --- ends at the first rollout boundary at or after the target ------------------------
            if target <= start:
                if K != 0:
                    viol("learn() stepped although the target was already reached", "end", ci, steps=K)
                    return
            else:
                if rec["state"]["num"] < target:
                    viol("learn() returned before reaching total_timesteps", "end", ci, num=rec["state"]["num"], target=target)
                    return
                if K == 0 or not boundary[K - 1]:
                    viol("learn() did not end on a rollout boundary", "end", ci, steps=K)
                    return
                for k in range(1, K):
                    if boundary[k - 1] and start + k * n_envs >= target:
                        viol("learn() went past the first rollout boundary at or after the target", "end", ci,
                             steps=K, first_boundary=k)
                        return
        # --- updates ----------------------------------------------------------------------------
        # group the events after each step
        bounds = st_idx + [len(tr)]
        rollout_start_k = 0
        for k in range(1, K + 1):
            seg = tr[bounds[k - 1] + 1: bounds[k]]
            ops = [e for e in seg if e[0] == "op"]
            main = sum(1 for e in ops if e[1] == "main")
            actor = sum(1 for e in ops if e[1] == "actor")
            ent = sum(1 for e in ops if e[1] == "ent")
            num_k = start + k * n_envs
            is_b = boundary[k - 1] and not (stopped and k == K)
            if on:
                if is_b:
                    if algo == "A2C":
                        exp, exact = 1, True
                    else:
                        exp = case["n_epochs"] * math.ceil(case["n_steps"] * n_envs / case["batch_size"])
                        exact = case["target_kl"] is None
                    if (exact and main != exp) or main > exp:
                        viol("number of optimizer steps of an on-policy train() differs from epochs x minibatches",
                             "count_on", ci, step=k, seen=main, expected=exp)
                        return
                    kls = [e for e in seg if e[0] == "kl"]
                    if not exact and kls:
                        # target_kl: the first minibatch whose OWN approximate KL exceeds 1.5*target_kl ends train()
                        # before its optimizer step; all minibatches before it got theirs
                        exceeded = [j for j, e in enumerate(kls) if e[2]]
                        want = exceeded[0] if exceeded else exp
                        nb = math.ceil(case["n_steps"] * n_envs / case["batch_size"])
                        if exceeded and exceeded[0] % nb != 0:
                            rep.count("ppo_kl_exit_mid_epoch")
                        elif exceeded:
                            rep.count("ppo_kl_exit_at_epoch_start")
                        else:
                            rep.count("ppo_kl_no_exit")
                        if main != want:
                            viol("PPO train() did not stop at the first minibatch whose KL exceeds 1.5 * target_kl",
                                 "count_kl", ci, step=k, seen=main, expected=want, evaluated=len(kls),
                                 kls=[e[1] for e in kls][:12], threshold=1.5 * case["target_kl"])
                            return
                    elif not exact:
                        rep.count("ppo_kl_unobservable")
                elif main:
                    viol("on-policy update in the middle of a rollout", "count_on", ci, step=k, seen=main)
                    return
            else:
                ls = case["learning_starts"]
                if main and num_k <= ls:
                    viol("gradient update before learning_starts", "before_ls", ci, step=k, num=num_k, learning_starts=ls)
                    return
                gs = case["gradient_steps"]
                g = gs if gs >= 0 else (k - rollout_start_k) * n_envs
                exp = g if (is_b and num_k > ls and num_k > 0) else 0
                if main != exp:
                    viol("number of gradient steps after an off-policy rollout differs from train_freq/gradient_steps",
                         "count_off", ci, step=k, seen=main, expected=exp, num=num_k)
                    return
                if algo == "SAC":
                    if actor != main or (case["ent_auto"] and ent != main):
                        viol("SAC optimizers did not step once per gradient step", "count_aux", ci, step=k,
                             seen=[main, actor, ent])
                        return
                if algo in ("TD3", "DDPG"):
                    d = case.get("policy_delay", 1)
                    exp_a = (crit_total + main) // d - crit_total // d
                    if actor != exp_a:
                        viol("TD3 actor did not step once per policy_delay gradient steps", "count_aux", ci, step=k,
                             seen=actor, expected=exp_a)
                        return
            crit_total += main
            if boundary[k - 1]:
                rollout_start_k = k
        # --- progress and schedules -------------------------------------------------------------
        last_arg = None
        cur_num = start
        last_lr = None  # (arg, ret, position) of the most recent lr schedule call
        lr_since_step = False
        for e in tr:
            if e[0] == "st":
                cur_num = e[1]
                lr_since_step = False
            if e[0] in ("rs", "st", "re", "te"):
                p = e[2]
                if p is not None and not (0.0 <= p <= 1.0):
                    viol("_current_progress_remaining outside [0, 1]", "progress_range", ci, seen=p, at=e[0])
                    return
            if e[0] == "sc":
                p = e[2]
                if not (0.0 <= p <= 1.0):
                    viol("a schedule received a progress value outside [0, 1]", "progress_range", ci, seen=p, schedule=e[1])
                    return
                if last_arg is not None and p > last_arg:
                    viol("the progress given to schedules increased during a call", "progress_monotone", ci,
                         before=last_arg, after=p, schedule=e[1])
                    return
                last_arg = p
                want = clamp_progress(cur_num, target)
                if abs(p - want) > 1e-9:
                    viol("the progress given to a schedule is not 1 - num_timesteps/total (clamped at 0)",
                         "progress_value", ci, seen=p, expected=want, num=cur_num, target=target, schedule=e[1])
                    return
                if e[1] == "lr":
                    last_lr = e
                    lr_since_step = True
            if e[0] == "op" and case["lr_sched"] == "float":
                if any(lr != float(case["lr_base"]) for lr in e[2]):
                    viol("an update did not use the constant learning rate", "lr", ci, seen=e[2], optimizer=e[1])
                    return
            elif e[0] == "op":
                if last_lr is None or not lr_since_step:
                    viol("an optimizer step was made without asking the learning-rate schedule in this update",
                         "lr", ci, optimizer=e[1])
                    return
                want = float(last_lr[3])
                want2 = float(sched_value(case["lr_sched"], case["lr_base"], clamp_progress(cur_num, target)))
                for lr in e[2]:
                    if lr != want or abs(lr - want2) > 1e-9 * max(1.0, abs(want2)):
                        viol("an update did not use the schedule's value as learning rate", "lr", ci,
                             seen=lr, schedule_value=want, expected=want2, optimizer=e[1])
                        return


def overshoot(call, rec):
    ts = [e for e in rec["trace"] if e[0] == "ts"]
    return bool(ts) and not rec["stopped"] and rec["state"]["num"] > ts[0][1] + call["total"]


def nontrivial(case, recs):
    if case["algo"] in OFF and case["gradient_steps"] == -1:
        return True
    for call, rec in zip(case["calls"], recs):
        ts = [e for e in rec["trace"] if e[0] == "ts"]
        if not call["reset"] and ts and ts[0][1] > 0:
            return True
        if overshoot(call, rec):
            return True
    return False


def model_ops(case, recs):
    algo = case["algo"]
    if algo in ON:
        new = {"op": "new", "n_envs": case["n_envs"], "kind": "on", "n_steps": case["n_steps"], "a2c": algo == "A2C",
               "batch": case.get("batch_size", 0), "n_epochs": case.get("n_epochs", 0)}
    else:
        delay = 0 if algo == "DQN" else case.get("policy_delay", 1)
        new = {"op": "new", "n_envs": case["n_envs"], "kind": "off", "freq": case["train_freq"][0],
               "unit": case["train_freq"][1], "grad_steps": case["gradient_steps"],
               "learning_starts": case["learning_starts"], "policy_delay": delay}
    ops = [new]
    for call, rec in zip(case["calls"], recs):
        _, steps = canon_call(case, rec)
        ops.append({"op": "call", "total": call["total"], "reset": call["reset"], "steps": steps})
    return ops


def run_linear(case):
    from stable_baselines3.common.utils import get_linear_fn

    a, b, f, p = (unratj(case[k]) for k in ("start", "end", "frac", "p"))
    return get_linear_fn(float(a), float(b), float(f))(float(p))


def check_cases(ctx, cases):
    rep = ctx.report
    ops, plan = [], []
    for case in cases:
        if case.get("kind") == "linear":
            rep.count("kind:linear")
            rep.case(case, None)
            v = guarded(ctx, case, lambda: run_linear(case))
            if v is None:
                continue
            a, b = unratj(case["start"]), unratj(case["end"])
            if not (min(a, b) - F(1, 10**9) <= F(v) <= max(a, b) + F(1, 10**9)):
                rep.violation("get_linear_fn left the interval between its end points", case,
                              {"check": "linear_range"}, {"value": v})
            plan.append((case, v, len(ops), 1))
            ops.append({"op": "linear", "start": case["start"], "end": case["end"], "frac": case["frac"], "p": case["p"]})
            continue
        algo = case["algo"]
        rep.count(f"algo:{algo}")
        rep.count(f"n_envs={case['n_envs']}")
        rep.count(f"calls={len(case['calls'])}")
        if any(c.get("via_load") for c in case["calls"]):
            rep.count("continues_on_load(save(model))")
        if any(c.get("set_env") for c in case["calls"]):
            rep.count("set_env_before_a_call")
        if algo in OFF:
            rep.count(f"unit:{case['train_freq'][1]}")
            rep.count(f"gradient_steps={case['gradient_steps']}")
        if algo == "PPO":
            rep.count("target_kl:" + ("none" if case["target_kl"] is None else "set"))
        recs = guarded(ctx, case, lambda: run_impl(case))
        if recs is None:
            rep.case(case, None)
            continue
        R = rollout_size(case)
        for call, rec in zip(case["calls"], recs):
            rep.count("call:reset" if call["reset"] else "call:continue")
            rep.count("call:stopped" if rec["stopped"] else "call:ran_to_end")
            if not rec["stopped"]:
                rep.count("total:multiple_of_rollout" if call["total"] % R == 0 else "total:not_multiple")
            if overshoot(call, rec):
                rep.count("call:overshoot")
            rep.count("steps", sum(1 for e in rec["trace"] if e[0] == "st"))
            rep.count("optimizer_steps", sum(1 for e in rec["trace"] if e[0] == "op"))
            rep.count("schedule_calls", sum(1 for e in rec["trace"] if e[0] == "sc"))
        rep.case(case, case if nontrivial(case, recs) else None)
        oracle(ctx, case, recs)
        o = model_ops(case, recs)
        plan.append((case, recs, len(ops), len(o)))
        ops.extend(o)
    outs = ctx.lean.run(ops)
    for case, r, i, k in plan:
        if outs[i] is None:
            continue
        if case.get("kind") == "linear":
            mo = outs[i]
            if "error" in mo or unratj(mo["v"]) != F(r):
                rep.disagree("linear", case, r, mo)
            else:
                rep.agree()
            continue
        if "error" in outs[i]:
            rep.disagree("trace", case, "new", outs[i])
            continue
        bad = None
        for ci, rec in enumerate(r):
            d = compare_call(case, rec, outs[i + 1 + ci])
            if d is not None:
                bad = (ci, d)
                break
            rep.agree()
        if bad is not None:
            ci, d = bad
            stream = "state" if d.get("what") == "state" else "trace"
            rep.disagree(stream, case, {"call": ci, **{kk: vv for kk, vv in d.items() if kk != "model"}},
                         d.get("model", d.get("model_error")))
