/-
Model of `BasePolicy.predict` and what it calls
(`stable_baselines3/common/policies.py`, `common/utils.py`, `common/preprocessing.py`,
`common/vec_env/vec_transpose.py: transpose_image`, `dqn/dqn.py: DQN.predict`).

Part 1 — shapes.  An observation is the *shape* of the array(s) handed to `predict`
(`ObsShape`), a space is data (`Leaf`, `ObsSpace`, `ActSpace`).  The functions follow the code:

  `isVecBox / isVecDiscrete / isVecMultiDiscrete / isVecMultiBinary`  — `is_vectorized_*_observation`
  `transposeShape`, `maybeTranspose`                                   — `VecTransposeImage.transpose_image`,
                                                                          `maybe_transpose`
  `inferBatch`                                                         — the `-1` of `reshape((-1, *shape))`
  `leafToTensor`, `dictToTensor`, `obsToTensor`                        — `obs_to_tensor`
  `netBatch`                                                           — the forward pass needs one batch size
                                                                          (`th.cat(..., dim=1)` in `CombinedExtractor`)
  `finishShape`, `predict`                                             — `reshape((-1, *action_space.shape))`,
                                                                          `squeeze(axis=0)` when not vectorized
  `policyIsVectorized`, `dqnExplore`                                   — `BaseModel.is_vectorized_observation`,
                                                                          the epsilon-greedy branch of `DQN.predict`

Part 2 — values (generic over the scalar type; the driver runs them at `Rat`).

  `clip`, `unscale`, `scale`, `postBox`         — `np.clip`, `unscale_action` (clips since 933445d), `scale_action`,
                                                  the Box branch of `predict`
  `argmax`, `splitBy`, `mdMode`, `bernMode`     — deterministic actions of Categorical / MultiCategorical /
                                                  Bernoulli distributions and of `QNetwork._predict`
  `modeAction`, `ActSpaceV.contains`            — the action `predict(deterministic=True)` returns for arbitrary
                                                  network outputs; membership in the action space
  `oneHot`, `multiOneHot`, `scaleImage`,
  `transposeHWC`, `transposeCHW`, `encodeRow`   — `preprocess_obs` (one-hot by value, `/ 255`) after
                                                  `maybe_transpose`

Import-free (core only).
-/

namespace SB3Verif.Predict

abbrev Shape := List Nat

/-- number of elements of an array of the given shape (`np.prod(shape)`) -/
def prod : Shape → Nat
  | [] => 1
  | d :: ds => d * prod ds

/-- what the code raises -/
inductive Err where
  /-- `ValueError` of an `is_vectorized_*_observation` function: unexpected observation shape -/
  | shape
  /-- `ValueError` of `np.transpose(image, (0, 3, 1, 2))`: axes don't match array -/
  | axes
  /-- `ValueError` of `reshape((-1, …))` -/
  | reshape
  /-- `KeyError`: observation key not in the space, or space key not in the observation -/
  | key
  /-- `RuntimeError` of `th.cat(…, dim=1)`: the keys of a Dict observation have different batch sizes -/
  | mixedBatch
  /-- `ValueError` of `squeeze(axis=0)` on a leading dimension ≠ 1 -/
  | squeeze
  /-- `AssertionError` / `IndexError`: dict observation for a non-Dict space or the converse -/
  | type
  /-- `IndexError` of `nn.Flatten()` (start_dim = 1) on a tensor of rank 1: a rank-0 Box observation space -/
  | flatten
  /-- `F.one_hot`: class value ≥ `num_classes` -/
  | classRange
  /-- request not well formed (driver only) -/
  | data
deriving DecidableEq, Repr, Inhabited

def Err.name : Err → String
  | .shape => "shape" | .axes => "axes" | .reshape => "reshape" | .key => "key"
  | .mixedBatch => "mixedBatch" | .squeeze => "squeeze" | .type => "type" | .classRange => "classRange" | .flatten => "flatten"
  | .data => "data"

/-! ## Part 1: shapes -/

/-- non-Dict observation spaces. `box s true` is a space for which `is_image_space` holds
(rank 3, `uint8`, bounds 0 / 255). -/
inductive Leaf where
  | box (shape : Shape) (image : Bool)
  | discrete (n : Nat)
  | multiDiscrete (nvec : List Nat)
  | multiBinary (shape : Shape)
deriving DecidableEq, Repr, Inhabited

/-- gymnasium's `space.shape` -/
def Leaf.shape : Leaf → Shape
  | .box s _ => s
  | .discrete _ => []
  | .multiDiscrete nv => [nv.length]
  | .multiBinary s => s

def Leaf.isImage : Leaf → Bool
  | .box _ true => true
  | _ => false

/-- `is_vectorized_box_observation` -/
def isVecBox (obs sp : Shape) : Except Err Bool :=
  if obs = sp then .ok false
  else if obs.drop 1 = sp then .ok true
  else .error .shape

/-- `is_vectorized_discrete_observation` -/
def isVecDiscrete (obs : Shape) : Except Err Bool :=
  match obs with
  | [] => .ok false
  | [_] => .ok true
  | _ => .error .shape

/-- `is_vectorized_multidiscrete_observation` -/
def isVecMultiDiscrete (obs : Shape) (nvec : List Nat) : Except Err Bool :=
  if obs = [nvec.length] then .ok false
  else if obs.length = 2 ∧ obs.getD 1 0 = nvec.length then .ok true
  else .error .shape

/-- `is_vectorized_multibinary_observation` -/
def isVecMultiBinary (obs sp : Shape) : Except Err Bool :=
  if obs = sp then .ok false
  else if obs.length = sp.length + 1 ∧ obs.drop 1 = sp then .ok true
  else .error .shape

/-- `is_vectorized_observation` on a non-Dict space -/
def isVectorized (l : Leaf) (obs : Shape) : Except Err Bool :=
  match l with
  | .box sp _ => isVecBox obs sp
  | .discrete _ => isVecDiscrete obs
  | .multiDiscrete nv => isVecMultiDiscrete obs nv
  | .multiBinary sp => isVecMultiBinary obs sp

/-- `VecTransposeImage.transpose_image` on shapes: `(2,0,1)` for rank 3, otherwise `(0,3,1,2)`
(which NumPy rejects unless the rank is 4). -/
def transposeShape (obs : Shape) : Except Err Shape :=
  match obs with
  | [a, b, c] => .ok [c, a, b]
  | [n, a, b, c] => .ok [n, c, a, b]
  | _ => .error .axes

/-- `observation.shape == space.shape or observation.shape[1:] == space.shape` -/
def fits (obs sp : Shape) : Bool := obs = sp || obs.drop 1 = sp

/-- `maybe_transpose`: the shape after it and whether the axes were re-ordered -/
def maybeTranspose (l : Leaf) (obs : Shape) : Except Err (Shape × Bool) :=
  match l with
  | .box sp true =>
    if fits obs sp then .ok (obs, false)
    else
      match transposeShape obs with
      | .error e => .error e
      | .ok t => if fits t sp then .ok (t, true) else .ok (obs, false)
  | _ => .ok (obs, false)

/-- the `-1` of `reshape((-1, *shape))` for an array with `total` elements -/
def inferBatchN (total : Nat) (sp : Shape) : Except Err Nat :=
  if prod sp = 0 then .error .reshape
  else if total % prod sp = 0 then .ok (total / prod sp)
  else .error .reshape

def inferBatch (obs sp : Shape) : Except Err Nat := inferBatchN (prod obs) sp

/-- what `obs_to_tensor` derives for one array -/
structure KeyInfo where
  /-- leading dimension of the tensor handed to the network -/
  batch : Nat
  /-- `is_vectorized_observation` -/
  vectorized : Bool
  /-- the axes were re-ordered HWC → CHW -/
  transposed : Bool
deriving DecidableEq, Repr, Inhabited

/-- `obs_to_tensor` for one array: `maybe_transpose` (image spaces), `is_vectorized_observation`,
`reshape((-1, *space.shape))`. In the loop over the keys of a Dict observation the code reads
`vectorized_env = vectorized_env or is_vectorized_observation(obs_, obs_space)`: once an earlier key was
vectorized (`acc`), Python's `or` short-circuits and the shape of this key is not validated at all. -/
def leafToTensorAcc (acc : Bool) (l : Leaf) (obs : Shape) : Except Err KeyInfo :=
  match maybeTranspose l obs with
  | .error e => .error e
  | .ok (o, tr) =>
    match (if acc then .ok true else isVectorized l o) with
    | .error e => .error e
    | .ok v =>
      match inferBatch o l.shape with
      | .error e => .error e
      | .ok b => .ok ⟨b, v, tr⟩

/-- `obs_to_tensor` for a non-Dict observation -/
def leafToTensor (l : Leaf) (obs : Shape) : Except Err KeyInfo := leafToTensorAcc false l obs

/-- one-level Dict spaces and everything else -/
inductive ObsSpace where
  | leaf (l : Leaf)
  | dict (items : List (String × Leaf))
deriving Repr, Inhabited

inductive ObsShape where
  | arr (s : Shape)
  | dict (items : List (String × Shape))
deriving Repr, Inhabited

/-- the loop over `observation.items()` in `obs_to_tensor`; `acc` is `vectorized_env` so far -/
def dictToTensor (items : List (String × Leaf)) : Bool → List (String × Shape) → Except Err (List KeyInfo)
  | _, [] => .ok []
  | acc, (k, s) :: rest =>
    match items.lookup k with
    | none => .error .key
    | some l =>
      match leafToTensorAcc acc l s with
      | .error e => .error e
      | .ok i =>
        match dictToTensor items (acc || i.vectorized) rest with
        | .error e => .error e
        | .ok is => .ok (i :: is)

/-- every key of the space is present in the observation (the extractor indexes `observations[key]`) -/
def coversKeys (items : List (String × Leaf)) (obs : List (String × Shape)) : Bool :=
  items.all fun kl => obs.any fun ks => ks.1 == kl.1

/-- `obs_to_tensor` -/
def obsToTensor (os : ObsSpace) (obs : ObsShape) : Except Err (List KeyInfo) :=
  match os, obs with
  | .leaf l, .arr s =>
    match leafToTensor l s with
    | .error e => .error e
    | .ok i => .ok [i]
  | .dict items, .dict o =>
    match dictToTensor items false o with
    | .error e => .error e
    | .ok is => if coversKeys items o then .ok is else .error .key
  | _, _ => .error .type

/-- the network's forward pass needs a common batch size -/
def netBatch : List KeyInfo → Except Err Nat
  | [] => .error .data
  | i :: rest => if rest.all (fun j => j.batch == i.batch) then .ok i.batch else .error .mixedBatch

/-- action spaces -/
inductive ActSpace where
  | box (shape : Shape)
  | discrete (n : Nat)
  | multiDiscrete (nvec : List Nat)
  | multiBinary (n : Nat)
deriving DecidableEq, Repr, Inhabited

/-- gymnasium's `action_space.shape` -/
def ActSpace.shape : ActSpace → Shape
  | .box s => s
  | .discrete _ => []
  | .multiDiscrete nv => [nv.length]
  | .multiBinary n => [n]

/-- `get_action_dim`: numbers the network emits per batch element -/
def ActSpace.dim : ActSpace → Nat
  | .box s => prod s
  | .discrete _ => 1
  | .multiDiscrete nv => nv.length
  | .multiBinary n => n

/-- `actions.reshape((-1, *action_space.shape))` of the `batch * dim` numbers `_predict` returned, then
`squeeze(axis=0)` when the observation was not vectorized -/
def finishShape (as : ActSpace) (batch : Nat) (vectorized : Bool) : Except Err Shape :=
  match inferBatchN (batch * as.dim) as.shape with
  | .error e => .error e
  | .ok b =>
    if vectorized then .ok (b :: as.shape)
    else if b = 1 then .ok as.shape
    else .error .squeeze

/-- `nn.Flatten()` (in `FlattenExtractor` and, per non-image key, in `CombinedExtractor`) flattens from
dimension 1 on: the tensor `[batch] ++ space.shape` must have rank ≥ 2. Discrete kinds are one-hot encoded
to `[batch, classes]` before, so only a rank-0 `Box` fails. -/
def Leaf.flattenable : Leaf → Bool
  | .box [] _ => false
  | _ => true

def ObsSpace.flattenable : ObsSpace → Bool
  | .leaf l => l.flattenable
  | .dict items => items.all fun kl => kl.2.flattenable

/-- shape of the array `BasePolicy.predict` returns -/
def predict (os : ObsSpace) (as : ActSpace) (obs : ObsShape) : Except Err Shape :=
  match obsToTensor os obs with
  | .error e => .error e
  | .ok infos =>
    if !os.flattenable then .error .flatten
    else
      match netBatch infos with
      | .error e => .error e
      | .ok b => finishShape as b (infos.any (·.vectorized))

/-- the `vectorized_env` flag `obs_to_tensor` returns -/
def vectorizedFlag (os : ObsSpace) (obs : ObsShape) : Except Err Bool :=
  match obsToTensor os obs with
  | .error e => .error e
  | .ok infos => .ok (infos.any (·.vectorized))

/-- one array in `BaseModel.is_vectorized_observation`: `maybe_transpose` then `is_vectorized_observation` -/
def leafIsVectorized (l : Leaf) (obs : Shape) : Except Err Bool :=
  match maybeTranspose l obs with
  | .error e => .error e
  | .ok (o, _) => isVectorized l o

/-- the loop of `BaseModel.is_vectorized_observation` over a Dict observation:
`vectorized_env = vectorized_env or is_vectorized_observation(maybe_transpose(obs, obs_space), obs_space)` —
the space lookup happens for every key, the check only until one key is vectorized -/
def dictIsVectorized (items : List (String × Leaf)) : Bool → List (String × Shape) → Except Err Bool
  | acc, [] => .ok acc
  | acc, (k, s) :: rest =>
    match items.lookup k with
    | none => .error .key
    | some l =>
      if acc then dictIsVectorized items true rest
      else
        match leafIsVectorized l s with
        | .error e => .error e
        | .ok v => dictIsVectorized items v rest

/-- `BaseModel.is_vectorized_observation` -/
def policyIsVectorized (os : ObsSpace) (obs : ObsShape) : Except Err Bool :=
  match os, obs with
  | .leaf l, .arr s => leafIsVectorized l s
  | .dict items, .dict o => dictIsVectorized items false o
  | _, _ => .error .type

/-- `observation[first key].shape[0]` / `observation.shape[0]` -/
def firstDim : ObsShape → Except Err Nat
  | .arr (n :: _) => .ok n
  | .dict ((_, n :: _) :: _) => .ok n
  | _ => .error .type

/-- the epsilon-greedy branch of `DQN.predict`: `np.array([sample() for _ in range(n_batch)])` or
`np.array(sample())` -/
def dqnExplore (os : ObsSpace) (as : ActSpace) (obs : ObsShape) : Except Err Shape :=
  match policyIsVectorized os obs with
  | .error e => .error e
  | .ok true =>
    match firstDim obs with
    | .error e => .error e
    | .ok n => .ok (n :: as.shape)
  | .ok false => .ok as.shape

/-! ### The observations the property quantifies over -/

/-- shape of one observation of the space -/
def ObsSpace.single : ObsSpace → ObsShape
  | .leaf l => .arr l.shape
  | .dict items => .dict (items.map fun kl => (kl.1, kl.2.shape))

/-- shape of a batch of `n` observations -/
def ObsSpace.batched (n : Nat) : ObsSpace → ObsShape
  | .leaf l => .arr (n :: l.shape)
  | .dict items => .dict (items.map fun kl => (kl.1, n :: kl.2.shape))

/-- every dimension is positive -/
def posShape (s : Shape) : Bool := s.all (0 < ·)

/-- a space the library supports -/
def Leaf.valid : Leaf → Bool
  | .box s img => posShape s && (!img || s.length == 3)
  | .discrete n => 0 < n
  | .multiDiscrete nv => posShape nv && 0 < nv.length
  | .multiBinary s => posShape s && 0 < s.length

def keysNodup : List (String × Leaf) → Bool
  | [] => true
  | (k, _) :: rest => !(rest.any fun kl => kl.1 == k) && keysNodup rest

def ObsSpace.valid : ObsSpace → Bool
  | .leaf l => l.valid
  | .dict items => !items.isEmpty && keysNodup items && items.all (fun kl => kl.2.valid)

def ActSpace.valid : ActSpace → Bool
  | .box s => posShape s
  | .discrete n => 0 < n
  | .multiDiscrete nv => posShape nv && 0 < nv.length
  | .multiBinary n => 0 < n

/-! ## Part 2: values -/

section Scalar

variable {α : Type}

section Order
variable [LT α] [DecidableLT α]

/-- `np.clip(x, lo, hi) = np.minimum(np.maximum(x, lo), hi)` -/
def clip (x lo hi : α) : α :=
  let y := if x < lo then lo else x
  if hi < y then hi else y

/-- index of the first maximum, with the running maximum (`argmax` of a non-empty row) -/
def argmaxFrom (best : α) (bi i : Nat) : List α → Nat
  | [] => bi
  | x :: xs => if best < x then argmaxFrom x i (i + 1) xs else argmaxFrom best bi (i + 1) xs

/-- `q_values.argmax(dim=1)` / `th.argmax(probs, dim=1)` on one row (first maximal index; `0` for an empty row) -/
def argmax : List α → Nat
  | [] => 0
  | x :: xs => argmaxFrom x 0 1 xs

/-- `th.split(logits, nvec, dim=1)` on one row -/
def splitBy {β : Type} : List Nat → List β → List (List β)
  | [], _ => []
  | n :: ns, l => l.take n :: splitBy ns (l.drop n)

/-- mode of a MultiCategorical distribution: one `argmax` per block of logits -/
def mdMode (nvec : List Nat) (logits : List α) : List Nat :=
  (splitBy nvec logits).map argmax

/-- mode of a Bernoulli distribution with the given logit: `round(sigmoid(logit))` -/
def bernMode [Zero α] (logit : α) : Nat := if (0 : α) < logit then 1 else 0

end Order

section Arith
variable [Add α] [Sub α] [Mul α] [Div α] [OfNat α 1] [OfNat α 2]

/-- the affine map of `unscale_action`: `low + 0.5 * (scaled + 1.0) * (high - low)` -/
def affine (lo hi s : α) : α := lo + (s + 1) * (hi - lo) / 2

/-- `scale_action`: `2.0 * ((action - low) / (high - low)) - 1.0` -/
def scale (lo hi a : α) : α := 2 * ((a - lo) / (hi - lo)) - 1

variable [LT α] [DecidableLT α]

/-- `unscale_action` (since 933445d): the affine map, then `np.clip(·, low, high)` -/
def unscale (lo hi s : α) : α := clip (affine lo hi s) lo hi

/-- the Box branch of `predict` on one component: squashed policies unscale, the others clip -/
def postBox1 (squash : Bool) (lo hi x : α) : α :=
  if squash then unscale lo hi x else clip x lo hi

/-- the Box branch of `predict` on one (flattened) action: `low`/`high` are arrays of the action's shape -/
def postBox (squash : Bool) : List α → List α → List α → List α
  | lo :: los, hi :: his, x :: xs => postBox1 squash lo hi x :: postBox squash los his xs
  | _, _, _ => []

end Arith

/-- action spaces with their bounds -/
inductive ActSpaceV (α : Type) where
  | box (low high : List α)
  | discrete (n : Nat)
  | multiDiscrete (nvec : List Nat)
  | multiBinary (n : Nat)
deriving Repr

/-- one (flattened) action -/
inductive Action (α : Type) where
  | real (xs : List α)
  | int (ks : List Nat)
deriving Repr, DecidableEq

/-- `low ≤ x ≤ high` component-wise, same number of components -/
def inBox [LT α] [DecidableLT α] : List α → List α → List α → Bool
  | [], [], [] => true
  | lo :: los, hi :: his, x :: xs => !(x < lo) && !(hi < x) && inBox los his xs
  | _, _, _ => false

/-- every component below its number of classes, same number of components -/
def inMulti : List Nat → List Nat → Bool
  | [], [] => true
  | n :: ns, k :: ks => decide (k < n) && inMulti ns ks
  | _, _ => false

/-- `action_space.contains(action)` -/
def ActSpaceV.contains [LT α] [DecidableLT α] : ActSpaceV α → Action α → Bool
  | .box lo hi, .real xs => inBox lo hi xs
  | .discrete n, .int [k] => decide (k < n)
  | .multiDiscrete nv, .int ks => inMulti nv ks
  | .multiBinary n, .int ks => ks.length == n && ks.all (· < 2)
  | _, _ => false

/-- The action `predict(deterministic=True)` returns for one batch element, as a function of what the
network emitted for it (`out`: Gaussian mean / `tanh` output / logits / Q-values — arbitrary numbers). -/
def modeAction [Add α] [Sub α] [Mul α] [Div α] [OfNat α 1] [OfNat α 2] [Zero α] [LT α] [DecidableLT α]
    (as : ActSpaceV α) (squash : Bool) (out : List α) : Action α :=
  match as with
  | .box lo hi => .real (postBox squash lo hi out)
  | .discrete _ => .int [argmax out]
  | .multiDiscrete nv => .int (mdMode nv out)
  | .multiBinary n => .int ((out.take n).map bernMode)

/-! ### Observation encodings (`preprocess_obs`) -/

/-- `F.one_hot(k, num_classes=n).float()` -/
def oneHot [Zero α] [One α] (n k : Nat) : List α :=
  (List.range n).map fun i => if i = k then 1 else 0

/-- concatenation of the one-hot encodings of the components of a MultiDiscrete observation -/
def multiOneHot [Zero α] [One α] : List Nat → List Nat → List α
  | n :: ns, k :: ks => oneHot n k ++ multiOneHot ns ks
  | _, _ => []

/-- `obs.float() / 255.0` -/
def scaleImage [Div α] [NatCast α] (px : List Nat) : List α := px.map fun (p : Nat) => (Nat.cast p : α) / (Nat.cast 255 : α)

/-- `np.transpose(image, (2, 0, 1))` on C-order data: `out[c, h, w] = in[h, w, c]` -/
def transposeHWC {β : Type} [Inhabited β] (H W C : Nat) (flat : List β) : List β :=
  (List.range (C * H * W)).map fun i =>
    flat.getD (((i % (H * W)) / W) * (W * C) + (i % W) * C + i / (H * W)) default

/-- the inverse permutation `np.transpose(image, (1, 2, 0))`: `out[h, w, c] = in[c, h, w]` -/
def transposeCHW {β : Type} [Inhabited β] (H W C : Nat) (flat : List β) : List β :=
  (List.range (H * W * C)).map fun i =>
    flat.getD ((i % C) * (H * W) + (i / (W * C)) * W + (i / C) % W) default

/-- the data of one observation (one batch row), in C order -/
inductive ObsData (α : Type) where
  | real (xs : List α)
  | nat (ks : List Nat)
deriving Repr

def allLt : List Nat → List Nat → Bool
  | [], [] => true
  | n :: ns, k :: ks => decide (k < n) && allLt ns ks
  | _, _ => false

/-- What the features extractor receives for one observation: `maybe_transpose` (when `transposed`),
then `preprocess_obs`. `normalize` is the policy's `normalize_images`. -/
def encodeRow [Zero α] [One α] [Div α] [NatCast α] (l : Leaf) (transposed normalize : Bool) :
    ObsData α → Except Err (List α)
  | .real xs =>
    match l with
    | .box s false => if xs.length = prod s then .ok xs else .error .data
    | _ => .error .data
  | .nat ks =>
    match l with
    | .box [c, h, w] true =>
      if ks.length = c * h * w then
        let chw := if transposed then transposeHWC h w c ks else ks
        .ok (if normalize then scaleImage chw else chw.map fun (p : Nat) => (Nat.cast p : α))
      else .error .data
    | .box _ _ => .error .data
    | .discrete n =>
      match ks with
      | [k] => if k < n then .ok (oneHot n k) else .error .classRange
      | _ => .error .data
    | .multiDiscrete nv =>
      if ks.length = nv.length then
        if allLt nv ks then .ok (multiOneHot nv ks) else .error .classRange
      else .error .data
    | .multiBinary s => if ks.length = prod s then .ok (ks.map fun (p : Nat) => (Nat.cast p : α)) else .error .data

end Scalar

end SB3Verif.Predict
