/-
Helper lemmas for C15, part 1: the parallel-variance merge of `RunningMeanStd`
(model: `SB3Verif/Model/RunningMeanStd.lean`).

Everything goes through the weighted power sums `(W, S₁, S₂) = (count, count·mean, count·(var+mean²))`:
the merge is plain addition there, and `(mean, var, count)` is recovered from the sums whenever `count ≠ 0`.
-/
import SB3Verif.Model.RunningMeanStd
import Mathlib.Tactic.Ring
import Mathlib.Tactic.FieldSimp
import Mathlib.Tactic.Linarith
import Mathlib.Tactic.Positivity
import Mathlib.Algebra.Order.Field.Basic

set_option linter.unusedSectionVars false

namespace SB3Verif.Lemmas.RMS

open SB3Verif.RMS

variable {α : Type} [Field α] [LinearOrder α] [IsStrictOrderedRing α]

theorem Sums.ext' {a b : Sums α} (h1 : a.w = b.w) (h2 : a.s1 = b.s1) (h3 : a.s2 = b.s2) : a = b := by
  cases a; cases b; simp_all

theorem Mom.ext' {a b : Mom α} (h1 : a.mean = b.mean) (h2 : a.var = b.var) (h3 : a.count = b.count) : a = b := by
  cases a; cases b; simp_all

@[simp] theorem lsum_nil : lsum ([] : List α) = 0 := rfl
@[simp] theorem lsum_cons (x : α) (xs : List α) : lsum (x :: xs) = x + lsum xs := rfl

theorem lsum_append (xs ys : List α) : lsum (xs ++ ys) = lsum xs + lsum ys := by
  induction xs with
  | nil => simp
  | cons x xs ih => simp [ih, add_assoc]

/-- `Σ (x - m)² = Σ x² - 2 m Σ x + N m²` for every `m` -/
theorem lsum_sq_dev (xs : List α) (m : α) :
    lsum (xs.map fun x => (x - m) * (x - m)) =
      lsum (xs.map fun x => x * x) - 2 * m * lsum xs + (xs.length : α) * m * m := by
  induction xs with
  | nil => simp
  | cons x xs ih =>
    simp only [List.map_cons, lsum_cons, ih, List.length_cons, Nat.cast_succ]
    ring

theorem lsum_sq_nonneg (xs : List α) (m : α) : 0 ≤ lsum (xs.map fun x => (x - m) * (x - m)) := by
  induction xs with
  | nil => simp
  | cons x xs ih =>
    simp only [List.map_cons, lsum_cons]
    have := mul_self_nonneg (x - m)
    linarith

theorem sumsOf_append (xs ys : List α) : sumsOf (xs ++ ys) = (sumsOf xs).add (sumsOf ys) := by
  apply Sums.ext' <;> simp [sumsOf, Sums.add, lsum_append]

theorem sumsOf_nil : sumsOf ([] : List α) = ⟨0, 0, 0⟩ := by
  simp [sumsOf]

theorem Sums.add_assoc' (a b c : Sums α) : (a.add b).add c = a.add (b.add c) := by
  apply Sums.ext' <;> simp [Sums.add, add_assoc]

theorem Sums.add_zero' (a : Sums α) : a.add ⟨0, 0, 0⟩ = a := by
  apply Sums.ext' <;> simp [Sums.add]

/-- `(mean, var, count)` is recovered from its power sums when `count ≠ 0`. -/
theorem toMom_toSums (m : Mom α) (h : m.count ≠ 0) : m.toSums.toMom = m := by
  apply Mom.ext'
  · simp only [Mom.toSums, Sums.toMom]; field_simp
  · simp only [Mom.toSums, Sums.toMom]; field_simp; ring
  · rfl

/-- The power sums of a batch's own moments are the raw power sums `(N, Σx, Σx²)`. -/
theorem toSums_momentsOf (xs : List α) : (momentsOf xs).toSums = sumsOf xs := by
  cases xs with
  | nil => apply Sums.ext' <;> simp [momentsOf, Mom.toSums, sumsOf, batchMean, batchVar]
  | cons x xs =>
    have hN : ((x :: xs).length : α) ≠ 0 := by
      have : (0 : α) < ((x :: xs).length : α) := by
        simp only [List.length_cons, Nat.cast_succ]; positivity
      exact ne_of_gt this
    apply Sums.ext'
    · rfl
    · simp only [momentsOf, Mom.toSums, sumsOf, batchMean]; field_simp
    · simp only [momentsOf, Mom.toSums, sumsOf, batchVar, batchMean, lsum_sq_dev]
      field_simp
      ring

/-- **The merge is addition of power sums.** -/
theorem toSums_updateFromMoments (s : Mom α) (bm bv bc : α) (h : s.count + bc ≠ 0) :
    (updateFromMoments s bm bv bc).toSums = s.toSums.add ⟨bc, bm * bc, (bv + bm * bm) * bc⟩ := by
  apply Sums.ext'
  · simp only [updateFromMoments, Mom.toSums, Sums.add]; ring
  · simp only [updateFromMoments, Mom.toSums, Sums.add]
    have h' : bc + s.count ≠ 0 := by rwa [add_comm]
    field_simp
    ring
  · simp only [updateFromMoments, Mom.toSums, Sums.add]
    have h' : bc + s.count ≠ 0 := by rwa [add_comm]
    field_simp
    ring

theorem count_update (s : Mom α) (xs : List α) : (update s xs).count = (xs.length : α) + s.count := rfl

theorem count_update_pos (s : Mom α) (xs : List α) (h : 0 < s.count) : 0 < (update s xs).count := by
  rw [count_update]
  have : (0 : α) ≤ (xs.length : α) := Nat.cast_nonneg _
  linarith

theorem toSums_update (s : Mom α) (xs : List α) (h : 0 < s.count) :
    (update s xs).toSums = s.toSums.add (sumsOf xs) := by
  have hne : s.count + (xs.length : α) ≠ 0 := by
    have : (0 : α) ≤ (xs.length : α) := Nat.cast_nonneg _
    exact ne_of_gt (by linarith)
  unfold update
  rw [toSums_updateFromMoments _ _ _ _ hne]
  have := toSums_momentsOf xs
  simp only [momentsOf, Mom.toSums] at this
  rw [← this]

theorem updateAll_nil (s : Mom α) : updateAll s [] = s := rfl
theorem updateAll_cons (s : Mom α) (b : List α) (bs : List (List α)) :
    updateAll s (b :: bs) = updateAll (update s b) bs := rfl

theorem updateAll_append (s : Mom α) (as bs : List (List α)) :
    updateAll s (as ++ bs) = updateAll (updateAll s as) bs := by
  simp [updateAll, List.foldl_append]

theorem count_updateAll_pos (s : Mom α) (bs : List (List α)) (h : 0 < s.count) : 0 < (updateAll s bs).count := by
  induction bs generalizing s with
  | nil => exact h
  | cons b bs ih => rw [updateAll_cons]; exact ih _ (count_update_pos s b h)

/-- Power sums after any sequence of batches: the prior's plus those of the concatenated stream. -/
theorem toSums_updateAll (s : Mom α) (bs : List (List α)) (h : 0 < s.count) :
    (updateAll s bs).toSums = s.toSums.add (sumsOf bs.flatten) := by
  induction bs generalizing s with
  | nil => simp [updateAll_nil, sumsOf_nil, Sums.add_zero']
  | cons b bs ih =>
    rw [updateAll_cons, ih _ (count_update_pos s b h), toSums_update s b h, List.flatten_cons, sumsOf_append,
      Sums.add_assoc']

/-- Closed form of the statistics after any sequence of batches. -/
theorem updateAll_eq_toMom (s : Mom α) (bs : List (List α)) (h : 0 < s.count) :
    updateAll s bs = (s.toSums.add (sumsOf bs.flatten)).toMom := by
  rw [← toSums_updateAll s bs h, toMom_toSums _ (ne_of_gt (count_updateAll_pos s bs h))]

theorem updateAll_eq_update_flatten (s : Mom α) (bs : List (List α)) (h : 0 < s.count) :
    updateAll s bs = update s bs.flatten := by
  rw [updateAll_eq_toMom s bs h, ← toSums_update s _ h, toMom_toSums _ (ne_of_gt (count_update_pos s _ h))]

/-- merging the moments of two non-empty samples gives the moments of their concatenation -/
theorem merge_momentsOf (A B : List α) (hA : A ≠ []) :
    updateFromMoments (momentsOf A) (batchMean B) (batchVar B) (B.length : α) = momentsOf (A ++ B) := by
  have hApos : (0 : α) < (A.length : α) := by
    cases A with
    | nil => exact absurd rfl hA
    | cons a A => simp only [List.length_cons, Nat.cast_succ]; positivity
  have hcount : 0 < (momentsOf A).count := hApos
  have h1 : updateFromMoments (momentsOf A) (batchMean B) (batchVar B) (B.length : α) = update (momentsOf A) B := rfl
  rw [h1]
  have hc1 : (update (momentsOf A) B).count ≠ 0 := ne_of_gt (count_update_pos _ _ hcount)
  have hc2 : (momentsOf (A ++ B)).count ≠ 0 := by
    have : (0 : α) < ((A ++ B).length : α) := by
      rw [List.length_append, Nat.cast_add]
      have : (0 : α) ≤ (B.length : α) := Nat.cast_nonneg _
      linarith
    exact ne_of_gt this
  rw [← toMom_toSums _ hc1, ← toMom_toSums _ hc2, toSums_update _ _ hcount, toSums_momentsOf, toSums_momentsOf,
    sumsOf_append]

/-! ### Non-negativity of the variance -/

theorem batchVar_nonneg (xs : List α) : 0 ≤ batchVar xs := by
  unfold batchVar
  exact div_nonneg (lsum_sq_nonneg _ _) (Nat.cast_nonneg _)

theorem var_updateFromMoments_nonneg (s : Mom α) (bm bv bc : α) (hv : 0 ≤ s.var) (hc : 0 < s.count)
    (hbv : 0 ≤ bv) (hbc : 0 ≤ bc) : 0 ≤ (updateFromMoments s bm bv bc).var := by
  simp only [updateFromMoments]
  have hpos : 0 < s.count + bc := by linarith
  apply div_nonneg _ hpos.le
  have h1 : 0 ≤ s.var * s.count := mul_nonneg hv hc.le
  have h2 : 0 ≤ bv * bc := mul_nonneg hbv hbc
  have h3 : 0 ≤ (bm - s.mean) * (bm - s.mean) * s.count * bc / (s.count + bc) := by
    apply div_nonneg _ hpos.le
    exact mul_nonneg (mul_nonneg (mul_self_nonneg _) hc.le) hbc
  linarith

theorem var_update_nonneg (s : Mom α) (xs : List α) (hv : 0 ≤ s.var) (hc : 0 < s.count) : 0 ≤ (update s xs).var :=
  var_updateFromMoments_nonneg s _ _ _ hv hc (batchVar_nonneg xs) (Nat.cast_nonneg _)

theorem var_updateAll_nonneg (s : Mom α) (bs : List (List α)) (hv : 0 ≤ s.var) (hc : 0 < s.count) :
    0 ≤ (updateAll s bs).var := by
  induction bs generalizing s with
  | nil => exact hv
  | cons b bs ih => rw [updateAll_cons]; exact ih _ (var_update_nonneg s b hv hc) (count_update_pos s b hc)

end SB3Verif.Lemmas.RMS
