/-
C04 ∘ C03 — end to end: what can be *sampled* from the replay buffer after off-policy collection is one of the
environments' own transitions.

Composition of the collection model (`SB3Verif/Model/OffPolicy.lean`, theorems `Props/C04.lean`) with the
replay-buffer model (`SB3Verif/Model/Replay.lean`, theorems `Props/C03.lean`) through the adapter
`toOps` (`Lemmas/OffPolicyReplay.lean`): the rows `run cfg calls` hands to `replay_buffer.add` become C03's
`Op.add` history; C03's payloads are tags, so everything is stated for an arbitrary `Tagging` (any naming of
observations / stored actions / rewards by naturals; injective taggings make tags determine values).

`(run cfg calls).w.log[a][e]` is sub-environment `e`'s own record of vectorised step `a` (the observation it had
last returned, the action it received, its answer); `(run cfg calls).st.trace[a]` is what the collection did at
that step (`o.action` = the actions handed to `env.step`, `o.row` = the row added).
-/
import SB3Verif.Lemmas.OffPolicyReplay

set_option linter.unusedSectionVars false
set_option linter.unusedVariables false

namespace SB3Verif.C04C03

open SB3Verif.OffPolicy SB3Verif.Lemmas.OffPolicy SB3Verif.Lemmas.OffPolicyReplay

variable {α : Type} [Add α] [Sub α] [Mul α] [Div α] [Neg α] [One α] [LT α] [DecidableLT α]

/-- **Sampled ⇒ environment transition** (standard variant). For every off-policy run without `VecNormalize`
(any `n_envs`, any observation wrapper, any episode scripts, any `train_freq` / `learning_starts` / split into
`learn()` calls with or without counter reset) and every replay buffer on the same number of envs (any
`buffer_size`, i.e. any capacity ≥ 1; with or without timeout handling; array or Dict), every `(slot, env)` pair
`sample` can gather holds sub-environment `e`'s own transition of ONE vectorised step `a` among the `capacity`
most recent ones: the observation the env had last returned (the one acted on), its own successor (the terminal
observation when the episode ended), the raw reward, the action stored next to the action the env received, and
`done = (terminated ∨ truncated) ∧ ¬(handle_timeout_termination ∧ truncated ∧ ¬terminated)`. -/
theorem sampled_is_env_transition (T : Tagging α) (cfg : Cfg α) (calls : List (Call α)) (rc : Replay.Cfg)
    (hv : cfg.vecNormalize = false) (hwf : ∀ c ∈ calls, c.wf cfg = true) (hn : rc.nEnvs = cfg.nEnvs)
    (hm : rc.memopt = false) (s e : ℕ)
    (h : (s, e) ∈ (Replay.run rc (toOps T (run cfg calls).st.buffer)).domain) :
    ∃ a ts t o, a < (run cfg calls).w.log.length ∧ (run cfg calls).w.log.length ≤ a + rc.cap ∧ a % rc.cap = s ∧
      e < cfg.nEnvs ∧
      (run cfg calls).w.log[a]? = some ts ∧ ts[e]? = some t ∧
      (run cfg calls).st.trace[a]? = some o ∧ o.action[e]? = some t.action ∧
      ((Replay.run rc (toOps T (run cfg calls).st.buffer)).get s e).obs = T.obs (cfg.post t.obs) ∧
      ((Replay.run rc (toOps T (run cfg calls).st.buffer)).get s e).next = T.obs (cfg.post t.next) ∧
      ((Replay.run rc (toOps T (run cfg calls).st.buffer)).get s e).rew = T.rew t.rew ∧
      ((Replay.run rc (toOps T (run cfg calls).st.buffer)).get s e).act = T.act (o.row.action.getD e []) ∧
      ((Replay.run rc (toOps T (run cfg calls).st.buffer)).get s e).done =
        if (t.term || t.trunc) && !(rc.hto && (t.trunc && !t.term)) then 1 else 0 := by
  have hi := inv_run cfg calls hwf (fun c hc => roundTrip_of_no_vn cfg c hv (hwf c hc)) (postTrivial_of_no_vn cfg hv)
  have hb := Lemmas.Replay.inv_run rc (toOps T (run cfg calls).st.buffer)
  rw [histOf_toOps] at hb
  obtain ⟨hs, he⟩ := Lemmas.Replay.mem_domain.mp h
  obtain ⟨a, hw, rfl⟩ := Lemmas.Replay.slot_sound hb hs
  obtain ⟨g1, g2, g3, g4, g5, _⟩ := Lemmas.Replay.get_spec hb hw e
  rw [hb.cfg_eq, hn] at he
  have hL : ((run cfg calls).st.buffer.map (toRow T)).length = (run cfg calls).w.log.length := by
    have := congrArg List.length hi.rows
    simpa [St.buffer] using this
  obtain ⟨ts, t, o, h1, h2, h3, _, h5, hc⟩ := cell_eq T cfg (run cfg calls) hi a e (by rw [← hL]; exact hw.lt) he
  rw [hc] at g1 g2 g3 g4 g5
  refine ⟨a, ts, t, o, by rw [← hL]; exact hw.lt, by rw [← hL]; exact hw.recent, rfl, he, h1, h2, h3, h5,
    g1, g5 hm, g3, g2, ?_⟩
  rw [g4]
  rfl

/-- **Recent environment transition ⇒ drawable** (standard variant): each of the `capacity` most recent
vectorised steps, each sub-environment, can be gathered by `sample` — at slot `a mod capacity`. Together with
`sampled_is_env_transition`: the drawable transitions are exactly the environments' last `capacity` steps. -/
theorem recent_env_transition_is_drawable (T : Tagging α) (cfg : Cfg α) (calls : List (Call α)) (rc : Replay.Cfg)
    (hv : cfg.vecNormalize = false) (hwf : ∀ c ∈ calls, c.wf cfg = true) (hn : rc.nEnvs = cfg.nEnvs)
    (hm : rc.memopt = false) (a e : ℕ) (ha : a < (run cfg calls).w.log.length)
    (hr : (run cfg calls).w.log.length ≤ a + rc.cap) (he : e < cfg.nEnvs) :
    (a % rc.cap, e) ∈ (Replay.run rc (toOps T (run cfg calls).st.buffer)).domain := by
  have hi := inv_run cfg calls hwf (fun c hc => roundTrip_of_no_vn cfg c hv (hwf c hc)) (postTrivial_of_no_vn cfg hv)
  have hL : (Replay.histOf (toOps T (run cfg calls).st.buffer)).length = (run cfg calls).w.log.length := by
    rw [histOf_toOps]
    have := congrArg List.length hi.rows
    simpa [St.buffer] using this
  have hb := Lemmas.Replay.inv_run rc (toOps T (run cfg calls).st.buffer)
  rw [Lemmas.Replay.mem_domain, hb.cfg_eq]
  exact ⟨Lemmas.Replay.slot_complete hb ⟨by rw [hL]; exact ha, by rw [hL]; exact hr,
    fun h => by rw [hm] at h; exact absurd h (by decide)⟩, by rw [hn]; exact he⟩

/-- **Memory-optimised variant, partial**: under the chaining the variant presupposes of the add history
(`Replay.Chained`: unless a stored transition ended an episode, the next add starts from its next observation —
true of collection inside one `learn()` call and across calls that do not reset the env), every drawable pair
holds sub-environment `e`'s own transition of one of the `capacity − 1` most recent steps as far as observation,
reward, stored action and done flag go, and — for transitions that did **not** end an episode, and for the newest
one in any case — its own successor. Episode-ending transitions followed by a later add return the next
episode's first observation instead (finding K-C03-a, `C03.memopt_done_next_counterexample`). -/
theorem sampled_is_env_transition_memopt_partial (T : Tagging α) (cfg : Cfg α) (calls : List (Call α))
    (rc : Replay.Cfg) (hv : cfg.vecNormalize = false) (hwf : ∀ c ∈ calls, c.wf cfg = true)
    (hn : rc.nEnvs = cfg.nEnvs) (hm : rc.memopt = true)
    (hch : Replay.Chained ((run cfg calls).st.buffer.map (toRow T))) (s e : ℕ)
    (h : (s, e) ∈ (Replay.run rc (toOps T (run cfg calls).st.buffer)).domain) :
    ∃ a ts t o, a < (run cfg calls).w.log.length ∧ (run cfg calls).w.log.length < a + rc.cap ∧ a % rc.cap = s ∧
      e < cfg.nEnvs ∧
      (run cfg calls).w.log[a]? = some ts ∧ ts[e]? = some t ∧
      (run cfg calls).st.trace[a]? = some o ∧ o.action[e]? = some t.action ∧
      ((Replay.run rc (toOps T (run cfg calls).st.buffer)).get s e).obs = T.obs (cfg.post t.obs) ∧
      ((Replay.run rc (toOps T (run cfg calls).st.buffer)).get s e).rew = T.rew t.rew ∧
      ((Replay.run rc (toOps T (run cfg calls).st.buffer)).get s e).act = T.act (o.row.action.getD e []) ∧
      ((Replay.run rc (toOps T (run cfg calls).st.buffer)).get s e).done =
        (if (t.term || t.trunc) && !(rc.hto && (t.trunc && !t.term)) then 1 else 0) ∧
      ((t.term || t.trunc) = false ∨ a + 1 = (run cfg calls).w.log.length →
        ((Replay.run rc (toOps T (run cfg calls).st.buffer)).get s e).next = T.obs (cfg.post t.next)) := by
  have hi := inv_run cfg calls hwf (fun c hc => roundTrip_of_no_vn cfg c hv (hwf c hc)) (postTrivial_of_no_vn cfg hv)
  have hb := Lemmas.Replay.inv_run rc (toOps T (run cfg calls).st.buffer)
  rw [histOf_toOps] at hb
  obtain ⟨hs, he⟩ := Lemmas.Replay.mem_domain.mp h
  obtain ⟨a, hw, rfl⟩ := Lemmas.Replay.slot_sound hb hs
  obtain ⟨g1, g2, g3, g4, _, g6⟩ := Lemmas.Replay.get_spec hb hw e
  rw [hb.cfg_eq, hn] at he
  have hL : ((run cfg calls).st.buffer.map (toRow T)).length = (run cfg calls).w.log.length := by
    have := congrArg List.length hi.rows
    simpa [St.buffer] using this
  obtain ⟨ts, t, o, h1, h2, h3, _, h5, hc⟩ := cell_eq T cfg (run cfg calls) hi a e (by rw [← hL]; exact hw.lt) he
  have g6' := g6 hm
  refine ⟨a, ts, t, o, by rw [← hL]; exact hw.lt, by rw [← hL]; exact hw.strict hm, rfl, he, h1, h2, h3, h5,
    by rw [g1, hc]; rfl, by rw [g3, hc]; rfl, by rw [g2, hc]; rfl, by rw [g4, hc]; rfl, ?_⟩
  intro hcase
  rw [g6']
  by_cases hl : a + 1 = ((run cfg calls).st.buffer.map (toRow T)).length
  · rw [if_pos hl, hc]; rfl
  · rw [if_neg hl]
    rcases hcase with hd | hl'
    · have hdone : (Replay.cellOf ((run cfg calls).st.buffer.map (toRow T)) a e).done = false := by
        rw [hc]; exact hd
      rw [hch a e (by have := hw.lt; omega) hdone, hc]; rfl
    · exact absurd (by rw [hL]; exact hl') hl

/-! ### Non-vacuity: a concrete two-env run that wraps the ring
(`e2eCfg`, `e2eCalls`, `e2eBuf`, `e2eMem`, `exTag` are defined in `Lemmas/OffPolicyReplay.lean`: box actions in
`[-2, 6]`, `train_freq = 2`, two `learn()` calls, 5 vectorised steps into a ring of capacity `7 // 2 = 3`) -/

example : e2eCfg.vecNormalize = false ∧ (∀ c ∈ e2eCalls, c.wf e2eCfg = true) ∧ e2eBuf.nEnvs = e2eCfg.nEnvs ∧
    e2eBuf.memopt = false ∧ e2eBuf.cap = 3 := by decide +kernel

/-- 5 steps were collected, the ring wrapped: cursor at 2, full -/
example : (run e2eCfg e2eCalls).w.log.length = 5 ∧
    (Replay.run e2eBuf (toOps exTag (run e2eCfg e2eCalls).st.buffer)).pos = 2 ∧
    (Replay.run e2eBuf (toOps exTag (run e2eCfg e2eCalls).st.buffer)).full = true := by decide +kernel

/-- slot 0 now holds step 3: env 1's `terminated ∧ truncated` end — observation 202, successor the terminal
observation 203 (not the reset observation 300), reward 0, stored action `scale 2 = 0`, done 1 (not masked) -/
example : (0, 1) ∈ (Replay.run e2eBuf (toOps exTag (run e2eCfg e2eCalls).st.buffer)).domain ∧
    (Replay.run e2eBuf (toOps exTag (run e2eCfg e2eCalls).st.buffer)).get 0 1 =
      ⟨exTagQ 202, exTagQ 203, exTagQ 0, exTagQ 0, 1⟩ := by decide +kernel

/-- slot 1 holds step 4 (second `learn()` call, continued): env 0 went 12 → 13 with the action `-2`, stored `-1` -/
example : (Replay.run e2eBuf (toOps exTag (run e2eCfg e2eCalls).st.buffer)).get 1 0 =
    ⟨exTagQ 12, exTagQ 13, exTagQ (-1), exTagQ 2, 0⟩ := by decide +kernel

/-- steps 2, 3, 4 are drawable, steps 0 and 1 were overwritten: 3 slots × 2 envs -/
example : (Replay.run e2eBuf (toOps exTag (run e2eCfg e2eCalls).st.buffer)).domain =
    [(0, 0), (0, 1), (1, 0), (1, 1), (2, 0), (2, 1)] := by decide +kernel

/-- memory-optimised ring of capacity 3 on the same run: the overwritten slot `pos = 2` is excluded -/
example : e2eMem.memopt = true ∧ e2eMem.valid = true ∧ e2eMem.cap = 3 ∧
    (Replay.run e2eMem (toOps exTag (run e2eCfg e2eCalls).st.buffer)).sampleSlots = [0, 1] := by decide +kernel

/-- … and this run is chained (no env reset between the two `learn()` calls) -/
example : Replay.Chained ((run e2eCfg e2eCalls).st.buffer.map (toRow exTag)) := by
  intro a e ha hd
  have h5 : ((run e2eCfg e2eCalls).st.buffer.map (toRow exTag)).length = 5 := by decide +kernel
  rw [h5] at ha
  have hcases : a = 0 ∨ a = 1 ∨ a = 2 ∨ a = 3 := by omega
  by_cases he : e < 2
  · have hecases : e = 0 ∨ e = 1 := by omega
    rcases hcases with rfl | rfl | rfl | rfl <;> rcases hecases with rfl | rfl <;>
      first
      | (exfalso; revert hd; decide +kernel)
      | decide +kernel
  · have hlen : ∀ r ∈ (run e2eCfg e2eCalls).st.buffer.map (toRow exTag), r.length = 2 := by decide +kernel
    have key : ∀ (row : Replay.Row), row.length ≤ e → row.getD e default = default := by
      intro row h
      simp [List.getD_eq_getElem?_getD, List.getElem?_eq_none h]
    have hcell : ∀ a', Replay.cellOf ((run e2eCfg e2eCalls).st.buffer.map (toRow exTag)) a' e = default := by
      intro a'
      unfold Replay.cellOf
      by_cases ha' : a' < ((run e2eCfg e2eCalls).st.buffer.map (toRow exTag)).length
      · have h1 : ((run e2eCfg e2eCalls).st.buffer.map (toRow exTag)).getD a' [] =
            ((run e2eCfg e2eCalls).st.buffer.map (toRow exTag))[a'] := by
          simp [List.getD_eq_getElem?_getD, List.getElem?_eq_getElem ha']
        rw [h1]
        exact key _ (by rw [hlen _ (List.getElem_mem ha')]; omega)
      · have h1 : ((run e2eCfg e2eCalls).st.buffer.map (toRow exTag)).getD a' [] = [] := by
          simp [List.getD_eq_getElem?_getD, List.getElem?_eq_none (Nat.le_of_not_lt ha')]
        rw [h1]
        exact key _ (by simp)
    rw [hcell, hcell]
    rfl

/-- slot 0 (step 3, env 0: 11 → 12, not an episode end) carries its own successor in the memory-optimised ring -/
example : (Replay.run e2eMem (toOps exTag (run e2eCfg e2eCalls).st.buffer)).get 0 0 =
    ⟨exTagQ 11, exTagQ 12, exTagQ 1, exTagQ 1, 0⟩ := by decide +kernel

end SB3Verif.C04C03
