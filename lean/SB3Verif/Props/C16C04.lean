/-
C04 ∘ C16 — end to end: what can be *sampled* from a HER replay buffer after off-policy collection is one of the
environments' own transitions, relabelled (for the virtual part) with an achieved goal of the same ENVIRONMENT
episode.

Composition of the collection model (`SB3Verif/Model/OffPolicy.lean`, theorems `Props/C04.lean`: the rows handed
to `replay_buffer.add` are the sub-environments' own transitions, for every `n_envs`, episode script,
`train_freq` / `learning_starts` / split into `learn()` calls) with the HER model (`SB3Verif/Model/Her.lean`,
invariant `Lemmas/Her.lean`) through the adapter `toOps` (`Lemmas/OffPolicyHer.lean`). The HER model's payloads
are tags, so everything is stated for an arbitrary `HTagging` (any naming of the `observation` /
`achieved_goal` / `desired_goal` parts of an observation vector, of stored actions and of rewards).

`(run cfg calls).w.log[a][e]` is sub-environment `e`'s own record of vectorised step `a`; `EnvTransAt s e a t b`
says `t` is that record and `b` the action stored next to the one the environment received; `EnvEndsAt log e a ee`
says the environment episode containing step `a` of env `e` ends (`terminated ∨ truncated`) at step `ee`.
-/
import SB3Verif.Lemmas.OffPolicyHer

set_option linter.unusedSectionVars false
set_option linter.unusedVariables false

namespace SB3Verif.C16C04

open SB3Verif.OffPolicy SB3Verif.Lemmas.OffPolicy SB3Verif.Lemmas.OffPolicyHer SB3Verif.Her

variable {α : Type} [Add α] [Sub α] [Mul α] [Div α] [Neg α] [One α] [LT α] [DecidableLT α]

/-- **The HER buffer receives the environments' own transition sequence.** For every off-policy run without
`VecNormalize`, column `e` of the HER buffer's history has one entry per vectorised step, entry `a` is
sub-environment `e`'s own transition of step `a` (observation acted on, true successor — the terminal observation
when the episode ended —, raw reward, stored action, `done = terminated ∨ truncated`,
`timeout = handle_timeout_termination ∧ truncated ∧ ¬terminated`), and the flag that delimits the HER episode
segments is exactly the environment's `terminated ∨ truncated`. -/
theorem her_history_is_env_log (T : HTagging α) (hTT : Bool) (cap : ℕ) (cfg : Cfg α) (calls : List (Call α))
    (hv : cfg.vecNormalize = false) (hwf : ∀ c ∈ calls, c.wf cfg = true) (e : ℕ) (he : e < cfg.nEnvs) :
    (ghostOf hTT cap (toOps T (run cfg calls).st.buffer) e).length = (run cfg calls).w.log.length ∧
    ∀ a, a < (run cfg calls).w.log.length → ∃ t b, EnvTransAt (run cfg calls) e a t b ∧
      (ghostOf hTT cap (toOps T (run cfg calls).st.buffer) e).getD a default =
        Rec.mk (envTrans T hTT cfg.post t b) (t.term || t.trunc) ∧
      envDone (run cfg calls).w.log e a = (t.term || t.trunc) := by
  have hi := inv_run cfg calls hwf (fun c hc => roundTrip_of_no_vn cfg c hv (hwf c hc)) (postTrivial_of_no_vn cfg hv)
  exact ⟨ghost_length T hTT cap cfg _ hi e, fun a ha => ghost_cell T hTT cap cfg _ hi a e ha he⟩

/-- **Episode boundaries coincide**: "the episode of add `a` ends at add `ee`" in the HER model's sense (column
`e`) holds iff sub-environment `e`'s first `terminated ∨ truncated` at or after step `a` is at step `ee`. -/
theorem her_episodes_are_env_episodes (T : HTagging α) (hTT : Bool) (cap : ℕ) (cfg : Cfg α) (calls : List (Call α))
    (hv : cfg.vecNormalize = false) (hwf : ∀ c ∈ calls, c.wf cfg = true) (e a ee : ℕ) (he : e < cfg.nEnvs) :
    endsAt (ghostOf hTT cap (toOps T (run cfg calls).st.buffer) e) a ee ↔ EnvEndsAt (run cfg calls).w.log e a ee :=
  endsAt_iff_env T hTT cap cfg _
    (inv_run cfg calls hwf (fun c hc => roundTrip_of_no_vn cfg c hv (hwf c hc)) (postTrivial_of_no_vn cfg hv))
    e a ee he

/-- **Sampled from HER ⇒ environment transition, hindsight goal from the same environment episode.**
For every off-policy run without `VecNormalize` (any `n_envs ≥ 1`, observation wrapper, episode scripts,
`train_freq` / `learning_starts` / split into `learn()` calls) feeding a HER buffer of any ring capacity `≥ 1`
(with or without timeout handling), any strategy, `n_sampled_goal`, batch size and any draws `sample` can make
(`sampleOk`): the batch is `real ++ virt`, `|virt| = ⌊n·B/(n+1)⌋`, and
* every element of `real` is sub-environment `e`'s own transition `t` of ONE vectorised step `a` among the `cap`
  most recent ones (not overwritten), whose environment episode has ended (at step `ee`);
* every element of `virt` keeps observation, achieved goal, action, next observation, next achieved goal and done
  flag of such a transition `t` (step `a`), its desired goal — in the observation and the next observation — is the
  *next achieved goal* of the same sub-environment's transition `t'` of step `a'`, also not overwritten, in the SAME
  environment episode (both end at the same `terminated ∨ truncated` step `ee`, none in between); `future` ⇒ `a ≤ a'`,
  `final` ⇒ `a' = ee`; its reward is `compute_reward(next achieved goal of t, new goal)`. -/
theorem her_sample_is_env_hindsight (cr : ℕ → ℕ → ℤ) (T : HTagging α) (hTT : Bool) (cap : ℕ) (cfg : Cfg α)
    (calls : List (Call α)) (hv : cfg.vecNormalize = false) (hwf : ∀ c ∈ calls, c.wf cfg = true)
    (hcap : 0 < cap) (hn : 0 < cfg.nEnvs) (strat : Strategy) (nGoal batch : ℕ) (draws goals : List ℕ)
    (hok : (Her.run cap cfg.nEnvs hTT (toOps T (run cfg calls).st.buffer)).sampleOk strat nGoal batch draws goals
      = true) :
    ∃ real virt,
      (Her.run cap cfg.nEnvs hTT (toOps T (run cfg calls).st.buffer)).sampleOut cr strat nGoal batch draws goals
        = real ++ virt ∧
      real.length = batch - nbVirtual nGoal batch ∧ virt.length = nbVirtual nGoal batch ∧
      (∀ x, x ∈ real → ∃ e a ee t b, e < cfg.nEnvs ∧ EnvTransAt (run cfg calls) e a t b ∧
        (run cfg calls).w.log.length ≤ a + cap ∧ EnvEndsAt (run cfg calls).w.log e a ee ∧
        x = realOf (envTrans T hTT cfg.post t b)) ∧
      (∀ x, x ∈ virt → ∃ e a a' ee t b t' b', e < cfg.nEnvs ∧
        EnvTransAt (run cfg calls) e a t b ∧ EnvTransAt (run cfg calls) e a' t' b' ∧
        (run cfg calls).w.log.length ≤ a + cap ∧ (run cfg calls).w.log.length ≤ a' + cap ∧
        EnvEndsAt (run cfg calls).w.log e a ee ∧ EnvEndsAt (run cfg calls).w.log e a' ee ∧
        (strat = .future → a ≤ a') ∧ (strat = .final → a' = ee) ∧
        x = relabelOf cr (envTrans T hTT cfg.post t b) (envTrans T hTT cfg.post t' b')) := by
  have hi := inv_run cfg calls hwf (fun c hc => roundTrip_of_no_vn cfg c hv (hwf c hc)) (postTrivial_of_no_vn cfg hv)
  obtain ⟨real, virt, h1, h2, h3, h4, h5⟩ :=
    SB3Verif.Her.Lemmas.sample_core cr cap cfg.nEnvs hTT _ hcap hn strat nGoal batch draws goals hok
  refine ⟨real, virt, h1, h2, h3, ?_, ?_⟩
  · intro x hx
    obtain ⟨e, he, a, ee, ha, hl, hend, rfl⟩ := h4 x hx
    have hgl := ghost_length T hTT cap cfg _ hi e
    rw [hgl] at ha hl
    obtain ⟨t, b, ht, hc, -⟩ := ghost_cell T hTT cap cfg _ hi a e ha he
    refine ⟨e, a, ee, t, b, he, ht, hl, (endsAt_iff_env T hTT cap cfg _ hi e a ee he).mp hend, ?_⟩
    rw [hc]
  · intro x hx
    obtain ⟨e, he, a, a', ee, ha, hl, ha', hl', hend, hend', hf, hfin, rfl⟩ := h5 x hx
    have hgl := ghost_length T hTT cap cfg _ hi e
    rw [hgl] at ha hl ha' hl'
    obtain ⟨t, b, ht, hc, -⟩ := ghost_cell T hTT cap cfg _ hi a e ha he
    obtain ⟨t', b', ht', hc', -⟩ := ghost_cell T hTT cap cfg _ hi a' e ha' he
    refine ⟨e, a, a', ee, t, b, t', b', he, ht, ht', hl, hl',
      (endsAt_iff_env T hTT cap cfg _ hi e a ee he).mp hend, (endsAt_iff_env T hTT cap cfg _ hi e a' ee he).mp hend',
      hf, hfin, ?_⟩
    rw [hc, hc']

/-! ### Non-vacuity: a concrete two-env run whose HER ring wraps, one env with an episode longer than the ring
(`herCfg`, `herCalls`, `herBuf`, `exHTag` are defined in `Lemmas/OffPolicyHer.lean`) -/

example : herCfg.vecNormalize = false ∧ (∀ c ∈ herCalls, c.wf herCfg = true) ∧ 0 < herCfg.nEnvs ∧
    0 < ringSize 7 2 ∧ ringSize 7 2 = 3 := by decide +kernel

/-- 5 vectorised steps went into a ring of 3: it wrapped (`pos = 2`). Env 0's second episode (steps 2, 3) lies in
slots 2, 0 — across the ring end; env 1's 4-step episode (longer than the ring) keeps its last step (slot 0). -/
example : (run herCfg herCalls).w.log.length = 5 ∧ herBuf.cols.map (·.pos) = [2, 2] ∧
    herBuf.cols.map (·.epLen) = [[2, 0, 2], [1, 0, 0]] ∧ herBuf.cols.map (·.epStart) = [[2, 1, 2], [0, 1, 0]] ∧
    herBuf.validFlat = [0, 1, 4] := by decide +kernel

/-- the hypothesis of `her_sample_is_env_hindsight`: `future`, `n_sampled_goal = 1`, batch 4 -/
example : herBuf.sampleOk .future 1 4 [4, 1, 0, 0] [1, 0] = true := by decide +kernel

/-- the batch: two real samples (env 0, step 3: 40 → 50, terminated, desired goal 8, reward 4) and two relabelled
ones — env 0's step 2 (30 → 40) with the goal achieved at step 3 (51), and env 1's step 3 (130 → 140, truncated:
done masked by the timeout) with its own next achieved goal 141 -/
example : (herBuf.sampleOut (fun a g => (a * 1000 + g : ℕ)) .future 1 4 [4, 1, 0, 0] [1, 0]).map
      (fun s => (s.obs, s.nobs, s.dg, s.ndg, s.rew, s.done)) =
    [(40, 50, 8, 8, 4, true), (40, 50, 8, 8, 4, true), (30, 40, 51, 51, 41051, false),
     (130, 140, 141, 141, 141141, false)] := by decide +kernel

end SB3Verif.C16C04
