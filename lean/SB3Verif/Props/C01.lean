/-
C01 — VecEnv episode-boundary contract (auto-reset, terminal_observation, truncation, reset_infos, seeds/options).

Property theorems only (helper lemmas are in `SB3Verif/Lemmas/VecEnv.lean`). All statements are about the executable
model `SB3Verif/Model/VecEnv.lean`, whose definitions the driver `SB3Verif/Driver/C01.lean` runs against the real
`DummyVecEnv` / `SubprocVecEnv`.

Reading guide. `v : Vec ω ρ` is EITHER implementation (`Vec.dummy` = staging-buffer loops, `Vec.subproc` = workers
with a private `reset_info` + unzip of the replies); `v.WF` holds for the initial state and is kept by every
operation (`wf_invariant`), so every theorem holds at every reachable state, for every number of sub-environments
`v.n`, every observation type `ω` (all space kinds) and every reward type `ρ`. What the sub-environments answered
(`xs : List (StepResp ω ρ)`, `zs : List (ResetRes ω)`) is universally quantified: every episode script, including
length-1 episodes and `terminated ∧ truncated`.
-/
import SB3Verif.Lemmas.VecEnv

namespace SB3Verif.C01

open SB3Verif.VecEnv SB3Verif.VecEnvLemmas

variable {ω ρ : Type}

/-! ### One vectorised step, sub-environment by sub-environment -/

/-- **done = terminated or truncated**, for sub-environment `i`'s own flags. -/
theorem step_done (v : Vec ω ρ) (hwf : v.WF) (acts : List Int) (xs : List (StepResp ω ρ))
    (hv : (Op.step acts xs).valid v.n = true) (i : Nat) (hi : i < v.n) (a : Int) (x : StepResp ω ρ)
    (ha : acts[i]? = some a) (hx : xs[i]? = some x) :
    (v.step acts xs).2.dones[i]? = some (x.raw.terminated || x.raw.truncated) := by
  obtain ⟨_, _, h3, _⟩ := step_at v hwf acts xs hv i hi a x ha hx
  rw [h3, (spec_step_basic _ a x).1]; rfl

/-- **infos[i]["TimeLimit.truncated"] = truncated and not terminated** (whatever the sub-environment had put under
that key itself). -/
theorem step_truncated_flag (v : Vec ω ρ) (hwf : v.WF) (acts : List Int) (xs : List (StepResp ω ρ))
    (hv : (Op.step acts xs).valid v.n = true) (i : Nat) (hi : i < v.n) (a : Int) (x : StepResp ω ρ)
    (ha : acts[i]? = some a) (hx : xs[i]? = some x) :
    ((v.step acts xs).2.infos[i]?).bind (dictGet · "TimeLimit.truncated") =
      some (Val.bool (x.raw.truncated && !x.raw.terminated)) := by
  obtain ⟨_, _, _, h4, _⟩ := step_at v hwf acts xs hv i hi a x ha hx
  rw [h4, (spec_step_basic _ a x).2.2]
  exact stepInfo_truncated x.raw

/-- **reward pass-through**: the reward returned for `i` is the one sub-environment `i` produced. -/
theorem step_reward (v : Vec ω ρ) (hwf : v.WF) (acts : List Int) (xs : List (StepResp ω ρ))
    (hv : (Op.step acts xs).valid v.n = true) (i : Nat) (hi : i < v.n) (a : Int) (x : StepResp ω ρ)
    (ha : acts[i]? = some a) (hx : xs[i]? = some x) :
    (v.step acts xs).2.rews[i]? = some (some x.raw.rew) := by
  obtain ⟨_, h2, _⟩ := step_at v hwf acts xs hv i hi a x ha hx
  rw [h2, (spec_step_basic _ a x).2.1]

/-- **episode continues**: the returned observation is `i`'s own step observation, no `terminal_observation` is
added, `reset_infos[i]` is untouched, and sub-environment `i` received exactly one call: `step(actions[i])`. -/
theorem step_episode_continues (v : Vec ω ρ) (hwf : v.WF) (acts : List Int) (xs : List (StepResp ω ρ))
    (hv : (Op.step acts xs).valid v.n = true) (i : Nat) (hi : i < v.n) (a : Int) (x : StepResp ω ρ)
    (ha : acts[i]? = some a) (hx : xs[i]? = some x) (hnd : (x.raw.terminated || x.raw.truncated) = false) :
    (v.step acts xs).2.obs[i]? = some (some x.raw.obs) ∧
    ((v.step acts xs).2.infos[i]?).bind (dictGet · "terminal_observation") = dictGet x.raw.info "terminal_observation" ∧
    (v.step acts xs).2.resetInfos[i]? = v.resetInfos[i]? ∧
    (v.step acts xs).1.resetInfos[i]? = v.resetInfos[i]? ∧
    (v.step acts xs).2.calls[i]? = some [Call.step a] := by
  obtain ⟨h1, _, _, h4, h5, h6, h7, _⟩ := step_at v hwf acts xs hv i hi a x ha hx
  have hd : x.raw.done = false := hnd
  obtain ⟨c1, c2, c3⟩ := spec_step_cont (v.abs i) a x hd
  have hri : v.resetInfos[i]? = some (v.abs i).resetInfo :=
    vec_resetInfos_abs v i (by rw [wf_resetInfos_length v hwf]; exact hi)
  refine ⟨by rw [h1, c1], ?_, by rw [h5, c2, hri], by rw [h7, c2, hri], by rw [h6, c3]⟩
  rw [h4, (spec_step_basic _ a x).2.2]
  exact stepInfo_no_terminal x.raw hd

/-- **episode ends** (`terminated`, `truncated` or both — also for an episode of length 1): the returned observation
is the first observation of `i`'s next episode (what `i`'s `reset()` answered), `infos[i]["terminal_observation"]` is the
last observation of the finished episode, `reset_infos[i]` is the info of that automatic reset, and sub-environment `i`
received exactly `step(actions[i])` followed by one argument-less `reset()` (no seed, no options). -/
theorem step_episode_ends (v : Vec ω ρ) (hwf : v.WF) (acts : List Int) (xs : List (StepResp ω ρ))
    (hv : (Op.step acts xs).valid v.n = true) (i : Nat) (hi : i < v.n) (a : Int) (x : StepResp ω ρ)
    (ha : acts[i]? = some a) (hx : xs[i]? = some x) (hd : (x.raw.terminated || x.raw.truncated) = true)
    (z : ResetRes ω) (hz : x.rst = some z) :
    (v.step acts xs).2.obs[i]? = some (some z.obs) ∧
    ((v.step acts xs).2.infos[i]?).bind (dictGet · "terminal_observation") = some (Val.obs x.raw.obs) ∧
    (v.step acts xs).2.resetInfos[i]? = some z.info ∧
    (v.step acts xs).1.resetInfos[i]? = some z.info ∧
    (v.step acts xs).2.calls[i]? = some [Call.step a, Call.reset none none] := by
  obtain ⟨h1, _, _, h4, h5, h6, h7, _⟩ := step_at v hwf acts xs hv i hi a x ha hx
  have hd' : x.raw.done = true := hd
  obtain ⟨c1, c2, c3⟩ := spec_step_end (v.abs i) a x z hd' hz
  refine ⟨by rw [h1, c1], ?_, by rw [h5, c2], by rw [h7, c2], by rw [h6, c3]⟩
  rw [h4, (spec_step_basic _ a x).2.2]
  exact stepInfo_terminal x.raw hd'

/-- Inside the model's domain an ended episode always comes with the answer of its `reset()`:
the hypothesis `x.rst = some z` of `step_episode_ends` is implied by validity. -/
theorem step_episode_ends_has_reset (n : Nat) (acts : List Int) (xs : List (StepResp ω ρ))
    (hv : (Op.step acts xs).valid n = true) (i : Nat) (x : StepResp ω ρ) (hx : xs[i]? = some x)
    (hd : (x.raw.terminated || x.raw.truncated) = true) : ∃ z, x.rst = some z := by
  simp only [Op.valid, Bool.and_eq_true, List.all_eq_true] at hv
  have hm : x ∈ xs := List.mem_of_getElem? hx
  have := hv.2 x hm
  have hd' : x.raw.done = true := hd
  rw [hd'] at this
  cases hr : x.rst with
  | none => simp [hr] at this
  | some z => exact ⟨z, rfl⟩

/-- **every other info key passes through unchanged.** -/
theorem step_info_passthrough (v : Vec ω ρ) (hwf : v.WF) (acts : List Int) (xs : List (StepResp ω ρ))
    (hv : (Op.step acts xs).valid v.n = true) (i : Nat) (hi : i < v.n) (a : Int) (x : StepResp ω ρ)
    (ha : acts[i]? = some a) (hx : xs[i]? = some x) (k : String) (h1 : k ≠ "TimeLimit.truncated")
    (h2 : k ≠ "terminal_observation") :
    ((v.step acts xs).2.infos[i]?).bind (dictGet · k) = dictGet x.raw.info k := by
  obtain ⟨_, _, _, h4, _⟩ := step_at v hwf acts xs hv i hi a x ha hx
  rw [h4, (spec_step_basic _ a x).2.2]
  exact stepInfo_other x.raw k h1 h2

/-- The info dictionary stays a dictionary (keys unique) when the sub-environment's was. -/
theorem step_info_keys_unique (r : Raw ω ρ) (h : (r.info.map (·.1)).Nodup) : ((stepInfo r).map (·.1)).Nodup :=
  stepInfo_keys_nodup r h

/-- **no cross-talk, and both implementations agree**: what a step returns for sub-environment `i` (observation,
reward, done, info, reset info, calls made) is determined by `i`'s own action, `i`'s own answers and `i`'s own previous
reset info — for two arbitrary vectorised environments (Dummy or Subproc, different sizes, different other
sub-environments, different staging-buffer contents). -/
theorem step_own (v w : Vec ω ρ) (hv : v.WF) (hw : w.WF) (acts acts' : List Int) (xs xs' : List (StepResp ω ρ))
    (hval : (Op.step acts xs).valid v.n = true) (hval' : (Op.step acts' xs').valid w.n = true)
    (i : Nat) (hi : i < v.n) (hi' : i < w.n)
    (hacts : acts[i]? = acts'[i]?) (hxs : xs[i]? = xs'[i]?) (hri : v.resetInfos[i]? = w.resetInfos[i]?) :
    (v.step acts xs).2.obs[i]? = (w.step acts' xs').2.obs[i]? ∧
    (v.step acts xs).2.rews[i]? = (w.step acts' xs').2.rews[i]? ∧
    (v.step acts xs).2.dones[i]? = (w.step acts' xs').2.dones[i]? ∧
    (v.step acts xs).2.infos[i]? = (w.step acts' xs').2.infos[i]? ∧
    (v.step acts xs).2.resetInfos[i]? = (w.step acts' xs').2.resetInfos[i]? ∧
    (v.step acts xs).2.calls[i]? = (w.step acts' xs').2.calls[i]? := by
  have hh : acts.length = v.n ∧ xs.length = v.n := by
    simp [Op.valid] at hval; exact ⟨hval.1.1, hval.1.2⟩
  have ha : acts[i]? = some acts[i] := List.getElem?_eq_getElem (hh.1 ▸ hi)
  have hx : xs[i]? = some xs[i] := List.getElem?_eq_getElem (hh.2 ▸ hi)
  obtain ⟨a1, a2, a3, a4, a5, a6, _⟩ := step_at v hv acts xs hval i hi _ _ ha hx
  obtain ⟨b1, b2, b3, b4, b5, b6, _⟩ := step_at w hw acts' xs' hval' i hi' _ _ (hacts ▸ ha) (hxs ▸ hx)
  have e1 := vec_resetInfos_abs v i (by rw [wf_resetInfos_length v hv]; exact hi)
  have e2 := vec_resetInfos_abs w i (by rw [wf_resetInfos_length w hw]; exact hi')
  have habs : (v.abs i).resetInfo = (w.abs i).resetInfo := by
    rw [e1, e2] at hri; exact Option.some.inj hri
  -- the specification's step output does not look at the pending seed / options
  have key : ∀ (e e' : EnvSpec ω), e.resetInfo = e'.resetInfo →
      (e.apply (EnvOp.step acts[i] xs[i])).2 = (e'.apply (EnvOp.step acts[i] xs[i])).2 := by
    intro e e' h
    unfold EnvSpec.apply
    cases hd : xs[i].raw.done <;> cases hr : xs[i].rst <;> simp [hd, hr, h]
  have k := key (v.abs i) (w.abs i) habs
  exact ⟨by rw [a1, b1, k], by rw [a2, b2, k], by rw [a3, b3, k], by rw [a4, b4, k], by rw [a5, b5, k],
    by rw [a6, b6, k]⟩

/-- every array a step returns has exactly one entry per sub-environment -/
theorem step_shapes (v : Vec ω ρ) (hwf : v.WF) (acts : List Int) (xs : List (StepResp ω ρ))
    (hv : (Op.step acts xs).valid v.n = true) :
    (v.step acts xs).2.obs.length = v.n ∧ (v.step acts xs).2.rews.length = v.n ∧
    (v.step acts xs).2.dones.length = v.n ∧ (v.step acts xs).2.infos.length = v.n ∧
    (v.step acts xs).2.resetInfos.length = v.n ∧ (v.step acts xs).2.calls.length = v.n :=
  step_lengths v hwf acts xs hv

/-! ### `seed()`, `set_options()`, `reset()` -/

/-- `seed(s)` returns `s + i` for sub-environment `i` and makes it `i`'s pending seed (the last `seed` wins). -/
theorem seed_assigns (v : Vec ω ρ) (hwf : v.WF) (s : Int) (i : Nat) (hi : i < v.n) :
    (v.seed s).2.seeds[i]? = some (some (s + (i : Int))) ∧
    (v.seed s).1.abs i = { v.abs i with seed := some (s + (i : Int)) } := by
  obtain ⟨_, _, w3⟩ := applyT_refines v hwf (Op.seed s) rfl
  obtain ⟨_, p2⟩ := w3 i hi
  constructor
  · cases v <;> exact seedList_getElem? _ s i hi
  · exact p2

/-- `set_options(o)` makes `o` (dict: the same for all; list: entry `i`; None: nothing) `i`'s pending options. -/
theorem set_options_assigns (v : Vec ω ρ) (hwf : v.WF) (o : OptArg) (hv : (Op.setOptions o : Op ω ρ).valid v.n = true)
    (i : Nat) (hi : i < v.n) :
    (v.setOptions o).1.abs i = { v.abs i with opts := (setOptionsList v.n o).getD i [] } := by
  obtain ⟨_, _, w3⟩ := applyT_refines v hwf (Op.setOptions o) hv
  obtain ⟨_, p2⟩ := w3 i hi
  rw [setOptionsList_proj (ρ := ρ) v.n o hv i hi] at p2
  exact p2

/-- **`reset()` delivers**: sub-environment `i` receives exactly one call, `reset(seed=pending seed of i,
options=pending options of i if non-empty)`; the returned observation and `reset_infos[i]` are what `i` answered;
afterwards `i` has no pending seed and no pending options. -/
theorem reset_delivers (v : Vec ω ρ) (hwf : v.WF) (zs : List (ResetRes ω)) (hz : zs.length = v.n) (i : Nat)
    (hi : i < v.n) (z : ResetRes ω) (hzi : zs[i]? = some z) :
    (v.reset zs).2.obs[i]? = some (some z.obs) ∧
    (v.reset zs).2.resetInfos[i]? = some z.info ∧
    (v.reset zs).2.calls[i]? = some [Call.reset (v.abs i).seed (maybeOptions (v.abs i).opts)] ∧
    (v.reset zs).1.abs i = { idx := i, resetInfo := z.info, seed := none, opts := [] } :=
  reset_at v hwf zs hz i hi z hzi

/-- every array `reset()` returns has exactly one entry per sub-environment -/
theorem reset_shapes (v : Vec ω ρ) (hwf : v.WF) (zs : List (ResetRes ω)) (hz : zs.length = v.n) :
    (v.reset zs).2.obs.length = v.n ∧ (v.reset zs).2.resetInfos.length = v.n ∧ (v.reset zs).2.calls.length = v.n :=
  reset_lengths v hwf zs hz

/-- The driver's entry point `Vec.apply` answers exactly inside the domain `Op.valid`, and there it is the total
functions the theorems above are about (so the correspondence run exercises the very definitions of the theorems). -/
theorem apply_in_domain (v : Vec ω ρ) (op : Op ω ρ) :
    (op.valid v.n = true → v.apply op = .ok (v.applyT op)) ∧
    (op.valid v.n = false → v.apply op = .error "operation outside the model's domain") ∧
    (∀ acts xs, v.applyT (Op.step acts xs) = v.step acts xs) ∧ (∀ zs, v.applyT (Op.reset zs : Op ω ρ) = v.reset zs) ∧
    (∀ s, v.applyT (Op.seed s : Op ω ρ) = v.seed s) ∧ (∀ o, v.applyT (Op.setOptions o : Op ω ρ) = v.setOptions o) := by
  refine ⟨fun h => by simp [Vec.apply, h], fun h => by simp [Vec.apply, h], fun _ _ => rfl, fun _ => rfl, fun _ => rfl,
    fun _ => rfl⟩

/-! ### Structured observations (Dict / Tuple / plain): the batched observation is a faithful transposition -/

/-- **DummyVecEnv layout**: whatever the per-key staging arrays `buf_obs[key]` contained before (stale rows of earlier
steps), after the loop has saved the `n` sub-environments' observations, the row of sub-environment `i` in the
returned batched observation is `i`'s own observation, component by component, for every key set (single key
`None`, Dict names, Tuple positions). -/
theorem obs_buffer_rows {κ α : Type} (keys : List κ) (n : Nat) (b : ObsBuf κ α) (hb : b.Shape keys n)
    (l : List (κ → α)) (hl : l.length = n) (i : Nat) (hi : i < n) :
    (b.saveAll 0 l).row i = ownObs keys (l[i]'(hl ▸ hi)) := by
  obtain ⟨_, _, h3, _⟩ := saveAll_rows l b keys n 0 hb (by omega)
  have := h3 i (hl ▸ hi)
  simpa using this

/-- one `_save_obs(i, obs)` writes row `i` and no other row: the keyed arrays implement the slot array `bufObs` of the
mechanism model (`bufObs.set i (some obs)`). -/
theorem obs_save_is_slot_write {κ α : Type} (keys : List κ) (n : Nat) (b : ObsBuf κ α) (hb : b.Shape keys n)
    (i : Nat) (hi : i < n) (obs : κ → α) :
    (b.save i obs).row i = ownObs keys obs ∧ (∀ j, j ≠ i → (b.save i obs).row j = b.row j) ∧
    (b.save i obs).Shape keys n :=
  ⟨save_row_self b keys n hb i hi obs, fun j hj => save_row_other b i j hj obs, save_shape b keys n hb i obs⟩

/-- **SubprocVecEnv layout**: row `i` of `_stack_obs(obs_list, space)` is `obs_list[i]`, component by component. -/
theorem obs_stack_rows {κ α : Type} (keys : List κ) (l : List (κ → α)) (i : Nat) (hi : i < l.length) :
    stackRow (stackObs keys l) i = ownObs keys l[i] :=
  stack_row keys l i hi

/-- a fresh `buf_obs` has the shape the two theorems above ask for -/
theorem obs_buffer_init_shape {κ α : Type} (keys : List κ) (n : Nat) : (ObsBuf.init keys n : ObsBuf κ α).Shape keys n :=
  init_shape keys n

/-! ### Whole histories -/

/-- **Well-formedness is an invariant** of every history inside the domain, starting from a fresh vectorised
environment of either kind; the number of sub-environments never changes. -/
theorem wf_invariant (k : Kind) (n : Nat) (ops : List (Op ω ρ)) (hval : ∀ op ∈ ops, op.valid n = true) :
    ((Vec.init k n : Vec ω ρ).run ops).WF ∧ ((Vec.init k n : Vec ω ρ).run ops).n = n := by
  obtain ⟨r1, r2, _⟩ := run_refines ops (Vec.init k n : Vec ω ρ) (init_wf k n)
    (fun op h => by rw [init_n]; exact hval op h)
  exact ⟨r1, r2.trans (init_n k n)⟩

/-- **A vectorised environment is `n` independent single-environment wrappers.** For every history inside the
domain, for either implementation, the outputs concerning sub-environment `i` (observation, reward, done, info,
reset info, calls received, seed returned) are exactly the outputs of the specification `EnvSpec` run on `i`'s own
part of the history — nothing of any other sub-environment enters. -/
theorem history_is_product (k : Kind) (n : Nat) (ops : List (Op ω ρ)) (hval : ∀ op ∈ ops, op.valid n = true)
    (i : Nat) (hi : i < n) :
    ((Vec.init k n : Vec ω ρ).outs ops).map (Out.proj i) = (EnvSpec.init i).outs (ops.map (Op.proj i)) ∧
    ((Vec.init k n : Vec ω ρ).run ops).abs i = (EnvSpec.init i).run (ops.map (Op.proj i)) := by
  obtain ⟨_, _, r3⟩ := run_refines ops (Vec.init k n : Vec ω ρ) (init_wf k n)
    (fun op h => by rw [init_n]; exact hval op h)
  have := r3 i (by rw [init_n]; exact hi)
  rw [init_abs k n i hi] at this
  exact this

/-- Corollary: **DummyVecEnv and SubprocVecEnv are observably the same** on every history (sequential schedule;
arbitrary timing is C02). -/
theorem dummy_subproc_agree (n : Nat) (ops : List (Op ω ρ)) (hval : ∀ op ∈ ops, op.valid n = true)
    (i : Nat) (hi : i < n) :
    ((Vec.init .dummy n : Vec ω ρ).outs ops).map (Out.proj i) =
      ((Vec.init .subproc n : Vec ω ρ).outs ops).map (Out.proj i) := by
  rw [(history_is_product .dummy n ops hval i hi).1, (history_is_product .subproc n ops hval i hi).1]

/-- **A seed reaches exactly the matching sub-environment at the next `reset()`**: after `seed(s)` and any further
operations that are neither `seed` nor `reset` (steps with any number of automatic resets, `set_options`), the call
sub-environment `i` receives in the next `reset()` carries `seed = s + i` — the value `seed()` returned at index `i`. -/
theorem seed_reaches_next_reset (v : Vec ω ρ) (hwf : v.WF) (s : Int) (mid : List (Op ω ρ))
    (hmid : ∀ op ∈ mid, op.valid v.n = true ∧ op.isSeed = false ∧ op.isReset = false)
    (zs : List (ResetRes ω)) (hz : zs.length = v.n) (i : Nat) (hi : i < v.n) :
    ∃ o, (((v.seed s).1.run mid).reset zs).2.calls[i]? = some [Call.reset (some (s + (i : Int))) o] := by
  obtain ⟨w1, w2, w3⟩ := applyT_refines v hwf (Op.seed s) rfl
  change (v.seed s).1.WF at w1
  change (v.seed s).1.n = v.n at w2
  obtain ⟨r1, r2, r3⟩ := run_refines mid (v.seed s).1 w1 (fun op h => by rw [w2]; exact (hmid op h).1)
  obtain ⟨_, rabs⟩ := r3 i (by rw [w2]; exact hi)
  have hn : ((v.seed s).1.run mid).n = v.n := r2.trans w2
  have hzi : zs[i]? = some zs[i] := List.getElem?_eq_getElem (hz ▸ hi)
  obtain ⟨_, _, c, _⟩ := reset_at ((v.seed s).1.run mid) r1 zs (hz.trans hn.symm) i (by rw [hn]; exact hi) _ hzi
  refine ⟨maybeOptions (((v.seed s).1.run mid).abs i).opts, ?_⟩
  rw [c, rabs]
  have hkeep := run_keeps_seed (mid.map (Op.proj i)) ((v.seed s).1.abs i) (by
    intro op hop
    obtain ⟨op', hop', rfl⟩ := List.mem_map.mp hop
    exact ⟨proj_not_seed op' i (hmid op' hop').2.1, proj_not_reset op' i (hmid op' hop').2.2⟩)
  rw [hkeep, (seed_assigns v hwf s i hi).2]

/-- **… exactly once**: after a `reset()`, as long as `seed()` is not called again, every later `reset()` passes
`seed=None` to sub-environment `i` (whatever steps, automatic resets, option changes and resets lie in between). -/
theorem seed_used_once (v : Vec ω ρ) (hwf : v.WF) (zs : List (ResetRes ω)) (hz : zs.length = v.n)
    (mid : List (Op ω ρ)) (hmid : ∀ op ∈ mid, op.valid v.n = true ∧ op.isSeed = false)
    (zs' : List (ResetRes ω)) (hz' : zs'.length = v.n) (i : Nat) (hi : i < v.n) :
    ∃ o, (((v.reset zs).1.run mid).reset zs').2.calls[i]? = some [Call.reset none o] := by
  have hv : (Op.reset zs : Op ω ρ).valid v.n = true := by simp [Op.valid, hz]
  obtain ⟨w1, w2, _⟩ := applyT_refines v hwf (Op.reset zs) hv
  change (v.reset zs).1.WF at w1
  change (v.reset zs).1.n = v.n at w2
  obtain ⟨r1, r2, r3⟩ := run_refines mid (v.reset zs).1 w1 (fun op h => by rw [w2]; exact (hmid op h).1)
  obtain ⟨_, rabs⟩ := r3 i (by rw [w2]; exact hi)
  have hn : ((v.reset zs).1.run mid).n = v.n := r2.trans w2
  have hzi : zs[i]? = some zs[i] := List.getElem?_eq_getElem (hz ▸ hi)
  have hzi' : zs'[i]? = some zs'[i] := List.getElem?_eq_getElem (hz' ▸ hi)
  obtain ⟨_, _, c, _⟩ := reset_at ((v.reset zs).1.run mid) r1 zs' (hz'.trans hn.symm) i (by rw [hn]; exact hi) _ hzi'
  refine ⟨maybeOptions (((v.reset zs).1.run mid).abs i).opts, ?_⟩
  rw [c, rabs]
  have h0 : ((v.reset zs).1.abs i).seed = none := by rw [(reset_at v hwf zs hz i hi _ hzi).2.2.2]
  have hnone := run_seed_none (mid.map (Op.proj i)) ((v.reset zs).1.abs i) h0 (by
    intro op hop
    obtain ⟨op', hop', rfl⟩ := List.mem_map.mp hop
    exact proj_not_seed op' i (hmid op' hop').2)
  rw [hnone]

/-- **Options reach exactly the matching sub-environment at the next `reset()`**: after `set_options(o)` and any
operations that are neither `set_options` nor `reset`, sub-environment `i` receives its own entry of `o`
(not passed at all when empty). -/
theorem options_reach_next_reset (v : Vec ω ρ) (hwf : v.WF) (o : OptArg)
    (ho : (Op.setOptions o : Op ω ρ).valid v.n = true) (mid : List (Op ω ρ))
    (hmid : ∀ op ∈ mid, op.valid v.n = true ∧ op.isSetOptions = false ∧ op.isReset = false)
    (zs : List (ResetRes ω)) (hz : zs.length = v.n) (i : Nat) (hi : i < v.n) :
    ∃ sd, (((v.setOptions o).1.run mid).reset zs).2.calls[i]? =
      some [Call.reset sd (maybeOptions ((setOptionsList v.n o).getD i []))] := by
  obtain ⟨w1, w2, w3⟩ := applyT_refines v hwf (Op.setOptions o) ho
  change (v.setOptions o).1.WF at w1
  change (v.setOptions o).1.n = v.n at w2
  obtain ⟨r1, r2, r3⟩ := run_refines mid (v.setOptions o).1 w1 (fun op h => by rw [w2]; exact (hmid op h).1)
  obtain ⟨_, rabs⟩ := r3 i (by rw [w2]; exact hi)
  have hn : ((v.setOptions o).1.run mid).n = v.n := r2.trans w2
  have hzi : zs[i]? = some zs[i] := List.getElem?_eq_getElem (hz ▸ hi)
  obtain ⟨_, _, c, _⟩ := reset_at ((v.setOptions o).1.run mid) r1 zs (hz.trans hn.symm) i (by rw [hn]; exact hi) _ hzi
  refine ⟨(((v.setOptions o).1.run mid).abs i).seed, ?_⟩
  rw [c, rabs]
  have hkeep := run_keeps_opts (mid.map (Op.proj i)) ((v.setOptions o).1.abs i) (by
    intro op hop
    obtain ⟨op', hop', rfl⟩ := List.mem_map.mp hop
    exact ⟨proj_not_setOptions op' i (hmid op' hop').2.1, proj_not_reset op' i (hmid op' hop').2.2⟩)
  rw [hkeep, set_options_assigns v hwf o ho i hi]

/-- **… exactly once**: after a `reset()`, as long as `set_options()` is not called again, every later `reset()`
passes no options to sub-environment `i`. -/
theorem options_used_once (v : Vec ω ρ) (hwf : v.WF) (zs : List (ResetRes ω)) (hz : zs.length = v.n)
    (mid : List (Op ω ρ)) (hmid : ∀ op ∈ mid, op.valid v.n = true ∧ op.isSetOptions = false)
    (zs' : List (ResetRes ω)) (hz' : zs'.length = v.n) (i : Nat) (hi : i < v.n) :
    ∃ sd, (((v.reset zs).1.run mid).reset zs').2.calls[i]? = some [Call.reset sd none] := by
  have hv : (Op.reset zs : Op ω ρ).valid v.n = true := by simp [Op.valid, hz]
  obtain ⟨w1, w2, _⟩ := applyT_refines v hwf (Op.reset zs) hv
  change (v.reset zs).1.WF at w1
  change (v.reset zs).1.n = v.n at w2
  obtain ⟨r1, r2, r3⟩ := run_refines mid (v.reset zs).1 w1 (fun op h => by rw [w2]; exact (hmid op h).1)
  obtain ⟨_, rabs⟩ := r3 i (by rw [w2]; exact hi)
  have hn : ((v.reset zs).1.run mid).n = v.n := r2.trans w2
  have hzi : zs[i]? = some zs[i] := List.getElem?_eq_getElem (hz ▸ hi)
  have hzi' : zs'[i]? = some zs'[i] := List.getElem?_eq_getElem (hz' ▸ hi)
  obtain ⟨_, _, c, _⟩ := reset_at ((v.reset zs).1.run mid) r1 zs' (hz'.trans hn.symm) i (by rw [hn]; exact hi) _ hzi'
  refine ⟨(((v.reset zs).1.run mid).abs i).seed, ?_⟩
  rw [c, rabs]
  have h0 : ((v.reset zs).1.abs i).opts = [] := by rw [(reset_at v hwf zs hz i hi _ hzi).2.2.2]
  have hnone := run_opts_empty (mid.map (Op.proj i)) ((v.reset zs).1.abs i) h0 (by
    intro op hop
    obtain ⟨op', hop', rfl⟩ := List.mem_map.mp hop
    exact proj_not_setOptions op' i (hmid op' hop').2)
  rw [hnone]
  rfl

/-! ### Non-vacuity: concrete histories inside the domain (observations = tags, rewards = integers) -/

/-- three sub-environments; sub-environment 0 ends an episode with `terminated ∧ truncated`, 1 continues,
2 ends by truncation only -/
def exStep : Op Nat Int :=
  .step [3, 1, 2]
    [ { raw := { obs := 11, rew := 5, terminated := true, truncated := true, info := [("k", .int 1)] },
        rst := some { obs := 20, info := [("reset_tag", .int 20)] } },
      { raw := { obs := 111, rew := -1, terminated := false, truncated := false,
                 info := [("TimeLimit.truncated", .bool true)] }, rst := none },
      { raw := { obs := 211, rew := 0, terminated := false, truncated := true, info := [] },
        rst := some { obs := 220, info := [] } } ]

def exReset (b : Nat) : Op Nat Int :=
  .reset [{ obs := b, info := [("e", .int 0)] }, { obs := b + 100, info := [("e", .int 1)] },
          { obs := b + 200, info := [("e", .int 2)] }]

/-- seed, per-environment options, reset, a step, a step of length-1 episodes, a second reset -/
def exHistory : List (Op Nat Int) :=
  [.seed 7, .setOptions (.list [[("a", 1)], [], [("b", 2)]]), exReset 10, exStep, exStep, exReset 30]

example : ∀ op ∈ exHistory, op.valid 3 = true := by decide

example : ((Vec.init .dummy 3 : Vec Nat Int).run exHistory).WF := (wf_invariant .dummy 3 exHistory (by decide)).1

/-- the first reset delivers seeds 7, 8, 9 and the per-environment options (none for the empty dict) … -/
example : (((Vec.init .subproc 3 : Vec Nat Int).outs exHistory)[2]?).map (·.calls) =
    some [[Call.reset (some 7) (some [("a", 1)])], [Call.reset (some 8) none], [Call.reset (some 9) (some [("b", 2)])]] := by
  decide

/-- … the second reset delivers nothing -/
example : (((Vec.init .dummy 3 : Vec Nat Int).outs exHistory)[5]?).map (·.calls) =
    some [[Call.reset none none], [Call.reset none none], [Call.reset none none]] := by
  decide

/-- the step: observations 20 (after auto-reset), 111 (own), 220 (after auto-reset); the flag is `false` for
`terminated ∧ truncated`, overwrites the sub-environment's own wrong value, `true` for truncation only -/
example : (((Vec.init .dummy 3 : Vec Nat Int).outs exHistory)[3]?).map (·.obs) = some [some 20, some 111, some 220] := by
  decide

example : (((Vec.init .dummy 3 : Vec Nat Int).outs exHistory)[3]?).map (·.dones) = some [true, false, true] := by
  decide

example : (((Vec.init .dummy 3 : Vec Nat Int).outs exHistory)[3]?).map (·.infos) =
    some [[("k", .int 1), ("TimeLimit.truncated", .bool false), ("terminal_observation", .obs 11)],
       [("TimeLimit.truncated", .bool false)],
       [("TimeLimit.truncated", .bool true), ("terminal_observation", .obs 211)]] := by
  decide

example : (((Vec.init .dummy 3 : Vec Nat Int).outs exHistory)[3]?).map (·.resetInfos) =
    some [[("reset_tag", .int 20)], [("e", .int 1)], []] := by
  decide

example : (Vec.init .dummy 3 : Vec Nat Int).outs exHistory = (Vec.init .subproc 3 : Vec Nat Int).outs exHistory := by
  decide

/-- a Dict space with three keys, two sub-environments, stale rows from an earlier step -/
example : ((((ObsBuf.init ["vec", "img", "disc"] 2 : ObsBuf String Nat).saveAll 0 [fun _ => 7, fun _ => 8]).saveAll 0
    [fun k => if k = "img" then 10 else 11, fun _ => 20]).row 0) = [("vec", some 11), ("img", some 10), ("disc", some 11)] := by
  decide

end SB3Verif.C01
