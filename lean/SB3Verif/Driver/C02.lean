/-
Driver for C02: runs the executable model `SB3Verif.Subproc` (message-passing `Sys` under the schedule given on
the line, and sequential `Dummy`) instantiated with the scripted environment `Scripted.sem`, on the operations
the harness (`/verif/harness/c02.py`) performed on the real `SubprocVecEnv` and `DummyVecEnv`.

lines
  {"op":"new","envs":[{"env_id":k,"script":[[q,bool,bool]],"some_attr":i,"depth":0|1|2,"shadow":[[name,i]]}]}     → {"ok":n}
  {"op":"seed","s":i,"sched":S}            {"op":"set_options","arg":null|{"dict":D}|{"list":[D]},"sched":S}
  {"op":"reset","sched":S}                 {"op":"step","acts":[i],"sched":S}
  {"op":"get_attr","name":s,"idx":I,"sched":S}       {"op":"set_attr","name":s,"v":i,"idx":I,"sched":S}
  {"op":"env_method","name":s,"args":[i],"idx":I,"sched":S}      {"op":"is_wrapped","cls":s,"idx":I,"sched":S}
  {"op":"step_async","acts":[i],"sched":S}   {"op":"step_wait","sched":S}   {"op":"close","sched":S}
      with S = [[worker ids]] (chunk k fires before the k-th parent action), I = null | k | [k], D = [[key,int]]
  → {"subproc": OUT | "deadlock", "dummy": OUT, "pending": unanswered commands/replies left in the pipes,
     "waiting": bool, "closed": bool}
  OUT = {"obs":[tag],"rews":[q],"dones":[bool],"infos":[{..}],"results":[v],"seeds":[i|null],"reset_infos":[{..}]}
A call outside the protocol (`Call.next`: invalid indices, `get_attr` while a step is outstanding, anything but
`close` after `close`, …) is answered with {"error":"invalid-op"}.
-/
import SB3Verif.Driver.Proto
import SB3Verif.Model.Subproc

open Lean SB3Verif.Proto SB3Verif.Subproc

abbrev DSub := Sub Scripted.St Int Nat Rat
abbrev DDum := Dum Scripted.St Int Nat

structure DState where
  sub : DSub
  dum : DDum
  phase : Phase

def optsJ (o : Opts) : Json := listJ (fun kv => Json.arr #[strJ kv.1, intJ kv.2]) o

def valJ : Val Nat → Json
  | .none => Json.null
  | .bool b => boolJ b
  | .int i => intJ i
  | .str s => strJ s
  | .obs o => objJ [("obs", natJ o)]
  | .opts d => objJ [("opts", optsJ d)]
  | .ints l => listJ intJ l

def infoJ (i : Info Nat) : Json := objJ (i.map fun kv => (kv.1, valJ kv.2))

def outJ (o : Out Nat Rat) : Json :=
  objJ [("obs", listJ natJ o.obs), ("rews", listJ ratJ o.rews), ("dones", listJ boolJ o.dones),
        ("infos", listJ infoJ o.infos), ("results", listJ valJ o.results),
        ("seeds", listJ (fun s => match s with | none => Json.null | some i => intJ i) o.seeds),
        ("reset_infos", listJ infoJ o.resetInfos)]

def asOpts (j : Json) : Except String Opts :=
  asListOf (fun kv => do
    let l ← asList kv
    match l with
    | [k, v] => return ((← asStr k), (← asInt v))
    | _ => throw "bad option pair") j

def asIndices (j : Json) : Except String Indices :=
  match j with
  | .null => .ok .all
  | _ =>
    match j.getNat? with
    | .ok k => .ok (.one k)
    | .error _ => do
      let l ← asListOf asNat j
      return .many l

def asOptArg (j : Json) : Except String OptArg :=
  match j with
  | .null => .ok .none
  | _ =>
    match j.getObjVal? "dict" with
    | .ok d => do return .dict (← asOpts d)
    | .error _ =>
      match j.getObjVal? "list" with
      | .ok l => do return .list (← asListOf asOpts l)
      | .error _ => .error "bad set_options argument"

def asScriptEntry (j : Json) : Except String (Rat × Bool × Bool) := do
  let l ← asList j
  match l with
  | [r, t, u] => return ((← asRat r), (← asBool t), (← asBool u))
  | _ => throw "bad script entry"

def asEnv (j : Json) : Except String Scripted.St := do
  let envId ← getNat j "env_id"
  let script ← getList asScriptEntry j "script"
  let sa ← getInt j "some_attr"
  if script.isEmpty then throw "empty script"
  let depth ← getNat j "depth"
  let shadow ← getList (fun kv => do
    let l ← asList kv
    match l with
    | [k, v] => return ((← asStr k), (← asInt v))
    | _ => throw "bad shadow pair") j "shadow"
  let rs := (getNat j "reset_style").toOption.getD 0
  return { envId := envId, script := script, someAttr := sa, depth := depth, shadow := shadow, resetStyle := rs }

def parseOp (op : String) (j : Json) : Except String (Op Int Nat) := do
  match op with
  | "seed" => return .seed (← getInt j "s")
  | "set_options" => return .setOptions (← fld j "arg" >>= asOptArg)
  | "reset" => return .reset
  | "step" => return .step (← getList asInt j "acts")
  | "get_attr" => return .getAttr (← getStr j "name") (← fld j "idx" >>= asIndices)
  | "set_attr" => return .setAttr (← getStr j "name") (.int (← getInt j "v")) (← fld j "idx" >>= asIndices)
  | "env_method" =>
    return .envMethod (← getStr j "name") (← getList asInt j "args") (← fld j "idx" >>= asIndices)
  | "is_wrapped" => return .isWrapped (← getStr j "cls") (← fld j "idx" >>= asIndices)
  | _ => throw s!"bad-op {op}"

def parseCall (op : String) (j : Json) : Except String (Call Int Nat) := do
  match op with
  | "step_async" => return .stepAsync (← getList asInt j "acts")
  | "step_wait" => return .stepWait
  | "close" => return .close
  | _ => return .op (← parseOp op j)

def stepC02 (st : Option DState) (j : Json) : Except String (Option DState × Json) := do
  let op ← getStr j "op"
  if op == "new" then
    let envs ← getList asEnv j "envs"
    return (some { sub := Sub.init envs, dum := Dum.init envs, phase := .idle }, objJ [("ok", natJ envs.length)])
  match st with
  | none => throw "no-system"
  | some s =>
    let c ← parseCall op j
    let sch ← getList (asListOf asNat) j "sched"
    -- the protocol of the classes (Call.next): a call outside it is rejected, never answered with a default
    match Call.next s.dum.d.envs.length s.phase c with
    | none => throw "invalid-op"
    | some ph =>
      let d := Dum.run Scripted.sem roundF32 s.dum c
      let flags (x : DSub) : List (String × Json) :=
        [("waiting", boolJ x.waiting), ("closed", boolJ x.closed), ("pending", natJ x.sys.pendingWork)]
      match Sub.run Scripted.sem s.sub sch c with
      | none =>
        return (some { s with dum := d.1, phase := ph },
          objJ ([("subproc", strJ "deadlock"), ("dummy", outJ d.2)] ++ flags s.sub))
      | some x =>
        return (some { sub := x.1, dum := d.1, phase := ph },
          objJ ([("subproc", outJ x.2.2), ("dummy", outJ d.2)] ++ flags x.1))

/-- `{"op":"f32","q":q}` → `{"f32":roundF32 q}` (ties the model's float32 conversion to NumPy's) -/
def stepAll (st : Option DState) (j : Json) : Except String (Option DState × Json) := do
  let op ← getStr j "op"
  if op == "f32" then
    let q ← getRat j "q"
    return (st, objJ [("f32", ratJ (roundF32 q))])
  stepC02 st j

def main : IO Unit := SB3Verif.Proto.run stepAll none
