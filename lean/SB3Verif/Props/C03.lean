/-
C03 — Replay buffers return only real, still-stored transitions with correct dones.

Property theorems only (helper lemmas: `SB3Verif/Lemmas/Replay.lean`). All statements are about the
executable model `SB3Verif/Model/Replay.lean`, whose definitions the driver `SB3Verif/Driver/C03.lean`
runs against the real `ReplayBuffer` / `DictReplayBuffer`.

Quantifiers: every configuration `c` (every `buffer_size`, `n_envs` — divisible or not, `n_envs > buffer_size`
included —, both flags, array or Dict), every history `ops : List Op` of `add` / `reset` calls of any
length (before, at and many times past wrap-around), every row content. `run c ops` is the buffer after the
history, `histOf ops` the rows added since the last `reset` (oldest first), `cellOf H a e` what add number
`a` stored for environment `e`. `size` / `sample` do not change the state, so "any interleaving of
add/sample/size/reset" is "the queries at any prefix", which is what `∀ ops` gives.
-/
import SB3Verif.Lemmas.Replay

namespace SB3Verif.C03

open SB3Verif.Replay SB3Verif.Lemmas.Replay

/-- **Capacity**: the ring has `max(buffer_size // n_envs, 1) ≥ 1` slots, for every field array, at every
point of every history. -/
theorem capacity_eq (c : Cfg) (ops : List Op) :
    c.cap = max (c.bufferSize / c.nEnvs) 1 ∧ 1 ≤ c.cap ∧ (run c ops).cfg = c ∧
    (run c ops).obsA.length = c.cap ∧ (run c ops).nextA.length = c.cap ∧ (run c ops).actA.length = c.cap ∧
    (run c ops).rewA.length = c.cap ∧ (run c ops).doneA.length = c.cap ∧ (run c ops).toA.length = c.cap := by
  have h := inv_run c ops
  exact ⟨rfl, cap_pos c, h.cfg_eq, h.l_obs, h.l_next, h.l_act, h.l_rew, h.l_done, h.l_to⟩

/-- **Cursor and flag**: `pos = adds mod capacity`, `full ⇔ adds ≥ capacity` (adds since the last reset). -/
theorem pos_full_inv (c : Cfg) (ops : List Op) :
    (run c ops).pos = (histOf ops).length % c.cap ∧
    ((run c ops).full = true ↔ c.cap ≤ (histOf ops).length) := by
  have h := inv_run c ops
  exact ⟨h.pos_eq, by rw [h.full_eq, decide_eq_true_eq]⟩

/-- **size() = min(adds, capacity)**. -/
theorem size_eq (c : Cfg) (ops : List Op) :
    (run c ops).size = min (histOf ops).length c.cap :=
  Lemmas.Replay.size_eq (inv_run c ops)

/-- **Soundness of `sample`**: whatever `(index, env)` pair `sample` can gather, the returned observation,
action and reward (and, for the standard variant, next observation) are those stored by ONE add call `a`
for ONE environment column `e`; that add is among the `capacity` most recent ones since the last reset
(so nothing from before a `reset`, and no `np.zeros` filler, is ever returned), it is the add whose slot was
drawn, and for the memory-optimised variant it is never the oldest of a full ring (`adds < a + capacity`). -/
theorem sample_sound (c : Cfg) (ops : List Op) (s e : ℕ) (h : (s, e) ∈ (run c ops).domain) :
    ∃ a, a < (histOf ops).length ∧ (histOf ops).length ≤ a + c.cap ∧ a % c.cap = s ∧ e < c.nEnvs ∧
      (c.memopt = true → (histOf ops).length < a + c.cap) ∧
      ((run c ops).get s e).obs = (cellOf (histOf ops) a e).obs ∧
      ((run c ops).get s e).act = (cellOf (histOf ops) a e).act ∧
      ((run c ops).get s e).rew = (cellOf (histOf ops) a e).rew ∧
      (c.memopt = false → ((run c ops).get s e).next = (cellOf (histOf ops) a e).next) := by
  have hi := inv_run c ops
  obtain ⟨hs, he⟩ := mem_domain.mp h
  obtain ⟨a, hw, rfl⟩ := slot_sound hi hs
  obtain ⟨h1, h2, h3, _, h5, _⟩ := get_spec hi hw e
  rw [hi.cfg_eq] at he
  exact ⟨a, hw.lt, hw.recent, rfl, he, hw.strict, h1, h2, h3, h5⟩

/-- **Done flag**: the sampled done is `1` exactly when the stored transition ended an episode and
(with timeout handling on) was not a time-limit truncation — `dones * (1 - timeouts)` computes
`done ∧ ¬(handle_timeout_termination ∧ TimeLimit.truncated)` — for the same add `a` as in `sample_sound`. -/
theorem sample_done (c : Cfg) (ops : List Op) (s e : ℕ) (h : (s, e) ∈ (run c ops).domain) :
    ∃ a, a < (histOf ops).length ∧ (histOf ops).length ≤ a + c.cap ∧ a % c.cap = s ∧
      ((run c ops).get s e).act = (cellOf (histOf ops) a e).act ∧
      ((run c ops).get s e).done =
        if (cellOf (histOf ops) a e).done && !(c.hto && (cellOf (histOf ops) a e).timeout) then 1 else 0 := by
  have hi := inv_run c ops
  obtain ⟨hs, _⟩ := mem_domain.mp h
  obtain ⟨a, hw, rfl⟩ := slot_sound hi hs
  obtain ⟨_, h2, _, h4, _, _⟩ := get_spec hi hw e
  exact ⟨a, hw.lt, hw.recent, rfl, h2, h4⟩

/-- The slot determines the add: two adds inside the window of the `capacity` most recent ones never share a
slot, so the `a` of `sample_sound` / `sample_done` is unique. -/
theorem window_slot_unique (cap L a a' : ℕ) (ha : a < L) (ha' : a' < L) (hr : L ≤ a + cap) (hr' : L ≤ a' + cap)
    (hs : a % cap = a' % cap) : a = a' := by
  rcases Nat.lt_trichotomy a a' with hlt | heq | hgt
  · exact absurd hs (mod_ne_of_lt hlt (by omega))
  · exact heq
  · exact absurd hs.symm (mod_ne_of_lt hgt (by omega))

/-- **Soundness, element form**: when every `add` passed one entry per sub-environment (anything else makes
NumPy raise), the sampled transition *is* entry `e` of row `a` of the history. -/
theorem sample_sound_wf (c : Cfg) (ops : List Op) (hwf : ops.all (Op.wf c.nEnvs) = true) (s e : ℕ)
    (h : (s, e) ∈ (run c ops).domain) :
    ∃ (a : ℕ) (ha : a < (histOf ops).length) (he : e < ((histOf ops)[a]).length),
      (histOf ops).length ≤ a + c.cap ∧ a % c.cap = s ∧
      ((run c ops).get s e).obs = ((histOf ops)[a])[e].obs ∧
      ((run c ops).get s e).act = ((histOf ops)[a])[e].act ∧
      ((run c ops).get s e).rew = ((histOf ops)[a])[e].rew ∧
      (c.memopt = false → ((run c ops).get s e).next = ((histOf ops)[a])[e].next) := by
  obtain ⟨a, ha, hr, hs, he, _, h1, h2, h3, h4⟩ := sample_sound c ops s e h
  obtain ⟨he', hcell⟩ := cellOf_getElem (wf_histOf c.nEnvs ops hwf) ha he
  rw [hcell] at h1 h2 h3 h4
  exact ⟨a, ha, he', hr, hs, h1, h2, h3, h4⟩

/-- **Completeness**: every still-stored valid transition can be drawn — each of the `capacity` most recent
adds, each environment column; for the memory-optimised variant all of them except the oldest one of a full
ring, whose observation has been overwritten by the newest next observation. -/
theorem sample_complete (c : Cfg) (ops : List Op) (a e : ℕ) (ha : a < (histOf ops).length)
    (hr : (histOf ops).length ≤ a + c.cap) (he : e < c.nEnvs)
    (hm : c.memopt = true → (histOf ops).length < a + c.cap) :
    (a % c.cap, e) ∈ (run c ops).domain := by
  have hi := inv_run c ops
  rw [mem_domain, hi.cfg_eq]
  exact ⟨slot_complete hi ⟨ha, hr, hm⟩, he⟩

/-- **The memory-optimised variant never returns the overwritten slot**: when full, slot `pos` (it holds the
newest next observation, not the observation of add `adds - capacity`) is outside the domain. -/
theorem memopt_excludes_overwritten_slot (c : Cfg) (ops : List Op) (hm : c.memopt = true)
    (hf : (run c ops).full = true) (s e : ℕ) (h : (s, e) ∈ (run c ops).domain) :
    s ≠ (run c ops).pos ∧ s ≠ ((histOf ops).length - c.cap) % c.cap := by
  have hi := inv_run c ops
  have hc := cap_pos c
  have hfull : c.cap ≤ (histOf ops).length := by
    have := hi.full_eq; rw [hf] at this; exact of_decide_eq_true this.symm
  obtain ⟨hs, _⟩ := mem_domain.mp h
  obtain ⟨a, hw, rfl⟩ := slot_sound hi hs
  have hst := hw.strict hm
  have hlt := hw.lt
  have key : a % c.cap ≠ (histOf ops).length % c.cap := mod_ne_of_lt hlt hst
  refine ⟨by rw [hi.pos_eq]; exact key, ?_⟩
  intro heq
  apply key
  rw [heq, ← Nat.add_mod_right ((histOf ops).length - c.cap) c.cap]
  congr 1
  omega

/-- **Memory-optimised next observation (what the code returns)**: for every drawable pair, the observation is
right (`sample_sound`), and the next observation is the stored one for the newest add, else the *observation of
the following add* (the two share one array). -/
theorem memopt_next (c : Cfg) (ops : List Op) (hm : c.memopt = true) (s e : ℕ)
    (h : (s, e) ∈ (run c ops).domain) :
    ∃ a, a < (histOf ops).length ∧ (histOf ops).length < a + c.cap ∧ a % c.cap = s ∧
      ((run c ops).get s e).obs = (cellOf (histOf ops) a e).obs ∧
      ((run c ops).get s e).next =
        if a + 1 = (histOf ops).length then (cellOf (histOf ops) a e).next
        else (cellOf (histOf ops) (a + 1) e).obs := by
  have hi := inv_run c ops
  obtain ⟨hs, _⟩ := mem_domain.mp h
  obtain ⟨a, hw, rfl⟩ := slot_sound hi hs
  obtain ⟨h1, _, _, _, _, h6⟩ := get_spec hi hw e
  exact ⟨a, hw.lt, hw.strict hm, rfl, h1, h6 hm⟩

/-- **Memory-optimised soundness, partial**: under the chaining the variant presupposes of its caller
(`Chained`: unless a transition ended an episode, the next add starts from its next observation — what
off-policy collection does), every sampled transition that did *not* end an episode, and the newest one in any
case, carries its own next observation.
Missing for the full statement: episode-ending transitions followed by a later add, see
`memopt_done_next_counterexample`. -/
theorem sample_sound_memopt_partial (c : Cfg) (ops : List Op) (hm : c.memopt = true)
    (hch : Chained (histOf ops)) (s e : ℕ) (h : (s, e) ∈ (run c ops).domain) :
    ∃ a, a < (histOf ops).length ∧ (histOf ops).length < a + c.cap ∧ a % c.cap = s ∧
      ((cellOf (histOf ops) a e).done = false ∨ a + 1 = (histOf ops).length →
        ((run c ops).get s e).next = (cellOf (histOf ops) a e).next) := by
  obtain ⟨a, ha, hst, hs, _, hn⟩ := memopt_next c ops hm s e h
  refine ⟨a, ha, hst, hs, ?_⟩
  intro hcase
  rw [hn]
  by_cases hl : a + 1 = (histOf ops).length
  · rw [if_pos hl]
  · rw [if_neg hl]
    rcases hcase with hd | hl'
    · exact hch a e (by omega) hd
    · exact absurd hl' hl

/-- **The full statement is false of the memory-optimised variant** (finding K-C03-a): capacity 4, one
environment; add `(obs 1, next 2, done)` — an episode ends —, then add `(obs 10, next 11)` — the first step of
the next episode. The history is chained and well-formed, slot 0 can be drawn, its observation/action/reward are
those of add 0, but the returned next observation is `10` (the next episode's first observation), not `2`. -/
theorem memopt_done_next_counterexample :
    ¬ ∀ (c : Cfg) (ops : List Op), c.valid = true → ops.all (Op.wf c.nEnvs) = true → Chained (histOf ops) →
      ∀ s e, (s, e) ∈ (run c ops).domain →
        ∃ a, a < (histOf ops).length ∧ a % c.cap = s ∧
          ((run c ops).get s e).next = (cellOf (histOf ops) a e).next := by
  intro hall
  let c : Cfg := ⟨4, 1, true, false, false⟩
  let ops : List Op := [.add [⟨1, 2, 3, 4, true, false⟩], .add [⟨10, 11, 12, 13, false, false⟩]]
  have hch : Chained (histOf ops) := by
    intro a e ha hd
    have ha' : a + 1 < 2 := ha
    have h0 : a = 0 := by omega
    subst h0
    cases e with
    | zero => exact absurd hd (by decide)
    | succ e => rfl
  obtain ⟨a, ha, hs, hn⟩ := hall c ops (by decide) (by decide) hch 0 0 (by decide)
  have ha' : a < 2 := ha
  have hcap : c.cap = 4 := by decide
  have hs' : a % 4 = 0 := by rw [hcap] at hs; exact hs
  have h0 : a = 0 := by omega
  subst h0
  exact absurd hn (by decide)

/-- **How many pairs can be drawn**: `min(adds, capacity) · n_envs` — every stored transition exactly once
(informally: with `sample_complete` and `window_slot_unique` the list `Buf.domain` then enumerates the valid pairs
without repetition) —
and `(capacity − 1) · n_envs` for a full memory-optimised ring. -/
theorem domain_length (c : Cfg) (ops : List Op) :
    (run c ops).domain.length =
      (if c.memopt = true ∧ c.cap ≤ (histOf ops).length then c.cap - 1 else min (histOf ops).length c.cap) * c.nEnvs := by
  have hi := inv_run c ops
  have hc := cap_pos c
  have hlen : (run c ops).domain.length = (run c ops).sampleSlots.length * c.nEnvs := by
    unfold Buf.domain
    rw [hi.cfg_eq]
    generalize (run c ops).sampleSlots = l
    induction l with
    | nil => simp
    | cons x xs ih => simp [List.flatMap_cons, ih, Nat.add_mul, Nat.add_comm]
  rw [hlen]
  congr 1
  unfold Buf.sampleSlots Buf.drawRange
  rw [hi.cfg_eq, hi.full_eq, hi.pos_eq]
  simp only [List.length_map, List.length_range']
  cases hm : c.memopt <;> by_cases hf : c.cap ≤ (histOf ops).length
  · simp [hf]
  · simp [hf]; rw [Nat.mod_eq_of_lt (by omega)]; omega
  · simp [hf]
  · simp [hf]; rw [Nat.mod_eq_of_lt (by omega)]; omega

/-- **When nothing can be sampled** (`np.random.randint` raises): exactly when no add happened since the last
reset, or the buffer is memory-optimised with capacity 1 (its only slot is always the overwritten one). -/
theorem empty_sample_rejected (c : Cfg) (ops : List Op) :
    (run c ops).table = none ↔ ((histOf ops).length = 0 ∨ (c.memopt = true ∧ c.cap = 1)) := by
  have hi := inv_run c ops
  rw [← range_empty_iff hi]
  unfold Buf.table
  split <;> simp_all

/-- **reset() forgets everything**: right after a `reset`, whatever was added before, `size()` is 0 and nothing
can be sampled; and (by `sample_sound`, whose history `histOf` restarts at the reset) nothing added before the
reset is ever returned later, although the arrays still hold it. -/
theorem reset_forgets (c : Cfg) (ops : List Op) :
    histOf (ops ++ [.reset]) = [] ∧ (run c (ops ++ [.reset])).size = 0 ∧ (run c (ops ++ [.reset])).table = none := by
  have hH : histOf (ops ++ [.reset]) = [] := by simp [histOf, List.foldl_append, histStep]
  refine ⟨hH, ?_, ?_⟩
  · rw [size_eq, hH]; simp
  · rw [empty_sample_rejected, hH]; exact Or.inl rfl

/-- **`sample` only gathers pairs of the domain**: for raw random draws `(k, e)`, the result has one entry per
draw, entry `i` is `_get_samples` at `(slotOfDraw k_i, e_i)`, and that pair is in the domain the theorems above
speak about. -/
theorem sample_in_domain (c : Cfg) (ops : List Op) (draws : List (ℕ × ℕ)) (out : List Sampled)
    (h : (run c ops).sample draws = some out) :
    out = draws.map (fun d => (run c ops).get ((run c ops).slotOfDraw d.1) d.2) ∧
    ∀ d ∈ draws, ((run c ops).slotOfDraw d.1, d.2) ∈ (run c ops).domain :=
  sample_some h

/-- **Normalising at sampling time** (`sample(env=VecNormalize)`) touches observations, next observations and
rewards of that same single stored transition, and nothing else. -/
theorem sample_norm_sound {α : Type} (fo fr : ℕ → α) (c : Cfg) (ops : List Op) (s e : ℕ)
    (h : (s, e) ∈ (run c ops).domain) :
    ∃ a, a < (histOf ops).length ∧ (histOf ops).length ≤ a + c.cap ∧ a % c.cap = s ∧
      (((run c ops).get s e).normalize fo fr).obs = fo (cellOf (histOf ops) a e).obs ∧
      (((run c ops).get s e).normalize fo fr).rew = fr (cellOf (histOf ops) a e).rew ∧
      (((run c ops).get s e).normalize fo fr).act = (cellOf (histOf ops) a e).act ∧
      (((run c ops).get s e).normalize fo fr).done = ((run c ops).get s e).done ∧
      (c.memopt = false → (((run c ops).get s e).normalize fo fr).next = fo (cellOf (histOf ops) a e).next) := by
  obtain ⟨a, ha, hr, hs, _, _, h1, h2, h3, h4⟩ := sample_sound c ops s e h
  refine ⟨a, ha, hr, hs, ?_, ?_, h2, rfl, ?_⟩
  · show fo _ = _; rw [h1]
  · show fr _ = _; rw [h3]
  · intro hm; show fo _ = _; rw [h4 hm]

/-! ### Non-vacuity: the hypotheses above are met by concrete non-trivial data
(`exCfg`/`exOps`: capacity `7 // 2 = 3`, two environments, 5 adds — wraps —, standard variant with timeout handling;
`exMem`/`exMemOps`: memory-optimised, capacity 3, full after 4 chained adds; both defined in `Lemmas/Replay.lean`) -/

example : exCfg.cap = 3 ∧ exCfg.valid = true := by decide
example : exOps.all (Op.wf exCfg.nEnvs) = true := by decide
example : (run exCfg exOps).pos = 2 ∧ (run exCfg exOps).full = true ∧ (run exCfg exOps).size = 3 := by decide
/-- `sample_sound` / `sample_done` hypotheses: slot 0 now holds add 3 (a timeout ⇒ done masked to 0) -/
example : (0, 0) ∈ (run exCfg exOps).domain ∧ (run exCfg exOps).get 0 0 = ⟨31, 32, 33, 34, 0⟩ := by decide
/-- slot 1, env 0 holds add 4 (not done); slot 2 env 1 holds add 2 (a true termination ⇒ done 1) -/
example : (run exCfg exOps).get 1 0 = ⟨41, 42, 43, 44, 0⟩ ∧ (run exCfg exOps).get 2 1 = ⟨25, 26, 27, 28, 1⟩ := by
  decide
/-- `sample_complete` hypotheses: add 2 is still stored (5 ≤ 2 + 3), add 1 is not -/
example : (2 % exCfg.cap, 1) ∈ (run exCfg exOps).domain := by decide
example : (run exCfg exOps).domain.length = 6 := by decide

example : exMem.valid = true ∧ (run exMem exMemOps).full = true ∧ (run exMem exMemOps).pos = 1 := by decide
example : (run exMem exMemOps).sampleSlots = [2, 0] := by decide
example : (run exMem exMemOps).get 2 0 = ⟨7, 8, 103, 203, 0⟩ ∧ (run exMem exMemOps).get 0 0 = ⟨8, 9, 104, 204, 0⟩ := by
  decide
/-- reset: nothing can be sampled until the next add, then only that add -/
example : (run exCfg (exOps ++ [.reset])).table = none := by decide
example : (run exCfg (exOps ++ [.reset, .add [⟨91, 92, 93, 94, true, false⟩, ⟨95, 96, 97, 98, false, false⟩]])).domain
    = [(0, 0), (0, 1)] := by decide
/-- memory-optimised with capacity 1 can never be sampled -/
example : (run ⟨1, 1, true, false, false⟩ [.add [⟨1, 2, 3, 4, false, false⟩]]).table = none := by decide
/-- `sample_in_domain` hypothesis -/
example : ((run exCfg exOps).sample [(0, 1), (2, 0)]).isSome = true := by decide

end SB3Verif.C03
