#!/usr/bin/env python3
"""
Re-runs every seeded change under /verif/seeded against the CURRENT checks (regression test of the machinery itself).

For each seeded/<id>/: scratch worktree of /repo HEAD under /tmp, `git apply patch.diff`, `SB3_REPO=<wt> ./check <PID>
--tier quick --seed <seed>`, worktree removed; the outcome is written back to meta.json["check_result"] and a summary
is printed. Nothing in /repo's working tree is touched.   usage: tools/run_seeded.py [--seed N] [--jobs K] [ids...]
"""
import json, os, subprocess, sys, concurrent.futures as cf
V = os.path.dirname(os.path.dirname(os.path.abspath(__file__)))

def run_one(sid, seed):
    d = os.path.join(V, "seeded", sid)
    meta = json.load(open(os.path.join(d, "meta.json")))
    pid = meta["property"]
    wt = f"/tmp/seeded_wt_{sid}"
    subprocess.run(["git", "-C", "/repo", "worktree", "remove", "--force", wt], capture_output=True)
    r = subprocess.run(["git", "-C", "/repo", "worktree", "add", "--detach", wt, "HEAD", "-q"], capture_output=True)
    try:
        a = subprocess.run(["git", "-C", wt, "apply", os.path.join(d, "patch.diff")], capture_output=True)
        if a.returncode != 0:
            return sid, pid, None, "patch does not apply: " + a.stderr.decode()[-200:]
        env = dict(os.environ, SB3_REPO=wt, VERIF_REPLAY_TAG=sid)
        p = subprocess.run([os.path.join(V, "check"), pid, "--tier", "quick", "--seed", str(seed), "--jobs", "3"], cwd=V, env=env,
                           capture_output=True, timeout=3000)
        out = p.stdout.decode(errors="replace")
        line = next((l for l in out.splitlines() if l.startswith("VIOLATION")), out.strip().splitlines()[-1] if out.strip() else "")
        meta["check_result"] = {"cmd": f"SB3_REPO=<worktree of /repo HEAD with patch.diff applied> ./check {pid} --tier quick --seed {seed}",
                                "exit": p.returncode, "first_line": line[:300]}
        json.dump(meta, open(os.path.join(d, "meta.json"), "w"), indent=1)
        if CORPUS and p.returncode == 1:
            # keep the shrunk failing input as a regression case of the property (it passes on the unchanged tree)
            m = [w for w in line.split() if w.startswith("replay=")]
            rp = os.path.join(V, m[0][7:]) if m else None
            if rp and os.path.exists(rp) and "unverified" not in rp:
                r = json.load(open(rp))
                if r.get("case") is not None:
                    os.makedirs(os.path.join(V, "corpus", pid), exist_ok=True)
                    json.dump({"case": r["case"], "origin": f"shrunk failing input of seeded change {sid} (passes on the unchanged tree)"},
                              open(os.path.join(V, "corpus", pid, "seeded_" + sid.replace("-", "_") + ".json"), "w"))
        return sid, pid, p.returncode, line[:120]
    finally:
        subprocess.run(["git", "-C", "/repo", "worktree", "remove", "--force", wt], capture_output=True)

CORPUS = False


def main():
    global CORPUS
    args = sys.argv[1:]
    if "--corpus" in args:
        CORPUS = True
        args.remove("--corpus")
    seed, jobs = 0, 3
    if "--seed" in args:
        i = args.index("--seed"); seed = int(args[i + 1]); del args[i:i + 2]
    if "--jobs" in args:
        i = args.index("--jobs"); jobs = int(args[i + 1]); del args[i:i + 2]
    ids = args or sorted(os.listdir(os.path.join(V, "seeded")))
    bad = 0
    with cf.ThreadPoolExecutor(max_workers=jobs) as ex:
        for sid, pid, rc, line in ex.map(lambda s: run_one(s, seed), ids):
            ok = rc == 1
            bad += not ok
            print(f"{'caught ' if ok else 'MISSED '} {sid:8s} {pid} rc={rc} {line}")
    print(f"{len(ids) - bad}/{len(ids)} seeded changes caught")
    sys.exit(1 if bad else 0)

if __name__ == "__main__":
    main()
