/-
Model of `CSVOutputFormat` (stable_baselines3/common/logger.py) at the level of the characters in the
file, and of the reader `read_csv` (`pandas.read_csv(filename, index_col=None, comment="#")`).

* `File.write`  — `CSVOutputFormat.write` after `filter_excluded_keys` (the file object is modelled as its
  characters plus the current position; writes overwrite in place, nothing truncates): the column list grows by the new
  keys; when it grows the file is re-read **by physical lines** (`readlines()` of a file opened with
  `newline=""`: a line ends after `\n`, `\r\n` or a lone `\r`, terminators kept), the first line is replaced
  by the new header, and `","*k` is inserted before the terminator of every physical line at which the
  running quote parity is even (the code's `in_quotes` flag), other lines are copied; then the new row is
  appended: string cells quoted with `"` doubled, other cells `str(value)`, absent cells empty.
* `parse` / `readCsv` — the tokenizer of the reader: quoted fields (embedded delimiters, quotes, line
  breaks, comment characters), unquoted fields, `#` comments, blank lines skipped.

Strings are `List Char` so that the theorems can talk about every character. Import-free.
The set-iteration order in which new keys are appended (`key_values.keys() - self.keys` is a Python
`set`) is an *input* of `write` (`order`), checked to be a permutation of the new keys.
-/

namespace SB3Verif.Csv

abbrev Str := List Char

/-- One cell of a CSV row as the writer sees it. -/
inductive Cell where
  /-- the key is absent from this dump (`key_values.get(key) is None`): nothing is written -/
  | missing
  /-- a non-string value; `tok` is `str(value)` and is written as is -/
  | num (tok : Str)
  /-- a Python `str` value: written between quotes with every `"` doubled -/
  | str (s : Str)
  deriving DecidableEq, Repr

/-- `value.replace('"', '""')` -/
def escape : Str → Str
  | [] => []
  | c :: s => if c = '"' then '"' :: '"' :: escape s else c :: escape s

/-- the characters written for one cell -/
def cellBytes : Cell → Str
  | .missing => []
  | .num t => t
  | .str s => '"' :: (escape s ++ ['"'])

/-- `for i, x in enumerate(xs): if i > 0: write(","); write(x)` -/
def joinComma : List Str → Str
  | [] => []
  | [a] => a
  | a :: b :: r => a ++ ',' :: joinComma (b :: r)

/-- one data row followed by `"\n"` -/
def rowBytes (cells : List Cell) : Str := joinComma (cells.map cellBytes) ++ ['\n']

/-- the header line: keys are written verbatim -/
def headerBytes (keys : List Str) : Str := joinComma keys ++ ['\n']

/-! ### `readlines()` with `newline=""` -/

/-- Physical lines with their terminators; `cur` is the part of the current line already seen. -/
def splitAux : Str → Str → List Str
  | cur, [] => if cur.isEmpty then [] else [cur]
  | cur, c :: s =>
    if c = '\n' then (cur ++ [c]) :: splitAux [] s
    else if c = '\r' then
      -- "\r\n" is one terminator: keep the "\r" in the line and let the "\n" end it
      (if s.head? = some '\n' then splitAux (cur ++ [c]) s else (cur ++ [c]) :: splitAux [] s)
    else splitAux (cur ++ [c]) s

def splitLines (s : Str) : List Str := splitAux [] s

/-- `line.count('"') % 2 == 1` -/
def oddQuotes (l : Str) : Bool := l.count '"' % 2 == 1

/-- The loop over `lines[1:]` of the header rewrite (`k = len(extra_keys)`). -/
def padLines (k : Nat) : Bool → List Str → Str
  | _, [] => []
  | inq, l :: ls =>
    let inq' := if oddQuotes l then !inq else inq
    if inq' then l ++ padLines k inq' ls
    else l.dropLast ++ (List.replicate k ',' ++ '\n' :: padLines k inq' ls)

/-! ### The writer -/

structure File where
  /-- `self.keys` -/
  keys : List Str
  /-- the characters in the file -/
  data : Str
  /-- the position of the file object (everything is written there, nothing is ever truncated) -/
  pos : Nat
  deriving DecidableEq, Repr

def File.empty : File := ⟨[], [], 0⟩

/-- `file.write(s)` at position `pos` of a file opened with `"w+"`: overwrites, extends at the end -/
def writeAt (data : Str) (pos : Nat) (s : Str) : Str := data.take pos ++ s ++ data.drop (pos + s.length)

/-- `key_values.get(key)` rendered as a cell -/
def lookup (k : Str) : List (Str × Cell) → Cell
  | [] => .missing
  | (k', c) :: r => if k' = k then c else lookup k r

/-- `key_values.keys() - self.keys`, listed in the order of `key_values` -/
def extraKeys (keys : List Str) (kvs : List (Str × Cell)) : List Str :=
  (kvs.map Prod.fst).filter (fun k => !keys.contains k)

/-- `CSVOutputFormat.write(key_values)` (exclusions already applied). `order` is the order in which the
set of new keys was iterated; anything that is not a permutation of the new keys is rejected. -/
def File.write (f : File) (kvs : List (Str × Cell)) (order : List Str) : Option File :=
  let extra := extraKeys f.keys kvs
  if order.isPerm extra then
    let keys' := f.keys ++ order
    let row := rowBytes (keys'.map (fun k => lookup k kvs))
    if extra.isEmpty then
      -- no new key: the row goes where the file object stands (the end of what was written before)
      some { keys := keys', data := writeAt f.data f.pos row, pos := f.pos + row.length }
    else
      -- `seek(0); lines = readlines(); seek(0)`, new header, padded old lines, then the row
      let w := headerBytes keys' ++ padLines extra.length false ((splitLines f.data).drop 1) ++ row
      some { keys := keys', data := writeAt f.data 0 w, pos := w.length }
  else none

/-- A history of `write` calls from the empty file. -/
def runWrites : File → List (List (Str × Cell) × List Str) → Option File
  | f, [] => some f
  | f, w :: ws =>
    match f.write w.1 w.2 with
    | none => none
    | some f' => runWrites f' ws

/-! ### The reader -/

inductive PSt where
  /-- at the start of a field (`row = []`: at the start of a record) -/
  | start
  /-- inside an unquoted field, or after the closing quote of a quoted one followed by other text -/
  | inField
  /-- inside a quoted field -/
  | quoted
  /-- a quote was seen inside a quoted field -/
  | qq
  /-- after a comment character in a record that already has fields: skip to the end of the line -/
  | eatComment
  /-- comment at the start of a record: the whole line is skipped -/
  | lineComment
  /-- after an unquoted `\r` -/
  | crnl
  deriving DecidableEq, Repr

structure PS where
  st : PSt
  /-- the current field began with a quote -/
  q : Bool
  fld : Str
  row : List Cell
  rows : List (List Cell)
  deriving Repr

def PS.init : PS := ⟨.start, false, [], [], []⟩

/-- the cell a finished field stands for -/
def mkCell (q : Bool) (fld : Str) : Cell :=
  if q then .str fld else if fld.isEmpty then .missing else .num fld

def PS.endField (p : PS) : PS :=
  { p with st := .start, q := false, fld := [], row := p.row ++ [mkCell p.q p.fld] }

def PS.endRow (p : PS) (next : PSt) : PS :=
  { p with st := next, q := false, fld := [], row := [], rows := p.rows ++ [p.row] }

def stepCore (p : PS) (c : Char) : PS :=
  match p.st with
  | .start =>
    if c = '"' then { p with st := .quoted, q := true }
    else if c = ',' then p.endField
    else if c = '\n' then (if p.row.isEmpty then p else p.endField.endRow .start)
    else if c = '\r' then (if p.row.isEmpty then { p with st := .crnl } else p.endField.endRow .crnl)
    else if c = '#' then (if p.row.isEmpty then { p with st := .lineComment } else { p.endField with st := .eatComment })
    else { p with st := .inField, fld := p.fld ++ [c] }
  | .inField =>
    if c = ',' then p.endField
    else if c = '\n' then p.endField.endRow .start
    else if c = '\r' then p.endField.endRow .crnl
    else if c = '#' then { p.endField with st := .eatComment }
    else { p with fld := p.fld ++ [c] }
  | .quoted =>
    if c = '"' then { p with st := .qq } else { p with fld := p.fld ++ [c] }
  | .qq =>
    if c = '"' then { p with st := .quoted, fld := p.fld ++ [c] }
    else if c = ',' then p.endField
    else if c = '\n' then p.endField.endRow .start
    else if c = '\r' then p.endField.endRow .crnl
    else if c = '#' then { p.endField with st := .eatComment }
    else { p with st := .inField, fld := p.fld ++ [c] }
  | .eatComment =>
    if c = '\n' then p.endRow .start else if c = '\r' then p.endRow .crnl else p
  | .lineComment =>
    if c = '\n' then { p with st := .start } else if c = '\r' then { p with st := .crnl } else p
  | .crnl => p

def step (p : PS) (c : Char) : PS :=
  if p.st = .crnl then
    (if c = '\n' then { p with st := .start } else stepCore { p with st := .start } c)
  else stepCore p c

def run (p : PS) (s : Str) : PS := s.foldl step p

/-- end of input: an unterminated quoted field is an error, an unfinished record is flushed -/
def finish (p : PS) : Option (List (List Cell)) :=
  match p.st with
  | .quoted => none
  | .start => if p.row.isEmpty then some p.rows else some (p.endField.endRow .start).rows
  | .inField => some (p.endField.endRow .start).rows
  | .qq => some (p.endField.endRow .start).rows
  | .eatComment => some (p.endRow .start).rows
  | .lineComment => some p.rows
  | .crnl => some p.rows

/-- all records of the file -/
def parse (s : Str) : Option (List (List Cell)) := finish (run PS.init s)

/-- the text of a header cell -/
def Cell.text : Cell → Str
  | .missing => []
  | .num t => t
  | .str s => s

structure Table where
  header : List Str
  rows : List (List Cell)
  deriving DecidableEq, Repr

/-- `read_csv`: first record = column names, the others = rows (no record at all: `EmptyDataError`). -/
def readCsv (s : Str) : Option Table :=
  match parse s with
  | some (h :: rows) => some ⟨h.map Cell.text, rows⟩
  | _ => none

/-! ### Well-formedness vocabulary (decidable, used as hypotheses of the theorems) -/

/-- characters that have a meaning for the reader outside quotes -/
def special (c : Char) : Bool := c = '"' || c = ',' || c = '\n' || c = '\r' || c = '#'

/-- an unquoted token (a key in the header, `str(value)` of a number): non-empty, no special character -/
def tokClean (t : Str) : Bool := !t.isEmpty && t.all (fun c => !special c)

def cellOk : Cell → Bool
  | .missing => true
  | .num t => tokClean t
  | .str _ => true

/-- a dump as the CSV writer receives it: distinct clean keys, clean number tokens -/
def kvsOk (kvs : List (Str × Cell)) : Bool :=
  (kvs.map Prod.fst).all tokClean && decide (kvs.map Prod.fst).Nodup && kvs.all (fun kc => cellOk kc.2)

/-- a row that the reader does not take for a blank line -/
def rowVisible (cells : List Cell) : Bool := decide (2 ≤ cells.length) || cells.any (fun c => c != .missing)


/-- along a history of writes: every row, at the moment it is written, is one the reader will not take for a
blank line (it has a value, or the file has at least two columns) -/
def rowsVisible : File → List (List (Str × Cell) × List Str) → Bool
  | _, [] => true
  | f, w :: ws =>
    match f.write w.1 w.2 with
    | none => true
    | some f' => rowVisible (f'.keys.map (fun k => lookup k w.1)) && rowsVisible f' ws

end SB3Verif.Csv
