"""
C20 — Logger outputs are complete and re-readable.

Implementation under test: stable_baselines3.common.logger
    Logger.record / record_mean / dump, CSVOutputFormat, JSONOutputFormat, HumanOutputFormat,
    filter_excluded_keys, read_csv, read_json
Model: lean/SB3Verif/Model/{Logger,Csv,PyFloat}.lean (driver lean/SB3Verif/Driver/C20.lean)

Two detectors per case:
  * correspondence — after every record / record_mean the pending dictionaries, after every dump the *characters*
    of progress.csv, progress.json, log.txt and the stdout stream, and the tables read back, are compared with
    what the Lean definitions compute;
  * oracle — the property sentence evaluated on the implementation only: pending values (last record wins,
    record_mean = arithmetic mean), pending set empty after dump, every configured output contains every value
    recorded since the last dump unless excluded for that output, read_csv / read_json return the recorded values row
    by row (missing elsewhere), also after late keys forced a header rewrite.
"""
from __future__ import annotations

import csv as pycsv
import io
import json
import math
import os
import re
import shutil
import tempfile
import warnings
from decimal import Decimal
from fractions import Fraction as F

import numpy as np

from harness.common import canon, guarded, ratj, unratj

RULE = (
    "cases from one SplitMix64 stream: a Logger with a random ordered subset of {csv, json, log, stdout(StringIO)} "
    "(human max_length in {36,20,12,10,8}), 1-12 dumps over a pool of 2-8 keys (plain and tag/name, some longer than "
    "max_length) that appear / disappear / re-appear per dump (each key has a random first dump, so late keys force CSV "
    "header rewrites), per key record (once or overwritten), record_mean (1-4 values, also None), mixtures, per-key "
    "exclusions (None, one format, tuples, 'stdout' xor 'log'), occasional empty dumps; string values over the alphabet "
    "x z k w \" , LF CR space # ' ; TAB \\ : { } / . | - (non-empty; strings that pandas' type inference would reinterpret "
    "- numeric-looking, NA sentinels, empty - are outside the claimed domain and cannot be built from this alphabet); "
    "mode rat: ints and dyadic floats / np.float64 chosen so that every float operation of record_mean is exact and "
    "repr(x) is the exact decimal expansion: the Rat model must reproduce every character of every file; "
    "mode tok: arbitrary float64 / float32 / np.int64 / np.int32 / 0-d arrays / big ints, numbers cross as the texts "
    "Python prints for them (float(token)==value checked here), record_mean results are taken from the implementation "
    "and checked against the mean at 1e-12; (fmt) str(float) and f'{x:<8.3g}' of the model vs CPython. "
    "about one case in three has a key whose every value is a numeric-looking / NA-looking / empty string ('007', '1e3', "
    "'nan', 'inf', 'true', '' ...; always excluded for csv, always read back through read_json where it must stay a str), "
    "about one in three a date-like key name (timestamp*, *_at, *_time, modified, date*) holding epoch-range ints (s/ms/us), "
    "and one float in seven of mode tok is a subnormal double (5e-324, 1e-320, ...). "
    "Keys are clean identifiers (no , \" CR LF #). non-trivial = CSV configured and a dump introduces a new CSV column "
    "after an earlier row that holds a string cell with a quote, comma or line break; distinct = distinct canonical case"
)
STREAMS = {
    "pending": "name_to_value / name_to_count / name_to_excluded after every record / record_mean == model (exact)",
    "csv_bytes": "characters of progress.csv and the column list after every dump == model",
    "json_bytes": "characters of progress.json after every dump == model",
    "human_bytes": "characters of log.txt and of the stdout stream after every dump == model",
    "csv_read": "read_csv(progress.csv) == model reader on the model's file (header, rows, missing cells)",
    "json_read": "json.loads of every line == model reader on the model's lines",
    "json_frame": "read_json(progress.json) == the model reader's rows as a table, typed (a str cell stays a str, a number a number)",
    "errors": "TypeError (record_mean on a str) / ValueError (human key truncated to an existing one) == model error",
    "fmt": "str(float) and f'{x:<8.3g}' == model PyFloat (exact values)",
}

REPEAT_CAPPED = ("blank_row", "float_parse", "cross_exclusion")
REPEAT_CAP = 3
LETTERS = list("xzkw")
SPECIALS = ['"', ",", "\n", "\r", " ", "#", "'", ";", "\t", "\\", ":", "{", "}", "/", ".", "|", "-"]
FORMATS = ["csv", "json", "log", "stdout"]
EXCL_NAMES = ["csv", "json", "log", "stdout", "tensorboard"]
# strings that LOOK like numbers / NA / booleans / nothing: json.loads keeps them strings, so read_json must too
# (for read_csv they are outside the claimed domain - pandas' type inference reinterprets quoted text - hence such a
# key is always excluded for "csv")
NUMLIKE = ["007", "1e3", "1", "nan", "inf", "-5", "3.14", "0", "NaN", "-inf", "1E5", "0.5", "123456789", "Infinity",
           "true", "null", "", " 12", "1_000", "0x1F", "-0", "1600000000"]
# key names that date heuristics of table readers pick up; recorded with epoch-range integers (s / ms / us)
DATE_KEYS = ["timestamp", "timestamp_ms", "time/created_at", "saved_at", "modified", "date", "datetime", "date_start",
             "train/update_time", "eval/start_time"]
SUBNORMALS = [5e-324, 1e-320, 2.5e-310, -1e-315, 1e-310, -5e-324, 3e-323]
KEY_POOL = [
    "loss", "k0", "fps", "n_updates", "lr", "a", "b", "value_loss", "x.y", "ep len",
    "rollout/ep_rew_mean", "rollout/ep_len_mean", "train/loss", "train/learning_rate", "train/n_updates",
    "time/fps", "time/total_timesteps", "eval/mean_reward", "t/a", "t/b", "u/a",
    "rollout/a_very_long_metric_name_that_needs_truncation_1", "rollout/a_very_long_metric_name_that_needs_truncation_2",
    "a_long_plain_key_without_any_tag_0123456789_abcdefghij", "train/policy_gradient_loss", "train/approx_kl",
]


# ---------------------------------------------------------------------------------------------
# values
def exact_dec(x: float) -> str:
    s = format(Decimal(x), "f")
    if "." not in s:
        s += ".0"
    return s


def nice(x: float) -> bool:
    """repr(x) is the exact decimal expansion (what the Rat model prints)"""
    return math.isfinite(x) and not (x == 0 and math.copysign(1, x) < 0) and repr(float(x)) == exact_dec(float(x))


def mkval(v):
    t = v["t"]
    if t == "int":
        return int(v["v"])
    if t == "float":
        return float.fromhex(v["h"])
    if t == "f64":
        return np.float64(float.fromhex(v["h"]))
    if t == "f32":
        return np.float32(float.fromhex(v["h"]))
    if t == "i64":
        return np.int64(v["v"])
    if t == "i32":
        return np.int32(v["v"])
    if t == "arr0":
        return np.array(float.fromhex(v["h"]), dtype=v["dt"])
    if t == "str":
        return v["v"]
    if t == "none":
        return None
    raise ValueError(t)


def mkexcl(e):
    if e is None or isinstance(e, str):
        return e
    return tuple(e)


def excl_tuple(e):
    """Logger.to_tuple as the property understands it: the set of formats the key is excluded for"""
    if e is None:
        return ()
    if isinstance(e, str):
        return (e,)
    return tuple(e)


def gen_str(rng, long_ok=True):
    n = rng.weighted([(1, 3), (2, 3), (3, 3), (rng.randint(4, 10), 4), (rng.randint(30, 50) if long_ok else 5, 1)])
    out = []
    for _ in range(n):
        out.append(rng.choice(LETTERS) if rng.chance(0.45) else rng.choice(SPECIALS))
    s = "".join(out)
    if rng.chance(0.25):  # the classic: a line break inside
        p = rng.randint(0, len(s))
        s = s[:p] + rng.choice(["\n", "\r\n", "\r", "\n\n", '"\n', '\n"', ',\n']) + s[p:]
    return s


def gen_dyadic(rng):
    while True:
        j = rng.randint(0, 6)
        n = rng.randint(-(1 << rng.randint(1, 14)), 1 << rng.randint(1, 14))
        x = n / (1 << j)
        if rng.chance(0.3):
            x = float(3 * n) / (1 << j)
        if nice(x):
            return x


def gen_num_rat(rng):
    k = rng.weighted([("int", 3), ("float", 5), ("f64", 2)])
    if k == "int":
        return {"t": "int", "v": rng.randint(-1000, 1000) if rng.chance(0.8) else rng.randint(-(10**12), 10**12)}
    return {"t": k, "h": gen_dyadic(rng).hex()}


def gen_epoch(rng):
    sec = rng.randint(10**9, 2 * 10**9)
    u = rng.weighted([("s", 3), ("ms", 2), ("us", 1)])
    return sec if u == "s" else sec * 1000 + rng.randint(0, 999) if u == "ms" else sec * 10**6 + rng.randint(0, 999999)


def gen_float_any(rng):
    k = rng.randint(0, 6)
    if k == 6:  # subnormal doubles (short decimal text)
        return rng.choice(SUBNORMALS) if rng.chance(0.7) else float(rng.randint(1, 999)) * 10.0 ** -rng.randint(310, 321)
    if k == 0:
        return rng.random()
    if k == 1:
        return (rng.random() - 0.5) * 2e6
    if k == 2:
        return rng.random() * 10.0 ** rng.randint(-8, 12)
    if k == 3:
        return float(rng.randint(-100000, 100000)) / rng.choice([1, 2, 10, 100, 1000, 3, 7])
    if k == 4:
        return float(np.float32((rng.random() - 0.5) * 200))
    return -rng.random() * 10.0 ** rng.randint(-5, 5)


def gen_num_tok(rng):
    k = rng.weighted([("int", 2), ("float", 6), ("f64", 2), ("f32", 3), ("i64", 1), ("i32", 1), ("arr0", 1)])
    if k == "int":
        return {"t": "int", "v": rng.randint(-1000, 1000) if rng.chance(0.7) else rng.randint(-(2**52), 2**52)}
    if k in ("i64", "i32"):
        return {"t": k, "v": rng.randint(-(2**30), 2**30)}
    if k == "f32":
        return {"t": "f32", "h": float(np.float32(gen_float_any(rng))).hex()}
    if k == "arr0":
        dt = rng.choice(["float32", "float64"])
        x = gen_float_any(rng)
        if dt == "float32":
            x = float(np.float32(x))
        return {"t": "arr0", "h": float(x).hex(), "dt": dt}
    return {"t": k, "h": float(gen_float_any(rng)).hex()}


def gen_excl(rng):
    k = rng.weighted([("none", 10), ("one", 4), ("human1", 1), ("tuple", 3), ("humanboth", 1), ("foreign", 1)])
    if k == "none":
        return None
    if k == "foreign":
        # a plain string that is NOT a format name but contains format names: excludes nothing (seeded change C20-j)
        return rng.choice(["my_csv_json", "xjsonx", "csvfile", ["my_csv_json"]])
    if k == "one":
        return rng.choice(EXCL_NAMES)
    if k == "human1":
        return rng.choice(["stdout", "log", ["stdout"], ["log", "csv"]])
    if k == "humanboth":
        return rng.choice([["stdout", "log"], ["log", "stdout", "json"], ["stdout", "log", "json", "csv"]])
    n = rng.randint(1, 3)
    return rng.sample([x for x in EXCL_NAMES if x not in ("stdout", "log")] + ["tensorboard2"], n)


# ---------------------------------------------------------------------------------------------
# generator
def mean_sim(old, count, v):
    """the float formula of record_mean, used only to choose inputs whose float arithmetic is exact"""
    return old * count / (count + 1) + v / (count + 1)


def gen_log_case(rng, mode, widen):
    nkeys = rng.randint(2, 8)
    keys = rng.sample(KEY_POOL, nkeys)
    ndumps = rng.weighted([(1, 1), (2, 2), (3, 3), (rng.randint(4, 7), 4), (rng.randint(8, 12), 1)])
    if widen:
        ndumps = max(ndumps, 3)
    fm = rng.sample(FORMATS, rng.weighted([(4, 5), (3, 2), (2, 2), (1, 1)]))
    if rng.chance(0.8) and "csv" not in fm:
        fm[rng.randint(0, len(fm) - 1)] = "csv"
    max_length = rng.weighted([(36, 6), (20, 1), (12, 1), (10, 1), (8, 1)])
    if rng.chance(0.3):
        dk = rng.choice(DATE_KEYS)
        if dk not in keys:
            keys[rng.randint(0, len(keys) - 1)] = dk
    ktype = {k: rng.weighted([("str", 5 if not widen else 9), ("num", 6)]) for k in keys}
    for k in keys:
        if k in DATE_KEYS:
            ktype[k] = "epoch"
    plain = [k for k in keys if k not in DATE_KEYS]
    if plain and rng.chance(0.35):
        ktype[rng.choice(plain)] = "numstr"
    first = {k: rng.randint(0, ndumps - 1) if rng.chance(0.6) else 0 for k in keys}
    if rng.chance(0.95):
        first[keys[0]] = 0
    kexcl = {k: gen_excl(rng) for k in keys}
    for k in keys:
        if ktype[k] == "numstr":  # never through the CSV reader (outside its claimed domain), always through JSON
            kexcl[k] = rng.choice(["csv", ["csv"], ["csv", "tensorboard"], ["csv", "log"], ["csv", "stdout", "log"]])
        elif ktype[k] == "epoch" and rng.chance(0.7):
            kexcl[k] = rng.choice([None, None, "csv", "tensorboard", ["stdout", "log"]])
    ops = []
    for d in range(ndumps):
        active = [k for k in keys if first[k] <= d and rng.chance(0.75)]
        if rng.chance(0.03):
            active = []
        rng.shuffle(active)
        # float-exactness simulation of the pending numbers of this segment (mode rat)
        simf, simq, simc, isstr = {}, {}, {}, {}
        for k in active:
            special = ktype[k] in ("numstr", "epoch")
            ty = ktype[k] if special or rng.chance(0.9) else rng.choice(["str", "num"])
            ex = kexcl[k] if ty == "numstr" or rng.chance(0.85) else gen_excl(rng)
            how = rng.weighted([("r", 10), ("rr", 1), ("m", 4 if ty == "num" else 0), ("mix", 1 if ty == "num" else 0),
                                ("m_on_str", 0 if special else 0.15 if mode == "rat" else 0.05)])
            seq = {"r": ["r"], "rr": ["r", "r"], "m": ["m"] * rng.randint(1, 4),
                   "mix": [rng.choice(["r", "m"]) for _ in range(rng.randint(2, 4))], "m_on_str": ["rs", "m"]}[how]
            if how == "m" and rng.chance(0.15):
                seq.insert(rng.randint(0, len(seq)), "mnone")
            ex0 = ex
            for o in seq:
                # a repeated record / record_mean may change the exclusions: the last call decides
                ex = ex0 if ty == "numstr" or rng.chance(0.8) else gen_excl(rng)
                if o == "r" or o == "rs":
                    if ty == "numstr":
                        v = {"t": "str", "v": rng.choice(NUMLIKE)}
                    elif ty == "str" or o == "rs":
                        v = {"t": "str", "v": gen_str(rng)}
                    elif ty == "epoch" and rng.chance(0.85):
                        v = {"t": "int" if mode == "rat" or rng.chance(0.6) else "i64", "v": gen_epoch(rng)}
                    else:
                        v = gen_num_rat(rng) if mode == "rat" else gen_num_tok(rng)
                    ops.append(["r", k, v, ex])
                    isstr[k] = v["t"] == "str"
                    if mode == "rat" and not isstr[k]:
                        x = mkval(v)
                        simf[k], simq[k] = x, F(x)
                        simc.setdefault(k, 0)
                elif o == "mnone":
                    ops.append(["m", k, {"t": "none"}, ex])
                else:  # record_mean
                    if mode == "rat":
                        if isstr.get(k):
                            ops.append(["m", k, gen_num_rat(rng), ex])  # TypeError expected; the case ends there
                            break
                        done = False
                        for _ in range(12):
                            v = gen_num_rat(rng)
                            if rng.chance(0.5):
                                v = {"t": "float", "h": float(rng.randint(-64, 64) * 12 / (1 << rng.randint(0, 4))).hex()}
                            x = mkval(v)
                            old, c = simf.get(k, 0.0), simc.get(k, 0)
                            oq = simq.get(k, F(0))
                            nf = mean_sim(old, c, x)
                            nq = oq * c / (c + 1) + F(x) / (c + 1)
                            ok = F(nf) == nq and nice(nf)
                            # every intermediate exact
                            ok = ok and F(float(old * c)) == oq * c and F(float(old * c / (c + 1))) == oq * c / (c + 1) \
                                and F(float(x / (c + 1))) == F(x) / (c + 1)
                            if ok:
                                ops.append(["m", k, v, ex])
                                simf[k], simq[k], simc[k] = nf, nq, c + 1
                                isstr[k] = False
                                done = True
                                break
                        if not done:
                            continue
                    else:
                        v = gen_num_tok(rng) if rng.chance(0.7) else {"t": "float", "h": float(gen_float_any(rng)).hex()}
                        if v["t"] == "arr0":
                            v = {"t": "float", "h": v["h"]}
                        ops.append(["m", k, v, ex])
        ops.append(["d"])
    return {"kind": "log", "mode": mode, "formats": fm, "max_length": max_length, "ops": ops}


def gen_fmt_case(rng):
    k = rng.randint(0, 3)
    if k == 0:
        x = gen_dyadic(rng)
    elif k == 1:
        x = gen_float_any(rng)
    elif k == 2:
        x = rng.choice([999.5, 1000.0, 0.0001, 0.00001, 99.95, 9.995, 0.5, 1e16, 123456.0, 1e-5, 5e-324, 1.7976931348623157e308,
                        0.00012345, 12.5, 2.5, 0.125, 1005.0, 100.5, 99.5, 0.0, 1.0, -1.0, 0.001])
        if rng.chance(0.5) and x != 0:
            x = -x
    else:
        x = float(rng.randint(1, 9999)) * 10.0 ** rng.randint(-9, 9)
    return {"kind": "fmt", "h": float(x).hex()}


def gen_cases(ctx):
    rng = ctx.rng
    cases = []
    for _ in range(ctx.budget(220, 2400)):
        cases.append(gen_log_case(rng, "rat", ctx.widen))
    for _ in range(ctx.budget(220, 2400)):
        cases.append(gen_log_case(rng, "tok", ctx.widen))
    for _ in range(ctx.budget(120, 1000)):
        cases.append(gen_fmt_case(rng))
    return cases


def shrink_candidates(case):
    if case.get("kind") != "log":
        return
    ops = case["ops"]
    # drop whole dumps (segments) first, then single ops, then formats, then simplify strings
    bounds = [i for i, o in enumerate(ops) if o[0] == "d"]
    start = 0
    for b in bounds:
        c = dict(case)
        c["ops"] = ops[:start] + ops[b + 1:]
        if c["ops"]:
            yield c
        start = b + 1
    for i in range(len(ops) - 1, -1, -1):
        if ops[i][0] == "d" and i == len(ops) - 1:
            continue
        c = dict(case)
        c["ops"] = ops[:i] + ops[i + 1:]
        yield c
    if len(case["formats"]) > 1:
        for f in case["formats"]:
            c = dict(case)
            c["formats"] = [x for x in case["formats"] if x != f]
            yield c
    for i, o in enumerate(ops):
        if o[0] in ("r", "m"):
            if o[3] is not None:
                c = dict(case)
                c["ops"] = ops[:i] + [[o[0], o[1], o[2], None]] + ops[i + 1:]
                yield c
            if o[2].get("t") == "str" and len(o[2]["v"]) > 1:
                s = o[2]["v"]
                for s2 in (s[: len(s) // 2], s[len(s) // 2:], s[1:], s[:-1]):
                    if s2:
                        c = dict(case)
                        c["ops"] = ops[:i] + [[o[0], o[1], {"t": "str", "v": s2}, o[3]]] + ops[i + 1:]
                        yield c
    if case["max_length"] != 36:
        c = dict(case)
        c["max_length"] = 36
        yield c


# ---------------------------------------------------------------------------------------------
# running the implementation
def tokens_of(val):
    """what the three formats print for a value (mode tok): csv str(), human, json"""
    if isinstance(val, str):
        return {"t": "str", "v": val}
    if type(val) is int:
        return {"t": "int", "v": val}
    human = f"{val:<8.3g}" if isinstance(val, float) else str(val)
    jv = val
    if hasattr(val, "dtype"):
        jv = float(val.item()) if (val.shape == () or len(val) == 1) else val.tolist()
    return {"t": "flt", "csv": str(val), "human": human, "json": json.dumps(jv)}


def rat_of(val):
    if isinstance(val, str):
        return {"t": "str", "v": val}
    if type(val) is int:
        return {"t": "int", "v": val}
    return {"t": "flt", "v": ratj(F(float(val)))}


def snap_pending(lg):
    return {
        "values": list(lg.name_to_value.items()),
        "counts": dict(lg.name_to_count),
        "excl": {k: list(v) for k, v in lg.name_to_excluded.items()},
        "order_excl": list(lg.name_to_excluded.keys()),
    }


def run_impl(case):
    """executes the case on the real Logger; returns the observations per op"""
    from stable_baselines3.common import logger as L

    d = tempfile.mkdtemp(prefix="c20_")
    sio = io.StringIO()
    fmts, paths = [], {}
    try:
        for f in case["formats"]:
            if f == "stdout":
                fmts.append(L.HumanOutputFormat(sio, max_length=case["max_length"]))
            else:
                w = L.make_output_format(f, d)
                if f == "log":
                    w.max_length = case["max_length"]
                fmts.append(w)
        csvw = next((w for w in fmts if isinstance(w, L.CSVOutputFormat)), None)
        lg = L.Logger(d, fmts)
        paths = {"csv": os.path.join(d, "progress.csv"), "json": os.path.join(d, "progress.json"), "log": os.path.join(d, "log.txt")}
        obs = []
        for op in case["ops"]:
            o = {"op": op}
            try:
                if op[0] == "r":
                    lg.record(op[1], mkval(op[2]), exclude=mkexcl(op[3]))
                    o["pending"] = snap_pending(lg)
                elif op[0] == "m":
                    before = lg.name_to_value.get(op[1]) if op[1] in lg.name_to_value else None
                    o["before_is_str"] = isinstance(before, str)
                    lg.record_mean(op[1], mkval(op[2]), exclude=mkexcl(op[3]))
                    o["pending"] = snap_pending(lg)
                else:
                    o["before"] = snap_pending(lg)
                    old_keys = list(csvw.keys) if csvw is not None else []
                    with warnings.catch_warnings():
                        warnings.simplefilter("ignore")
                        lg.dump()
                    o["after"] = snap_pending(lg)
                    if csvw is not None:
                        o["keys"] = list(csvw.keys)
                        o["order"] = list(csvw.keys)[len(old_keys):]
                        o["keys_prefix_ok"] = list(csvw.keys)[: len(old_keys)] == old_keys
                        with open(paths["csv"], newline="") as fh:
                            o["csv"] = fh.read()
                        o["csv_df"] = read_frame(lambda: L.read_csv(paths["csv"]))
                        with open(paths["csv"], newline="") as fh:
                            o["csv_raw_rows"] = list(pycsv.reader(fh))
                    if "json" in case["formats"]:
                        with open(paths["json"]) as fh:
                            o["json"] = fh.read()
                        o["json_df"] = read_frame(lambda: L.read_json(paths["json"]))
                    if "log" in case["formats"]:
                        with open(paths["log"], newline="") as fh:
                            o["log"] = fh.read()
                    if "stdout" in case["formats"]:
                        o["stdout"] = sio.getvalue()
            except (TypeError, ValueError) as e:
                o["error"] = type(e).__name__
                o["error_msg"] = str(e)[:200]
                obs.append(o)
                break
            obs.append(o)
        try:
            lg.close()
        except Exception:
            pass
        return obs
    finally:
        shutil.rmtree(d, ignore_errors=True)


def read_frame(fn):
    """a DataFrame as header + list of row lists (python objects), or the exception name"""
    try:
        df = fn()
    except Exception as e:  # EmptyDataError etc.: reported by the oracle
        return {"error": type(e).__name__, "msg": str(e)[:200]}
    cols = [str(c) for c in df.columns]
    rows = []
    for i in range(len(df)):
        rows.append([df.iloc[i, j] for j in range(len(cols))])
    return {"cols": cols, "rows": rows, "index_default": list(df.index) == list(range(len(df)))}


# ---------------------------------------------------------------------------------------------
# oracle (implementation only)
def is_missing(x):
    if x is None:
        return True
    try:
        import pandas

        if x is pandas.NA:
            return True
    except Exception:
        pass
    return isinstance(x, (float, np.floating)) and x != x


def is_num(v):
    return not isinstance(v, str) and v is not None


def num_equal(v, got):
    if is_missing(got) or isinstance(got, (bool, np.bool_)):
        return False
    if isinstance(got, str):
        try:
            got = float(got)
        except ValueError:
            return False
    try:
        if isinstance(v, np.float32) or (isinstance(v, np.ndarray) and v.dtype == np.float32):
            return bool(np.float32(got) == np.float32(v))
        if type(v) is int or isinstance(v, np.integer):
            return int(v) == got or (abs(int(v)) < 2**53 and float(got) == float(int(v)))
        return float(got) == float(v)
    except (TypeError, ValueError, OverflowError):
        return False


def cell_ok(expected, got):
    """expected: ('missing',) | ('val', v)"""
    if expected[0] == "missing":
        return is_missing(got)
    v = expected[1]
    if isinstance(v, str):
        return isinstance(got, str) and got == v
    return num_equal(v, got)


def truncate(s, n):
    return s[: n - 3] + "..." if len(s) > n else s


def shown_key(key):
    p = key.find("/")
    if p > 0:
        return key[: p + 1], "   " + key[p + 1:]
    return None, key


def human_value_ok(v, txt):
    """txt: the printed value field (already stripped of padding)"""
    if isinstance(v, float):  # python float / np.float64: three significant digits
        try:
            g = float(txt)
        except ValueError:
            return False
        if v == 0 or not math.isfinite(v):
            return g == v or (v != v and g != g)
        if abs(v) < 1e-290:  # 10**(e-2) underflows; subnormal spacing is coarse
            return abs(g - v) <= 0.0051 * abs(v) + 1e-323
        e = math.floor(math.log10(abs(v)))
        return abs(g - v) <= 0.5000001 * 10.0 ** (e - 2) + abs(v) * 1e-12
    return None  # exact text comparison is done by the caller


class Truth:
    """what the scripted operations mean, per the property (independent of the Lean model)"""

    def __init__(self):
        self.seg = {}  # key -> {"ops": [(kind, val)], "excl": tuple}
        self.order = []

    def record(self, k, v, ex):
        if k not in self.seg:
            self.order.append(k)
            self.seg[k] = {"ops": [], "excl": ()}
        self.seg[k]["ops"].append(("r", v))
        self.seg[k]["excl"] = excl_tuple(ex)

    def record_mean(self, k, v, ex):
        if v is None:
            return
        if k not in self.seg:
            self.order.append(k)
            self.seg[k] = {"ops": [], "excl": ()}
        self.seg[k]["ops"].append(("m", v))
        self.seg[k]["excl"] = excl_tuple(ex)

    def expected(self, k):
        """('val', v) | ('mean', Fraction, n) | ('any',)"""
        ops = self.seg[k]["ops"]
        if ops[-1][0] == "r":
            return ("val", ops[-1][1])
        if all(o[0] == "m" for o in ops):
            vs = [F(float(o[1])) for o in ops]
            f32 = any(isinstance(o[1], np.float32) for o in ops)
            return ("mean", sum(vs) / len(vs), len(vs), max(abs(v) for v in vs), f32)
        return ("any",)

    def clear(self):
        self.seg, self.order = {}, []


def oracle(ctx, case, obs):
    rep = ctx.report
    exact = case["mode"] == "rat"
    fm = case["formats"]
    ml = case["max_length"]
    truth = Truth()
    dumps = []  # per dump: {key: (value object as pending, excl tuple)}
    prev_text = {"log": "", "stdout": ""}
    csv_keys_seen = []
    blank_expected = False
    flagged = set()

    def viol(what, sig, detail=None):
        key = (what, json.dumps(canon(sig), sort_keys=True))
        if key in flagged:
            return
        flagged.add(key)
        kind = sig.get("kind")
        if kind in REPEAT_CAPPED:
            # the three recorded findings occur in many generated cases: report each a few times per chunk and count
            # the rest, so that the kept-violation list of the report never fills up with repeats
            rep.count(f"oracle_hit:{kind}")
            n = rep.hist[f"oracle_hit:{kind}"]
            if n > REPEAT_CAP:
                return
        rep.violation(what, case, sig, detail)

    for i, o in enumerate(obs):
        op = o["op"]
        if "error" in o:
            if op[0] == "m" and o["error"] == "TypeError" and o.get("before_is_str"):
                rep.count("domain_error:record_mean_on_str")
                return
            if op[0] == "d" and o["error"] == "ValueError" and "truncated to" in o.get("error_msg", "") and \
                    ("log" in fm or "stdout" in fm):
                shown = [truncate(shown_key(k)[1], ml) for k in truth.order]
                if len(set(shown)) < len(shown):
                    rep.count("domain_error:truncated_duplicate")
                    return
            viol("unexpected exception from the implementation on a valid input",
                 {"exception": o["error"], "op": op[0]}, o.get("error_msg"))
            return
        if op[0] == "r":
            truth.record(op[1], mkval(op[2]), op[3])
        elif op[0] == "m":
            truth.record_mean(op[1], mkval(op[2]), op[3])
        if op[0] in ("r", "m"):
            pv = dict(o["pending"]["values"])
            if set(pv) != set(truth.seg):
                viol("pending keys differ from the keys recorded since the last dump", {"kind": "pending_keys"},
                     {"pending": sorted(pv), "recorded": sorted(truth.seg)})
                return
            continue
        # ---- dump -------------------------------------------------------------------------
        pv = dict(o["before"]["values"])
        if set(pv) != set(truth.seg):
            viol("pending keys differ from the keys recorded since the last dump", {"kind": "pending_keys"},
                 {"pending": sorted(pv), "recorded": sorted(truth.seg)})
            return
        for k in truth.order:
            ex = truth.expected(k)
            got = pv[k]
            if ex[0] == "val":
                same = (got == ex[1]) if isinstance(ex[1], str) or isinstance(got, str) else (
                    type(got) is type(ex[1]) and bool(np.all(got == ex[1])))
                if not same:
                    viol("pending value is not the last value recorded", {"kind": "record_last"}, {"key": k, "got": repr(got)})
            elif ex[0] == "mean":
                m = ex[1]
                g = F(float(got)) if is_num(got) else None
                tol = 0 if exact else ex[3] * (F(1, 10**5) if ex[4] else F(1, 10**12)) + F(1, 10**300)
                if g is None or abs(g - m) > tol:
                    viol("record_mean does not report the arithmetic mean of the values given",
                         {"kind": "mean", "n": ex[2], "exact": exact}, {"key": k, "got": repr(got), "mean": str(m)})
            exo = tuple(o["before"]["excl"].get(k, ()))
        a = o["after"]
        if a["values"] or a["counts"] or a["excl"]:
            viol("dump did not empty the pending dictionaries", {"kind": "dump_clears"}, {"after": repr(a)[:300]})
        cur = {k: (pv[k], truth.seg[k]["excl"]) for k in truth.order}
        dumps.append(cur)
        truth.clear()
        nd = len(dumps)

        # ---- CSV ----------------------------------------------------------------------------
        if "csv" in fm:
            vis = [k for k in cur if "csv" not in cur[k][1]]
            for k in vis:
                if k not in csv_keys_seen:
                    csv_keys_seen.append(k)
            if not vis and len(csv_keys_seen) <= 1:
                blank_expected = True
            df = o["csv_df"]
            sig_extra = {"kind": "blank_row"} if blank_expected else {}

            def cviol(what, kind, detail):
                sig = {"format": "csv", "kind": "blank_row" if blank_expected else kind}
                viol(what if not blank_expected else
                     "CSV: a dump whose row is entirely empty (file with at most one column) is lost / shifts rows on read_csv",
                     sig, detail)

            if "error" in df:
                cviol("read_csv raises on the file the logger wrote", "read_error", df)
            else:
                cols = df["cols"]
                if sorted(cols) != sorted(csv_keys_seen) or len(df["rows"]) != nd:
                    cviol("read_csv: wrong columns or number of rows", "shape",
                          {"cols": cols, "expected_cols": csv_keys_seen, "rows": len(df["rows"]), "dumps": nd})
                else:
                    raw = o["csv_raw_rows"]
                    for r in range(nd):
                        for j, k in enumerate(cols):
                            dk = dumps[r].get(k)
                            exp = ("val", dk[0]) if (dk is not None and "csv" not in dk[1]) else ("missing",)
                            got = df["rows"][r][j]
                            if cell_ok(exp, got):
                                continue
                            kind = "cell"
                            if exp[0] == "val" and is_num(exp[1]) and not blank_expected:
                                # is the text on disk right (then the reader lost precision)?
                                try:
                                    tok = raw[r + 1][raw[0].index(k)]
                                    if num_equal(exp[1], tok) and not is_missing(got) and not isinstance(got, str) and \
                                            abs(float(got) - float(exp[1])) <= 1e-11 * abs(float(exp[1])):
                                        kind = "float_parse"
                                except Exception:
                                    pass
                            if kind == "float_parse":
                                viol("read_csv returns a float that differs from the recorded one although the text in the "
                                     "file is exact (pandas' default float parser is not round-trip)",
                                     {"format": "csv", "kind": "float_parse"},
                                     {"key": k, "row": r, "recorded": repr(exp[1]), "read": repr(got)})
                            else:
                                cviol("read_csv does not return the recorded value", kind,
                                      {"key": k, "row": r, "expected": repr(exp), "read": repr(got),
                                       "late_key": k not in dumps[0]})
        # ---- JSON ---------------------------------------------------------------------------
        if "json" in fm:
            df = o["json_df"]
            if "error" in df:
                viol("read_json raises on the file the logger wrote", {"format": "json", "kind": "read_error"}, df)
            else:
                cols = df["cols"]
                allk = []
                for dd in dumps:
                    for k in dd:
                        if "json" not in dd[k][1] and k not in allk:
                            allk.append(k)
                if sorted(cols) != sorted(allk) or len(df["rows"]) != nd:
                    viol("read_json: wrong columns or number of rows", {"format": "json", "kind": "shape"},
                         {"cols": cols, "expected": allk, "rows": len(df["rows"]), "dumps": nd})
                else:
                    for r in range(nd):
                        for j, k in enumerate(cols):
                            dk = dumps[r].get(k)
                            exp = ("val", dk[0]) if (dk is not None and "json" not in dk[1]) else ("missing",)
                            got = df["rows"][r][j]
                            if not cell_ok(exp, got):
                                viol("read_json does not return the recorded value", {"format": "json", "kind": "cell"},
                                     {"key": k, "row": r, "expected": repr(exp), "read": repr(got)})
        # ---- human --------------------------------------------------------------------------
        for out in ("log", "stdout"):
            if out not in fm:
                continue
            text = o[out]
            delta = text[len(prev_text[out]):] if text.startswith(prev_text[out]) else None
            if delta is None:
                viol("human output: earlier text changed", {"format": out, "kind": "rewrite"})
                prev_text[out] = text
                continue
            prev_text[out] = text
            shown_all = [truncate(shown_key(k)[1], ml) for k in cur]
            for k in cur:
                val, ex = cur[k]
                tag, sk = shown_key(k)
                tk = truncate(sk, ml)
                want = out not in ex
                other = "log" if out == "stdout" else "stdout"
                g8 = f"{val:<8.3g}" if isinstance(val, float) else None
                if g8 is not None and len(g8) <= ml:
                    pat = r"(?:^|\n)" + re.escape("| " + tk) + r" * \| ([^ |\n]+) * \|\n"
                    present = any(human_value_ok(val, m.group(1)) for m in re.finditer(pat, delta))
                else:
                    tv = truncate(g8 if g8 is not None else str(val), ml)
                    pat = r"(?:^|\n)" + re.escape("| " + tk) + r" * \| " + re.escape(tv) + r" * \|\n"
                    present = re.search(pat, delta) is not None
                if want and not present:
                    if other in ex:
                        viol("human output: a key excluded only for the other human format ('stdout' / 'log') is missing "
                             "from this one", {"format": "human", "kind": "cross_exclusion"},
                             {"output": out, "key": k, "exclude": list(ex)})
                    else:
                        viol("human output does not show a recorded, not excluded key with its value",
                             {"format": out, "kind": "missing_key"}, {"key": k, "value": repr(val), "delta": delta[-400:]})
                if not want and shown_all.count(tk) == 1:
                    if re.search(r"(?:^|\n)" + re.escape("| " + tk) + r" * \| ", delta):
                        viol("human output shows a key excluded for it", {"format": out, "kind": "excluded_shown"}, {"key": k})
    return


# ---------------------------------------------------------------------------------------------
# correspondence
def model_excl(e):
    """Logger.to_tuple: None -> ("",), str -> (str,), tuple -> itself"""
    if e is None:
        return [""]
    if isinstance(e, str):
        return [e]
    return list(e)


def model_ops(case, obs):
    rat = case["mode"] == "rat"
    ops = [{"op": "new", "mode": case["mode"], "csv": "csv" in case["formats"], "json": "json" in case["formats"],
            "human": "log" in case["formats"] or "stdout" in case["formats"], "max_length": case["max_length"]}]
    tags = ["new"]
    for o in obs:
        op = o["op"]
        ex = None if op[0] == "d" else model_excl(op[3])
        if op[0] == "r":
            v = mkval(op[2])
            ops.append({"op": "record", "key": op[1], "val": rat_of(v) if rat else tokens_of(v), "excl": ex})
            tags.append("pending")
        elif op[0] == "m":
            v = mkval(op[2])
            if rat:
                ops.append({"op": "record_mean", "key": op[1], "x": None if v is None else ratj(F(float(v))), "excl": ex})
                tags.append("pending")
            else:
                if v is None:
                    ops.append({"op": "fmt", "x": 0})  # record_mean(None) is a no-op: nothing to send
                    tags.append("skip")
                elif "error" in o:
                    ops.append({"op": "fmt", "x": 0})
                    tags.append("skip")
                else:
                    cur = dict(o["pending"]["values"])[op[1]]
                    ops.append({"op": "record", "key": op[1], "val": tokens_of(cur), "excl": ex})
                    tags.append("pending")
        else:
            ops.append({"op": "dump", "order": o.get("order", [])})
            tags.append("dump")
            if "error" not in o:
                ops.append({"op": "read"})
                tags.append("read")
    return ops, tags


def canon_val(mode, v):
    if isinstance(v, str):
        return ["s", v]
    if type(v) is int:
        return ["i", v]
    if mode == "rat":
        return ["f", ratj(F(float(v)))]
    return ["f", str(v)]


def frame_vs_model(df, mt):
    """pandas frame (as cols/rows) against the model's table {"header","rows"}; None = equal"""
    if "error" in df:
        return None if mt is None else "pandas raised, model read a table"
    if mt is None:
        return "model reader failed, pandas read a table"
    if df["cols"] != mt["header"]:
        return f"header {df['cols']} vs {mt['header']}"
    if len(df["rows"]) != len(mt["rows"]):
        return f"{len(df['rows'])} rows vs {len(mt['rows'])}"
    for r, (a, b) in enumerate(zip(df["rows"], mt["rows"])):
        if len(a) != len(b):
            return f"row {r} width"
        for j, (x, y) in enumerate(zip(a, b)):
            if y is None:
                ok = is_missing(x)
            elif y[0] == "s":
                ok = isinstance(x, str) and x == y[1]
            else:
                if isinstance(x, str):  # object column: pandas keeps the text
                    ok = x == y[1]
                elif is_missing(x):
                    ok = y[1] in ("nan", "NaN")
                else:
                    try:
                        fy = float(y[1])
                        ok = math.isclose(float(x), fy, rel_tol=1e-11, abs_tol=0.0) or float(x) == fy
                    except (ValueError, OverflowError):
                        ok = False
            if not ok:
                return f"row {r} col {j}: {x!r} vs {y!r}"
    return None


def json_frame_vs_model(df, mt):
    """frame of read_json against the model reader's rows (strict on types); None = equal"""
    if df["cols"] != mt["header"]:
        return f"columns {df['cols']} vs {mt['header']}"
    if len(df["rows"]) != len(mt["rows"]):
        return f"{len(df['rows'])} rows vs {len(mt['rows'])}"
    for r, (a, b) in enumerate(zip(df["rows"], mt["rows"])):
        for j, (x, y) in enumerate(zip(a, b)):
            if y is None:
                ok = is_missing(x)
            elif y[0] == "s":
                ok = isinstance(x, str) and x == y[1]
            else:
                ok = False
                if isinstance(x, (int, float, np.integer, np.floating)) and not isinstance(x, (bool, np.bool_)):
                    try:
                        ok = float(x) == float(y[1])
                    except (ValueError, OverflowError):
                        ok = False
            if not ok:
                return f"row {r} col {j}: {x!r} vs {y!r}"
    return None


def compare(ctx, case, obs, outs):
    rep = ctx.report
    ops, tags = model_ops(case, obs)
    if outs is None or any(x is None for x in outs):
        return
    mode = case["mode"]
    it = iter(zip(ops, tags, outs))
    next(it)  # new

    def dis(stream, impl, model, note=""):
        rep.disagree(stream, case, impl, model, note)

    for o in obs:
        op = o["op"]
        mo = next(it)[2]
        if "error" in o:
            want = {"TypeError": "typeError", "ValueError": "valueError"}.get(o["error"], o["error"])
            if mode == "tok" and op[0] == "m":
                rep.agree()
                return
            if mo.get("error") != want:
                dis("errors", {"error": want}, mo)
            else:
                rep.agree()
            return
        if op[0] in ("r", "m"):
            if mode == "tok" and op[0] == "m" and mkval(op[2]) is None:
                continue
            if "error" in mo:
                dis("errors", "ok", mo)
                return
            p = o["pending"]
            impl = [[k, canon_val(mode, v), p["counts"].get(k, 0) if mode == "rat" else 0, p["excl"].get(k)] for k, v in p["values"]]
            model = [[e[0], e[1], e[2] if mode == "rat" else 0, e[3]] for e in mo["pending"]]
            if p["order_excl"] != [k for k, _ in p["values"]]:
                dis("pending", {"value_order": [k for k, _ in p["values"]], "excl_order": p["order_excl"]}, "one order")
                return
            if canon(impl) != canon(model):
                dis("pending", impl, model)
                return
            rep.agree()
            continue
        # dump
        if "error" in mo:
            dis("errors", "ok", mo)
            return
        if "csv" in case["formats"]:
            if o["keys"] != mo["keys"] or o["csv"] != mo["csv"]:
                dis("csv_bytes", {"keys": o["keys"], "csv": o["csv"]}, {"keys": mo["keys"], "csv": mo["csv"]})
                return
            rep.agree()
        if "json" in case["formats"]:
            if o["json"] != mo["json"]:
                dis("json_bytes", o["json"], mo["json"])
                return
            rep.agree()
        for out in ("log", "stdout"):
            if out in case["formats"]:
                if o[out] != mo["human"]:
                    dis("human_bytes", {out: o[out]}, mo["human"])
                    return
                rep.agree()
        mr = next(it)[2]
        if "error" in mr:
            dis("csv_read", "ok", mr)
            return
        if "csv" in case["formats"]:
            mt = mr["csv"]
            ragged = mt is not None and any(len(r) != len(mt["header"]) for r in mt["rows"])
            if ragged:
                rep.count("csv_read:ragged_rows_not_compared")
            else:
                why = frame_vs_model(o["csv_df"], mt)
                if why is not None:
                    dis("csv_read", o["csv_df"] if "error" in o["csv_df"] else {"cols": o["csv_df"]["cols"], "rows": repr(o["csv_df"]["rows"])}, mt, why)
                    return
                rep.agree()
        if "json" in case["formats"]:
            impl_rows = []
            for line in o["json"].splitlines():
                pairs = json.loads(line, object_pairs_hook=list)
                impl_rows.append(pairs)
            mj = mr["json"]
            bad = mj is None or len(mj) != len(impl_rows)
            if not bad:
                for a, b in zip(impl_rows, mj):
                    if [k for k, _ in a] != [k for k, _ in b]:
                        bad = True
                        break
                    for (_, x), (_, y) in zip(a, b):
                        if y[0] == "s":
                            bad = bad or not (isinstance(x, str) and x == y[1])
                        else:
                            bad = bad or isinstance(x, str) or not (float(x) == float(y[1]) or (x != x))
            if bad:
                dis("json_read", impl_rows, mj)
                return
            rep.agree()
            # the table the library's reader returns == the model's rows laid out as a table (typed: str stays str)
            cols = []
            for row in mj:
                for k, _ in row:
                    if k not in cols:
                        cols.append(k)
            mt = {"header": cols, "rows": [[dict((k, v) for k, v in row).get(c) for c in cols] for row in mj]}
            df = o["json_df"]
            why = "read_json raised " + str(df.get("error")) if "error" in df else json_frame_vs_model(df, mt)
            if why is not None:
                dis("json_frame", df if "error" in df else {"cols": df["cols"], "rows": repr(df["rows"])}, mt, why)
                return
            rep.agree()


# ---------------------------------------------------------------------------------------------
def nontrivial(case, obs):
    if "csv" not in case["formats"]:
        return False
    seen, hot, rows = set(), False, 0
    cur, curhot = set(), False
    for op in case["ops"]:
        if op[0] == "d":
            new = cur - seen
            if rows > 0 and new and hot:
                return True
            seen |= cur
            hot = hot or curhot
            rows += 1
            cur, curhot = set(), False
        elif op[0] == "r":
            if "csv" in excl_tuple(op[3]):
                continue
            cur.add(op[1])
            if op[2]["t"] == "str" and any(c in op[2]["v"] for c in '",\n\r'):
                curhot = True
        elif op[0] == "m" and op[2]["t"] != "none" and "csv" not in excl_tuple(op[3]):
            cur.add(op[1])
    return False


def run_fmt(case):
    x = float.fromhex(case["h"])
    return {"repr": repr(x), "g3": f"{x:<8.3g}", "nice": nice(x)}


def check_cases(ctx, cases):
    rep = ctx.report
    allops, plan = [], []
    for case in cases:
        kind = case.get("kind")
        rep.count(f"kind:{kind}" + (":" + case["mode"] if kind == "log" else ""))
        if kind == "fmt":
            r = run_fmt(case)
            rep.case(case, None)
            x = float.fromhex(case["h"])
            plan.append((case, r, len(allops), 1))
            allops.append({"op": "fmt", "x": ratj(F(x))})
            continue
        obs = guarded(ctx, case, lambda: run_impl(case))
        if obs is None:
            rep.case(case, None)
            continue
        nt = nontrivial(case, obs)
        rep.case(case, case if nt else None)
        nd = sum(1 for o in case["ops"] if o[0] == "d")
        rep.count(f"dumps:{'1' if nd == 1 else '2-3' if nd <= 3 else '4-7' if nd <= 7 else '8-12'}")
        for f in case["formats"]:
            rep.count(f"format:{f}")
        for o in obs:
            rep.count("op:" + {"r": "record", "m": "record_mean", "d": "dump"}[o["op"][0]])
            if "error" in o:
                rep.count("impl_error:" + o["error"])
            if o["op"][0] == "d" and o.get("order"):
                if o["op"] is not obs[0]["op"] and any(p["op"][0] == "d" for p in obs[: obs.index(o)]):
                    rep.count("csv:header_rewrite")
        if any(o["op"][0] == "r" and o["op"][2]["t"] == "str" and any(c in o["op"][2]["v"] for c in "\n\r") for o in obs):
            rep.count("string_with_line_break")
        if nt:
            rep.count("nontrivial:late_column_after_quoted_special")
        vals = [o["op"][2] for o in obs if o["op"][0] in ("r", "m")]
        if any(v["t"] == "str" and v["v"] in NUMLIKE for v in vals):
            rep.count("case_with:numeric_looking_string")
        if any(o["op"][0] in ("r", "m") and o["op"][1] in DATE_KEYS and o["op"][2].get("t") in ("int", "i64")
               and abs(o["op"][2]["v"]) >= 10**9 for o in obs):
            rep.count("case_with:date_like_key_epoch_int")
        if any("h" in v and v["t"] in ("float", "f64", "arr0") and 0 < abs(float.fromhex(v["h"])) < 2.2250738585072014e-308 for v in vals):
            rep.count("case_with:subnormal_float")
        guarded(ctx, case, lambda: oracle(ctx, case, obs))
        ops, _ = model_ops(case, obs)
        plan.append((case, obs, len(allops), len(ops)))
        allops.extend(ops)
    outs = ctx.lean.run(allops)
    for case, r, i, k in plan:
        if case.get("kind") == "fmt":
            mo = outs[i]
            if mo is None:
                continue
            if "error" in mo or mo["g3"] != r["g3"] or (r["nice"] and mo["repr"] != r["repr"]):
                rep.disagree("fmt", case, r, mo)
            else:
                rep.agree()
            continue
        compare(ctx, case, r, outs[i:i + k])
