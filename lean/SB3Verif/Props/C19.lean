/-
C19 — No aliasing between the library and its callers.

Property theorems only (helper lemmas: `SB3Verif/Lemmas/Ownership.lean`). All statements are about the
executable ownership model `SB3Verif/Model/Ownership.lean` (heap machine, value machine) and the mode
table `SB3Verif/Model/ApiModes.lean`, which the driver `SB3Verif/Driver/C19.lean` runs and prints.

What is proved: for EVERY caller program (any number of object creations, caller writes and library
calls, any handles) whose library calls use copy-discipline instructions only, the heap machine
behaves exactly like the value machine in which nothing can be shared (`discipline_refines_values`),
hence (1) objects the caller holds change only by the caller's own writes, (2) every library result
is the value-machine result — a function of the library's cell values and the argument values at call
time —, (3) removing every caller write to an object that is not handed in again changes no result
(`discipline_noninterference`). Converse witnesses (`alias_breaks_it_*`): one aliasing instruction
suffices to break each part. The table rows and all wrapper stacks over them are copy-discipline
(`table_rows_disciplined`, `wrapper_stacks_disciplined`), with no exception left: the former finding
K-C19-a (HerReplayBuffer kept the caller's info dicts) was repaired in /repo (cb7b2df) and survives
only as the converse witness `alias_breaks_it_her_infos_by_reference`.

What is NOT proved: that the real calls have the modes of the table. That is MEASURED on the real
objects on every run by `/verif/harness/c19.py` (memory overlap / identity against everything
reachable from the library object, held-object snapshots, twin runs).
-/
import SB3Verif.Lemmas.Ownership
import SB3Verif.Model.ApiModes

namespace SB3Verif.C19

open SB3Verif.Ownership SB3Verif.Ownership.Lemmas

/-- **Refinement**: on every program of copy-discipline calls, with any number `n` of library cells, the
heap machine computes exactly what the address-free value machine computes: same library cell values,
same values of every object the caller holds, same results of every call. -/
theorem discipline_refines_values (n : Nat) (prog : List Step) (h : Disciplined prog) :
    abs (run prog (init n)) = vrun prog (vinit n) := by
  have := (run_refines prog (init n) (init_sep n) h).2
  rwa [abs_init] at this

/-- **Separation is kept**: after any copy-discipline program, library cells and all objects the caller
holds (everything it passed in, everything it got back) are pairwise different allocated objects — no
result is a library cell, an argument, or an earlier result. -/
theorem discipline_keeps_separation (n : Nat) (prog : List Step) (h : Disciplined prog) :
    ((run prog (init n)).slots ++ (run prog (init n)).held).Nodup ∧
      ∀ a ∈ (run prog (init n)).slots ++ (run prog (init n)).held, a < (run prog (init n)).next := by
  have := (run_refines prog (init n) (init_sep n) h).1
  exact ⟨this.nodup, this.bound⟩

/-- **Non-interference of the copy discipline.** For every program `pre ++ rest` of copy-discipline calls
(`s` = the state after `pre`, an arbitrary reachable state):
1. every object the caller holds in `s` has, after `rest`, the value given by the caller's own writes in
   `rest` alone (`lastWrite`) — no library call changes it;
2. the results of all calls are those of the value machine, where a call's results are a function of the
   library's cell values and of the argument *values at call time*;
3. deleting from `rest` every caller write to an object that is not handed to the library afterwards —
   writes into results, writes into arguments after the call — changes no result of any call. -/
theorem discipline_noninterference (n : Nat) (pre rest : List Step) (hpre : Disciplined pre)
    (hrest : Disciplined rest) :
    (∀ h, h < (run pre (init n)).held.length →
        (heldVals (run rest (run pre (init n)))).getD h 0 =
          lastWrite h rest ((heldVals (run pre (init n))).getD h 0)) ∧
      (run rest (run pre (init n))).trace = (vrun (pre ++ rest) (vinit n)).trace ∧
      (run rest (run pre (init n))).trace = (run (stripDeadWrites rest) (run pre (init n))).trace := by
  have hp := run_refines pre (init n) (init_sep n) hpre
  have hr := run_refines rest (run pre (init n)) hp.1 hrest
  have hs := run_refines (stripDeadWrites rest) (run pre (init n)) hp.1 (strip_disciplined rest hrest)
  refine ⟨?_, ?_, ?_⟩
  · intro h hlt
    have h1 : heldVals (run rest (run pre (init n))) = (vrun rest (abs (run pre (init n)))).held := by
      rw [← hr.2]; rfl
    rw [h1]
    exact vrun_lastWrite h rest (abs (run pre (init n))) (by simpa [abs, heldVals] using hlt)
  · have h1 : (run rest (run pre (init n))).trace = (abs (run rest (run pre (init n)))).trace := rfl
    rw [h1, hr.2, hp.2, abs_init, vrun_append]
  · have h1 : (run rest (run pre (init n))).trace = (abs (run rest (run pre (init n)))).trace := rfl
    have h2 : (run (stripDeadWrites rest) (run pre (init n))).trace =
        (abs (run (stripDeadWrites rest) (run pre (init n)))).trace := rfl
    rw [h1, h2, hr.2, hs.2]
    exact vrun_strip rest _ _ (agree_refl _ _)

/-- One library call, read off part 1: a copy-discipline call leaves every object the caller holds as it is. -/
theorem library_call_preserves_held (n : Nat) (pre : List Step) (hpre : Disciplined pre) (ins : List Instr)
    (args : List Nat) (hins : ins.all Instr.discipline = true) (h : Nat)
    (hlt : h < (run pre (init n)).held.length) :
    (heldVals (step (run pre (init n)) (.call ins args))).getD h 0 = (heldVals (run pre (init n))).getD h 0 := by
  have hd : Disciplined [Step.call ins args] := by
    intro st hst
    simp at hst
    subst hst
    simpa [Step.discipline] using hins
  have := (discipline_noninterference n pre [Step.call ins args] hpre hd).1 h hlt
  simpa [run, lastWrite] using this

/-! ### a non-trivial program meets the hypotheses -/

/-- a copy-discipline program with arguments, stored copies, results and caller writes -/
def demo : List Step :=
  [.new 5, .call [.setSlot 0 (.arg 0), .retFresh (.add (.slot 0) (.const 1))] [0], .write 0 9, .write 1 70,
   .new 3, .call [.stash 0, .retFreshStash (.add (.slot 0) (.arg 0))] [2], .call [.retFresh (.slot 0)] []]

example : Disciplined demo := by decide

example : (run demo (init 2)).trace = [[6], [8], [5]] := by decide

example : (heldVals (run demo (init 2))) = [9, 70, 3, 8, 5] := by decide

example : stripDeadWrites demo ≠ demo := by decide

/-! ### converse witnesses: one aliasing instruction is enough -/

/-- **sharesInternal breaks (1)** (the shape of F-C19-a: `VecFrameStack` returned its window): the library
returns its own cell; the next call overwrites the object the caller still holds. -/
theorem alias_breaks_it_shares_internal_held_changes :
    let prog := [Step.call [.setSlot 0 (.const 1), .retSlot 0] [], Step.call [.setSlot 0 (.const 2)] []]
    (∀ st ∈ prog, ∀ i ∈ (match st with | .call ins _ => ins | _ => []), i = Instr.retSlot 0 ∨ i.discipline = true) ∧
      (heldVals (run prog (init 1))).getD 0 0 ≠ lastWrite 0 prog 1 ∧
      (heldVals (run (prog.take 1) (init 1))).getD 0 0 = 1 := by
  decide

/-- **sharesInternal breaks (3)**: writing into a returned object changes a later result. -/
theorem alias_breaks_it_shares_internal_write_leaks :
    let prog := [Step.call [.retSlot 0] [], Step.write 0 77, Step.call [.retFresh (.slot 0)] []]
    (run prog (init 1)).trace ≠ (run (stripDeadWrites prog) (init 1)).trace ∧
      stripDeadWrites prog = [Step.call [.retSlot 0] [], Step.call [.retFresh (.slot 0)] []] := by
  decide

/-- **storedByRef breaks (2)**: the library keeps the argument object; a later caller write to it changes a
later result, which therefore is not a function of the values passed at call time. -/
theorem alias_breaks_it_stored_by_ref :
    let prog := [Step.new 5, Step.call [.aliasSlot 0 0] [0], Step.write 0 9, Step.call [.retFresh (.slot 0)] []]
    (run prog (init 1)).trace = [[], [9]] ∧ (vrun prog (vinit 1)).trace = [[], [5]] ∧
      (run (stripDeadWrites prog) (init 1)).trace = [[], [5]] := by
  decide

/-- **mutated breaks (1)** (the shape of F-C19-b: `DictReplayBuffer.add` rebound entries of the caller's
dict): the library writes into the argument; the caller's object changed without a caller write. -/
theorem alias_breaks_it_mutated :
    let prog := [Step.new 5, Step.call [.writeArg 0 (.const 7)] [0]]
    (heldVals (run prog (init 1))).getD 0 0 = 7 ∧ lastWrite 0 (prog.drop 1) 5 = 5 := by
  decide

/-- **sharesArg breaks (1)**: the result is the argument object; a caller write to the argument changes the
result object the caller holds under another handle. -/
theorem alias_breaks_it_shares_arg :
    let prog := [Step.new 5, Step.call [.retArg 0] [0], Step.write 0 9]
    (heldVals (run prog (init 1))).getD 1 0 = 9 ∧ lastWrite 1 (prog.drop 2) 5 = 5 := by
  decide

/-! ### the mode table -/

/-- compiling a copy-discipline signature gives copy-discipline instructions -/
theorem compile_discipline (sig : Sig) (h : sig.discipline = true) : (compile sig).all Instr.discipline = true := by
  have hargs : ∀ (l : List ArgMode) (i : Nat), l.all ArgMode.discipline = true →
      (compileArgs i l).all Instr.discipline = true := by
    intro l
    induction l with
    | nil => intro i _; rfl
    | cons m ms ih =>
      intro i hm
      simp only [List.all_cons, Bool.and_eq_true] at hm
      simp only [compileArgs, List.all_append, Bool.and_eq_true]
      refine ⟨?_, ih (i + 1) hm.2⟩
      cases m <;> simp_all [compileArg, Instr.discipline, ArgMode.discipline]
  have hres : ∀ (l : List ResMode) (j : Nat), l.all ResMode.discipline = true →
      (compileRess sig.args.length j l).all Instr.discipline = true := by
    intro l
    induction l with
    | nil => intro j _; rfl
    | cons m ms ih =>
      intro j hm
      simp only [List.all_cons, Bool.and_eq_true] at hm
      simp only [compileRess, List.all_append, Bool.and_eq_true]
      refine ⟨?_, ih (j + 1) hm.2⟩
      cases m <;> simp_all [compileRes, Instr.discipline, ResMode.discipline]
  simp only [Sig.discipline, Bool.and_eq_true] at h
  simp only [compile, List.all_append, Bool.and_eq_true]
  exact ⟨⟨by simp [Instr.discipline], hargs _ 0 h.1⟩, hres _ 0 h.2⟩

/-- every row of the table that lies inside the sentence of the property follows the copy discipline
(no exceptions) -/
theorem table_rows_disciplined :
    ∀ r ∈ apiRows, r.inStatement = true → r.sig.discipline = true := by
  decide

/-- the list of recorded exceptions is empty -/
theorem table_has_no_exceptions : exceptions = [] := rfl

/-- every wrapper of the table is clean: it neither writes through nor keeps alive the actions, and never
hands out its own state -/
theorem table_layers_clean : ∀ L ∈ apiLayers, L.clean = true := by
  decide

/-- **all wrapper stacks**: over a copy-discipline base row, ANY list of clean wrappers (any order, any
depth, repetitions) gives a copy-discipline `reset`/`step` signature. -/
theorem wrapper_stacks_disciplined (base : Row) (hb : base.sig.discipline = true) (layers : List Layer)
    (hl : ∀ L ∈ layers, L.clean = true) (call : String) :
    (stackRow base layers call).sig.discipline = true := by
  induction layers generalizing base with
  | nil => exact hb
  | cons L Ls ih =>
    simp only [stackRow, List.foldl_cons]
    apply ih
    · have hc := hl L (by simp)
      simp only [Layer.clean, Bool.and_eq_true, bne_iff_ne, ne_eq] at hc
      obtain ⟨⟨⟨⟨⟨ha, h1⟩, h2⟩, h3⟩, h4⟩, h5⟩ := hc
      simp only [Row.sig, Sig.discipline, Bool.and_eq_true, List.all_eq_true, List.mem_map, applyLayer] at hb ⊢
      constructor
      · rintro m ⟨p, ⟨q, hq, rfl⟩, rfl⟩
        have hq' := hb.1 q.2 ⟨q, hq, rfl⟩
        split
        · simp only [ArgMode.join]
          split
          · exact hq'
          · exact ha
        · exact hq'
      · rintro m ⟨p, ⟨q, hq, rfl⟩, rfl⟩
        have hq' := hb.2 q.2 ⟨q, hq, rfl⟩
        have hw : L.wres call q.1 ≠ WRes.internal := by
          simp only [Layer.wres]
          split
          · exact h1
          · split
            · exact h2
            · split
              · exact h3
              · split
                · exact h4
                · split
                  · exact h5
                  · simp
        revert hw hq'
        cases L.wres call q.1 <;> cases q.2 <;> simp [WRes.apply, ResMode.discipline]
    · exact fun L' hL' => hl L' (by simp [hL'])

/-- the stacks the harness builds: both base VecEnvs of the table are copy-discipline rows -/
theorem base_rows_disciplined :
    ∀ r ∈ apiRows, (r.cls = "DummyVecEnv" ∨ r.cls = "SubprocVecEnv") → r.sig.discipline = true := by
  decide

/-- **programs over the table**: every program whose library calls are compiled from copy-discipline
signatures — i.e. from any in-statement table row (`table_rows_disciplined`) and from any wrapper stack
(`wrapper_stacks_disciplined`) — is non-interfering in the sense of `discipline_noninterference`. -/
theorem table_programs_noninterfere (n : Nat) (pre rest : List Step)
    (hpre : ∀ st ∈ pre, ∀ ins hs, st = Step.call ins hs → ∃ sg : Sig, sg.discipline = true ∧ ins = compile sg)
    (hrest : ∀ st ∈ rest, ∀ ins hs, st = Step.call ins hs → ∃ sg : Sig, sg.discipline = true ∧ ins = compile sg) :
    (∀ h, h < (run pre (init n)).held.length →
        (heldVals (run rest (run pre (init n)))).getD h 0 =
          lastWrite h rest ((heldVals (run pre (init n))).getD h 0)) ∧
      (run rest (run pre (init n))).trace = (vrun (pre ++ rest) (vinit n)).trace ∧
      (run rest (run pre (init n))).trace = (run (stripDeadWrites rest) (run pre (init n))).trace := by
  have conv : ∀ p : List Step,
      (∀ st ∈ p, ∀ ins hs, st = Step.call ins hs → ∃ sg : Sig, sg.discipline = true ∧ ins = compile sg) →
      Disciplined p := by
    intro p hp st hst
    cases st with
    | new v => rfl
    | write h v => rfl
    | call ins hs =>
      obtain ⟨sg, hsg, rfl⟩ := hp _ hst ins hs rfl
      exact compile_discipline sg hsg
  exact discipline_noninterference n pre rest (conv pre hpre) (conv rest hrest)

example : ∃ r ∈ apiRows, r.inStatement = true ∧ r.args.length = 6 ∧ r.sig.discipline = true :=
  ⟨_, List.mem_of_getElem? (i := 9) rfl, by decide⟩

/-- **storedByRef at table scale** (the shape of the repaired K-C19-a: `HerReplayBuffer(copy_info_dict=True).add`
kept the caller's info dicts themselves): with the signature the row had before the repair, the program "create
the six arguments, `add`, overwrite `infos`, `sample`" gives a `sample` result that differs from the value
machine's and from the run without the caller's write; with the row as it is now both agree. -/
theorem alias_breaks_it_her_infos_by_reference :
    let sample : Sig := ⟨[], [.fresh]⟩
    let prog (add : Sig) := [Step.new 100, .new 101, .new 102, .new 103, .new 104, .new 105,
                 .call (compile add) [0, 1, 2, 3, 4, 5], .write 5 sentinel, .call (compile sample) []]
    herAddCopyInfoOld.discipline = false ∧
      (run (prog herAddCopyInfoOld) (init nSlots)).trace ≠ (vrun (prog herAddCopyInfoOld) (vinit nSlots)).trace ∧
      (run (prog herAddCopyInfoOld) (init nSlots)).trace ≠
        (run (stripDeadWrites (prog herAddCopyInfoOld)) (init nSlots)).trace ∧
      herAddCopyInfo ∈ apiRows ∧ herAddCopyInfo.sig.discipline = true ∧
      (run (prog herAddCopyInfo.sig) (init nSlots)).trace = (vrun (prog herAddCopyInfo.sig) (vinit nSlots)).trace := by
  decide

end SB3Verif.C19
