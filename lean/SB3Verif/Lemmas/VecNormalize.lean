/-
Helper lemmas for C15, part 2: `VecNormalize` (model: `SB3Verif/Model/VecNormalize.lean`).
-/
import SB3Verif.Model.VecNormalize
import SB3Verif.Lemmas.RunningMeanStd
import Mathlib.Algebra.Order.AbsoluteValue.Basic
import Mathlib.Algebra.BigOperators.Group.Finset.Basic
import Mathlib.Algebra.BigOperators.Ring.Finset
import Mathlib.Analysis.Real.Sqrt
import Mathlib.Data.Nat.Sqrt
import Mathlib.Algebra.Order.Field.Rat

set_option linter.unusedSectionVars false

namespace SB3Verif.Lemmas.VecNorm

open SB3Verif.RMS SB3Verif.VecNorm

variable {α : Type} [Field α] [LinearOrder α] [IsStrictOrderedRing α] [HasSqrt α]

/-! ### Scalar transforms -/

theorem clip_le (x c : α) (hc : 0 ≤ c) : clip x (-c) c ≤ c := by
  unfold clip
  dsimp only
  split_ifs <;> linarith

theorem neg_le_clip (x c : α) (hc : 0 ≤ c) : -c ≤ clip x (-c) c := by
  unfold clip
  dsimp only
  split_ifs <;> linarith

theorem abs_clip_le (x c : α) (hc : 0 ≤ c) : |clip x (-c) c| ≤ c :=
  abs_le.mpr ⟨neg_le_clip x c hc, clip_le x c hc⟩

theorem clip_eq_self (x c : α) (h : |x| ≤ c) : clip x (-c) c = x := by
  have ⟨h1, h2⟩ := abs_le.mp h
  unfold clip
  dsimp only
  split_ifs <;> first | rfl | linarith

/-- outside the range the result is the nearer bound -/
theorem clip_eq_hi (x c : α) (hc : 0 ≤ c) (h : c < x) : clip x (-c) c = c := by
  unfold clip
  dsimp only
  split_ifs <;> first | rfl | linarith

theorem clip_eq_lo (x c : α) (hc : 0 ≤ c) (h : x < -c) : clip x (-c) c = -c := by
  unfold clip
  dsimp only
  split_ifs <;> first | rfl | linarith

theorem unnorm_norm_scalar (m : Mom α) (eps c x : α) (hs : sd m eps ≠ 0)
    (h : |(x - m.mean) / sd m eps| ≤ c) : unnormScalar m eps (normScalar m eps c x) = x := by
  unfold unnormScalar normScalar unnormWith normWith
  rw [clip_eq_self _ _ h]
  field_simp
  ring

theorem unnorm_norm_rew_scalar (m : Mom α) (eps c r : α) (hs : sd m eps ≠ 0)
    (h : |r / sd m eps| ≤ c) : unnormRewScalar m eps (normRewScalar m eps c r) = r := by
  unfold unnormRewScalar normRewScalar
  rw [clip_eq_self _ _ h]
  field_simp

theorem normCol_eq_map (m : Mom α) (eps c : α) (col : List α) :
    normCol m eps c col = col.map (normScalar m eps c) := rfl

theorem unnormCol_eq_map (m : Mom α) (eps : α) (col : List α) :
    unnormCol m eps col = col.map (unnormScalar m eps) := rfl

theorem unnormCol_normCol (m : Mom α) (eps c : α) (col : List α) (hs : sd m eps ≠ 0)
    (h : ∀ x ∈ col, |(x - m.mean) / sd m eps| ≤ c) : unnormCol m eps (normCol m eps c col) = col := by
  rw [normCol_eq_map, unnormCol_eq_map, List.map_map]
  conv_rhs => rw [← List.map_id col]
  apply List.map_congr_left
  intro x hx
  simp only [Function.comp, id]
  exact unnorm_norm_scalar m eps c x hs (h x hx)

/-- array level: every coordinate has a non-zero deviation and all its values inside the clip range -/
theorem unnormArr_normArr (ms : List (Mom α)) (eps c : α) (a : Arr α)
    (h : List.Forall₂ (fun m col => sd m eps ≠ 0 ∧ ∀ x ∈ col, |(x - m.mean) / sd m eps| ≤ c) ms a) :
    unnormArr ms eps (normArr ms eps c a) = a := by
  induction h with
  | nil => rfl
  | cons hd _ ih =>
    simp only [normArr, unnormArr, List.zipWith_cons_cons] at ih ⊢
    rw [unnormCol_normCol _ _ _ _ hd.1 hd.2, ih]


/-! ### Keys -/

theorem mapKeys_keys (rms : ObsRms α) (f : List (Mom α) → Arr α → Arr α) (b : Batch α) :
    (mapKeys rms f b).map Prod.fst = b.map Prod.fst := by
  unfold mapKeys
  rw [List.map_map]
  apply List.map_congr_left
  intro ka _
  simp only [Function.comp]
  cases rms.lookup ka.1 <;> rfl

theorem mapKeys_lookup (rms : ObsRms α) (f : List (Mom α) → Arr α → Arr α) (b : Batch α) (k : String) :
    (mapKeys rms f b).lookup k =
      (b.lookup k).map fun a => match rms.lookup k with
        | some ms => f ms a
        | none => a := by
  induction b with
  | nil => rfl
  | cons ka b ih =>
    obtain ⟨k', a⟩ := ka
    simp only [mapKeys, List.map_cons] at ih ⊢
    by_cases hk : k = k'
    · subst hk
      cases hl : rms.lookup k <;> simp
    · have hk' : (k == k') = false := by simpa using hk
      cases hl : rms.lookup k' <;> simp [List.lookup_cons, hk', ih]

/-- a key without statistics passes through unchanged -/
theorem mapKeys_lookup_untouched (rms : ObsRms α) (f : List (Mom α) → Arr α → Arr α) (b : Batch α) (k : String)
    (h : rms.lookup k = none) : (mapKeys rms f b).lookup k = b.lookup k := by
  rw [mapKeys_lookup, h]
  cases b.lookup k <;> rfl

theorem mapKeys_mapKeys (rms : ObsRms α) (f g : List (Mom α) → Arr α → Arr α) (b : Batch α) :
    mapKeys rms g (mapKeys rms f b) = mapKeys rms (fun ms a => g ms (f ms a)) b := by
  unfold mapKeys
  rw [List.map_map]
  apply List.map_congr_left
  intro ka _
  simp only [Function.comp]
  cases hl : rms.lookup ka.1 <;> simp [hl]

theorem mapKeys_id_of (rms : ObsRms α) (f : List (Mom α) → Arr α → Arr α) (b : Batch α)
    (h : ∀ ka ∈ b, ∀ ms, rms.lookup ka.1 = some ms → f ms ka.2 = ka.2) : mapKeys rms f b = b := by
  unfold mapKeys
  conv_rhs => rw [← List.map_id b]
  apply List.map_congr_left
  intro ka hka
  cases hl : rms.lookup ka.1 with
  | none => rfl
  | some ms => simp [h ka hka ms hl]

/-! ### Observation statistics -/

theorem updateObsRms_lookup (rms : ObsRms α) (b : Batch α) (k : String) :
    (updateObsRms rms b).lookup k =
      (rms.lookup k).map fun ms => match b.lookup k with
        | some a => List.zipWith update ms a
        | none => ms := by
  induction rms with
  | nil => rfl
  | cons kms rms ih =>
    obtain ⟨k', ms⟩ := kms
    simp only [updateObsRms, List.map_cons] at ih ⊢
    by_cases hk : k = k'
    · subst hk
      cases hl : b.lookup k <;> simp
    · have hk' : (k == k') = false := by simpa using hk
      cases hl : b.lookup k' <;> simp [List.lookup_cons, hk', ih]

theorem updateObsRms_keys (rms : ObsRms α) (b : Batch α) :
    (updateObsRms rms b).map Prod.fst = rms.map Prod.fst := by
  unfold updateObsRms
  rw [List.map_map]
  apply List.map_congr_left
  intro kms _
  simp only [Function.comp]
  cases b.lookup kms.1 <;> rfl

/-- the per-key step of the fold -/
def keyStep (k : String) (ms : List (Mom α)) (b : Batch α) : List (Mom α) :=
  match b.lookup k with
  | some a => List.zipWith update ms a
  | none => ms

theorem foldl_updateObsRms_lookup (rms : ObsRms α) (bs : List (Batch α)) (k : String) :
    (bs.foldl updateObsRms rms).lookup k = (rms.lookup k).map fun ms => bs.foldl (keyStep k) ms := by
  induction bs generalizing rms with
  | nil => cases h : rms.lookup k <;> simp [h]
  | cons b bs ih =>
    rw [List.foldl_cons, ih, updateObsRms_lookup]
    cases rms.lookup k <;> rfl

/-- coordinate `j` of key `k` after a sequence of well-shaped batches: the scalar fold of `update` over
column `j` of every batch. -/
theorem foldl_keyStep_getElem? (k : String) (ms : List (Mom α)) (bs : List (Batch α))
    (hshape : ∀ b ∈ bs, ∃ a, b.lookup k = some a ∧ a.length = ms.length) (j : ℕ) (hj : j < ms.length) :
    (bs.foldl (keyStep k) ms)[j]? = some (updateAll (ms[j]) (bs.map (column k j))) := by
  induction bs generalizing ms with
  | nil => simp [updateAll]
  | cons b bs ih =>
    obtain ⟨a, ha, hlen⟩ := hshape b (List.mem_cons_self ..)
    have hlen' : (keyStep k ms b).length = ms.length := by
      simp [keyStep, ha, hlen]
    have hj' : j < (keyStep k ms b).length := by omega
    rw [List.foldl_cons, ih (keyStep k ms b) (fun b' hb' => by
      obtain ⟨a', ha', hl'⟩ := hshape b' (List.mem_cons_of_mem _ hb')
      exact ⟨a', ha', by omega⟩) hj']
    have hja : j < a.length := by omega
    have : (keyStep k ms b)[j] = update (ms[j]) (column k j b) := by
      simp [keyStep, ha, column, List.getElem_zipWith, hja]
    rw [this, List.map_cons, updateAll_cons]
  where updateAll_cons (s : Mom α) (b : List α) (bs : List (List α)) :
    updateAll s (b :: bs) = updateAll (update s b) bs := rfl


/-! ### What `reset` / `step_wait` do to each field -/

section Fields

variable (s : VN α) (o : Batch α) (r : List α) (d : List Bool) (t : List (Option (Batch α)))

theorem absorbObs_obsRms :
    (s.absorbObs o).obsRms = if s.training && s.normObs then updateObsRms s.obsRms o else s.obsRms := by
  unfold VN.absorbObs; split <;> rfl

theorem reset_obsRms :
    (s.reset o).1.obsRms = if s.training && s.normObs then updateObsRms s.obsRms o else s.obsRms := by
  simp only [VN.reset, VN.absorbObs]; split <;> rfl

theorem reset_flags : (s.reset o).1.training = s.training ∧ (s.reset o).1.normObs = s.normObs ∧
    (s.reset o).1.normRew = s.normRew ∧ (s.reset o).1.cfg = s.cfg ∧ (s.reset o).1.nEnvs = s.nEnvs ∧
    (s.reset o).1.hasObsRms = s.hasObsRms := by
  simp only [VN.reset, VN.absorbObs]; split <;> simp

theorem reset_ret : (s.reset o).1.retRms = s.retRms ∧ (s.reset o).1.returns = List.replicate s.nEnvs 0 := by
  simp only [VN.reset, VN.absorbObs]; split <;> simp

theorem reset_old : (s.reset o).1.oldObs = o ∧ (s.reset o).1.oldRew = s.oldRew := by
  simp only [VN.reset, VN.absorbObs]; split <;> simp

theorem stepWait_obsRms :
    (s.stepWait o r d t).1.obsRms = if s.training && s.normObs then updateObsRms s.obsRms o else s.obsRms := by
  simp only [VN.stepWait, VN.absorbObs, VN.updateReward]
  split <;> split <;> simp_all

theorem stepWait_flags : (s.stepWait o r d t).1.training = s.training ∧ (s.stepWait o r d t).1.normObs = s.normObs ∧
    (s.stepWait o r d t).1.normRew = s.normRew ∧ (s.stepWait o r d t).1.cfg = s.cfg ∧
    (s.stepWait o r d t).1.nEnvs = s.nEnvs ∧ (s.stepWait o r d t).1.hasObsRms = s.hasObsRms := by
  simp only [VN.stepWait, VN.absorbObs, VN.updateReward]
  split <;> split <;> simp_all

theorem stepWait_retRms :
    (s.stepWait o r d t).1.retRms =
      if s.training then update s.retRms (List.zipWith (fun R x => R * s.cfg.gamma + x) s.returns r) else s.retRms := by
  simp only [VN.stepWait, VN.absorbObs, VN.updateReward]
  split <;> split <;> simp_all

theorem stepWait_returns :
    (s.stepWait o r d t).1.returns =
      List.zipWith (fun dn R => if dn then 0 else R) d
        (if s.training then List.zipWith (fun R x => R * s.cfg.gamma + x) s.returns r else s.returns) := by
  simp only [VN.stepWait, VN.absorbObs, VN.updateReward]
  split <;> split <;> simp_all

theorem stepWait_old : (s.stepWait o r d t).1.oldObs = o ∧ (s.stepWait o r d t).1.oldRew = r := by
  simp only [VN.stepWait, VN.absorbObs, VN.updateReward]
  split <;> split <;> simp_all

end Fields

theorem normalizeObs_congr (s s' : VN α) (h1 : s.normObs = s'.normObs) (h2 : s.obsRms = s'.obsRms)
    (h3 : s.cfg = s'.cfg) (b : Batch α) : s.normalizeObs b = s'.normalizeObs b := by
  unfold VN.normalizeObs; rw [h1, h2, h3]

theorem normalizeReward_congr (s s' : VN α) (h1 : s.normRew = s'.normRew) (h2 : s.retRms = s'.retRms)
    (h3 : s.cfg = s'.cfg) (r : List α) : s.normalizeReward r = s'.normalizeReward r := by
  unfold VN.normalizeReward; rw [h1, h2, h3]

/-- returned observation = the raw observation normalised with the statistics *after* the step -/
theorem stepWait_obs_out (s : VN α) (o : Batch α) (r : List α) (d : List Bool) (t : List (Option (Batch α))) :
    (s.stepWait o r d t).2.obs = (s.stepWait o r d t).1.normalizeObs o := by
  simp only [VN.stepWait, VN.absorbObs, VN.updateReward]
  split <;> split <;> rfl

theorem stepWait_rew_out (s : VN α) (o : Batch α) (r : List α) (d : List Bool) (t : List (Option (Batch α))) :
    (s.stepWait o r d t).2.rew = (s.stepWait o r d t).1.normalizeReward r := by
  simp only [VN.stepWait, VN.absorbObs, VN.updateReward]
  split <;> split <;> rfl

theorem stepWait_terms_out (s : VN α) (o : Batch α) (r : List α) (d : List Bool) (t : List (Option (Batch α))) :
    (s.stepWait o r d t).2.terms =
      List.zipWith (fun dn tb => if dn then tb.map ((s.stepWait o r d t).1.normalizeObs) else tb) d t := by
  simp only [VN.stepWait, VN.absorbObs, VN.updateReward]
  split <;> split <;> rfl

theorem reset_obs_out (s : VN α) (o : Batch α) : (s.reset o).2 = (s.reset o).1.normalizeObs o := rfl


/-! ### Histories -/

theorem run_nil (s : VN α) : s.run [] = s := rfl
theorem run_cons (s : VN α) (e : Ev α) (evs : List (Ev α)) : s.run (e :: evs) = (s.apply e).run evs := rfl
theorem run_append (s : VN α) (as bs : List (Ev α)) : s.run (as ++ bs) = (s.run as).run bs := by
  simp [VN.run, List.foldl_append]

/-- **Observation statistics = fold of `update` over exactly the batches returned while `training` and
`norm_obs` were on**, for every history. -/
theorem run_obsRms (s : VN α) (evs : List (Ev α)) :
    (s.run evs).obsRms = (absorbedObs s.training s.normObs evs).foldl updateObsRms s.obsRms := by
  induction evs generalizing s with
  | nil => rfl
  | cons e evs ih =>
    rw [run_cons, ih]
    cases e with
    | reset o =>
      have hf := reset_flags s o
      simp only [VN.apply, absorbedObs, hf.1, hf.2.1, reset_obsRms, List.foldl_append]
      split <;> rfl
    | step o r d t =>
      have hf := stepWait_flags s o r d t
      simp only [VN.apply, absorbedObs, hf.1, hf.2.1, stepWait_obsRms, List.foldl_append]
      split <;> rfl
    | setTraining b => rfl
    | setNormObs b => rfl
    | setNormRew b => rfl
    | saveLoad => rfl

/-- with `norm_obs` on throughout, the absorbed batches are all the batches returned in training mode -/
theorem absorbedObs_eq_trainingObs (tr : Bool) (evs : List (Ev α)) (h : ∀ e ∈ evs, e ≠ Ev.setNormObs false) :
    absorbedObs tr true evs = trainingObs tr evs := by
  induction evs generalizing tr with
  | nil => rfl
  | cons e evs ih =>
    have ih' := fun tr => ih tr (fun e he => h e (List.mem_cons_of_mem _ he))
    cases e with
    | reset o => simp [absorbedObs, trainingObs, ih']
    | step o r d t => simp [absorbedObs, trainingObs, ih']
    | setTraining b => simp [absorbedObs, trainingObs, ih']
    | setNormObs b =>
      cases b with
      | true => simp [absorbedObs, trainingObs, ih']
      | false => exact absurd rfl (h _ (List.mem_cons_self ..))
    | setNormRew b => simp [absorbedObs, trainingObs, ih']
    | saveLoad => simp [absorbedObs, trainingObs, ih']

/-! ### Return accumulators -/

theorem discRet_nil (γ : α) : discRet γ [] = 0 := rfl

theorem discRet_snoc (γ : α) (l : List α) (x : α) : discRet γ (l ++ [x]) = discRet γ l * γ + x := by
  simp [discRet, List.foldl_append]

/-- closed form: `Σ_i γ^(n-1-i) · r_i` -/
theorem discRet_closed (γ : α) (rs : List α) :
    discRet γ rs = ∑ i ∈ Finset.range rs.length, γ ^ (rs.length - 1 - i) * rs.getD i 0 := by
  induction rs using List.reverseRecOn with
  | nil => simp [discRet]
  | append_singleton l x ih =>
    rw [discRet_snoc, ih, List.length_append, List.length_singleton, Finset.sum_range_succ, Finset.sum_mul]
    congr 1
    · apply Finset.sum_congr rfl
      intro i hi
      have hi' : i < l.length := Finset.mem_range.mp hi
      have h1 : l.length + 1 - 1 - i = (l.length - 1 - i) + 1 := by omega
      rw [h1, pow_succ, List.getD_eq_getElem?_getD, List.getD_eq_getElem?_getD, List.getElem?_append_left hi']
      ring
    · simp

theorem zipWith_acc_step (γ : α) (acc : List (List α)) (rew : List α) :
    List.zipWith (fun R x => R * γ + x) (acc.map (discRet γ)) rew =
      (List.zipWith (fun l x => l ++ [x]) acc rew).map (discRet γ) := by
  rw [List.zipWith_map_left, List.map_zipWith]
  congr 1
  funext l x
  exact (discRet_snoc γ l x).symm

theorem zipWith_acc_mask (γ : α) (d : List Bool) (acc : List (List α)) :
    List.zipWith (fun dn R => if dn then 0 else R) d (acc.map (discRet γ)) =
      (List.zipWith (fun dn l => if dn then [] else l) d acc).map (discRet γ) := by
  rw [List.zipWith_map_right, List.map_zipWith]
  congr 1
  funext dn l
  cases dn <;> simp [discRet_nil]

/-- **Return statistics and accumulators along any history**: the accumulator of every environment is the
discounted sum of the rewards `retTrace` lists for it, and `ret_rms` is the fold of `update` over the
vectors of those discounted returns, one per training-mode step. -/
theorem run_ret (s : VN α) (acc : List (List α)) (evs : List (Ev α))
    (hacc : s.returns = acc.map (discRet s.cfg.gamma)) :
    (s.run evs).returns = (retTrace s.cfg.gamma s.nEnvs s.training acc evs).1.map (discRet s.cfg.gamma) ∧
    (s.run evs).retRms = updateAll s.retRms (retTrace s.cfg.gamma s.nEnvs s.training acc evs).2 ∧
    (s.run evs).cfg = s.cfg ∧ (s.run evs).nEnvs = s.nEnvs := by
  induction evs generalizing s acc with
  | nil => exact ⟨hacc, rfl, rfl, rfl⟩
  | cons e evs ih =>
    rw [run_cons]
    cases e with
    | reset o =>
      have hf := reset_flags s o
      have hr := reset_ret s o
      have key : s.apply (Ev.reset o) = (s.reset o).1 := rfl
      rw [key]
      have h := ih (s.reset o).1 (List.replicate s.nEnvs []) (by
        rw [hr.2, List.map_replicate, discRet_nil])
      rw [hf.2.2.2.1, hf.2.2.2.2.1, hf.1, hr.1] at h
      exact h
    | step o r d t =>
      have hf := stepWait_flags s o r d t
      have key : s.apply (Ev.step o r d t) = (s.stepWait o r d t).1 := rfl
      rw [key]
      cases htr : s.training with
      | true =>
        have hret : (s.stepWait o r d t).1.returns =
            (List.zipWith (fun dn l => if dn then [] else l) d
              (List.zipWith (fun l x => l ++ [x]) acc r)).map (discRet s.cfg.gamma) := by
          rw [stepWait_returns, htr, if_pos rfl, hacc, zipWith_acc_step, zipWith_acc_mask]
        have h := ih (s.stepWait o r d t).1 _ (by rw [hf.2.2.2.1]; exact hret)
        rw [hf.2.2.2.1, hf.2.2.2.2.1, hf.1, htr, stepWait_retRms, htr, if_pos rfl, hacc, zipWith_acc_step] at h
        exact h
      | false =>
        have hret : (s.stepWait o r d t).1.returns =
            (List.zipWith (fun dn l => if dn then [] else l) d acc).map (discRet s.cfg.gamma) := by
          rw [stepWait_returns, htr, if_neg (by simp), hacc, zipWith_acc_mask]
        have h := ih (s.stepWait o r d t).1 _ (by rw [hf.2.2.2.1]; exact hret)
        rw [hf.2.2.2.1, hf.2.2.2.2.1, hf.1, htr, stepWait_retRms, htr, if_neg (by simp)] at h
        exact h
    | setTraining b => exact ih (s.apply (Ev.setTraining b)) acc hacc
    | setNormObs b => exact ih (s.apply (Ev.setNormObs b)) acc hacc
    | setNormRew b => exact ih (s.apply (Ev.setNormRew b)) acc hacc
    | saveLoad =>
      exact ih (s.apply Ev.saveLoad) (List.replicate s.nEnvs []) (by
        show List.replicate s.nEnvs 0 = _
        rw [List.map_replicate, discRet_nil])

/-! ### Frozen when not training -/

theorem apply_frozen (s : VN α) (e : Ev α) (h : s.training = false) (he : e ≠ Ev.setTraining true) :
    (s.apply e).training = false ∧ (s.apply e).obsRms = s.obsRms ∧ (s.apply e).retRms = s.retRms := by
  cases e with
  | reset o =>
    have hf := reset_flags s o
    refine ⟨by simp [VN.apply, hf.1, h], ?_, (reset_ret s o).1⟩
    simp [VN.apply, reset_obsRms, h]
  | step o r d t =>
    have hf := stepWait_flags s o r d t
    refine ⟨by simp [VN.apply, hf.1, h], ?_, ?_⟩
    · simp [VN.apply, stepWait_obsRms, h]
    · simp [VN.apply, stepWait_retRms, h]
  | setTraining b =>
    cases b with
    | true => exact absurd rfl he
    | false => exact ⟨rfl, rfl, rfl⟩
  | setNormObs b => exact ⟨h, rfl, rfl⟩
  | setNormRew b => exact ⟨h, rfl, rfl⟩
  | saveLoad => exact ⟨h, rfl, rfl⟩

theorem run_frozen (s : VN α) (evs : List (Ev α)) (h : s.training = false)
    (he : ∀ e ∈ evs, e ≠ Ev.setTraining true) :
    (s.run evs).obsRms = s.obsRms ∧ (s.run evs).retRms = s.retRms := by
  induction evs generalizing s with
  | nil => exact ⟨rfl, rfl⟩
  | cons e evs ih =>
    have h1 := apply_frozen s e h (he e (List.mem_cons_self ..))
    have h2 := ih (s.apply e) h1.1 (fun e' he' => he e' (List.mem_cons_of_mem _ he'))
    rw [run_cons]
    exact ⟨h2.1.trans h1.2.1, h2.2.trans h1.2.2⟩


/-- with training on throughout, the accumulator's reward lists are all the rewards of the running episodes -/
theorem retTrace_eq_episodeRewards (γ : α) (n : ℕ) (acc : List (List α)) (evs : List (Ev α))
    (h : ∀ e ∈ evs, e ≠ Ev.setTraining false) :
    (retTrace γ n true acc evs).1 = episodeRewards n acc evs := by
  induction evs generalizing acc with
  | nil => rfl
  | cons e evs ih =>
    have ih' := fun acc => ih acc (fun e he => h e (List.mem_cons_of_mem _ he))
    cases e with
    | reset o => simpa [retTrace, episodeRewards] using ih' _
    | step o r d t => simpa [retTrace, episodeRewards] using ih' _
    | setTraining b =>
      cases b with
      | true => simpa [retTrace, episodeRewards] using ih' _
      | false => exact absurd rfl (h _ (List.mem_cons_self ..))
    | setNormObs b => simpa [retTrace, episodeRewards] using ih' _
    | setNormRew b => simpa [retTrace, episodeRewards] using ih' _
    | saveLoad => simpa [retTrace, episodeRewards] using ih' _

/-! ### The `AttributeError` of a missing `obs_rms` -/

theorem apply_hasObsRms (s : VN α) (e : Ev α) : (s.apply e).hasObsRms = s.hasObsRms := by
  cases e with
  | reset o => exact (reset_flags s o).2.2.2.2.2
  | step o r d t => exact (stepWait_flags s o r d t).2.2.2.2.2
  | setTraining b => rfl
  | setNormObs b => rfl
  | setNormRew b => rfl
  | saveLoad => rfl

/-- a wrapper that has its `obs_rms` never raises -/
theorem run?_eq_run (s : VN α) (evs : List (Ev α)) (h : s.hasObsRms = true) : s.run? evs = some (s.run evs) := by
  induction evs generalizing s with
  | nil => rfl
  | cons e evs ih =>
    have hne : s.obsError = false := by simp [VN.obsError, h]
    have happ : s.apply? e = some (s.apply e) := by
      cases e <;> simp [VN.apply?, hne]
    simp only [VN.run?, happ]
    rw [run_cons]
    exact ih _ (by rw [apply_hasObsRms]; exact h)

end SB3Verif.Lemmas.VecNorm

/-! ### The two square roots used: `Real.sqrt` (theorems instantiate here) and `ratSqrt` (the driver runs this) -/

namespace SB3Verif.VecNorm

noncomputable instance instHasSqrtReal : HasSqrt ℝ := ⟨Real.sqrt⟩

end SB3Verif.VecNorm

namespace SB3Verif.Lemmas.VecNorm

open SB3Verif.RMS SB3Verif.VecNorm

theorem sd_pos_real (m : Mom ℝ) (eps : ℝ) (h : 0 < m.var + eps) : 0 < sd m eps :=
  Real.sqrt_pos.mpr h

theorem ratSqrt_pos (q : ℚ) (h : 0 < q) : 0 < ratSqrt q := by
  have hnum : 0 < q.num := Rat.num_pos.mpr h
  unfold ratSqrt
  rw [if_neg (not_le.mpr hnum)]
  simp only []
  rw [Rat.mkRat_eq_div]
  have hden : 0 < q.den := q.den_pos
  have hN : 0 < q.num.toNat * q.den * (2 ^ 64 * 2 ^ 64) := by
    have : 0 < q.num.toNat := by omega
    positivity
  have hs : 0 < Nat.sqrt (q.num.toNat * q.den * (2 ^ 64 * 2 ^ 64)) := Nat.sqrt_pos.mpr hN
  apply div_pos
  · exact_mod_cast hs
  · positivity

theorem sd_pos_rat (m : Mom ℚ) (eps : ℚ) (h : 0 < m.var + eps) : 0 < sd m eps := ratSqrt_pos _ h

/-- the executed square root never exceeds the true one -/
theorem ratSqrt_sq_le (q : ℚ) (h : 0 < q) : ratSqrt q * ratSqrt q ≤ q := by
  have hnum : 0 < q.num := Rat.num_pos.mpr h
  unfold ratSqrt
  rw [if_neg (not_le.mpr hnum)]
  simp only []
  rw [Rat.mkRat_eq_div]
  have hden : (0 : ℚ) < q.den := by exact_mod_cast q.den_pos
  set N := q.num.toNat * q.den * (2 ^ 64 * 2 ^ 64) with hNdef
  have hle : Nat.sqrt N * Nat.sqrt N ≤ N := by have := Nat.sqrt_le' N; rwa [pow_two] at this
  have hleQ : ((Nat.sqrt N : ℕ) : ℚ) * (Nat.sqrt N : ℕ) ≤ (N : ℚ) := by exact_mod_cast hle
  have hq : q = (q.num.toNat : ℚ) / q.den := by
    have : ((q.num.toNat : ℕ) : ℤ) = q.num := Int.toNat_of_nonneg hnum.le
    have h2 : ((q.num.toNat : ℕ) : ℚ) = (q.num : ℚ) := by exact_mod_cast this
    rw [h2]; exact (Rat.num_div_den q).symm
  have hNQ : (N : ℚ) = (q.num.toNat : ℚ) * q.den * (2 ^ 64 * 2 ^ 64) := by
    rw [hNdef]; push_cast; ring
  rw [hNQ] at hleQ
  conv_rhs => rw [hq]
  push_cast
  rw [div_mul_div_comm, div_le_div_iff₀ (by positivity) hden]
  nlinarith [hleQ, hden]

/-- … and misses it by less than one unit of `1 / (den · 2⁶⁴)` -/
theorem lt_ratSqrt_succ_sq (q : ℚ) (h : 0 < q) :
    q < (ratSqrt q + 1 / ((q.den : ℚ) * 2 ^ 64)) * (ratSqrt q + 1 / ((q.den : ℚ) * 2 ^ 64)) := by
  have hnum : 0 < q.num := Rat.num_pos.mpr h
  unfold ratSqrt
  rw [if_neg (not_le.mpr hnum)]
  simp only []
  rw [Rat.mkRat_eq_div]
  have hden : (0 : ℚ) < q.den := by exact_mod_cast q.den_pos
  set N := q.num.toNat * q.den * (2 ^ 64 * 2 ^ 64) with hNdef
  have hlt : N < (Nat.sqrt N + 1) * (Nat.sqrt N + 1) := by
    have := Nat.lt_succ_sqrt' N; rwa [pow_two] at this
  have hltQ : (N : ℚ) < (((Nat.sqrt N : ℕ) : ℚ) + 1) * (((Nat.sqrt N : ℕ) : ℚ) + 1) := by exact_mod_cast hlt
  have hq : q = (q.num.toNat : ℚ) / q.den := by
    have : ((q.num.toNat : ℕ) : ℤ) = q.num := Int.toNat_of_nonneg hnum.le
    have h2 : ((q.num.toNat : ℕ) : ℚ) = (q.num : ℚ) := by exact_mod_cast this
    rw [h2]; exact (Rat.num_div_den q).symm
  have hNQ : (N : ℚ) = (q.num.toNat : ℚ) * q.den * (2 ^ 64 * 2 ^ 64) := by
    rw [hNdef]; push_cast; ring
  rw [hNQ] at hltQ
  have hD : (((q.den * 2 ^ 64 : ℕ)) : ℚ) = (q.den : ℚ) * 2 ^ 64 := by push_cast; ring
  rw [hD, Int.cast_natCast]
  conv_lhs => rw [hq]
  have e : ((Nat.sqrt N : ℕ) : ℚ) / ((q.den : ℚ) * 2 ^ 64) + 1 / ((q.den : ℚ) * 2 ^ 64) =
      (((Nat.sqrt N : ℕ) : ℚ) + 1) / ((q.den : ℚ) * 2 ^ 64) := by ring
  rw [e, div_mul_div_comm, div_lt_div_iff₀ hden (by positivity)]
  nlinarith [hltQ, hden]

end SB3Verif.Lemmas.VecNorm
