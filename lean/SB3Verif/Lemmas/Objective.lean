/-
Helper lemmas for C07 (model: `SB3Verif/Model/Objective.lean`).

The ℝ instance of `OScalar` lives here: the theorems of `Props/C07.lean` are statements about the *same*
generic definitions the driver executes at `Float`, instantiated at ℝ with Mathlib's `Real.exp`, `Real.sqrt`.
-/
import SB3Verif.Model.Objective
import Mathlib.Analysis.SpecialFunctions.ExpDeriv
import Mathlib.Analysis.Calculus.Deriv.Mul
import Mathlib.Analysis.Calculus.Deriv.Add
import Mathlib.Analysis.Real.Sqrt
import Mathlib.Tactic.Ring
import Mathlib.Tactic.Linarith
import Mathlib.Tactic.FieldSimp

namespace SB3Verif.Lemmas.Objective

open SB3Verif.Objective
open Filter Topology

/-- The ℝ instance: Mathlib's real functions; `≤` is decided classically. -/
noncomputable instance instOScalarReal : OScalar ℝ where
  ofNat n := (n : ℝ)
  exp := Real.exp
  sqrt := Real.sqrt
  le a b := decide (a ≤ b)

/-! ### unfolding the class operations at ℝ -/

@[simp] theorem ofNat_real (n : ℕ) : (OScalar.ofNat n : ℝ) = (n : ℝ) := rfl
@[simp] theorem exp_real (x : ℝ) : OScalar.exp x = Real.exp x := rfl
@[simp] theorem sqrt_real (x : ℝ) : OScalar.sqrt x = Real.sqrt x := rfl
@[simp] theorem le_real (a b : ℝ) : OScalar.le a b = decide (a ≤ b) := rfl

@[simp] theorem zero_real : (zero : ℝ) = 0 := by simp [zero]
@[simp] theorem one_real : (one : ℝ) = 1 := by simp [one]
@[simp] theorem two_real : (two : ℝ) = 2 := by simp [two]
@[simp] theorem half_real : (half : ℝ) = 1 / 2 := by simp [half]
@[simp] theorem eps8_real : (eps8 : ℝ) = 1 / 100000000 := by simp [eps8]
@[simp] theorem eps6_real : (eps6 : ℝ) = 1 / 1000000 := by simp [eps6]

@[simp] theorem sum_real (l : List ℝ) : SB3Verif.Objective.sum l = l.sum := by
  induction l with
  | nil => simp [SB3Verif.Objective.sum]
  | cons x xs ih =>
    simp only [SB3Verif.Objective.sum, List.foldr_cons, List.sum_cons] at ih ⊢
    rw [ih]

@[simp] theorem max'_real (a b : ℝ) : max' a b = max a b := by
  simp only [max', le_real, decide_eq_true_eq]
  split_ifs with h
  · exact (max_eq_right h).symm
  · exact (max_eq_left (le_of_not_ge h)).symm

@[simp] theorem min'_real (a b : ℝ) : min' a b = min a b := by
  simp only [min', le_real, decide_eq_true_eq]
  split_ifs with h
  · exact (min_eq_left h).symm
  · exact (min_eq_right (le_of_not_ge h)).symm

@[simp] theorem abs'_real (x : ℝ) : abs' x = |x| := by
  simp only [abs', le_real, ofNat_real, Nat.cast_zero, decide_eq_true_eq]
  split_ifs with h
  · exact (abs_of_nonneg h).symm
  · exact (abs_of_neg (lt_of_not_ge h)).symm

@[simp] theorem sq_real (x : ℝ) : SB3Verif.Objective.sq x = x * x := rfl

@[simp] theorem clamp_real (lo hi x : ℝ) : clamp lo hi x = min (max x lo) hi := by
  simp [clamp]

theorem meanMap_real {σ : Type} (f : σ → ℝ) (S : List σ) :
    meanMap f S = (S.map f).sum / (S.length : ℝ) := by
  simp [meanMap]

@[simp] theorem ratio_real (x o : ℝ) : ratio x o = Real.exp (x - o) := rfl

/-- transport a derivative statement along pointwise equal functions / equal derivative values -/
theorem hasDerivAt_of_eq {f g : ℝ → ℝ} {d d' x : ℝ} (h : HasDerivAt g d' x) (hf : ∀ y, f y = g y)
    (hd : d = d') : HasDerivAt f d x := by
  have e : f = g := funext hf
  subst e; subst hd; exact h

/-! ### the mean over a batch: replacing one sample -/

theorem sum_map_set {σ : Type} (f : σ → ℝ) :
    ∀ (S : List σ) (j : ℕ) (hj : j < S.length) (s : σ),
      ((S.set j s).map f).sum = (S.map f).sum - f S[j] + f s := by
  intro S
  induction S with
  | nil => intro j hj; simp at hj
  | cons a S ih =>
    intro j hj s
    cases j with
    | zero => simp; ring
    | succ j =>
      have hj' : j < S.length := by simpa using hj
      simp only [List.set_cons_succ, List.map_cons, List.sum_cons, List.getElem_cons_succ]
      rw [ih j hj' s]; ring

/-- **The 1/B factor.**  If the per-sample term has derivative `d` in the varied output, the batch mean
has derivative `d / B`. -/
theorem hasDerivAt_meanMap_set {σ : Type} (f : σ → ℝ) (S : List σ) (j : ℕ) (hj : j < S.length)
    (upd : ℝ → σ) (d x₀ : ℝ) (h : HasDerivAt (fun x => f (upd x)) d x₀) :
    HasDerivAt (fun x => meanMap f (S.set j (upd x))) (d / (S.length : ℝ)) x₀ := by
  have e : (fun x => meanMap f (S.set j (upd x)))
      = fun x => ((S.map f).sum - f S[j] + f (upd x)) / (S.length : ℝ) := by
    funext x
    rw [meanMap_real, sum_map_set f S j hj, List.length_set]
  rw [e]
  have := ((hasDerivAt_const x₀ ((S.map f).sum - f S[j])).add h).div_const (S.length : ℝ)
  simpa using this

/-- the batch mean does not move when the varied output does not enter the per-sample term -/
theorem hasDerivAt_meanMap_set_const {σ : Type} (f : σ → ℝ) (S : List σ) (j : ℕ) (hj : j < S.length)
    (upd : ℝ → σ) (x₀ : ℝ) (h : ∀ x, f (upd x) = f (upd x₀)) :
    HasDerivAt (fun x => meanMap f (S.set j (upd x))) 0 x₀ := by
  have h0 : HasDerivAt (fun x => f (upd x)) 0 x₀ := by
    have : (fun x => f (upd x)) = fun _ => f (upd x₀) := funext h
    rw [this]; exact hasDerivAt_const x₀ _
  simpa using hasDerivAt_meanMap_set f S j hj upd 0 x₀ h0

/-! ### the clipped surrogate -/

theorem hasDerivAt_ratio (o x₀ : ℝ) :
    HasDerivAt (fun x => Real.exp (x - o)) (Real.exp (x₀ - o)) x₀ := by
  simpa using ((hasDerivAt_id x₀).sub_const o).exp

theorem surr_real (ε A r : ℝ) :
    surr ε A r = min (A * r) (A * min (max r (1 - ε)) (1 + ε)) := by
  simp [surr]

theorem surrGrad_real (ε A o x : ℝ) :
    surrGrad ε A o x =
      if A * Real.exp (x - o) ≤ A * min (max (Real.exp (x - o)) (1 - ε)) (1 + ε)
      then A * Real.exp (x - o) else 0 := by
  simp [surrGrad]

/-- Away from the kinks `ratio = 1 ± ε` the stated cotangent is the derivative of the per-sample clipped
surrogate with respect to the log-probability. -/
theorem surr_hasDerivAt (ε A o x₀ : ℝ) (hε : 0 ≤ ε)
    (h1 : Real.exp (x₀ - o) ≠ 1 - ε) (h2 : Real.exp (x₀ - o) ≠ 1 + ε) :
    HasDerivAt (fun x => surr ε A (ratio x o)) (surrGrad ε A o x₀) x₀ := by
  have hr := hasDerivAt_ratio o x₀
  have hAr : HasDerivAt (fun x => A * Real.exp (x - o)) (A * Real.exp (x₀ - o)) x₀ := hr.const_mul A
  have hc : Tendsto (fun x => Real.exp (x - o)) (𝓝 x₀) (𝓝 (Real.exp (x₀ - o))) := hr.continuousAt.tendsto
  simp only [surr_real, ratio_real, surrGrad_real]
  set r₀ := Real.exp (x₀ - o) with hr₀
  rcases lt_trichotomy r₀ (1 - ε) with hlo | heq | hgt
  · -- below the clip range: clamp = 1 - ε
    have ev : ∀ᶠ x in 𝓝 x₀, Real.exp (x - o) < 1 - ε := hc.eventually_lt_const hlo
    have cl : ∀ r : ℝ, r < 1 - ε → min (max r (1 - ε)) (1 + ε) = 1 - ε := by
      intro r hr
      rw [max_eq_right hr.le, min_eq_left (by linarith)]
    rw [cl r₀ hlo]
    rcases lt_trichotomy A 0 with hA | hA | hA
    · have hn : ¬ (A * r₀ ≤ A * (1 - ε)) := by
        intro h; nlinarith
      rw [if_neg hn]
      refine (hasDerivAt_const x₀ (A * (1 - ε))).congr_of_eventuallyEq ?_
      filter_upwards [ev] with x hx
      rw [cl _ hx]
      apply min_eq_right; nlinarith
    · subst hA
      simp only [zero_mul, le_refl, if_true, min_self]
      exact hasDerivAt_const x₀ 0
    · have hp : A * r₀ ≤ A * (1 - ε) := by nlinarith
      rw [if_pos hp]
      refine hAr.congr_of_eventuallyEq ?_
      filter_upwards [ev] with x hx
      rw [cl _ hx]
      apply min_eq_left; nlinarith
  · exact absurd heq h1
  · rcases lt_trichotomy r₀ (1 + ε) with hin | heq | hhi
    · -- inside the clip range: clamp = r
      have ev1 : ∀ᶠ x in 𝓝 x₀, 1 - ε < Real.exp (x - o) := hc.eventually_const_lt hgt
      have ev2 : ∀ᶠ x in 𝓝 x₀, Real.exp (x - o) < 1 + ε := hc.eventually_lt_const hin
      have cl : ∀ r : ℝ, 1 - ε < r → r < 1 + ε → min (max r (1 - ε)) (1 + ε) = r := by
        intro r ha hb
        rw [max_eq_left ha.le, min_eq_left hb.le]
      rw [cl r₀ hgt hin, if_pos le_rfl]
      refine hAr.congr_of_eventuallyEq ?_
      filter_upwards [ev1, ev2] with x hx1 hx2
      rw [cl _ hx1 hx2, min_self]
    · exact absurd heq h2
    · -- above the clip range: clamp = 1 + ε
      have ev : ∀ᶠ x in 𝓝 x₀, 1 + ε < Real.exp (x - o) := hc.eventually_const_lt hhi
      have cl : ∀ r : ℝ, 1 + ε < r → min (max r (1 - ε)) (1 + ε) = 1 + ε := by
        intro r hr
        rw [max_eq_left (by linarith), min_eq_right hr.le]
      rw [cl r₀ hhi]
      rcases lt_trichotomy A 0 with hA | hA | hA
      · have hp : A * r₀ ≤ A * (1 + ε) := by nlinarith
        rw [if_pos hp]
        refine hAr.congr_of_eventuallyEq ?_
        filter_upwards [ev] with x hx
        rw [cl _ hx]
        apply min_eq_left; nlinarith
      · subst hA
        simp only [zero_mul, le_refl, if_true, min_self]
        exact hasDerivAt_const x₀ 0
      · have hn : ¬ (A * r₀ ≤ A * (1 + ε)) := by
          intro h; nlinarith
        rw [if_neg hn]
        refine (hasDerivAt_const x₀ (A * (1 + ε))).congr_of_eventuallyEq ?_
        filter_upwards [ev] with x hx
        rw [cl _ hx]
        apply min_eq_right; nlinarith

/-! ### value loss -/

theorem valuePred_hasDerivAt (cv : Option ℝ) (s : PGSample ℝ)
    (hk : ∀ c, cv = some c → 0 ≤ c ∧ s.value - s.oldValue ≠ c ∧ s.value - s.oldValue ≠ -c) :
    HasDerivAt (fun v => valuePred cv { s with value := v }) (valuePredGrad cv s) s.value := by
  cases cv with
  | none =>
    simp only [valuePred, valuePredGrad, one_real]
    exact hasDerivAt_id s.value
  | some c =>
    obtain ⟨hc, hne1, hne2⟩ := hk c rfl
    simp only [valuePred, valuePredGrad, clamp_real, le_real, Bool.and_eq_true, decide_eq_true_eq,
      one_real, zero_real]
    have hd : HasDerivAt (fun v : ℝ => v - s.oldValue) 1 s.value := (hasDerivAt_id s.value).sub_const _
    have hcont : Tendsto (fun v : ℝ => v - s.oldValue) (𝓝 s.value) (𝓝 (s.value - s.oldValue)) :=
      hd.continuousAt.tendsto
    rcases lt_trichotomy (s.value - s.oldValue) (-c) with hlo | heq | hgt
    · have hn : ¬ (-c ≤ s.value - s.oldValue ∧ s.value - s.oldValue ≤ c) := fun h => by linarith [h.1]
      rw [if_neg hn]
      have ev : ∀ᶠ v in 𝓝 s.value, v - s.oldValue < -c := hcont.eventually_lt_const hlo
      refine (hasDerivAt_const s.value (s.oldValue + -c)).congr_of_eventuallyEq ?_
      filter_upwards [ev] with v hv
      show s.oldValue + min (max (v - s.oldValue) (-c)) c = s.oldValue + -c
      rw [max_eq_right hv.le, min_eq_left (by linarith)]
    · exact absurd heq hne2
    · rcases lt_trichotomy (s.value - s.oldValue) c with hin | heq | hhi
      · rw [if_pos ⟨hgt.le, hin.le⟩]
        have ev1 : ∀ᶠ v in 𝓝 s.value, -c < v - s.oldValue := hcont.eventually_const_lt hgt
        have ev2 : ∀ᶠ v in 𝓝 s.value, v - s.oldValue < c := hcont.eventually_lt_const hin
        have hid : HasDerivAt (fun v : ℝ => s.oldValue + (v - s.oldValue)) 1 s.value := by
          simpa using hd.const_add s.oldValue
        refine hid.congr_of_eventuallyEq ?_
        filter_upwards [ev1, ev2] with v hv1 hv2
        show s.oldValue + min (max (v - s.oldValue) (-c)) c = s.oldValue + (v - s.oldValue)
        rw [max_eq_left hv1.le, min_eq_left hv2.le]
      · exact absurd heq hne1
      · have hn : ¬ (-c ≤ s.value - s.oldValue ∧ s.value - s.oldValue ≤ c) := fun h => by linarith [h.2]
        rw [if_neg hn]
        have ev : ∀ᶠ v in 𝓝 s.value, c < v - s.oldValue := hcont.eventually_const_lt hhi
        refine (hasDerivAt_const s.value (s.oldValue + c)).congr_of_eventuallyEq ?_
        filter_upwards [ev] with v hv
        show s.oldValue + min (max (v - s.oldValue) (-c)) c = s.oldValue + c
        rw [max_eq_left (by linarith), min_eq_right hv.le]

theorem valueTerm_hasDerivAt (cv : Option ℝ) (s : PGSample ℝ)
    (hk : ∀ c, cv = some c → 0 ≤ c ∧ s.value - s.oldValue ≠ c ∧ s.value - s.oldValue ≠ -c) :
    HasDerivAt (fun v => valueTerm cv { s with value := v })
      (-(2 * (s.ret - valuePred cv s) * valuePredGrad cv s)) s.value := by
  have hp := valuePred_hasDerivAt cv s hk
  have hsub := (hasDerivAt_const s.value s.ret).sub hp
  have hm := hsub.mul hsub
  simp only [valueTerm, sq_real]
  refine hasDerivAt_of_eq hm (fun y => rfl) ?_
  show _ = (0 - valuePredGrad cv s) * (s.ret - valuePred cv s) + (s.ret - valuePred cv s) * (0 - valuePredGrad cv s)
  ring

/-! ### Huber loss (β = 1) -/

theorem smoothL1_real (x : ℝ) : smoothL1 x = if 1 ≤ |x| then |x| - 1 / 2 else 1 / 2 * x * x := by
  simp [smoothL1]

theorem smoothL1Grad_real (x : ℝ) : smoothL1Grad x = min (max x (-1)) 1 := by
  simp [smoothL1Grad]

theorem hasDerivAt_half_sq (x : ℝ) : HasDerivAt (fun y : ℝ => 1 / 2 * y * y) x x := by
  have h := ((hasDerivAt_id x).const_mul (1 / 2 : ℝ)).mul (hasDerivAt_id x)
  refine hasDerivAt_of_eq h (fun y => rfl) ?_
  show x = 1 / 2 * 1 * x + 1 / 2 * x * 1
  ring

/-- glue two differentiable pieces with matching value and slope at the junction -/
theorem hasDerivAt_glue (f g h : ℝ → ℝ) (a d : ℝ)
    (hg : HasDerivAt g d a) (hh : HasDerivAt h d a)
    (el : ∀ᶠ x in 𝓝 a, x ≤ a → f x = g x) (er : ∀ᶠ x in 𝓝 a, a ≤ x → f x = h x) :
    HasDerivAt f d a := by
  have fa_g : f a = g a := el.self_of_nhds le_rfl
  have fa_h : f a = h a := er.self_of_nhds le_rfl
  have l : HasDerivWithinAt f d (Set.Iic a) a := by
    refine hg.hasDerivWithinAt.congr_of_eventuallyEq ?_ fa_g
    rw [Filter.EventuallyEq, eventually_nhdsWithin_iff]
    filter_upwards [el] with x hx hmem using hx hmem
  have r : HasDerivWithinAt f d (Set.Ici a) a := by
    refine hh.hasDerivWithinAt.congr_of_eventuallyEq ?_ fa_h
    rw [Filter.EventuallyEq, eventually_nhdsWithin_iff]
    filter_upwards [er] with x hx hmem using hx hmem
  have u := l.union r
  rwa [Set.Iic_union_Ici, hasDerivWithinAt_univ] at u

/-- The Huber loss is differentiable **everywhere** (also at `|x| = 1`), with derivative `clamp x (-1) 1`. -/
theorem smoothL1_hasDerivAt (x₀ : ℝ) : HasDerivAt smoothL1 (smoothL1Grad x₀) x₀ := by
  have e : (smoothL1 : ℝ → ℝ) = fun x => if 1 ≤ |x| then |x| - 1 / 2 else 1 / 2 * x * x :=
    funext smoothL1_real
  rw [e, smoothL1Grad_real]
  have hlin : ∀ a : ℝ, HasDerivAt (fun y : ℝ => y - 1 / 2) 1 a := fun a => (hasDerivAt_id a).sub_const _
  have hneg : ∀ a : ℝ, HasDerivAt (fun y : ℝ => -y - 1 / 2) (-1) a := fun a =>
    ((hasDerivAt_id a).neg).sub_const _
  rcases lt_trichotomy x₀ (-1) with h | h | h
  · -- x < -1
    rw [max_eq_right h.le, min_eq_left (by norm_num)]
    refine (hneg x₀).congr_of_eventuallyEq ?_
    filter_upwards [eventually_lt_nhds h] with x hx
    have : |x| = -x := abs_of_neg (by linarith)
    rw [if_pos (by rw [this]; linarith), this]
  · -- x = -1
    subst h
    rw [max_eq_left le_rfl, min_eq_left (by norm_num)]
    refine hasDerivAt_glue _ (fun y => -y - 1 / 2) (fun y => 1 / 2 * y * y) (-1) (-1) (hneg _)
      (hasDerivAt_half_sq (-1)) ?_ ?_
    · filter_upwards with x hx
      have : |x| = -x := abs_of_nonpos (by linarith)
      rw [if_pos (by rw [this]; linarith), this]
    · filter_upwards [eventually_lt_nhds (show (-1 : ℝ) < 1 by norm_num)] with x hx1 hx
      rcases eq_or_lt_of_le hx with hx' | hx'
      · subst hx'; norm_num
      · rw [if_neg]
        rw [not_le, abs_lt]; exact ⟨hx', hx1⟩
  · rcases lt_trichotomy x₀ 1 with h' | h' | h'
    · -- |x| < 1
      rw [max_eq_left h.le, min_eq_left h'.le]
      refine (hasDerivAt_half_sq x₀).congr_of_eventuallyEq ?_
      filter_upwards [eventually_gt_nhds h, eventually_lt_nhds h'] with x hx1 hx2
      rw [if_neg]
      rw [not_le, abs_lt]; exact ⟨hx1, hx2⟩
    · -- x = 1
      subst h'
      rw [max_eq_left (by norm_num), min_eq_left le_rfl]
      refine hasDerivAt_glue _ (fun y => 1 / 2 * y * y) (fun y => y - 1 / 2) 1 1
        (hasDerivAt_half_sq 1) (hlin _) ?_ ?_
      · filter_upwards [eventually_gt_nhds (show (-1 : ℝ) < 1 by norm_num)] with x hx1 hx
        rcases eq_or_lt_of_le hx with hx' | hx'
        · subst hx'; norm_num
        · rw [if_neg]
          rw [not_le, abs_lt]; exact ⟨hx1, hx'⟩
      · filter_upwards with x hx
        have : |x| = x := abs_of_nonneg (by linarith)
        rw [if_pos (by rw [this]; exact hx), this]
    · -- x > 1
      rw [max_eq_left (by linarith), min_eq_right h'.le]
      refine (hlin x₀).congr_of_eventuallyEq ?_
      filter_upwards [eventually_gt_nhds h'] with x hx
      have : |x| = x := abs_of_pos (by linarith)
      rw [if_pos (by rw [this]; linarith), this]

/-! ### PPO / A2C: the three loss terms as functions of one sample's outputs -/

section pg
variable (S : List (PGSample ℝ)) (j : ℕ) (hj : j < S.length)

/-- vary the log-probability of sample `j` -/
abbrev setLogp (x : ℝ) : List (PGSample ℝ) := S.set j { S[j] with logp := x }
/-- vary the value prediction of sample `j` -/
abbrev setValue (x : ℝ) : List (PGSample ℝ) := S.set j { S[j] with value := x }
/-- vary the entropy of sample `j` -/
abbrev setEntropy (x : ℝ) : List (PGSample ℝ) := S.set j { S[j] with entropy := x }

theorem ppoPolicyLoss_hasDerivAt_logp (ε : ℝ) (hε : 0 ≤ ε)
    (h1 : ratio S[j].logp S[j].oldLogp ≠ 1 - ε) (h2 : ratio S[j].logp S[j].oldLogp ≠ 1 + ε) :
    HasDerivAt (fun x => ppoPolicyLoss ε (setLogp S j hj x))
      (-(surrGrad ε S[j].adv S[j].oldLogp S[j].logp / (S.length : ℝ))) S[j].logp := by
  have h := hasDerivAt_meanMap_set (surrTerm ε) S j hj (fun x => { S[j] with logp := x }) _ S[j].logp
    (surr_hasDerivAt ε S[j].adv S[j].oldLogp S[j].logp hε h1 h2)
  exact hasDerivAt_of_eq h.neg (fun _ => rfl) rfl

theorem a2cPolicyLoss_hasDerivAt_logp :
    HasDerivAt (fun x => a2cPolicyLoss (setLogp S j hj x)) (-(S[j].adv / (S.length : ℝ))) S[j].logp := by
  have h0 : HasDerivAt (fun x : ℝ => S[j].adv * x) S[j].adv S[j].logp := by
    simpa using (hasDerivAt_id S[j].logp).const_mul S[j].adv
  have h := hasDerivAt_meanMap_set (fun s : PGSample ℝ => s.adv * s.logp) S j hj
    (fun x => { S[j] with logp := x }) _ S[j].logp h0
  exact hasDerivAt_of_eq h.neg (fun _ => rfl) rfl

theorem ppoPolicyLoss_hasDerivAt_value (ε : ℝ) :
    HasDerivAt (fun x => ppoPolicyLoss ε (setValue S j hj x)) 0 S[j].value := by
  have h := hasDerivAt_meanMap_set_const (surrTerm ε) S j hj (fun x => { S[j] with value := x }) S[j].value
    (fun _ => rfl)
  exact hasDerivAt_of_eq h.neg (fun _ => rfl) (by simp)

theorem ppoPolicyLoss_hasDerivAt_entropy (ε : ℝ) :
    HasDerivAt (fun x => ppoPolicyLoss ε (setEntropy S j hj x)) 0 S[j].entropy := by
  have h := hasDerivAt_meanMap_set_const (surrTerm ε) S j hj (fun x => { S[j] with entropy := x }) S[j].entropy
    (fun _ => rfl)
  exact hasDerivAt_of_eq h.neg (fun _ => rfl) (by simp)

theorem a2cPolicyLoss_hasDerivAt_value :
    HasDerivAt (fun x => a2cPolicyLoss (setValue S j hj x)) 0 S[j].value := by
  have h := hasDerivAt_meanMap_set_const (fun s : PGSample ℝ => s.adv * s.logp) S j hj
    (fun x => { S[j] with value := x }) S[j].value (fun _ => rfl)
  exact hasDerivAt_of_eq h.neg (fun _ => rfl) (by simp)

theorem a2cPolicyLoss_hasDerivAt_entropy :
    HasDerivAt (fun x => a2cPolicyLoss (setEntropy S j hj x)) 0 S[j].entropy := by
  have h := hasDerivAt_meanMap_set_const (fun s : PGSample ℝ => s.adv * s.logp) S j hj
    (fun x => { S[j] with entropy := x }) S[j].entropy (fun _ => rfl)
  exact hasDerivAt_of_eq h.neg (fun _ => rfl) (by simp)

theorem valueLoss_hasDerivAt_value (cv : Option ℝ)
    (hk : ∀ c, cv = some c → 0 ≤ c ∧ S[j].value - S[j].oldValue ≠ c ∧ S[j].value - S[j].oldValue ≠ -c) :
    HasDerivAt (fun x => valueLoss cv (setValue S j hj x))
      (-(2 * (S[j].ret - valuePred cv S[j]) * valuePredGrad cv S[j]) / (S.length : ℝ)) S[j].value :=
  hasDerivAt_meanMap_set (valueTerm cv) S j hj (fun x => { S[j] with value := x }) _ S[j].value
    (valueTerm_hasDerivAt cv S[j] hk)

theorem valueLoss_hasDerivAt_logp (cv : Option ℝ) :
    HasDerivAt (fun x => valueLoss cv (setLogp S j hj x)) 0 S[j].logp :=
  hasDerivAt_meanMap_set_const (valueTerm cv) S j hj (fun x => { S[j] with logp := x }) S[j].logp
    (fun _ => by cases cv <;> rfl)

theorem valueLoss_hasDerivAt_entropy (cv : Option ℝ) :
    HasDerivAt (fun x => valueLoss cv (setEntropy S j hj x)) 0 S[j].entropy :=
  hasDerivAt_meanMap_set_const (valueTerm cv) S j hj (fun x => { S[j] with entropy := x }) S[j].entropy
    (fun _ => by cases cv <;> rfl)

theorem entropyLoss_hasDerivAt_logp (he : Bool) :
    HasDerivAt (fun x => entropyLoss he (setLogp S j hj x)) (if he then 0 else 1 / (S.length : ℝ)) S[j].logp := by
  cases he with
  | true =>
    have h := hasDerivAt_meanMap_set_const (fun s : PGSample ℝ => s.entropy) S j hj
      (fun x => { S[j] with logp := x }) S[j].logp (fun _ => rfl)
    exact hasDerivAt_of_eq h.neg (fun _ => rfl) (by simp)
  | false =>
    have h0 : HasDerivAt (fun x : ℝ => -x) (-1) S[j].logp :=
      hasDerivAt_of_eq (hasDerivAt_id S[j].logp).neg (fun _ => rfl) rfl
    have h := hasDerivAt_meanMap_set (fun s : PGSample ℝ => -s.logp) S j hj
      (fun x => { S[j] with logp := x }) _ S[j].logp h0
    exact hasDerivAt_of_eq h.neg (fun _ => rfl) (by simp; ring)

theorem entropyLoss_hasDerivAt_entropy (he : Bool) :
    HasDerivAt (fun x => entropyLoss he (setEntropy S j hj x)) (if he then -(1 / (S.length : ℝ)) else 0)
      S[j].entropy := by
  cases he with
  | true =>
    have h := hasDerivAt_meanMap_set (fun s : PGSample ℝ => s.entropy) S j hj
      (fun x => { S[j] with entropy := x }) _ S[j].entropy (hasDerivAt_id S[j].entropy)
    exact hasDerivAt_of_eq h.neg (fun _ => rfl) (by simp)
  | false =>
    have h := hasDerivAt_meanMap_set_const (fun s : PGSample ℝ => -s.logp) S j hj
      (fun x => { S[j] with entropy := x }) S[j].entropy (fun _ => rfl)
    exact hasDerivAt_of_eq h.neg (fun _ => rfl) (by simp)

theorem entropyLoss_hasDerivAt_value (he : Bool) :
    HasDerivAt (fun x => entropyLoss he (setValue S j hj x)) 0 S[j].value := by
  cases he with
  | true =>
    have h := hasDerivAt_meanMap_set_const (fun s : PGSample ℝ => s.entropy) S j hj
      (fun x => { S[j] with value := x }) S[j].value (fun _ => rfl)
    exact hasDerivAt_of_eq h.neg (fun _ => rfl) (by simp)
  | false =>
    have h := hasDerivAt_meanMap_set_const (fun s : PGSample ℝ => -s.logp) S j hj
      (fun x => { S[j] with value := x }) S[j].value (fun _ => rfl)
    exact hasDerivAt_of_eq h.neg (fun _ => rfl) (by simp)

end pg

/-! ### DQN -/

theorem dqnLoss_hasDerivAt (γ : ℝ) (S : List (QSample ℝ)) (j : ℕ) (hj : j < S.length) :
    HasDerivAt (fun x => dqnLoss γ (S.set j { S[j] with q := x }))
      (smoothL1Grad (S[j].q - dqnTarget γ S[j]) / (S.length : ℝ)) S[j].q := by
  have hc := (smoothL1_hasDerivAt (S[j].q - dqnTarget γ S[j])).comp S[j].q
    ((hasDerivAt_id S[j].q).sub_const (dqnTarget γ S[j]))
  have h0 : HasDerivAt (fun x : ℝ => smoothL1 (x - dqnTarget γ S[j]))
      (smoothL1Grad (S[j].q - dqnTarget γ S[j])) S[j].q :=
    hasDerivAt_of_eq hc (fun _ => rfl) (by simp)
  exact hasDerivAt_meanMap_set (fun s : QSample ℝ => smoothL1 (s.q - dqnTarget γ s)) S j hj
    (fun x => { S[j] with q := x }) _ S[j].q h0

/-! ### sums of finitely many differentiable terms (the critics) -/

theorem hasDerivAt_list_sum {ι : Type} (ks : List ι) (F : ι → ℝ → ℝ) (D : ι → ℝ) (x₀ : ℝ)
    (h : ∀ k ∈ ks, HasDerivAt (F k) (D k) x₀) :
    HasDerivAt (fun x => (ks.map fun k => F k x).sum) (ks.map D).sum x₀ := by
  induction ks with
  | nil => simpa using hasDerivAt_const x₀ (0 : ℝ)
  | cons k ks ih =>
    have h1 := h k (by simp)
    have h2 := ih (fun k' hk' => h k' (by simp [hk']))
    exact hasDerivAt_of_eq (h1.add h2) (fun _ => by simp) (by simp)

theorem sum_range_ite (n k : ℕ) (a : ℝ) :
    ((List.range n).map fun i => if i = k then a else 0).sum = if k < n then a else 0 := by
  induction n with
  | zero => simp
  | succ n ih =>
    rw [List.range_succ, List.map_append, List.sum_append, ih]
    by_cases h1 : k < n
    · have : n ≠ k := by omega
      simp [h1, this, Nat.lt_succ_of_lt h1]
    · by_cases h2 : n = k
      · subst h2; simp
      · have : ¬ k < n + 1 := by omega
        simp [h1, h2, this]

theorem getD_set_self (l : List ℝ) (k : ℕ) (hk : k < l.length) (x : ℝ) : (l.set k x).getD k 0 = x := by
  simp [List.getD_eq_getElem?_getD, hk]

theorem getD_set_ne (l : List ℝ) (k k' : ℕ) (h : k' ≠ k) (x : ℝ) : (l.set k x).getD k' 0 = l.getD k' 0 := by
  simp [List.getD_eq_getElem?_getD, List.getElem?_set_ne (Ne.symm h)]

section critic
variable (S : List (CriticSample ℝ)) (j : ℕ) (hj : j < S.length) (k : ℕ)

/-- vary the output of critic `k` on sample `j` -/
abbrev setQ (x : ℝ) : List (CriticSample ℝ) := S.set j { S[j] with qs := S[j].qs.set k x }

theorem mseK_hasDerivAt (y : CriticSample ℝ → ℝ) (hkq : k < S[j].qs.length) (k' : ℕ)
    (hy : ∀ x, y { S[j] with qs := S[j].qs.set k x } = y S[j]) :
    HasDerivAt (fun x => mseK y k' (setQ S j hj k x))
      (if k' = k then 2 * (S[j].qs.getD k 0 - y S[j]) / (S.length : ℝ) else 0) (S[j].qs.getD k 0) := by
  by_cases hk : k' = k
  · subst hk
    rw [if_pos rfl]
    have hs : HasDerivAt (fun x : ℝ => x - y S[j]) 1 (S[j].qs.getD k' 0) := (hasDerivAt_id _).sub_const _
    have h0 : HasDerivAt (fun x : ℝ => (x - y S[j]) * (x - y S[j])) (2 * (S[j].qs.getD k' 0 - y S[j]))
        (S[j].qs.getD k' 0) :=
      hasDerivAt_of_eq (hs.mul hs) (fun _ => rfl) (by ring)
    have h1 : HasDerivAt (fun x : ℝ => (fun s : CriticSample ℝ => SB3Verif.Objective.sq (s.qs.getD k' zero - y s))
        { S[j] with qs := S[j].qs.set k' x }) (2 * (S[j].qs.getD k' 0 - y S[j])) (S[j].qs.getD k' 0) := by
      refine hasDerivAt_of_eq h0 (fun x => ?_) rfl
      simp only [sq_real, zero_real, hy x, getD_set_self _ _ hkq]
    exact hasDerivAt_meanMap_set _ S j hj (fun x => { S[j] with qs := S[j].qs.set k' x }) _ _ h1
  · rw [if_neg hk]
    refine hasDerivAt_meanMap_set_const _ S j hj (fun x => { S[j] with qs := S[j].qs.set k x }) _ (fun x => ?_)
    simp only [zero_real, hy, getD_set_ne _ _ _ hk]

/-- sum over the critics of the per-critic mean-squared errors, as a function of one critic's output on one sample -/
theorem criticSum_hasDerivAt (y : CriticSample ℝ → ℝ) (nc : ℕ) (hk : k < nc) (hkq : k < S[j].qs.length)
    (hy : ∀ x, y { S[j] with qs := S[j].qs.set k x } = y S[j]) :
    HasDerivAt (fun x => SB3Verif.Objective.sum ((List.range nc).map fun k' => mseK y k' (setQ S j hj k x)))
      (2 * (S[j].qs.getD k 0 - y S[j]) / (S.length : ℝ)) (S[j].qs.getD k 0) := by
  have h := hasDerivAt_list_sum (List.range nc) (fun k' x => mseK y k' (setQ S j hj k x))
    (fun k' => if k' = k then 2 * (S[j].qs.getD k 0 - y S[j]) / (S.length : ℝ) else 0) (S[j].qs.getD k 0)
    (fun k' _ => mseK_hasDerivAt S j hj k y hkq k' hy)
  refine hasDerivAt_of_eq h (fun x => by rw [sum_real]) ?_
  rw [sum_range_ite, if_pos hk]

end critic

/-! ### SAC actor and temperature, TD3 actor -/

theorem sacActorLoss_hasDerivAt_logp (αc : ℝ) (S : List (ActorSample ℝ)) (j : ℕ) (hj : j < S.length) :
    HasDerivAt (fun x => sacActorLoss αc (S.set j { S[j] with logp := x })) (αc / (S.length : ℝ)) S[j].logp := by
  have h0 : HasDerivAt (fun x : ℝ => αc * x - minList S[j].qpis) αc S[j].logp := by
    simpa using ((hasDerivAt_id S[j].logp).const_mul αc).sub_const (minList S[j].qpis)
  exact hasDerivAt_meanMap_set (fun s : ActorSample ℝ => αc * s.logp - minList s.qpis) S j hj
    (fun x => { S[j] with logp := x }) _ S[j].logp h0

theorem sum_map_mul_left (c : ℝ) (f : ℝ → ℝ) (l : List ℝ) :
    (l.map fun a => c * f a).sum = c * (l.map f).sum := by
  induction l with
  | nil => simp
  | cons a l ih => simp [ih, mul_add]

theorem sacAlphaLoss_hasDerivAt (H : ℝ) (lps : List ℝ) (logα : ℝ) :
    HasDerivAt (sacAlphaLoss H lps) (sacAlphaCot H lps) logα := by
  have e : (sacAlphaLoss H lps : ℝ → ℝ) = fun x => x * sacAlphaCot H lps := by
    funext x
    simp only [sacAlphaLoss, sacAlphaCot, meanMap_real, sum_map_mul_left x (fun lp => lp + H) lps]
    ring
  rw [e]
  simpa using (hasDerivAt_id logα).mul_const (sacAlphaCot H lps)

theorem td3ActorLoss_hasDerivAt (q1s : List ℝ) (j : ℕ) (hj : j < q1s.length) :
    HasDerivAt (fun x => td3ActorLoss (q1s.set j x)) (-(1 / (q1s.length : ℝ))) q1s[j] := by
  have h := hasDerivAt_meanMap_set (fun q : ℝ => q) q1s j hj (fun x => x) 1 q1s[j] (hasDerivAt_id _)
  exact hasDerivAt_of_eq h.neg (fun _ => rfl) rfl

/-! ### gradient-norm clipping -/

theorem clipCoef_real (m n : ℝ) : clipCoef m n = min 1 (m / (n + 1 / 1000000)) := by
  simp [clipCoef]

theorem l2norm_real (g : List ℝ) : l2norm g = Real.sqrt (g.map fun x => x * x).sum := by
  simp [l2norm]
  rfl

theorem l2norm_nonneg (g : List ℝ) : 0 ≤ l2norm g := by
  rw [l2norm_real]; exact Real.sqrt_nonneg _

theorem sum_sq_nonneg (g : List ℝ) : 0 ≤ (g.map fun x => x * x).sum := by
  induction g with
  | nil => simp
  | cons a g ih => simp only [List.map_cons, List.sum_cons]; nlinarith [mul_self_nonneg a]

theorem sum_sq_map_mul (c : ℝ) (g : List ℝ) :
    ((g.map fun x => x * c).map fun x => x * x).sum = c * c * (g.map fun x => x * x).sum := by
  induction g with
  | nil => simp
  | cons a g ih => simp only [List.map_cons, List.sum_cons, ih]; ring

theorem l2norm_map_mul (c : ℝ) (hc : 0 ≤ c) (g : List ℝ) :
    l2norm (g.map fun x => x * c) = c * l2norm g := by
  rw [l2norm_real, l2norm_real, sum_sq_map_mul, Real.sqrt_mul (mul_self_nonneg c), Real.sqrt_mul_self hc]

theorem clipCoef_nonneg (m n : ℝ) (hm : 0 ≤ m) (hn : 0 ≤ n) : 0 ≤ clipCoef m n := by
  rw [clipCoef_real]
  exact le_min (by norm_num) (div_nonneg hm (by linarith))

theorem clipCoef_le_one (m n : ℝ) : clipCoef m n ≤ 1 := by
  rw [clipCoef_real]; exact min_le_left _ _

theorem clipGradNorm_eq (m : ℝ) (g : List ℝ) :
    clipGradNorm m g = g.map fun x => x * clipCoef m (l2norm g) := rfl

/-- the clipped gradient has norm at most `max_norm` -/
theorem l2norm_clip_le (m : ℝ) (hm : 0 ≤ m) (g : List ℝ) : l2norm (clipGradNorm m g) ≤ m := by
  have hn := l2norm_nonneg g
  rw [clipGradNorm_eq, l2norm_map_mul _ (clipCoef_nonneg m _ hm hn)]
  have hpos : 0 < l2norm g + 1 / 1000000 := by linarith
  have h1 : clipCoef m (l2norm g) ≤ m / (l2norm g + 1 / 1000000) := by
    rw [clipCoef_real]; exact min_le_right _ _
  calc clipCoef m (l2norm g) * l2norm g
      ≤ m / (l2norm g + 1 / 1000000) * l2norm g := mul_le_mul_of_nonneg_right h1 hn
    _ = m * (l2norm g / (l2norm g + 1 / 1000000)) := by ring
    _ ≤ m * 1 := by
        apply mul_le_mul_of_nonneg_left _ hm
        rw [div_le_one hpos]; linarith
    _ = m := mul_one m

/-- a gradient whose norm (plus `1e-6`) is within the bound is left untouched -/
theorem clip_id_of_small (m : ℝ) (g : List ℝ) (h : l2norm g + 1 / 1000000 ≤ m) : clipGradNorm m g = g := by
  have hn := l2norm_nonneg g
  have hpos : 0 < l2norm g + 1 / 1000000 := by linarith
  have hc : clipCoef m (l2norm g) = 1 := by
    rw [clipCoef_real]
    apply min_eq_left
    rw [le_div_iff₀ hpos]; linarith
  rw [clipGradNorm_eq, hc]
  simp

/-! ### sanity lemmas (mutation tripwires) -/

theorem tdTarget_real (γ r d b : ℝ) : tdTarget γ r d b = r + (1 - d) * γ * b := by
  simp [tdTarget]

theorem foldl_min_le_acc (xs : List ℝ) (a : ℝ) : xs.foldl min a ≤ a := by
  induction xs generalizing a with
  | nil => simp
  | cons x xs ih => exact (ih (min a x)).trans (min_le_left _ _)

theorem foldl_min_le_mem (xs : List ℝ) (a : ℝ) : ∀ e ∈ xs, xs.foldl min a ≤ e := by
  induction xs generalizing a with
  | nil => intro e he; simp at he
  | cons x xs ih =>
    intro e he
    rcases List.mem_cons.mp he with h | h
    · subst h; exact (foldl_min_le_acc xs (min a e)).trans (min_le_right _ _)
    · exact ih (min a x) e h

theorem foldl_min_mem (xs : List ℝ) (a : ℝ) : xs.foldl min a = a ∨ xs.foldl min a ∈ xs := by
  induction xs generalizing a with
  | nil => simp
  | cons x xs ih =>
    rcases ih (min a x) with h | h
    · rcases min_choice a x with h' | h'
      · left; simp only [List.foldl_cons]; rw [h, h']
      · right; simp only [List.foldl_cons]; rw [h, h']; simp
    · right; simp only [List.foldl_cons]; exact List.mem_cons_of_mem _ h

theorem minList_cons (x : ℝ) (xs : List ℝ) : minList (x :: xs) = xs.foldl min x := by
  have : (min' : ℝ → ℝ → ℝ) = min := by funext a b; exact min'_real a b
  simp [minList, this]

/-- the bootstrap value never exceeds any single critic's estimate -/
theorem minList_le_mem (l : List ℝ) : ∀ e ∈ l, minList l ≤ e := by
  cases l with
  | nil => intro e he; simp at he
  | cons x xs =>
    intro e he
    rw [minList_cons]
    rcases List.mem_cons.mp he with h | h
    · subst h; exact foldl_min_le_acc xs e
    · exact foldl_min_le_mem xs x e h

theorem minList_mem (l : List ℝ) (h : l ≠ []) : minList l ∈ l := by
  cases l with
  | nil => exact absurd rfl h
  | cons x xs =>
    rw [minList_cons]
    rcases foldl_min_mem xs x with h' | h'
    · rw [h']; simp
    · exact List.mem_cons_of_mem _ h'

/-- `minList` is characterised by being a lower bound that is attained -/
theorem minList_eq_of (l : List ℝ) (v : ℝ) (hv : v ∈ l) (hle : ∀ e ∈ l, v ≤ e) : minList l = v := by
  have hne : l ≠ [] := by intro h; simp [h] at hv
  exact le_antisymm (minList_le_mem l v hv) (hle _ (minList_mem l hne))

theorem td3NextAction_real (c π n : ℝ) :
    td3NextAction c π n = min (max (π + min (max n (-c)) c) (-1)) 1 := by
  simp [td3NextAction]

theorem meanMap_set_eq {σ : Type} (f : σ → ℝ) (S : List σ) (j : ℕ) (hj : j < S.length) (s : σ)
    (h : f s = f S[j]) : meanMap f (S.set j s) = meanMap f S := by
  rw [meanMap_real, meanMap_real, sum_map_set f S j hj, List.length_set, h]; ring_nf

theorem sum_map_sub_div (m d : ℝ) (l : List ℝ) :
    (l.map fun a => (a - m) / d).sum = (l.sum - (l.length : ℝ) * m) / d := by
  induction l with
  | nil => simp
  | cons a l ih => simp only [List.map_cons, List.sum_cons, ih, List.length_cons]; push_cast; ring

theorem mean_real (l : List ℝ) : mean l = l.sum / (l.length : ℝ) := by
  simp [mean, meanMap_real]

/-- normalised advantages sum to zero -/
theorem normAdv_sum_zero (l : List ℝ) (h : l ≠ []) : (normAdv l).sum = 0 := by
  have hn : (l.length : ℝ) ≠ 0 := by
    have : l.length ≠ 0 := by simpa using h
    exact_mod_cast this
  simp only [normAdv]
  rw [sum_map_sub_div, mean_real]
  have : l.sum - (l.length : ℝ) * (l.sum / (l.length : ℝ)) = 0 := by field_simp; ring
  rw [this, zero_div]

/-! ### `min` over the critics in the SAC actor loss -/

theorem argminFrom_spec (l : List ℝ) :
    ∀ (xs : List ℝ) (best : ℝ) (bi i : ℕ), l.drop i = xs → l[bi]? = some best →
      l[argminFrom best bi xs i]? = some (xs.foldl min best) := by
  intro xs
  induction xs with
  | nil => intro best bi i _ hb; simpa [argminFrom] using hb
  | cons x xs ih =>
    intro best bi i hd hb
    have hx : l[i]? = some x := by
      have := congrArg List.head? hd
      simpa [List.head?_drop] using this
    have hd' : l.drop (i + 1) = xs := by
      have := congrArg List.tail hd
      simpa [List.tail_drop] using this
    simp only [argminFrom, le_real, decide_eq_true_eq, List.foldl_cons]
    by_cases h : best ≤ x
    · rw [if_pos h, min_eq_left h]
      exact ih best bi (i + 1) hd' hb
    · rw [if_neg h, min_eq_right (le_of_not_ge h)]
      exact ih x i (i + 1) hd' hx

/-- the arg-min index points at the minimum -/
theorem getElem?_argminFirst (l : List ℝ) (h : l ≠ []) : l[argminFirst l]? = some (minList l) := by
  cases l with
  | nil => exact absurd rfl h
  | cons x xs =>
    rw [minList_cons]
    exact argminFrom_spec (x :: xs) xs x 0 1 (by simp) (by simp)

theorem minList_set_of_strict_min (l : List ℝ) (k : ℕ) (hk : k < l.length) (x : ℝ)
    (hx : ∀ i (hi : i < l.length), i ≠ k → x < l[i]) : minList (l.set k x) = x := by
  apply minList_eq_of
  · exact List.mem_iff_getElem.mpr ⟨k, by simpa using hk, by simp⟩
  · intro e he
    obtain ⟨i, hi, rfl⟩ := List.mem_iff_getElem.mp he
    have hi' : i < l.length := by simpa using hi
    by_cases hik : i = k
    · subst hik; simp
    · rw [List.getElem_set_ne (Ne.symm hik)]
      exact (hx i hi' hik).le

theorem minList_set_of_other_smaller (l : List ℝ) (k : ℕ) (hk : k < l.length) (x : ℝ)
    (i₀ : ℕ) (hi₀ : i₀ < l.length) (hlt : l[i₀] < l[k]) (hx : l[i₀] < x) :
    minList (l.set k x) = minList l := by
  have hne : l ≠ [] := by intro h; simp [h] at hk
  apply minList_eq_of
  · obtain ⟨i₁, hi₁, h1⟩ := List.mem_iff_getElem.mp (minList_mem l hne)
    have hle : minList l ≤ l[i₀] := minList_le_mem l _ (List.getElem_mem hi₀)
    have hne1 : i₁ ≠ k := by
      intro h; subst h; rw [h1] at hlt; linarith
    refine List.mem_iff_getElem.mpr ⟨i₁, by simpa using hi₁, ?_⟩
    rw [List.getElem_set_ne (Ne.symm hne1)]; exact h1
  · intro e he
    obtain ⟨i, hi, rfl⟩ := List.mem_iff_getElem.mp he
    have hi' : i < l.length := by simpa using hi
    have hle : minList l ≤ l[i₀] := minList_le_mem l _ (List.getElem_mem hi₀)
    by_cases hik : i = k
    · subst hik; simp; linarith
    · rw [List.getElem_set_ne (Ne.symm hik)]
      exact minList_le_mem l _ (List.getElem_mem hi')

section actorq
variable (αc : ℝ) (S : List (ActorSample ℝ)) (j : ℕ) (hj : j < S.length) (k : ℕ) (hk : k < S[j].qpis.length)

/-- vary the output of critic `k` on the actor's action for sample `j` -/
abbrev setQpi (x : ℝ) : List (ActorSample ℝ) := S.set j { S[j] with qpis := S[j].qpis.set k x }

/-- critic `k` is the strict arg-min on sample `j`: it receives `-1/B` -/
theorem sacActorLoss_hasDerivAt_q_min
    (hmin : ∀ i (hi : i < S[j].qpis.length), i ≠ k → S[j].qpis[k] < S[j].qpis[i]) :
    HasDerivAt (fun x => sacActorLoss αc (setQpi S j hj k x)) (-1 / (S.length : ℝ)) S[j].qpis[k] := by
  have hl : HasDerivAt (fun x : ℝ => αc * S[j].logp - x) (-1) S[j].qpis[k] := by
    simpa using (hasDerivAt_id S[j].qpis[k]).const_sub (αc * S[j].logp)
  have ev : ∀ᶠ x in 𝓝 S[j].qpis[k], ∀ i : Fin S[j].qpis.length, i.val ≠ k → x < S[j].qpis[i.val] := by
    rw [Filter.eventually_all]
    intro i
    by_cases hik : i.val = k
    · exact Filter.Eventually.of_forall fun x h => absurd hik h
    · exact (eventually_lt_nhds (hmin i.val i.isLt hik)).mono fun x hx _ => hx
  have h0 : HasDerivAt (fun x : ℝ => (fun s : ActorSample ℝ => αc * s.logp - minList s.qpis)
      { S[j] with qpis := S[j].qpis.set k x }) (-1) S[j].qpis[k] := by
    refine hl.congr_of_eventuallyEq ?_
    filter_upwards [ev] with x hx
    show αc * S[j].logp - minList (S[j].qpis.set k x) = αc * S[j].logp - x
    rw [minList_set_of_strict_min _ k hk x (fun i hi hik => hx ⟨i, hi⟩ hik)]
  exact hasDerivAt_meanMap_set _ S j hj (fun x => { S[j] with qpis := S[j].qpis.set k x }) _ _ h0

/-- another critic is strictly smaller on sample `j`: critic `k` receives nothing -/
theorem sacActorLoss_hasDerivAt_q_other
    (i₀ : ℕ) (hi₀ : i₀ < S[j].qpis.length) (hlt : S[j].qpis[i₀] < S[j].qpis[k]) :
    HasDerivAt (fun x => sacActorLoss αc (setQpi S j hj k x)) 0 S[j].qpis[k] := by
  have h0 : HasDerivAt (fun x : ℝ => (fun s : ActorSample ℝ => αc * s.logp - minList s.qpis)
      { S[j] with qpis := S[j].qpis.set k x }) 0 S[j].qpis[k] := by
    refine (hasDerivAt_const S[j].qpis[k] (αc * S[j].logp - minList S[j].qpis)).congr_of_eventuallyEq ?_
    filter_upwards [eventually_gt_nhds hlt] with x hx
    show αc * S[j].logp - minList (S[j].qpis.set k x) = αc * S[j].logp - minList S[j].qpis
    rw [minList_set_of_other_smaller _ k hk x i₀ hi₀ hlt hx]
  have h := hasDerivAt_meanMap_set (fun s : ActorSample ℝ => αc * s.logp - minList s.qpis) S j hj
    (fun x => { S[j] with qpis := S[j].qpis.set k x }) 0 S[j].qpis[k] h0
  exact hasDerivAt_of_eq h (fun _ => rfl) (by simp)

/-- the strict arg-min is the index the executable model picks -/
theorem argminFirst_eq_of_strict_min (l : List ℝ) (k : ℕ) (hk : k < l.length)
    (hmin : ∀ i (hi : i < l.length), i ≠ k → l[k] < l[i]) : argminFirst l = k := by
  have hne : l ≠ [] := by intro h; simp [h] at hk
  have h := getElem?_argminFirst l hne
  obtain ⟨ha, hv⟩ := List.getElem?_eq_some_iff.mp h
  by_contra hc
  have := hmin _ ha hc
  have hle : minList l ≤ l[k] := minList_le_mem l _ (List.getElem_mem hk)
  rw [hv] at this; linarith

theorem argminFirst_ne_of_other_smaller (l : List ℝ) (k : ℕ) (hk : k < l.length)
    (i₀ : ℕ) (hi₀ : i₀ < l.length) (hlt : l[i₀] < l[k]) : argminFirst l ≠ k := by
  have hne : l ≠ [] := by intro h; simp [h] at hk
  have h := getElem?_argminFirst l hne
  obtain ⟨ha, hv⟩ := List.getElem?_eq_some_iff.mp h
  intro hc
  subst hc
  have hle : minList l ≤ l[i₀] := minList_le_mem l _ (List.getElem_mem hi₀)
  rw [hv] at hlt; linarith

end actorq

/-! ### lengths of the cotangent lists -/

@[simp] theorem length_ppoCotLogp (c : PGConfig ℝ) (S : List (PGSample ℝ)) :
    (ppoCotLogp c S).length = S.length := by simp [ppoCotLogp]
@[simp] theorem length_a2cCotLogp (c : PGConfig ℝ) (S : List (PGSample ℝ)) :
    (a2cCotLogp c S).length = S.length := by simp [a2cCotLogp]
@[simp] theorem length_valueCot (v : ℝ) (cv : Option ℝ) (S : List (PGSample ℝ)) :
    (valueCot v cv S).length = S.length := by simp [valueCot]
@[simp] theorem length_entropyCot (c : PGConfig ℝ) (S : List (PGSample ℝ)) :
    (entropyCot c S).length = S.length := by simp [entropyCot]
@[simp] theorem length_dqnCot (γ : ℝ) (S : List (QSample ℝ)) : (dqnCot γ S).length = S.length := by
  simp [dqnCot]
@[simp] theorem length_sacCriticCot (γ αc : ℝ) (nc : ℕ) (S : List (CriticSample ℝ)) :
    (sacCriticCot γ αc nc S).length = S.length := by simp [sacCriticCot]
@[simp] theorem length_td3CriticCot (γ : ℝ) (nc : ℕ) (S : List (CriticSample ℝ)) :
    (td3CriticCot γ nc S).length = S.length := by simp [td3CriticCot]
@[simp] theorem length_sacActorCotLogp (αc : ℝ) (S : List (ActorSample ℝ)) :
    (sacActorCotLogp αc S).length = S.length := by simp [sacActorCotLogp]
@[simp] theorem length_sacActorCotQ (S : List (ActorSample ℝ)) :
    (sacActorCotQ S).length = S.length := by simp [sacActorCotQ]
@[simp] theorem length_td3ActorCot (q : List ℝ) : (td3ActorCot q).length = q.length := by
  simp [td3ActorCot]

end SB3Verif.Lemmas.Objective
