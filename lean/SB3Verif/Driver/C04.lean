/-
Driver for C04: runs the executable model `SB3Verif.OffPolicy` on what the harness (`/verif/harness/c04.py`)
recorded from real `SAC` / `TD3` / `DDPG` / `DQN` `learn()` calls.

ops
  {"op":"act","box":{"low":[q],"high":[q]}|null,"u":[q],"noise":[q]|null}
        → {"action":[q],"buffer":[q]}                                  (`_sample_action` for one env)
  {"op":"run","cfg":{"n_envs":n,"box":{"low":[q],"high":[q]}|null,"learning_starts":k,"freq":f,
                     "episodic":b,"sde_warmup":b,"vec_normalize":b},
   "calls":[{"reset":b,"total":n,"reset_obs":[[q]],"reset_nz":NZ|null,
             "steps":[{"u":[[q]],"noise":[[q]]|null,"raws":[{"obs":[q],"rew":q,"term":b,"trunc":b,"reset_obs":[q],"stale_term":[q]|null}],
                       "nz":NZ|null}]}]}
        NZ = {"stats":[[mean,sd]|null],"clip_obs":q,"rew_sd":q|null,"clip_rew":q}
        → {"calls":[{"leftover":k,"wants_more":b,"num_timesteps":n}],
           "trace":[{"warmup":b,"policy_input":[[q]],"action":[[q]],"noise_reset":[i],
                     "row":{"obs":[[q]],"next":[[q]],"action":[[q]],"reward":[q],"done":[b],"timeout":[b]}}],
           "world":[[{"obs":[q],"action":[q],"rew":q,"next":[q],"term":b,"trunc":b}]],
           "last_obs":[[q]]}
     an ill-formed stream (wrong number of envs / action dimension / VecNormalize flag) is rejected
-/
import SB3Verif.Driver.Proto
import SB3Verif.Model.OffPolicy

open Lean SB3Verif.Proto SB3Verif.OffPolicy

def optField {β} (f : Json → Except String β) (j : Json) (k : String) : Except String (Option β) :=
  match j.getObjVal? k with
  | .ok Json.null => .ok none
  | .ok v => do let x ← f v; return some x
  | .error _ => .ok none

def vecJ (v : List Rat) : Json := listJ ratJ v
def matJ (m : List (List Rat)) : Json := listJ vecJ m

def asSpace (j : Json) : Except String (ActSpace Rat) := do
  match ← optField (fun b => do
      let low ← getList asRat b "low"
      let high ← getList asRat b "high"
      return (low, high)) j "box" with
  | some (low, high) => return .box low high
  | none => return .discrete

def asNz (j : Json) : Except String (Normalizer Rat) := do
  let stats ← getList (fun e => match e with
    | Json.null => .ok none
    | e => do
      match ← asListOf asRat e with
      | [m, s] => return some (m, s)
      | _ => throw "bad stats entry") j "stats"
  let c ← getRat j "clip_obs"
  let rs ← optField asRat j "rew_sd"
  let cr ← getRat j "clip_rew"
  return ⟨stats, c, rs, cr⟩

def asRaw (j : Json) : Except String (RawStep Rat) := do
  return ⟨← getList asRat j "obs", ← getRat j "rew", ← getBool j "term", ← getBool j "trunc",
          ← getList asRat j "reset_obs", ← optField (asListOf asRat) j "stale_term"⟩

def asStepIn (j : Json) : Except String (StepIn Rat) := do
  return ⟨← getList (asListOf asRat) j "u", ← optField (asListOf (asListOf asRat)) j "noise",
          ← getList asRaw j "raws", ← optField asNz j "nz"⟩

def asCall (j : Json) : Except String (Call Rat) := do
  return ⟨← getBool j "reset", ← getNat j "total", ← getList (asListOf asRat) j "reset_obs",
          ← optField asNz j "reset_nz", ← getList asStepIn j "steps"⟩

def asCfg (j : Json) : Except String (Cfg Rat) := do
  return ⟨← getNat j "n_envs", ← asSpace j, ← getNat j "learning_starts", ← getNat j "freq",
          ← getBool j "episodic", ← getBool j "sde_warmup", ← getBool j "vec_normalize",
          -- the outer observation wrapper is the identity on the harness' vectors: images cross the protocol
          -- as decoded tags, so `VecTransposeImage`'s layout change is checked by the harness' decoder
          id⟩

def rowJ (r : Row Rat) : Json :=
  objJ [("obs", matJ r.obs), ("next", matJ r.nextObs), ("action", matJ r.action), ("reward", vecJ r.reward),
        ("done", listJ boolJ r.done), ("timeout", listJ boolJ r.timeout)]

def outJ (o : StepOut Rat) : Json :=
  objJ [("warmup", boolJ o.warmup), ("policy_input", matJ o.policyInput), ("action", matJ o.action),
        ("noise_reset", listJ natJ o.noiseReset), ("row", rowJ o.row)]

def transJ (t : Transition Rat) : Json :=
  objJ [("obs", vecJ t.obs), ("action", vecJ t.action), ("rew", ratJ t.rew), ("next", vecJ t.next),
        ("term", boolJ t.term), ("trunc", boolJ t.trunc)]

def stepC04 (_ : Unit) (j : Json) : Except String (Unit × Json) := do
  let op ← getStr j "op"
  match op with
  | "act" =>
    let sp ← asSpace j
    let u ← getList asRat j "u"
    let noise ← optField (asListOf asRat) j "noise"
    match sp with
    | .box low high =>
      if high.length != low.length || u.length != low.length then throw "ill-formed: dimensions"
      match noise with
      | some e => if e.length != low.length then throw "ill-formed: noise dimension"
      | none => pure ()
    | .discrete => pure ()
    let r := sampleAction1 sp noise u
    return ((), objJ [("action", vecJ r.1), ("buffer", vecJ r.2)])
  | "run" =>
    let cfg ← asCfg (← fld j "cfg")
    let calls ← getList asCall j "calls"
    if !(calls.all (Call.wf cfg)) then throw "ill-formed stream"
    -- `set_env(env)` (force_reset) in front of a call: `self._last_obs = None`, i.e. the model state forgets that it was
    -- started, so `setupLearn` takes its "no last observation yet" branch (environment reset) whatever `reset` says
    let setEnvs ← getList (fun cj => pure ((getBool cj "set_env").toOption.getD false)) j "calls"
    -- the same fold as `run`, keeping what each call left unconsumed
    let (s, infos) := (calls.zip setEnvs).foldl (fun (acc : Sys Rat × List Json) cs =>
      let c := cs.1
      let s0 : Sys Rat := if cs.2 then { acc.1 with st := { acc.1.st with started := false } } else acc.1
      let acc := (s0, acc.2)
      let r := runCall cfg acc.1 c
      let total := (setupLearn cfg acc.1 c).2
      (r.1, acc.2 ++ [objJ [("leftover", natJ r.2.length),
                            ("wants_more", boolJ (decide (r.1.st.numTimesteps < total))),
                            ("num_timesteps", natJ r.1.st.numTimesteps)]])) (Sys.init, [])
    return ((), objJ [("calls", Json.arr infos.toArray), ("trace", listJ outJ s.st.trace),
                      ("world", listJ (listJ transJ) s.w.log), ("last_obs", matJ s.st.lastObs)])
  | _ => throw s!"bad-op {op}"

def main : IO Unit := SB3Verif.Proto.run stepC04 ()
