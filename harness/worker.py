"""
One chunk of a property's correspondence / oracle run.

    python harness/worker.py <prop> <tier> <seed> <chunk> <nchunks> <out.json> [--widen] [--replay case.json] [--no-model]
"""
from __future__ import annotations

import importlib
import json
import os
import sys
import time
import traceback

sys.path.insert(0, os.path.dirname(os.path.dirname(os.path.abspath(__file__))))

from harness import common  # noqa: E402


def shrink(mod, ctx, viol, max_steps=60):
    """Greedy shrinking of a failing case with the harness' own candidates."""
    if not hasattr(mod, "shrink_candidates"):
        return viol
    best = viol
    steps = 0
    improved = True
    while improved and steps < max_steps:
        improved = False
        for cand in mod.shrink_candidates(best["case"]):
            steps += 1
            if steps > max_steps:
                break
            c2 = common.Ctx(ctx.prop, ctx.tier, ctx.seed)
            c2.lean = NoModel()
            try:
                mod.check_cases(c2, [cand])
            except Exception:
                continue
            same = [v for v in c2.report.violations if v["what"] == best["what"]]
            if same:
                best = same[0]
                best["shrunk"] = True
                improved = True
                break
    return best


class NoModel:
    """Stands for the Lean driver when the model is unavailable (oracle-only search)."""

    available = False
    calls = 0
    lines = 0

    def run(self, ops):
        return [None] * len(ops)


def main():
    args = sys.argv[1:]
    prop, tier, seed, chunk, nchunks, out = args[0], args[1], int(args[2]), int(args[3]), int(args[4]), args[5]
    widen = "--widen" in args
    no_model = "--no-model" in args
    replay = None
    if "--replay" in args:
        replay = args[args.index("--replay") + 1]
    t0 = time.time()
    res = {"ok": False}
    try:
        common.setup_repo_import()
        mod = importlib.import_module(f"harness.{prop.lower()}")
        ctx = common.Ctx(prop, tier, seed, chunk, nchunks, widen=widen)
        if no_model:
            ctx.lean = NoModel()
        if replay is not None:
            rp = json.load(open(replay))
            cases = [rp["case"]] if "case" in rp else rp["cases"]
        else:
            cases = []
            if chunk == 0 and not widen:
                cdir = os.path.join(common.VERIF, "corpus", prop)
                if os.path.isdir(cdir):
                    for f in sorted(os.listdir(cdir)):
                        if f.endswith(".json"):
                            cj = json.load(open(os.path.join(cdir, f)))
                            cases.append(cj["case"] if "case" in cj else cj)
            ctx.report.count("corpus_cases", len(cases))
            cases = cases + list(mod.gen_cases(ctx))
        mod.check_cases(ctx, cases)
        # shrink the first few violations
        shr = []
        for v in ctx.report.violations[:3]:
            try:
                shr.append(shrink(mod, ctx, v))
            except Exception:
                shr.append(v)
        ctx.report.violations[: len(shr)] = shr
        res = {
            "ok": True,
            "report": ctx.report.to_json(),
            "rule": getattr(mod, "RULE", ""),
            "streams": getattr(mod, "STREAMS", {}),
            "lean_calls": ctx.lean.calls,
            "lean_lines": ctx.lean.lines,
            "wall_s": time.time() - t0,
        }
    except Exception as e:  # infrastructure problem: never reported as a violation
        res = {"ok": False, "error": f"{type(e).__name__}: {e}", "trace": traceback.format_exc()[-4000:]}
    with open(out, "w") as f:
        json.dump(res, f)
    sys.exit(0 if res["ok"] else 2)


if __name__ == "__main__":
    main()
