"""
C07 — each training update applies the gradient of the algorithm's published objective.

Implementation under test: PPO.train, A2C.train, DQN.train, SAC.train, TD3.train (DDPG = TD3 subclass),
BaseAlgorithm._update_learning_rate, th.nn.utils.clip_grad_norm_ as called by them.
Model: lean/SB3Verif/Model/Objective.lean (driver lean/SB3Verif/Driver/C07.lean)

How one case runs
  1. a tiny model (net_arch=[4], CPU) is built on a small random environment and `learn()` is called; the real
     `train()` runs inside it.  From the harness process, without touching /repo, these are wrapped on the *instances*:
       optimizer.step        -> at the moment of the step: the gradients of that optimizer's parameters, the lr of its
                                param groups, a snapshot of every network tensor (+ SAC's log_ent_coef), `_n_updates`
       replay_buffer.sample / rollout_buffer.get  -> the batch that was drawn, the torch RNG state, a snapshot
       actor.action_log_prob (SAC)                -> the torch RNG state just before the reparameterised draw
       critic_target.forward (SAC/TD3)            -> the next action handed to the target critics
  2. REFERENCE (correspondence with the Lean model): a deep copy of the policy made before training is loaded with
     the snapshot taken at the step, the networks are evaluated with torch on the recorded batch (same noise through the
     recorded RNG states), the per-sample outputs go to the Lean driver (IEEE bit patterns), the driver returns the
     loss and the analytic cotangents, `torch.autograd.grad(outputs, params, grad_outputs=cotangents)` pushes them
     through the networks, the model's `clipGradNorm` is applied (second driver call), and the result is compared with
     the captured gradients.  Learning rates are compared bit for bit with the model's `lrAt schedule (progressRemaining …)`.
  3. ORACLE (independent of the Lean model): every objective re-implemented in plain torch from the papers /
     documentation, differentiated by autograd, clipped with a hand-written norm clip; captured gradients must agree.
"""
from __future__ import annotations

import copy
import math
import struct
from collections import deque

import numpy as np

from harness.common import guarded

RULE = (
    "cases from one SplitMix64 stream: a real PPO / A2C / DQN / SAC / TD3 / DDPG model (net_arch=[4], CPU) trained for "
    "2-4 rollouts (on-policy) or 16-40 steps (off-policy) on a random 3-dim Box environment with Discrete / Box / "
    "MultiDiscrete / MultiBinary actions (PPO / A2C on Box actions also with gSDE, sde_sample_freq -1/1/2/4, with and without "
    "squash_output - the squashed gSDE distribution has no analytic entropy, the objective then uses -mean(log_prob)), 1-3 envs, episode ends of both kinds; hyper-parameters drawn per case: gamma, "
    "constant / linear / affine learning-rate schedule, PPO clip_range 0.05-0.3 and clip_range_vf None/0.05/0.2/1 "
    "(constant, or scheduled down to a quarter of the initial value), ent_coef 0-0.5, vf_coef 0.25-2, advantage normalisation on/off, minibatch sizes dividing / not "
    "dividing / equal to the rollout (ragged and length-1 minibatches), 1-3 epochs, max_grad_norm 0.01-100, shared / "
    "separate / no trainable feature extractor (a Linear+Tanh extractor with parameters; also for SAC / TD3 / DDPG, where "
    "the critic-side features are constants of the objective when the extractor is shared), DQN target_update_interval 1-1000 and reward scale 1-3, SAC fixed / "
    "learned entropy coefficient and 1-3 critics, TD3 policy_delay 1-3, target noise 0.05-0.5 with clip 0.1-0.5, "
    "1-3 gradient steps per train(); 40% of the on-policy cases get an adversarial Gaussian perturbation of the "
    "policy parameters before train() so that probability ratios leave the clip range. Every optimizer step of the "
    "last 1-3 train() calls is checked. non-trivial = a checked case in which at least one sample took a non-default "
    "branch (ratio clipped with zero or passed-through gradient, value clipped, Huber linear part, done=1 in the TD "
    "target, arg-min critic differing between samples, target noise or action clipped, gradient clipping active); "
    "distinct = distinct canonical case"
)
STREAMS = {
    "grad": "gradients captured at optimizer.step ~ autograd of the networks fed with the Lean model's cotangents, "
            "then the model's clipGradNorm (1e-4 relative to the tensor's max + 1e-6)",
    "lr": "learning rate in every param group at optimizer.step == model lrAt(schedule, progressRemaining) bit for bit",
    "td3_target_action": "next action handed to the target critics ~ model td3NextAction(actor_target, noise) (1e-6)",
    "td3_actor_due": "an actor step happened in a gradient step  <=>  model td3ActorDue(_n_updates, policy_delay)",
}

TOL_REL = 1e-4
TOL_ABS = 1e-6
KINK = 1e-5


# ------------------------------------------------------------------------------------------------
# float <-> bit pattern
def fb(x) -> int:
    return struct.unpack("<Q", struct.pack("<d", float(x)))[0]


def bf(n: int) -> float:
    return struct.unpack("<d", struct.pack("<Q", int(n)))[0]


def vecb(t):
    return [fb(v) for v in t.detach().double().flatten().tolist()]


def matb(t):
    return [[fb(v) for v in row] for row in t.detach().double().tolist()]


# ------------------------------------------------------------------------------------------------
# generator
def gen_case(rng, widen, thorough):
    algo = rng.weighted([("ppo", 5), ("a2c", 2), ("dqn", 3), ("sac", 4), ("td3", 3), ("ddpg", 1)])
    lr0 = rng.choice([0.01, 0.03, 0.1, 0.003])
    case = {
        "kind": "run", "algo": algo, "seed": rng.randint(0, 2**31 - 1),
        "n_envs": rng.weighted([(1, 3), (2, 3), (3, 1)]),
        "gamma": rng.choice([0.99, 0.9, 0.5, 0.95]),
        "lr_kind": rng.weighted([("const", 2), ("linear", 4), ("affine", 2)]),
        "lr0": lr0, "lr_end": lr0 / 8,
        "rscale": rng.choice([1.0, 3.0, 0.3]),
        "p_term": rng.choice([0.05, 0.2, 0.4]),
        "max_len": rng.choice([3, 6, 50]),
        "fe": rng.weighted([("none", 3), ("shared", 1), ("separate", 1)]),
        "checked": rng.randint(1, 2) if not thorough else rng.randint(1, 3),
    }
    if algo in ("ppo", "a2c"):
        case["act"] = rng.weighted([("discrete", 3), ("box", 5), ("multidiscrete", 1), ("multibinary", 1)])
        case["ent_coef"] = rng.weighted([(0.0, 1), (0.01, 3), (0.1, 3), (0.5, 2)])
        # gSDE (Box actions only); with the tanh bijector (squash_output) the distribution has NO analytic entropy:
        # evaluate_actions returns entropy=None and the objective uses the estimate -mean(log pi(a|s))
        case["use_sde"] = case["act"] == "box" and rng.chance(0.55)
        case["squash"] = bool(case["use_sde"] and rng.chance(0.65))
        case["sde_sample_freq"] = rng.choice([-1, 1, 2, 4])
        if case["use_sde"]:
            case["ent_coef"] = rng.choice([0.01, 0.1, 0.5, 0.05])
        case["vf_coef"] = rng.choice([0.5, 0.25, 1.0, 2.0])
        case["normalize"] = rng.chance(0.6)
        case["max_grad_norm"] = rng.choice([0.5, 0.05, 10.0, 0.01, 100.0])
        case["gae_lambda"] = rng.choice([0.95, 1.0, 0.8])
        case["rollouts"] = rng.randint(2, 3) if not thorough else rng.randint(2, 4)
        case["perturb"] = rng.weighted([(0.0, 6), (0.3, 2), (1.0, 2)])
        if algo == "ppo":
            n_steps = rng.randint(2, 8)
            N = n_steps * case["n_envs"]
            bs = rng.weighted([(N, 3), (max(1, N // 2), 2), (rng.randint(max(1, N // 4), N), 3),
                               (max(1, N - 1), 1), (N + 3, 1)])
            if case["normalize"] and bs < 2:
                bs = 2  # PPO asserts batch_size > 1 when advantages are normalised
            case.update({
                "n_steps": n_steps, "batch_size": bs, "n_epochs": rng.randint(1, 3),
                "clip": rng.choice([0.2, 0.1, 0.3, 0.05]), "clip_kind": rng.weighted([("const", 3), ("affine", 1)]),
                "clip_vf": rng.weighted([(None, 4), (0.05, 2), (0.2, 2), (1.0, 1)]),
                "clip_vf_kind": rng.weighted([("const", 3), ("affine", 1)]),
                # KL early stopping: a train() call may leave its last minibatch unapplied; the NEXT train() call must
                # still apply exactly the gradient of its own first minibatch (seeded change C07-h)
                "target_kl": rng.weighted([(None, 5), (1e-4, 2), (1e-3, 2), (1e-2, 1)]),
            })
            if case["target_kl"] is not None:
                case["n_epochs"] = rng.randint(2, 4)
                case["rollouts"] = rng.randint(3, 4)
                case["checked"] = case["rollouts"]   # every train() call is checked: the one after an early stop matters
        else:
            n_steps = rng.randint(1, 8)
            if n_steps * case["n_envs"] < 2:
                n_steps = 2
            case.update({"n_steps": n_steps, "rms": rng.chance(0.6)})
    else:
        case["learning_starts"] = rng.randint(3, 8)
        case["train_freq"] = rng.weighted([(1, 3), (2, 2), (4, 1)])
        case["gradient_steps"] = rng.weighted([(1, 3), (2, 3), (3, 2), (-1, 1)])
        case["batch_size"] = rng.randint(3, 12)
        case["steps"] = rng.randint(16, 28) if not thorough else rng.randint(16, 40)
        case["tau"] = rng.choice([0.005, 0.5, 0.1])
        if algo == "dqn":
            case["act"] = "discrete"
            case["target_update_interval"] = rng.weighted([(1000, 3), (3, 2), (7, 2), (1, 1)])
            case["max_grad_norm"] = rng.choice([10.0, 0.1, 0.01, 1.0])
            case["rscale"] = rng.choice([1.0, 3.0, 3.0])
        else:
            case["act"] = "box"
            case["fe"] = rng.weighted([("none", 2), ("shared", 3), ("separate", 2)])
            case["n_critics"] = rng.weighted([(1, 1), (2, 3), (3, 1)])
            if algo == "ddpg":
                case["n_critics"] = rng.weighted([(1, 3), (2, 1)])
            if algo == "sac":
                case["ent_coef"] = rng.weighted([("auto", 3), ("auto_0.3", 2), (0.2, 2), (0.05, 1)])
                case["target_entropy"] = rng.weighted([("auto", 3), (-1.0, 1), (0.5, 1)])
                case["target_update_interval"] = rng.choice([1, 2])
            if algo == "td3":
                case["policy_delay"] = rng.weighted([(1, 1), (2, 3), (3, 2)])
                case["target_policy_noise"] = rng.choice([0.2, 0.5, 0.05])
                case["target_noise_clip"] = rng.choice([0.5, 0.1, 0.3])
    return case


def gen_cases(ctx):
    return [gen_case(ctx.rng, ctx.widen, ctx.thorough) for _ in range(ctx.budget(96, 960))]


def shrink_candidates(case):
    def alt(**kw):
        c = dict(case)
        c.update(kw)
        return c

    if case.get("n_envs", 1) > 1:
        yield alt(n_envs=1)
    if case.get("fe", "none") != "none":
        yield alt(fe="none")
    if case.get("checked", 1) > 1:
        yield alt(checked=1)
    if case.get("perturb", 0.0):
        yield alt(perturb=0.0)
    if case.get("use_sde") and not case.get("squash"):
        yield alt(use_sde=False)
    if case.get("n_epochs", 1) > 1:
        yield alt(n_epochs=1)
    if case.get("lr_kind") != "const":
        yield alt(lr_kind="const")
    if case.get("gradient_steps", 1) != 1:
        yield alt(gradient_steps=1)
    if case.get("n_critics", 1) > 2:
        yield alt(n_critics=2)


# ------------------------------------------------------------------------------------------------
# environment and model construction
_CACHE = {}


def _classes():
    if _CACHE:
        return _CACHE
    import gymnasium as gym
    import torch as th
    from gymnasium import spaces
    from stable_baselines3.common.torch_layers import BaseFeaturesExtractor

    class TinyEnv(gym.Env):
        """3-dim Box observations, random-walk dynamics driven by the action, random rewards and episode ends."""

        def __init__(self, act, seed, rscale, p_term, max_len):
            self.observation_space = spaces.Box(-10.0, 10.0, (3,), np.float32)
            if act == "discrete":
                self.action_space = spaces.Discrete(3)
            elif act == "box":
                self.action_space = spaces.Box(-1.0, 1.0, (2,), np.float32)
            elif act == "multidiscrete":
                self.action_space = spaces.MultiDiscrete([2, 3])
            else:
                self.action_space = spaces.MultiBinary(2)
            self.seed0, self.rscale, self.p_term, self.max_len = seed, rscale, p_term, max_len
            self.ep = 0

        def reset(self, seed=None, options=None):
            self.ep += 1
            self.rs = np.random.RandomState((self.seed0 * 7919 + self.ep * 104729) % (2**31 - 1))
            self.t = 0
            self.x = self.rs.normal(size=3).astype(np.float32)
            return self.x.copy(), {}

        def step(self, action):
            a = np.asarray(action, dtype=np.float32).reshape(-1)
            drive = np.resize(a, 3)
            noise = self.rs.normal(size=3).astype(np.float32)
            self.x = np.clip(0.6 * self.x + 0.3 * drive + 0.4 * noise, -5, 5).astype(np.float32)
            reward = float(self.rscale * (0.3 * self.x.sum() + 0.5 * self.rs.normal()))
            self.t += 1
            terminated = bool(self.rs.random_sample() < self.p_term)
            truncated = self.t >= self.max_len
            return self.x.copy(), reward, terminated, truncated, {}

    class TinyFE(BaseFeaturesExtractor):
        def __init__(self, observation_space, features_dim: int = 4):
            super().__init__(observation_space, features_dim)
            self.net = th.nn.Sequential(th.nn.Flatten(), th.nn.Linear(3, features_dim), th.nn.Tanh())

        def forward(self, observations):
            return self.net(observations)

    _CACHE.update({"TinyEnv": TinyEnv, "TinyFE": TinyFE})
    return _CACHE


def schedule_value(kind, v0, v_end, p):
    """the schedules the harness hands to the algorithms (plain Python floats)"""
    if kind == "const":
        return v0
    if kind == "linear":
        return p * v0
    return v_end + p * (v0 - v_end)


def make_schedule(kind, v0, v_end):
    if kind == "const":
        return float(v0)
    return lambda p: schedule_value(kind, v0, v_end, p)


def total_timesteps(case):
    if case["algo"] in ("ppo", "a2c"):
        return case["n_steps"] * case["n_envs"] * case["rollouts"]
    return case["steps"] * case["n_envs"]


def build(case):
    from functools import partial

    import stable_baselines3 as sb3
    from stable_baselines3.common.vec_env import DummyVecEnv

    C = _classes()
    algo = case["algo"]
    env = DummyVecEnv([partial(C["TinyEnv"], case["act"], case["seed"] % 100003 + 17 * i, case["rscale"],
                               case["p_term"], case["max_len"]) for i in range(case["n_envs"])])
    pk = {"net_arch": [4]}
    if case["fe"] != "none":
        pk["features_extractor_class"] = C["TinyFE"]
        pk["share_features_extractor"] = case["fe"] == "shared"
        if algo == "dqn":
            pk.pop("share_features_extractor")
    kw = dict(policy="MlpPolicy", env=env, learning_rate=make_schedule(case["lr_kind"], case["lr0"], case["lr_end"]),
              gamma=case["gamma"], seed=case["seed"], device="cpu", verbose=0)
    sde = {}
    if algo in ("ppo", "a2c") and case.get("use_sde"):
        sde = dict(use_sde=True, sde_sample_freq=case.get("sde_sample_freq", -1))
        if case.get("squash"):
            pk["squash_output"] = True
    if algo == "ppo":
        m = sb3.PPO(n_steps=case["n_steps"], batch_size=case["batch_size"], n_epochs=case["n_epochs"],
                    gae_lambda=case["gae_lambda"],
                    clip_range=make_schedule(case["clip_kind"], case["clip"], case["clip"] / 4),
                    clip_range_vf=None if case["clip_vf"] is None else make_schedule(case["clip_vf_kind"], case["clip_vf"], case["clip_vf"] / 4),
                    normalize_advantage=case["normalize"], ent_coef=case["ent_coef"], vf_coef=case["vf_coef"],
                    max_grad_norm=case["max_grad_norm"], policy_kwargs=pk, target_kl=case.get("target_kl"), **sde, **kw)
    elif algo == "a2c":
        m = sb3.A2C(n_steps=case["n_steps"], gae_lambda=case["gae_lambda"], normalize_advantage=case["normalize"],
                    ent_coef=case["ent_coef"], vf_coef=case["vf_coef"], max_grad_norm=case["max_grad_norm"],
                    use_rms_prop=case["rms"], policy_kwargs=pk, **sde, **kw)
    else:
        off = dict(buffer_size=200, learning_starts=case["learning_starts"], batch_size=case["batch_size"],
                   tau=case["tau"], train_freq=(case["train_freq"], "step"), gradient_steps=case["gradient_steps"])
        if algo == "dqn":
            m = sb3.DQN(target_update_interval=case["target_update_interval"], max_grad_norm=case["max_grad_norm"],
                        exploration_fraction=0.5, policy_kwargs=pk, **off, **kw)
        else:
            pk["n_critics"] = case["n_critics"]
            if algo == "sac":
                m = sb3.SAC(ent_coef=case["ent_coef"], target_entropy=case["target_entropy"],
                            target_update_interval=case["target_update_interval"], policy_kwargs=pk, **off, **kw)
            elif algo == "td3":
                m = sb3.TD3(policy_delay=case["policy_delay"], target_policy_noise=case["target_policy_noise"],
                            target_noise_clip=case["target_noise_clip"], policy_kwargs=pk, **off, **kw)
            else:
                m = sb3.DDPG(policy_kwargs=pk, **off, **kw)
    return m


# ------------------------------------------------------------------------------------------------
# recording the real train()
class Rec:
    def __init__(self, model, case):
        import torch as th

        self.th = th
        self.model = model
        self.case = case
        self.algo = case["algo"]
        self.on_policy = self.algo in ("ppo", "a2c")
        self.trains = deque(maxlen=case["checked"])
        self.cur = None
        self.n_train = 0
        try:
            self.ref = copy.deepcopy(model.policy)  # before any wrapper is installed
        except RuntimeError:
            # gSDE keeps non-leaf tensors (exploration matrices) that cannot be deep-copied: rebuild the policy from
            # its constructor parameters (the torch RNG is put back, the run itself is not disturbed)
            keep = th.get_rng_state()
            data = model.policy._get_constructor_parameters()
            if hasattr(model.policy, "share_features_extractor"):
                # not part of ActorCriticPolicy._get_constructor_parameters
                data.setdefault("share_features_extractor", model.policy.share_features_extractor)
            self.ref = model.policy.__class__(**data)
            self.ref.load_state_dict(model.policy.state_dict())
            th.set_rng_state(keep)
        pol = model.policy
        self.names = {id(p): n for n, p in pol.named_parameters()}
        if self.algo == "sac" and getattr(model, "ent_coef_optimizer", None) is not None:
            self.names[id(model.log_ent_coef)] = "log_ent_coef"
        if self.algo in ("ppo", "a2c", "dqn"):
            self.opts = {"policy": pol.optimizer}
        else:
            self.opts = {"actor": model.actor.optimizer, "critic": model.critic.optimizer}
            if self.algo == "sac" and model.ent_coef_optimizer is not None:
                self.opts["ent"] = model.ent_coef_optimizer
        self.owned = {n: [self.names.get(id(p), "?") for g in o.param_groups for p in g["params"]]
                      for n, o in self.opts.items()}
        self._install()

    def snap(self):
        m = self.model
        s = {"policy": {k: v.detach().clone() for k, v in m.policy.state_dict().items()}}
        if self.algo == "sac":
            if getattr(m, "ent_coef_optimizer", None) is not None:
                s["log_ent_coef"] = m.log_ent_coef.detach().clone()
            else:
                s["ent_coef_tensor"] = m.ent_coef_tensor.detach().clone()
        return s

    def _install(self):
        th, m = self.th, self.model
        rec = self
        orig_train = m.train

        def train(*a, **k):
            idx = rec.n_train
            rec.n_train += 1
            if rec.on_policy and rec.case.get("perturb", 0.0) and idx >= rec.case["rollouts"] - rec.case["checked"]:
                g = th.Generator().manual_seed(rec.case["seed"] % 99991 + idx)
                with th.no_grad():
                    for n, p in m.policy.named_parameters():
                        p.add_(rec.case["perturb"] * th.randn(p.shape, generator=g))
            rec.cur = {"idx": idx, "num_timesteps": int(m.num_timesteps), "total": int(m._total_timesteps),
                       "n_updates_before": int(m._n_updates), "events": [], "args": [list(a), dict(k)],
                       "progress_attr": float(m._current_progress_remaining)}
            try:
                return orig_train(*a, **k)
            finally:
                cur, rec.cur = rec.cur, None
                cur["n_updates_after"] = int(m._n_updates)
                cur["logged"] = {k2: v for k2, v in m.logger.name_to_value.items() if k2.startswith("train/")}
                rec.trains.append(cur)

        m.train = train

        for name, opt in self.opts.items():
            def mk(name, opt):
                orig = opt.step

                def step(*a, **k):
                    if rec.cur is not None:
                        grads = {}
                        for g in opt.param_groups:
                            for p in g["params"]:
                                grads[rec.names.get(id(p), "?")] = None if p.grad is None else p.grad.detach().clone()
                        ev = {"ev": "step", "opt": name, "grads": grads,
                              "lrs": [g["lr"] for g in opt.param_groups], "snap": rec.snap(),
                              "n_updates": int(m._n_updates)}
                        rec.cur["events"].append(ev)
                        out = orig(*a, **k)
                        own = set(grads)
                        moved = [n for n, p in m.policy.named_parameters()
                                 if n not in own and not th.equal(ev["snap"]["policy"][n], p.detach())]
                        if "log_ent_coef" in ev["snap"] and "log_ent_coef" not in own and \
                                not th.equal(ev["snap"]["log_ent_coef"], m.log_ent_coef.detach()):
                            moved.append("log_ent_coef")
                        ev["moved_not_owned"] = moved
                        ev["moved_owned"] = sum(
                            1 for n, p in m.policy.named_parameters()
                            if n in own and not th.equal(ev["snap"]["policy"][n], p.detach()))
                        return out
                    return orig(*a, **k)

                opt.step = step

            mk(name, opt)

        if self.on_policy:
            buf = m.rollout_buffer
            orig_get = buf.get

            def get(batch_size=None):
                for b in orig_get(batch_size):
                    if rec.cur is not None:
                        rec.cur["events"].append({"ev": "batch", "batch": b, "requested": batch_size})
                    yield b

            buf.get = get
        else:
            buf = m.replay_buffer
            orig_sample = buf.sample

            def sample(*a, **k):
                out = orig_sample(*a, **k)
                if rec.cur is not None:
                    rec.cur["events"].append({"ev": "batch", "batch": out, "rng": th.get_rng_state(),
                                              "snap": rec.snap(), "requested": a[0] if a else k.get("batch_size")})
                return out

            buf.sample = sample
            if self.algo == "sac":
                actor = m.actor
                orig_alp = actor.action_log_prob

                def action_log_prob(obs):
                    if rec.cur is not None:
                        rec.cur["events"].append({"ev": "alp", "rng": th.get_rng_state(), "obs": obs})
                    return orig_alp(obs)

                actor.action_log_prob = action_log_prob
            if self.algo in ("sac", "td3", "ddpg"):
                ct = m.critic_target
                orig_fwd = ct.forward

                def forward(obs, actions):
                    if rec.cur is not None:
                        rec.cur["events"].append({"ev": "ctarget", "obs": obs, "actions": actions.detach().clone()})
                    return orig_fwd(obs, actions)

                ct.forward = forward


def run_impl(ctx, case):
    import warnings

    import torch as th

    warnings.filterwarnings("ignore", category=UserWarning)
    th.manual_seed(case["seed"] % (2**31))
    model = build(case)
    rec = Rec(model, case)
    model.learn(total_timesteps=total_timesteps(case))
    return rec


# ------------------------------------------------------------------------------------------------
# shared evaluation helpers
def t32(bits, shape=None):
    import torch as th

    t = th.tensor([bf(b) for b in bits], dtype=th.float64).to(th.float32)
    return t if shape is None else t.reshape(shape)


def t32m(rows):
    import torch as th

    return th.tensor([[bf(b) for b in r] for r in rows], dtype=th.float64).to(th.float32)


def named_grads(ref, outs, gouts):
    """autograd of the *networks* only: d(outs)/d(params) contracted with the given cotangents"""
    import torch as th

    names, params = zip(*[(n, p) for n, p in ref.named_parameters() if p.requires_grad])
    keep = [(o, g) for o, g in zip(outs, gouts) if o is not None and o.requires_grad]
    if not keep:
        return {n: None for n in names}
    gs = th.autograd.grad([o for o, _ in keep], params, grad_outputs=[g.reshape(o.shape) for o, g in keep],
                          allow_unused=True)
    return dict(zip(names, gs))


def loss_grads(ref, loss):
    import torch as th

    names, params = zip(*[(n, p) for n, p in ref.named_parameters() if p.requires_grad])
    gs = th.autograd.grad(loss, params, allow_unused=True)
    return dict(zip(names, gs))


def hand_clip(grads, max_norm):
    """gradient-norm clipping written from its definition: g * min(1, c / (||g|| + 1e-6))"""
    import torch as th

    sq = 0.0
    for g in grads.values():
        if g is not None:
            sq = sq + float((g.double() ** 2).sum())
    norm = math.sqrt(sq)
    coef = min(1.0, max_norm / (norm + 1e-6))
    return {n: (None if g is None else g * coef) for n, g in grads.items()}, norm


def cmp_grads(captured, ref, owned, strict_finite=True):
    """captured: name -> tensor|None at optimizer.step; ref: name -> tensor|None.  Returns None or a detail dict.
    strict_finite: a gradient that is finite on one side only is a difference (oracle, same float32 arithmetic);
    otherwise such a tensor is skipped (Lean evaluates at double precision, overflow points differ)."""
    import torch as th

    for n in owned:
        c = captured.get(n)
        r = ref.get(n)
        if c is None and r is None:
            continue
        if c is None:
            c = th.zeros_like(r)
        if r is None:
            r = th.zeros_like(c)
        if c.shape != r.shape:
            return {"param": n, "why": "shape", "captured": list(c.shape), "reference": list(r.shape)}
        if not bool(th.isfinite(c).all()) or not bool(th.isfinite(r).all()):
            if strict_finite and bool(th.isfinite(c).all()) != bool(th.isfinite(r).all()):
                return {"param": n, "why": "non-finite"}
            continue
        scale = max(float(c.abs().max()), float(r.abs().max()))
        err = float((c - r).abs().max())
        if err > TOL_REL * scale + TOL_ABS:
            return {"param": n, "why": "value", "max_abs_err": err, "scale": scale,
                    "captured": c.flatten()[:6].tolist(), "reference": r.flatten()[:6].tolist()}
    return None


def lr_sig(case):
    return {"kind": "lr", "algo": case["algo"], "lr_kind": case["lr_kind"]}


# ------------------------------------------------------------------------------------------------
# per-step checks.  A StepCheck owns: the phase-1 Lean ops, a function turning the Lean answers into unclipped
# reference gradients, the oracle's gradients (already clipped), the captured gradients.
class StepCheck:
    def __init__(self, case, rec, tr, label, ev):
        self.case, self.rec, self.tr, self.label, self.ev = case, rec, tr, label, ev
        self.ops = []           # phase-1 ops
        self.backprop = None    # outs(list) -> (dict name->grad, info dict)
        self.clip = None        # max_grad_norm or None
        self.oracle = None      # dict name->grad
        self.oracle_skip = False
        self.flags = set()      # non-trivial branches seen (oracle side)
        self.extra = []         # additional (stream, impl, fn(outs)->model, cmp) comparisons


def progress_of(tr):
    return max(1.0 - float(tr["num_timesteps"]) / float(tr["total"]), 0.0)


def lr_op(case, tr):
    return {"op": "lr", "kind": case["lr_kind"], "lr0": fb(case["lr0"]), "lr_end": fb(case["lr_end"]),
            "num_timesteps": tr["num_timesteps"], "total": tr["total"]}


def load(ref, snap):
    ref.load_state_dict(snap["policy"])
    ref.set_training_mode(True)


# ---- PPO / A2C ----------------------------------------------------------------------------------
def pg_forward(rec, snap, batch):
    load(rec.ref, snap)
    actions = batch.actions
    if rec.case["act"] == "discrete":
        actions = actions.long().flatten()
    values, logp, ent = rec.ref.evaluate_actions(batch.observations, actions)
    return values.flatten(), logp, ent


def pg_checks(ctx, case, rec, tr):
    import torch as th

    algo = case["algo"]
    p = progress_of(tr)
    clip = schedule_value(case["clip_kind"], case["clip"], case["clip"] / 4, p) if algo == "ppo" else 0.0
    clip_vf = None
    if algo == "ppo" and case["clip_vf"] is not None:
        clip_vf = schedule_value(case["clip_vf_kind"], case["clip_vf"], case["clip_vf"] / 4, p)
    evs = tr["events"]
    checks = []
    i = 0
    kl_stopped = False
    while i < len(evs):
        if evs[i]["ev"] == "batch" and i + 1 == len(evs) and algo == "ppo" and case.get("target_kl") is not None:
            # the minibatch whose KL estimate ended the call: drawn, not applied
            kl_stopped = True
            ctx.report.count("ppo_kl_early_stop")
            break
        if evs[i]["ev"] != "batch" or i + 1 >= len(evs) or evs[i + 1]["ev"] != "step":
            return None, {"why": "expected (minibatch, optimizer step) pairs", "at": i,
                          "events": [e["ev"] for e in evs][:12]}
        b, st = evs[i]["batch"], evs[i + 1]
        i += 2
        sc = StepCheck(case, rec, tr, f"{algo}/policy", st)
        sc.clip = case["max_grad_norm"]
        values, logp, ent = pg_forward(rec, st["snap"], b)
        # ---------------- oracle: the published objective in plain torch ----------------
        A = b.advantages
        n = A.numel()
        do_norm = case["normalize"] and (n > 1 or algo == "a2c")
        if do_norm:
            m_ = A.sum() / n
            sd = th.sqrt(((A - m_) ** 2).sum() / (n - 1))
            A = (A - m_) / (sd + 1e-8)
        if algo == "ppo":
            rho = th.exp(logp - b.old_log_prob)
            l_pi = th.minimum(rho * A, th.clamp(rho, 1 - clip, 1 + clip) * A).sum() / n
            kink = float(th.minimum((rho - (1 - clip)).abs(), (rho - (1 + clip)).abs()).min().detach())
            hi, lo = rho > 1 + clip, rho < 1 - clip
            if bool(((hi & (A > 0)) | (lo & (A < 0))).any()):
                sc.flags.add("ratio_clipped_zero_grad")
            if bool(((hi & (A < 0)) | (lo & (A > 0))).any()):
                sc.flags.add("ratio_outside_passed")
        else:
            l_pi = (A * logp).sum() / n
            kink = 1.0
        if clip_vf is None:
            v_used = values
        else:
            dv = values - b.old_values
            v_used = b.old_values + th.clamp(dv, -clip_vf, clip_vf)
            kink = min(kink, float((dv.abs() - clip_vf).abs().min().detach()))
            if bool((dv.abs() > clip_vf).any()):
                sc.flags.add("value_clipped")
        l_v = ((b.returns - v_used) ** 2).sum() / n
        bonus = (ent.sum() / n) if ent is not None else (-(logp.sum()) / n)
        objective = -l_pi + case["vf_coef"] * l_v - case["ent_coef"] * bonus
        og, onorm = hand_clip(loss_grads(rec.ref, objective), case["max_grad_norm"])
        if onorm + 1e-6 > case["max_grad_norm"]:
            sc.flags.add("grad_clip_active")
        if n == 1:
            sc.flags.add("minibatch_of_one")
        if ent is None:
            sc.flags.add("entropy_estimated_from_log_prob")
        elif case.get("use_sde"):
            sc.flags.add("gsde_analytic_entropy")
        sc.oracle = og
        sc.oracle_skip = kink < KINK
        # ---------------- model ops ----------------
        sc.ops = [{
            "op": algo, "clip": fb(clip), "clip_vf": None if clip_vf is None else fb(clip_vf),
            "ent_coef": fb(case["ent_coef"]), "vf_coef": fb(case["vf_coef"]), "normalize": bool(case["normalize"]),
            "has_entropy": ent is not None,
            "adv": vecb(b.advantages), "old_logp": vecb(b.old_log_prob), "old_value": vecb(b.old_values),
            "ret": vecb(b.returns), "logp": vecb(logp), "value": vecb(values),
            "entropy": vecb(ent) if ent is not None else [0] * n,
        }, lr_op(case, tr)]

        def backprop(outs, b=b, st=st, sc=sc):
            o = outs[0]
            values, logp, ent = pg_forward(rec, st["snap"], b)
            g = named_grads(rec.ref, [logp, values, ent],
                            [t32(o["cot_logp"]), t32(o["cot_value"]), t32(o["cot_entropy"])])
            for br in o["branch"]:
                ctx.report.count(f"ppo_surrogate_branch:{br}" if algo == "ppo" else "a2c_sample")
            for br in o["vbranch"]:
                if clip_vf is not None:
                    ctx.report.count(f"ppo_value_branch:{br}")
            return g, {"skip": bf(o["kink"]) < KINK, "loss": bf(o["loss"])}

        sc.backprop = backprop
        sc.logged_loss = None
        checks.append(sc)
    # structure: number of optimizer steps of this train() call
    N = case["n_steps"] * case["n_envs"]
    if algo == "ppo":
        per_epoch = -(-N // case["batch_size"])
        want = per_epoch * case["n_epochs"]
    else:
        want = 1
    if (len(checks) >= want) if kl_stopped else (len(checks) != want):
        return None, {"why": "number of optimizer steps", "got": len(checks), "expected": want, "kl_stopped": kl_stopped}
    # logged clip range (the only place the scheduled clip range is observable)
    if algo == "ppo" and "train/clip_range" in tr["logged"]:
        if float(tr["logged"]["train/clip_range"]) != clip:
            return None, {"why": "clip_range(progress)", "got": float(tr["logged"]["train/clip_range"]), "expected": clip}
    return checks, None


# ---- DQN ----------------------------------------------------------------------------------------
def dqn_forward(rec, snap, b):
    import torch as th

    load(rec.ref, snap)
    q_all = rec.ref.q_net(b.observations)
    q = th.gather(q_all, dim=1, index=b.actions.long())
    with th.no_grad():
        nq = rec.ref.q_net_target(b.next_observations)
        nq_online = rec.ref.q_net(b.next_observations)
    return q, nq, nq_online


def dqn_checks(ctx, case, rec, tr):
    import torch as th

    evs = tr["events"]
    checks = []
    i = 0
    while i < len(evs):
        if evs[i]["ev"] != "batch" or i + 1 >= len(evs) or evs[i + 1]["ev"] != "step":
            return None, {"why": "expected (sample, optimizer step) pairs", "at": i, "events": [e["ev"] for e in evs][:12]}
        b, st = evs[i]["batch"], evs[i + 1]
        i += 2
        sc = StepCheck(case, rec, tr, "dqn/policy", st)
        sc.clip = case["max_grad_norm"]
        q, nq, _ = dqn_forward(rec, st["snap"], b)
        n = q.shape[0]
        # oracle
        y = b.rewards + case["gamma"] * (1.0 - b.dones) * nq.max(dim=1, keepdim=True).values
        x = q - y
        hub = th.where(x.abs() < 1.0, 0.5 * x * x, x.abs() - 0.5)
        og, onorm = hand_clip(loss_grads(rec.ref, hub.sum() / n), case["max_grad_norm"])
        sc.oracle = og
        if bool((x.abs() > 1.0).any()):
            sc.flags.add("huber_linear")
        if bool((b.dones > 0.5).any()):
            sc.flags.add("done_in_batch")
        if onorm + 1e-6 > case["max_grad_norm"]:
            sc.flags.add("grad_clip_active")
        sc.ops = [{"op": "dqn", "gamma": fb(case["gamma"]), "q": vecb(q), "next_q": matb(nq),
                   "r": vecb(b.rewards), "d": vecb(b.dones)}, lr_op(case, tr)]

        def backprop(outs, b=b, st=st):
            o = outs[0]
            q, _, _ = dqn_forward(rec, st["snap"], b)
            for br in o["branch"]:
                ctx.report.count(f"dqn_huber_branch:{br}")
            return named_grads(rec.ref, [q], [t32(o["cot_q"])]), {"skip": False, "loss": bf(o["loss"])}

        sc.backprop = backprop
        checks.append(sc)
    gs = tr["args"][0][0] if tr["args"][0] else tr["args"][1].get("gradient_steps")
    if len(checks) != gs:
        return None, {"why": "number of optimizer steps", "got": len(checks), "expected": gs}
    return checks, None


# ---- critics of SAC / TD3 -----------------------------------------------------------------------
def critic_qs(critic, obs, actions, features_const):
    """Q_k(phi(obs), actions) for every critic k (batch x n_critics), written from the objective, not through
    ContinuousCritic.forward / q1_forward.  features_const: the critic only READS the features (shared features
    extractor: it is learned through the actor's own path only; deterministic policy gradient of TD3: the critic
    path of the actor loss never trains the extractor) -> features are constants of the objective."""
    import torch as th

    feats = critic.extract_features(obs, critic.features_extractor)
    if features_const:
        feats = feats.detach()
    x = th.cat([feats, actions], dim=1)
    return th.cat([q(x) for q in critic.q_networks], dim=1)


# ---- SAC ----------------------------------------------------------------------------------------
def split_gradient_steps(evs):
    groups = []
    for e in evs:
        if e["ev"] == "batch":
            groups.append([e])
        elif groups:
            groups[-1].append(e)
        else:
            return None
    return groups


def sac_alpha(rec, snap0):
    import torch as th

    if "log_ent_coef" in snap0:
        return th.exp(snap0["log_ent_coef"].detach()), snap0["log_ent_coef"]
    return snap0["ent_coef_tensor"], None


def sac_checks(ctx, case, rec, tr):
    import torch as th

    groups = split_gradient_steps(tr["events"])
    if groups is None:
        return None, {"why": "optimizer step before any batch was sampled"}
    learned = "ent" in rec.opts
    H = float(rec.model.target_entropy)
    nc = case["n_critics"]
    gamma = case["gamma"]
    checks = []
    for grp in groups:
        b, snap0 = grp[0]["batch"], grp[0]["snap"]
        steps = [e for e in grp if e["ev"] == "step"]
        alps = [e for e in grp if e["ev"] == "alp"]
        want = (["ent"] if learned else []) + ["critic", "actor"]
        if [s["opt"] for s in steps] != want:
            return None, {"why": "order of optimizer steps in one gradient step", "got": [s["opt"] for s in steps],
                          "expected": want}
        cur = [e for e in alps if e["obs"] is b.observations]
        nxt = [e for e in alps if e["obs"] is b.next_observations]
        if len(cur) != 1 or len(nxt) != 1:
            return None, {"why": "actor.action_log_prob calls per gradient step", "current_obs": len(cur),
                          "next_obs": len(nxt)}
        rng_cur, rng_next = cur[0]["rng"], nxt[0]["rng"]
        alpha_t, log_alpha = sac_alpha(rec, snap0)
        alpha = float(alpha_t)
        by = {s["opt"]: s for s in steps}

        def fwd_pi(snap, rng_cur=rng_cur, b=b):
            load(rec.ref, snap)
            keep = th.get_rng_state()
            th.set_rng_state(rng_cur)
            a_pi, lp = rec.ref.actor.action_log_prob(b.observations)
            th.set_rng_state(keep)
            return a_pi, lp.reshape(-1, 1)

        def fwd_critic(snap, rng_next=rng_next, b=b):
            load(rec.ref, snap)
            keep = th.get_rng_state()
            th.set_rng_state(rng_next)
            with th.no_grad():
                na, nlp = rec.ref.actor.action_log_prob(b.next_observations)
                nqs = critic_qs(rec.ref.critic_target, b.next_observations, na, True)
            th.set_rng_state(keep)
            qs = critic_qs(rec.ref.critic, b.observations, b.actions, case["fe"] == "shared")
            return qs, nqs, nlp.reshape(-1, 1)

        n = b.rewards.shape[0]
        # --- temperature ---
        if learned:
            st = by["ent"]
            sc = StepCheck(case, rec, tr, "sac/ent", st)
            _, lp = fwd_pi(st["snap"])
            la = st["snap"]["log_ent_coef"].detach().clone().requires_grad_(True)
            j_alpha = (-(la * (lp.detach() + H))).sum() / n
            sc.oracle = {"log_ent_coef": th.autograd.grad(j_alpha, la)[0]}
            sc.ops = [{"op": "sac_alpha", "log_alpha": fb(float(la)), "target_entropy": fb(H), "logp": vecb(lp)},
                      lr_op(case, tr)]

            def backprop(outs, la=la):
                o = outs[0]
                return {"log_ent_coef": th.tensor([bf(o["cot"])], dtype=th.float64).to(th.float32).reshape(la.shape)}, \
                    {"skip": False, "loss": bf(o["loss"])}

            sc.backprop = backprop
            checks.append(sc)
        # --- critics ---
        st = by["critic"]
        sc = StepCheck(case, rec, tr, "sac/critic", st)
        qs, nqs, nlp = fwd_critic(st["snap"])
        y = b.rewards + gamma * (1.0 - b.dones) * (nqs.min(dim=1, keepdim=True).values - alpha * nlp)
        j_q = sum(0.5 * ((qs[:, k:k + 1] - y) ** 2).sum() / n for k in range(nc))
        sc.oracle = loss_grads(rec.ref, j_q)
        if bool((b.dones > 0.5).any()):
            sc.flags.add("done_in_batch")
        if nc > 1 and len(set(nqs.argmin(dim=1).tolist())) > 1:
            sc.flags.add("target_argmin_varies")
        sc.ops = [{"op": "sac_critic", "gamma": fb(gamma), "alpha": fb(alpha), "n_critics": nc, "qs": matb(qs),
                   "next_qs": matb(nqs), "next_logp": vecb(nlp), "r": vecb(b.rewards), "d": vecb(b.dones)},
                  lr_op(case, tr)]
        if learned:
            sc.ops.append({"op": "sac_alpha", "log_alpha": fb(float(log_alpha)), "target_entropy": fb(H),
                           "logp": [fb(0.0)]})

        def backprop(outs, st=st, fwd_critic=fwd_critic, alpha=alpha):
            o = outs[0]
            qs, _, _ = fwd_critic(st["snap"])
            for k in o["argmin"]:
                ctx.report.count(f"sac_target_argmin:{k}")
            info = {"skip": False, "loss": bf(o["loss"])}
            if len(outs) > 2:
                info["alpha_model"] = bf(outs[2]["alpha"])
                info["alpha_used"] = alpha
            return named_grads(rec.ref, [qs], [t32m(o["cot"])]), info

        sc.backprop = backprop
        checks.append(sc)
        # --- actor ---
        st = by["actor"]
        sc = StepCheck(case, rec, tr, "sac/actor", st)
        a_pi, lp = fwd_pi(st["snap"])
        qpi = critic_qs(rec.ref.critic, b.observations, a_pi, case["fe"] == "shared")
        j_pi = (alpha * lp - qpi.min(dim=1, keepdim=True).values).sum() / n
        sc.oracle = loss_grads(rec.ref, j_pi)
        srt = th.sort(qpi.detach(), dim=1).values
        gap = float((srt[:, 1] - srt[:, 0]).min()) if nc > 1 else 1.0
        sc.oracle_skip = gap < KINK
        if nc > 1 and len(set(qpi.argmin(dim=1).tolist())) > 1:
            sc.flags.add("actor_argmin_varies")
        sc.ops = [{"op": "sac_actor", "alpha": fb(alpha), "logp": vecb(lp), "qpis": matb(qpi)}, lr_op(case, tr)]

        def backprop(outs, st=st, fwd_pi=fwd_pi, b=b):
            o = outs[0]
            a_pi, lp = fwd_pi(st["snap"])
            qpi = critic_qs(rec.ref.critic, b.observations, a_pi, case["fe"] == "shared")
            for k in o["argmin"]:
                ctx.report.count(f"sac_actor_argmin:{k}")
            return named_grads(rec.ref, [lp, qpi], [t32(o["cot_logp"]), t32m(o["cot_q"])]), \
                {"skip": bf(o["kink"]) < KINK, "loss": bf(o["loss"])}

        sc.backprop = backprop
        checks.append(sc)
    gs = tr["args"][0][0] if tr["args"][0] else tr["args"][1].get("gradient_steps")
    if len(groups) != gs:
        return None, {"why": "number of gradient steps", "got": len(groups), "expected": gs}
    return checks, None


# ---- TD3 / DDPG ---------------------------------------------------------------------------------
def td3_checks(ctx, case, rec, tr):
    import torch as th

    groups = split_gradient_steps(tr["events"])
    if groups is None:
        return None, {"why": "optimizer step before any batch was sampled"}
    algo = case["algo"]
    delay = case.get("policy_delay", 1) if algo == "td3" else 1
    sigma = case.get("target_policy_noise", 0.2) if algo == "td3" else 0.1
    c = case.get("target_noise_clip", 0.5) if algo == "td3" else 0.0
    nc = case["n_critics"]
    gamma = case["gamma"]
    checks = []
    for gi, grp in enumerate(groups):
        b, rng0 = grp[0]["batch"], grp[0]["rng"]
        steps = [e for e in grp if e["ev"] == "step"]
        cts = [e for e in grp if e["ev"] == "ctarget"]
        n_upd = tr["n_updates_before"] + gi + 1
        due_oracle = n_upd % delay == 0
        names_ = [s["opt"] for s in steps]
        if not names_ or names_[0] != "critic" or names_[1:] not in ([], ["actor"]):
            return None, {"why": "order of optimizer steps in one gradient step", "got": names_}
        if (names_[1:] == ["actor"]) != due_oracle:
            return None, {"why": "delayed policy update", "actor_step": names_[1:] == ["actor"], "n_updates": n_upd,
                          "policy_delay": delay}
        n = b.rewards.shape[0]

        def fwd_critic(snap, b=b, rng0=rng0):
            load(rec.ref, snap)
            keep = th.get_rng_state()
            th.set_rng_state(rng0)
            noise = th.empty_like(b.actions).normal_(0, sigma)
            th.set_rng_state(keep)
            with th.no_grad():
                pi_t = rec.ref.actor_target(b.next_observations)
                na = th.clamp(pi_t + th.clamp(noise, -c, c), -1.0, 1.0)
                nqs = critic_qs(rec.ref.critic_target, b.next_observations, na, True)
            qs = critic_qs(rec.ref.critic, b.observations, b.actions, case["fe"] == "shared")
            return qs, nqs, pi_t, noise, na

        st = steps[0]
        sc = StepCheck(case, rec, tr, f"{algo}/critic", st)
        qs, nqs, pi_t, noise, na = fwd_critic(st["snap"])
        y = b.rewards + gamma * (1.0 - b.dones) * nqs.min(dim=1, keepdim=True).values
        j_q = sum(((qs[:, k:k + 1] - y) ** 2).sum() / n for k in range(nc))
        sc.oracle = loss_grads(rec.ref, j_q)
        if bool((b.dones > 0.5).any()):
            sc.flags.add("done_in_batch")
        if bool((noise.abs() > c).any()) and c > 0:
            sc.flags.add("target_noise_clipped")
        if bool(((pi_t + th.clamp(noise, -c, c)).abs() > 1.0).any()):
            sc.flags.add("target_action_clipped")
        if nc > 1 and len(set(nqs.argmin(dim=1).tolist())) > 1:
            sc.flags.add("target_argmin_varies")
        # oracle on the smoothed target action itself (observable: what critic_target was called with)
        if len(cts) != 1:
            return None, {"why": "critic_target calls per gradient step", "got": len(cts)}
        sc.target_action = (cts[0]["actions"], na)
        sc.ops = [{"op": "td3_critic", "gamma": fb(gamma), "n_critics": nc, "qs": matb(qs), "next_qs": matb(nqs),
                   "r": vecb(b.rewards), "d": vecb(b.dones)}, lr_op(case, tr),
                  {"op": "td3_target", "clip": fb(c), "pi": matb(pi_t), "noise": matb(noise)},
                  {"op": "td3_actor", "q1": [fb(0.0)], "n_updates": int(st["n_updates"]), "policy_delay": delay}]
        sc.actor_stepped = names_[1:] == ["actor"]

        def backprop(outs, st=st, fwd_critic=fwd_critic):
            o = outs[0]
            qs, _, _, _, _ = fwd_critic(st["snap"])
            for row in outs[2]["branch"]:
                for br in row:
                    ctx.report.count(f"td3_target_action_branch:{br}")
            return named_grads(rec.ref, [qs], [t32m(o["cot"])]), \
                {"skip": False, "loss": bf(o["loss"]), "next_actions": t32m(outs[2]["next_actions"]),
                 "due": outs[3]["due"]}

        sc.backprop = backprop
        checks.append(sc)
        if len(steps) == 2:
            st = steps[1]
            sc = StepCheck(case, rec, tr, f"{algo}/actor", st)
            sc.flags.add("delayed_actor_step" if delay > 1 else "actor_step")

            def fwd_actor(snap, b=b):
                load(rec.ref, snap)
                return critic_qs(rec.ref.critic, b.observations, rec.ref.actor(b.observations), True)[:, 0:1]

            q1 = fwd_actor(st["snap"])
            sc.oracle = loss_grads(rec.ref, -(q1.sum() / n))
            sc.ops = [{"op": "td3_actor", "q1": vecb(q1), "n_updates": int(st["n_updates"]), "policy_delay": delay},
                      lr_op(case, tr)]

            def backprop(outs, st=st, fwd_actor=fwd_actor):
                o = outs[0]
                q1 = fwd_actor(st["snap"])
                return named_grads(rec.ref, [q1], [t32(o["cot"])]), {"skip": False, "loss": bf(o["loss"]), "due": o["due"]}

            sc.backprop = backprop
            checks.append(sc)
    gs = tr["args"][0][0] if tr["args"][0] else tr["args"][1].get("gradient_steps")
    if len(groups) != gs:
        return None, {"why": "number of gradient steps", "got": len(groups), "expected": gs}
    return checks, None


BUILDERS = {"ppo": pg_checks, "a2c": pg_checks, "dqn": dqn_checks, "sac": sac_checks, "td3": td3_checks,
            "ddpg": td3_checks}


# ------------------------------------------------------------------------------------------------
def sig(case, sc, kind):
    return {"kind": kind, "algo": case["algo"], "opt": sc.label.split("/")[1]}


def oracle_step(ctx, case, sc):
    """the property sentence, decided without the Lean model.  Returns True when a violation was reported."""
    rep = ctx.report
    st = sc.ev
    owned = sc.rec.owned[st["opt"]]
    # learning rate
    want_lr = schedule_value(case["lr_kind"], case["lr0"], case["lr_end"], progress_of(sc.tr))
    if any(float(l) != float(want_lr) for l in st["lrs"]):
        rep.violation("learning rate at optimizer.step is not schedule(progress_remaining)", case, lr_sig(case),
                      {"lrs": st["lrs"], "expected": want_lr, "num_timesteps": sc.tr["num_timesteps"],
                       "total": sc.tr["total"], "optimizer": sc.label})
        return True
    if st.get("moved_not_owned"):
        rep.violation("optimizer.step changed parameters that the stepping optimizer does not own", case,
                      sig(case, sc, "frame"), {"optimizer": sc.label, "moved": st["moved_not_owned"][:8]})
        return True
    rep.count("frame_checked_steps")
    if sc.oracle_skip:
        rep.count("oracle_near_kink_skipped")
        return False
    bad = cmp_grads(st["grads"], sc.oracle, owned)
    if bad is not None:
        bad.update({"optimizer": sc.label, "train_call": sc.tr["idx"]})
        rep.violation("gradient handed to the optimizer differs from the gradient of the published objective", case,
                      sig(case, sc, "grad"), bad)
        return True
    ta = getattr(sc, "target_action", None)
    if ta is not None:
        got, want = ta
        if got.shape != want.shape or float((got - want).abs().max()) > 1e-6:
            rep.violation("next action given to the target critics is not clamp(actor_target(s') + clamp(noise))", case,
                          sig(case, sc, "target_action"),
                          {"captured": got.flatten()[:6].tolist(), "reference": want.flatten()[:6].tolist()})
            return True
    return False


def check_cases(ctx, cases):
    import torch as th

    rep = ctx.report
    pending = []  # (case, [StepCheck])
    ops = []
    for case in cases:
        algo = case["algo"]
        rep.count(f"algo:{algo}")
        rec = guarded(ctx, case, lambda: run_impl(ctx, case))
        if rec is None:
            rep.case(case, None)
            continue
        checks_all, flags, failed = [], set(), False
        if not rec.trains:
            rep.case(case, None)
            rep.count("no_train_call")
            continue
        for tr in rec.trains:
            built = guarded(ctx, case, lambda: BUILDERS[algo](ctx, case, rec, tr),
                            what="the reference update could not be evaluated on the recorded batch")
            if built is None:
                failed = True
                break
            checks, err = built
            if checks is None:
                rep.violation("structure of the update differs from the published algorithm", case,
                              {"kind": "structure", "algo": algo, "why": err.get("why")}, err)
                failed = True
                break
            for sc in checks:
                flags |= sc.flags
                if oracle_step(ctx, case, sc):
                    failed = True
                    break
            if failed:
                break
            checks_all.extend(checks)
        for f in sorted(flags):
            rep.count(f"case_with:{f}")
        rep.count(f"lr_kind:{case['lr_kind']}")
        rep.count(f"checked_steps", len(checks_all))
        rep.case(case, case if flags else None,
                 sample={k: case[k] for k in case} | {"checked_optimizer_steps": len(checks_all),
                                                      "branches": sorted(flags)})
        if failed:
            continue
        for sc in checks_all:
            sc.i0 = len(ops)
            ops.extend(sc.ops)
        pending.append((case, checks_all))
    outs = ctx.lean.run(ops)
    if not ops or outs[0] is None:
        return
    # phase 2: cotangents -> autograd through the networks -> model's gradient clipping
    ops2 = []
    for case, checks in pending:
        for sc in checks:
            o = outs[sc.i0:sc.i0 + len(sc.ops)]
            sc.err = next((x["error"] for x in o if "error" in x), None)
            if sc.err is not None:
                continue
            sc.ref_grads, sc.info = sc.backprop(o)
            sc.lr_model = o[1]
            sc.order = [n for n, p in sc.rec.ref.named_parameters() if p.requires_grad]
            if sc.clip is not None:
                flat = []
                for n in sc.order:
                    g = sc.ref_grads.get(n)
                    if g is not None:
                        flat.extend(g.detach().double().flatten().tolist())
                sc.i2 = len(ops2)
                ops2.append({"op": "clip", "max_norm": fb(sc.clip), "g": [fb(v) for v in flat]})
    outs2 = ctx.lean.run(ops2) if ops2 else []
    for case, checks in pending:
        for sc in checks:
            st = sc.ev
            if sc.err is not None:
                rep.disagree("grad", case, "ok", {"error": sc.err}, note=sc.label)
                continue
            # learning rate, bit for bit
            lr_m = sc.lr_model["lr"]
            if any(fb(l) != lr_m for l in st["lrs"]):
                rep.disagree("lr", case, {"lrs": st["lrs"]}, {"lr": bf(lr_m), "progress": bf(sc.lr_model["progress"])},
                             note=sc.label)
            else:
                rep.agree()
            if abs(bf(sc.lr_model["progress"]) - sc.tr["progress_attr"]) > 0:
                rep.disagree("lr", case, {"_current_progress_remaining": sc.tr["progress_attr"]},
                             {"progress": bf(sc.lr_model["progress"])}, note="progress at train()")
            if sc.info.get("skip"):
                rep.count("model_near_kink_skipped")
                continue
            grads = sc.ref_grads
            if sc.clip is not None:
                o2 = outs2[sc.i2]
                if "error" in o2:
                    rep.disagree("grad", case, "ok", o2, note=sc.label + " clip")
                    continue
                flat = [bf(v) for v in o2["g"]]
                if bf(o2["coef"]) < 1.0:
                    rep.count("model_clip_active")
                else:
                    rep.count("model_clip_inactive")
                grads, k = {}, 0
                for n in sc.order:
                    g = sc.ref_grads.get(n)
                    if g is None:
                        grads[n] = None
                        continue
                    m = g.numel()
                    grads[n] = th.tensor(flat[k:k + m], dtype=th.float64).to(th.float32).reshape(g.shape)
                    k += m
            bad = cmp_grads(st["grads"], grads, sc.rec.owned[st["opt"]], strict_finite=False)
            if bad is not None:
                rep.disagree("grad", case, bad, {"model_loss": sc.info.get("loss")}, note=sc.label)
            else:
                rep.agree()
            rep.count(f"step:{sc.label}")
            if "alpha_model" in sc.info:
                if abs(sc.info["alpha_model"] - sc.info["alpha_used"]) > 1e-6 * max(1.0, abs(sc.info["alpha_used"])):
                    rep.disagree("grad", case, {"alpha": sc.info["alpha_used"]}, {"alpha": sc.info["alpha_model"]},
                                 note="ent_coef = exp(log_ent_coef)")
            if "next_actions" in sc.info:
                got = sc.target_action[0]
                na = sc.info["next_actions"]
                if got.shape != na.shape or float((got - na).abs().max()) > 1e-6:
                    rep.disagree("td3_target_action", case, got.flatten()[:6].tolist(), na.flatten()[:6].tolist())
                else:
                    rep.agree()
                if bool(sc.info["due"]) != bool(sc.actor_stepped):
                    rep.disagree("td3_actor_due", case, {"actor_step": sc.actor_stepped, "n_updates": st["n_updates"]},
                                 {"due": sc.info["due"]})
                else:
                    rep.agree()
