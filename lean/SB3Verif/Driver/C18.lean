/-
Driver for C18: runs the executable model `SB3Verif.Monitor` on the operations the harness
(`/verif/harness/c18.py`) performed on the real `Monitor`, `VecMonitor`, `load_results` and
`evaluate_policy`.

requests (kv = [[key, int], …]; q = [num, den] or int)
  {"op":"monitor","allow_early":b,"info_keys":[s],"reset_keys":[s],
   "ops":[{"k":"reset","kw":kv} | {"k":"step","r":q,"te":b,"tr":b,"info":kv}]}
      → {"outs":[out], "returns":[q], "lengths":[n], "rows":[ep], "total_steps":n, "needs_reset":b,
         "trace":[["reset"] | ["step", q, b]]}
        out = "reset-ok" | "err-early-reset" | "err-missing-kw" | "err-needs-reset" | "err-info-key"
            | {"ep": null | ep};  ep = {"r":q,"l":n,"extra":kv}
  {"op":"vecmonitor","n":n,"info_keys":[s],"ops":[{"k":"reset"} | {"k":"step","row":[{"r":q,"d":b,"info":kv}]}]}
      → {"outs":[[ep|null]], "rows":[ep], "count":n, "rets":[q], "lens":[n]}
  {"op":"eval","n":n,"N":N,"mon":b,"rows":[[{"r":q,"d":b,"ep":[q,l]|null}]]}
      → {"targets":[n],"out":[[q,l]],"steps":k,"finished":b,"counts":[n]}
  {"op":"eval_raw","n":n,"N":N,"wrap":"none"|"vecmonitor"|"monitor","spec":b (optional, default true),"rows":[[{"r":q,"d":b}]]}
      → same as "eval" plus "spec":[[q,l]] (the closed-form specification on the raw rows)
  {"op":"load","files":[{"t_start":q,"rows":[[q,id]]}]}   → {"rows":[[q,id]]}
  {"op":"targets","N":N,"n":n}                            → {"targets":[n]}
  {"op":"round6","x":q}                                   → {"y":q}
-/
import SB3Verif.Driver.Proto
import SB3Verif.Model.Monitor

open Lean SB3Verif.Proto SB3Verif.Monitor

def asKV (j : Json) : Except String KV := do
  let l ← asList j
  l.mapM fun p => do
    match p.getArr? with
    | .ok #[k, v] => do
      let k ← asStr k
      let v ← asInt v
      pure (k, v)
    | _ => throw s!"not a key/value pair: {p.compress}"

def kvJ (kv : KV) : Json := listJ (fun p => Json.arr #[strJ p.1, intJ p.2]) kv

def epJ (e : EpInfo Rat) : Json := objJ [("r", ratJ e.r), ("l", natJ e.l), ("extra", kvJ e.extra)]

def optJ {β} (f : β → Json) : Option β → Json
  | some x => f x
  | none => Json.null

def outJ : Out Rat → Json
  | .resetOk => strJ "reset-ok"
  | .errEarlyReset => strJ "err-early-reset"
  | .errMissingKw => strJ "err-missing-kw"
  | .errNeedsReset => strJ "err-needs-reset"
  | .errInfoKey => strJ "err-info-key"
  | .stepOk ep => objJ [("ep", optJ epJ ep)]

def callJ : Call Rat → Json
  | .reset => Json.arr #[strJ "reset"]
  | .step r d => Json.arr #[strJ "step", ratJ r, boolJ d]

def asMonOp (j : Json) : Except String (Op Rat) := do
  let k ← getStr j "k"
  match k with
  | "reset" => return .reset (← fld j "kw" >>= asKV)
  | "step" =>
    return .step (← getRat j "r") (← getBool j "te") (← getBool j "tr") (← fld j "info" >>= asKV)
  | _ => throw s!"bad monitor op {k}"

def asRaw (j : Json) : Except String (Raw Rat) := do
  let info ← match fld j "info" with
    | .ok v => asKV v
    | .error _ => pure []
  return { rew := (← getRat j "r"), done := (← getBool j "d"), info := info }

def asVOp (n : Nat) (keys : List String) (j : Json) : Except String (VOp Rat) := do
  let k ← getStr j "k"
  match k with
  | "reset" => return .reset
  | "step" =>
    let row ← getList asRaw j "row"
    if row.length != n then throw s!"row of length {row.length}, expected {n}"
    for o in row do
      if o.done && !(keys.all fun k => (kvGet o.info k).isSome) then throw "missing info key at an episode end"
    return .step row
  | _ => throw s!"bad vecmonitor op {k}"

def asStepOut (j : Json) : Except String (StepOut Rat) := do
  let ep ← match fld j "ep" with
    | .ok Json.null => pure none
    | .ok v =>
      match v.getArr? with
      | .ok #[a, b] => do pure (some ((← asRat a), (← asNat b)))
      | _ => throw s!"bad ep {v.compress}"
    | .error _ => pure none
  return { rew := (← getRat j "r"), done := (← getBool j "d"), ep := ep }

def evalJ (n : Nat) (tg : List Nat) (s : EvalSt Rat) : List (String × Json) :=
  [("targets", listJ natJ tg),
   ("out", listJ (fun p => Json.arr #[ratJ p.1, natJ p.2]) s.out),
   ("steps", natJ s.steps),
   ("finished", boolJ (s.finished n tg)),
   ("counts", listJ natJ (s.envs.map (·.count)))]

def checkRows {β} (n : Nat) (rows : List (List β)) : Except String Unit := do
  for row in rows do
    if row.length != n then throw s!"row of length {row.length}, expected {n}"

def stepC18 (_ : Unit) (j : Json) : Except String (Unit × Json) := do
  let op ← getStr j "op"
  match op with
  | "monitor" =>
    let cfg : MonCfg := { allowEarly := (← getBool j "allow_early"),
                          infoKeys := (← getList asStr j "info_keys"),
                          resetKeys := (← getList asStr j "reset_keys") }
    let ops ← getList asMonOp j "ops"
    let (m, outs) := Mon.run cfg round6 Mon.init ops
    let tr := Mon.trace cfg round6 Mon.init ops
    return ((), objJ [("outs", listJ outJ outs), ("returns", listJ ratJ m.returns), ("lengths", listJ natJ m.lengths),
                      ("rows", listJ epJ m.rows), ("total_steps", natJ m.totalSteps), ("needs_reset", boolJ m.needsReset),
                      ("trace", listJ callJ tr)])
  | "vecmonitor" =>
    let n ← getNat j "n"
    let keys ← getList asStr j "info_keys"
    let ops ← getList (asVOp n keys) j "ops"
    let (v, outs) := VecMon.run n keys (VecMon.init n) ops
    return ((), objJ [("outs", listJ (listJ (optJ epJ)) outs), ("rows", listJ epJ v.rows), ("count", natJ v.count),
                      ("rets", listJ ratJ v.rets), ("lens", listJ natJ v.lens)])
  | "eval" =>
    let n ← getNat j "n"
    let N ← getNat j "N"
    if n = 0 then throw "n_envs = 0"
    let mon ← getBool j "mon"
    let rows ← getList (asListOf asStepOut) j "rows"
    checkRows n rows
    let s := evaluate mon N n rows
    return ((), objJ (evalJ n (targets N n) s))
  | "eval_raw" =>
    let n ← getNat j "n"
    let N ← getNat j "N"
    if n = 0 then throw "n_envs = 0"
    let wrap ← getStr j "wrap"
    let rows ← getList (asListOf asRaw) j "rows"
    checkRows n rows
    let cfg : MonCfg := { allowEarly := true, infoKeys := [], resetKeys := [] }
    let (mon, seen) ← match wrap with
      | "none" => pure (false, plainRows n rows)
      | "vecmonitor" => pure (true, throughVecMon n (VecMon.init n) rows)
      | "monitor" => pure (true, throughMonitors cfg round6 n (List.replicate n (Mon.fresh cfg round6)) rows)
      | _ => throw s!"bad wrap {wrap}"
    let s := evaluate mon N n seen
    -- the closed form is quadratic in the number of rows: the harness switches it off for very long tables
    let wantSpec := match getBool j "spec" with
      | .ok b => b
      | .error _ => true
    if wantSpec then
      let spec := evalSpec n (targets N n) rows
      return ((), objJ (evalJ n (targets N n) s ++ [("spec", listJ (fun p => Json.arr #[ratJ p.1, natJ p.2]) spec)]))
    else
      return ((), objJ (evalJ n (targets N n) s ++ [("spec", Json.null)]))
  | "load" =>
    let files ← getList (fun f => do
      let ts ← getRat f "t_start"
      let rows ← getList (fun r => do
        match r.getArr? with
        | .ok #[t, i] => do pure ((← asRat t), (← asInt i))
        | _ => throw s!"bad row {r.compress}") f "rows"
      pure ({ tStart := ts, rows := rows } : MFile Int)) j "files"
    let res := loadResults files
    return ((), objJ [("rows", listJ (fun p => Json.arr #[ratJ p.1, intJ p.2]) res)])
  | "targets" =>
    let n ← getNat j "n"
    let N ← getNat j "N"
    return ((), objJ [("targets", listJ natJ (targets N n))])
  | "round6" =>
    let x ← getRat j "x"
    return ((), objJ [("y", ratJ (round6 x))])
  | _ => throw s!"bad-op {op}"

def main : IO Unit := SB3Verif.Proto.run stepC18 ()
