/-
C18 — Episode statistics from Monitor, VecMonitor and evaluate_policy are exact.

Property theorems only (helper lemmas are in `SB3Verif/Lemmas/Monitor.lean`).
All statements are about the executable model `SB3Verif/Model/Monitor.lean`, whose definitions the
driver `SB3Verif/Driver/C18.lean` runs against the real `Monitor`, `VecMonitor`, `load_results` and
`evaluate_policy`.

Vocabulary (defined in the model):
* `Call`            what the wrapped environment receives: `reset` or `step r done`;
* `openSeg calls`   the rewards of the episode running at the end of a history: the longest suffix of
                    non-final steps (it starts after the last `reset` or episode end);
* `pySum`           Python's `sum` / repeated `+=` (left fold from `0`);
* `Mon.trace`       the calls that actually reach the env wrapped by a `Monitor` (rejected calls do not);
* `vtrace i`, `colCalls i`   the history of sub-environment `i` of a vectorised run;
* `evalSpec`        the closed-form description of `evaluate_policy`'s result (no counters, no loop).
-/
import SB3Verif.Lemmas.Monitor

namespace SB3Verif.C18

open SB3Verif.Monitor SB3Verif.Lemmas.Mon

variable {α : Type}

/-! ## `Monitor` -/

/-- **Monitor reports exactly the episode that ended** — for every history of `step`/`reset` calls
(early resets, resets in a row, steps after the end, calls rejected for any reason — "before done",
"needs reset", a missing `reset_keywords` entry —, both settings of `allow_early_resets`, any
`info_keywords` / `reset_keywords`), without any hypothesis: whenever call `k` returns an `episode`
entry, that call is a `step` that ended an episode, the reported return is `round6` of the sum of exactly
the rewards the wrapped environment handed out since it was last reset, and the reported length is their
number. -/
theorem monitor_episode_exact [Add α] [Zero α] (cfg : MonCfg) (rnd : α → α) (ops : List (Op α)) (k : ℕ)
    (ep : EpInfo α) (hk : (Mon.run cfg rnd Mon.init ops).2[k]? = some (Out.stepOk (some ep))) :
    ∃ r te tr info, ops[k]? = some (Op.step r te tr info) ∧ (te || tr) = true ∧
      ep.r = rnd (pySum (openSeg (Mon.trace cfg rnd Mon.init (ops.take k)) ++ [r])) ∧
      ep.l = (openSeg (Mon.trace cfg rnd Mon.init (ops.take k))).length + 1 :=
  episode_exact cfg rnd ops k ep hk

/-- A `reset()` rejected for a missing keyword leaves the running episode intact (the history that
exposed F-C18-a: `reset(k=1)`, `step` (reward 1), `reset()` → ValueError, `step` (reward 2, final)): the
environment saw one episode of two steps with return 3, and that is what is reported. -/
theorem monitor_rejected_reset_keeps_episode :
    ((Mon.run cexCfg id Mon.init cexOps).2.filterMap Out.ep?).map (fun e => (e.r, e.l)) = [((3 : Int), 2)] ∧
    (Mon.run cexCfg id Mon.init cexOps).2[2]? = some Out.errMissingKw ∧
    Mon.trace cexCfg id Mon.init cexOps = [.reset, .step 1 false, .step 2 true] :=
  new_order_right

/-- Remark on the OLD statement order of `Monitor.reset` (before /repo commit 43bb017, modelled by
`Lemmas.Mon.stepOld`: `rewards`/`needs_reset` cleared before the keyword check): on the same history it
reports return 2, length 1 — the order of the statements is what the theorem above depends on. -/
theorem monitor_old_reset_order_wrong :
    ((runOld cexCfg id Mon.init cexOps).2.filterMap Out.ep?).map (fun e => (e.r, e.l)) = [((2 : Int), 1)] :=
  old_order_wrong

/-- **An `episode` entry is present exactly at episode ends**: a `step` call is either rejected
("needs reset") or answered with an info whose `episode` key is present iff the wrapped environment
reported `terminated or truncated` (given it supplies the `info_keywords`). -/
theorem monitor_episode_presence [Add α] [Zero α] (cfg : MonCfg) (rnd : α → α) (ops : List (Op α)) (k : ℕ)
    (r : α) (te tr : Bool) (info : KV) (hop : ops[k]? = some (Op.step r te tr info))
    (hinfo : (Op.step r te tr info).infoOk cfg = true) :
    (Mon.run cfg rnd Mon.init ops).2[k]? = some Out.errNeedsReset ∨
    ∃ ep, (Mon.run cfg rnd Mon.init ops).2[k]? = some (Out.stepOk ep) ∧ ep.isSome = (te || tr) :=
  presence cfg rnd ops k r te tr info hop hinfo

/-- **The wrapped environment's protocol is respected**: the first call that reaches it is a `reset`;
a step that ended an episode is always followed by a `reset` (the env is never stepped when finished —
this is what makes `openSeg` "the episode that ended"); and with `allow_early_resets=False` a `reset`
only ever follows an episode end. For every history, no hypotheses. -/
theorem monitor_protocol [Add α] [Zero α] (cfg : MonCfg) (rnd : α → α) (ops : List (Op α)) :
    (∀ c ∈ (Mon.trace cfg rnd Mon.init ops).head?, c = Call.reset) ∧
    (Mon.trace cfg rnd Mon.init ops).IsChain (fun a b => a.isDone = true → b = Call.reset) ∧
    (cfg.allowEarly = false →
      (Mon.trace cfg rnd Mon.init ops).IsChain (fun a b => b = Call.reset → a.isDone = true)) :=
  protocol cfg rnd ops

/-- **Rows are written in order**: the rows handed to the `ResultsWriter`, `episode_lengths` and
(rounded) `episode_returns` are exactly the `episode` entries returned, in the order they were returned
— for every history, without hypotheses. -/
theorem monitor_rows_in_order [Add α] [Zero α] (cfg : MonCfg) (rnd : α → α) (ops : List (Op α)) :
    (Mon.run cfg rnd Mon.init ops).1.rows = (Mon.run cfg rnd Mon.init ops).2.filterMap Out.ep? ∧
    (Mon.run cfg rnd Mon.init ops).1.lengths = ((Mon.run cfg rnd Mon.init ops).2.filterMap Out.ep?).map (·.l) ∧
    (Mon.run cfg rnd Mon.init ops).1.returns.map rnd = ((Mon.run cfg rnd Mon.init ops).2.filterMap Out.ep?).map (·.r) := by
  simpa [Mon.init] using run_rows cfg rnd (Mon.init : Mon α) ops

/-- Python's left-to-right accumulation is the mathematical sum in every additive monoid. -/
theorem pySum_is_sum {β : Type} [AddMonoid β] (l : List β) : pySum l = l.sum := pySum_eq_sum l

/-! ## `VecMonitor` -/

/-- **VecMonitor reports exactly the episode that ended, per sub-environment** — for every sequence of
`reset()` and vectorised steps, every env `i < n` and every step `k`: the `episode` entry of env `i` is
present iff `dones[i]`, and then holds the sum and the number of the rewards env `i` produced since
the last `reset()` or its last episode end (mid-run `reset()` discards the partial episode of every
env). -/
theorem vecmonitor_episode_exact [Add α] [Zero α] (n : ℕ) (keys : List String) (ops : List (VOp α)) (k i : ℕ)
    (hi : i < n) (row : List (Raw α)) (hop : ops[k]? = some (VOp.step row)) :
    (((VecMon.run n keys (VecMon.init n) ops).2[k]?).getD []).getD i none =
      if (row.getD i ⟨0, false, []⟩).done then
        some { r := pySum (openSeg (vtrace i (ops.take k)) ++ [(row.getD i ⟨0, false, []⟩).rew]),
               l := (openSeg (vtrace i (ops.take k))).length + 1,
               extra := (infoExtra keys (row.getD i ⟨0, false, []⟩).info []).getD [] }
      else none :=
  vec_episode_exact n keys ops k i hi row hop

/-- The file rows of a `VecMonitor` are the `episode` entries in order (step by step, env by env), and
`episode_count` counts them. -/
theorem vecmonitor_rows_in_order [Add α] [Zero α] (n : ℕ) (keys : List String) (ops : List (VOp α)) :
    (VecMon.run n keys (VecMon.init n) ops).1.rows =
      (VecMon.run n keys (VecMon.init n) ops).2.flatMap (fun o => o.filterMap id) ∧
    (VecMon.run n keys (VecMon.init n) ops).1.count =
      ((VecMon.run n keys (VecMon.init n) ops).2.flatMap (fun o => o.filterMap id)).length := by
  simpa [VecMon.init] using vrun_rows n keys (VecMon.init n : VecMon α) ops

/-! ## `evaluate_policy` -/

/-- **The quotas add up**: `Σ_{i<n} (N+i)/n = N` for every `N ≥ 0`, `n ≥ 1` (also `N < n`). -/
theorem targets_sum (N n : ℕ) (hn : 0 < n) : (targets N n).sum = N := Lemmas.Mon.targets_sum N n hn

/-- **As evenly as possible**: every quota is `⌊N/n⌋` or `⌊N/n⌋ + 1`; exactly the last `N mod n`
environments get the extra episode. -/
theorem targets_balanced (N n i : ℕ) (hi : i < n) :
    (targets N n).getD i 0 = N / n + (if n - N % n ≤ i then 1 else 0) := Lemmas.Mon.targets_balanced N n i hi

theorem targets_length (N n : ℕ) : (targets N n).length = n := Lemmas.Mon.targets_length N n

/-- **Exactly `n_eval_episodes` episodes**: whatever the environments answer (any episode lengths,
with or without monitor, `episode` keys present or not), if the loop terminates within the given
answers then the returned lists have exactly `N` entries. -/
theorem evaluate_returns_exactly_N [Add α] [Zero α] (mon : Bool) (N n : ℕ) (hn : 0 < n)
    (rows : List (List (StepOut α)))
    (hfin : (evaluate mon N n rows).finished n (targets N n) = true) : (evaluate mon N n rows).out.length = N :=
  evaluate_count mon N n hn rows hfin

/-- **Which episodes, with which values** (no monitor): for every table of raw environment answers
(unequal episode lengths, any `N`, `n`), the returned list is, step by step and env by env, the episode
that ends at that step in that env — its true reward sum and length since the env's previous episode
end — provided fewer than `targets i` episodes of env `i` ended before. Hence each env contributes its
first `targets i` complete episodes and nothing else; steps of envs that met their quota never
contribute. -/
theorem evaluate_returns_quota [Add α] [Zero α] (N n : ℕ) (rows : List (List (Raw α))) :
    (evaluate false N n (plainRows n rows)).out = evalSpec n (targets N n) rows :=
  evaluate_plain N n rows

/-- The same result when the environments are seen through a `VecMonitor` (statistics taken from
`info["episode"]`): `VecMonitor` + `evaluate_policy` composed. -/
theorem evaluate_with_vecmonitor [Add α] [Zero α] (N n : ℕ) (rows : List (List (Raw α))) :
    (evaluate true N n (throughVecMon n (VecMon.init n) rows)).out = evalSpec n (targets N n) rows :=
  evaluate_vecmon N n rows

/-- The same result, up to `round6` of the returns, for a `DummyVecEnv` of `Monitor`-wrapped
environments (no `reset_keywords`: the automatic reset passes none). -/
theorem evaluate_with_monitor [Add α] [Zero α] (cfg : MonCfg) (rnd : α → α) (hk : cfg.resetKeys = [])
    (N n : ℕ) (rows : List (List (Raw α)))
    (hinfo : ∀ row ∈ rows, ∀ i, i < n → (row.getD i ⟨0, false, []⟩).done = true →
      cfg.infoKeys.all (fun k => (kvGet (row.getD i ⟨0, false, []⟩).info k).isSome) = true) :
    (evaluate true N n (throughMonitors cfg rnd n (List.replicate n (Mon.fresh cfg rnd)) rows)).out =
      (evalSpec n (targets N n) rows).map (fun p => (rnd p.1, p.2)) :=
  evaluate_monitors cfg rnd hk N n rows hinfo

/-- **The loop stops when and only when every env reached its quota**: it never takes more steps than
answers available; every step it takes is needed (before it some env is below its quota); it is
finished iff after its last step every env has completed at least `targets i` episodes; and it stops
before the answers run out only when finished. (`dones` counts episode ends.) -/
theorem evaluate_stops_exactly [Add α] [Zero α] (N n : ℕ) (rows : List (List (Raw α))) :
    (evaluate false N n (plainRows n rows)).steps ≤ rows.length ∧
    (∀ j, j < (evaluate false N n (plainRows n rows)).steps →
      ∃ i, i < n ∧ dones (colCalls i (rows.take j)) < (targets N n).getD i 0) ∧
    ((evaluate false N n (plainRows n rows)).finished n (targets N n) = true ↔
      ∀ i, i < n → (targets N n).getD i 0 ≤
        dones (colCalls i (rows.take (evaluate false N n (plainRows n rows)).steps))) ∧
    ((evaluate false N n (plainRows n rows)).steps < rows.length →
      (evaluate false N n (plainRows n rows)).finished n (targets N n) = true) :=
  evaluate_steps_of_sees false id N n rows _ (sees_plain id n [] rows)

/-- **Each environment's share**: the number of steps of env `i` that contribute to the result is
exactly `min (targets i) (number of episodes env i completed)` — together with `evaluate_returns_quota`
(a step contributes only while fewer than `targets i` episodes ended before it): env `i` contributes its
*first* `targets i` completed episodes, all of them, and no others. -/
theorem evaluate_env_share [Add α] [Zero α] (tg i : ℕ) (rows : List (List (Raw α))) :
    contributions tg (colCalls i rows) = min tg (dones (colCalls i rows)) :=
  contributions_eq tg (colCalls i rows) (colCalls_no_reset i rows)

/-! ## `load_results` -/

/-- **Read back in the order of the time stamps**: if the rows of all monitor files of a directory,
with their absolute times `t + t_start`, are a rearrangement of a list of events whose times are
strictly increasing, `load_results` returns exactly those events in that order (times re-based on the
earliest `t_start`) — whatever the file order and however the events are spread over the files.
The hypothesis holds when every file was written by one session against a strictly increasing clock;
it is what an appended session breaks (next theorem). -/
theorem load_results_in_order_partial {β : Type} (files : List (MFile β)) (events : List (Rat × β))
    (hsorted : events.Pairwise (fun a b => a.1 < b.1)) (hperm : (absRows files).Perm events) :
    loadResults files = events.map (fun p => (p.1 - minStart files, p.2)) :=
  loadResults_sorted files events hsorted hperm

/-- One file whose `t` column is strictly increasing is read back in file order. -/
theorem load_results_single_file_partial {β : Type} (f : MFile β) (hmono : f.rows.Pairwise (fun a b => a.1 < b.1)) :
    (loadResults [f]).map (·.2) = f.rows.map (·.2) := by
  have h := loadResults_sorted [f] (f.rows.map fun p => (p.1 + f.tStart, p.2))
    (by rw [List.pairwise_map]; exact hmono.imp (fun h => by simpa using h))
    (by simp [absRows])
  rw [h]
  simp [List.map_map, Function.comp]

/-- **Appended sessions are read back out of order** (finding K-C18-b): a file continued with
`override_existing=False` keeps the first header; the new rows' `t` is relative to the *new* start.
Rows written in the order 0, 1, 2 are returned as 2, 0, 1. -/
theorem load_results_in_order_counterexample : (loadResults [cexFile]).map (·.2) = [2, 0, 1] ∧
    cexFile.rows.map (·.2) = [0, 1, 2] := ⟨cex_load, by decide⟩

/-! ## `round(·, 6)` -/

/-- `round(x, 6)` does not change a value that has at most six decimals … -/
theorem round6_exact (q : Rat) (z : Int) (h : q * 1000000 = z) : round6 q = q := Lemmas.Mon.round6_exact q z h

/-- … in particular any multiple of `1/64` (the rewards of the exact correspondence stream) … -/
theorem round6_dyadic64 (k : Int) : round6 ((k : Rat) / 64) = (k : Rat) / 64 := Lemmas.Mon.round6_dyadic64 k

/-- … and never moves a value by more than half a unit of the sixth decimal. -/
theorem round6_error (q : Rat) : |round6 q - q| ≤ 1 / 2000000 := round6_err q

/-! ## Non-vacuity: the hypotheses above are met by concrete non-trivial data -/

/-- a history with an early reset, a reset rejected for a missing keyword, a rejected step and two completed
episodes (hypothesis `hk` of `monitor_episode_exact` is met at calls 5 and 8) -/
example : ((Mon.run ⟨true, [], ["a"]⟩ id Mon.init ([.reset [("a", 5)], .step 1 false false [], .reset [("a", 6)],
    .step 2 false false [], .reset [], .step 3 true false [], .step 9 false false [], .reset [("a", 7)],
    .step 4 false true []] : List (Op Int))).2.filterMap Out.ep?).map (fun e => (e.r, e.l)) = [(5, 2), (4, 1)] := by
  decide

/-- `infoOk` -/
example : (Op.step (1 : Int) true false [("tag", 3)]).infoOk ⟨true, ["tag"], []⟩ = true := by decide

/-- `evaluate` terminates on a concrete table with unequal episode lengths and `N` not a multiple of `n` -/
example : (evaluate false 3 2 (plainRows 2 ([[⟨1, false, []⟩, ⟨10, true, []⟩], [⟨2, true, []⟩, ⟨20, true, []⟩],
    [⟨3, false, []⟩, ⟨30, true, []⟩]] : List (List (Raw Int))))).finished 2 (targets 3 2) = true := by decide

example : (evaluate false 3 2 (plainRows 2 ([[⟨1, false, []⟩, ⟨10, true, []⟩], [⟨2, true, []⟩, ⟨20, true, []⟩],
    [⟨3, false, []⟩, ⟨30, true, []⟩]] : List (List (Raw Int))))).out = [(10, 1), (3, 2), (20, 1)] := by decide

example : evalSpec 2 (targets 3 2) ([[⟨1, false, []⟩, ⟨10, true, []⟩], [⟨2, true, []⟩, ⟨20, true, []⟩],
    [⟨3, false, []⟩, ⟨30, true, []⟩]] : List (List (Raw Int))) = [(10, 1), (3, 2), (20, 1)] := by decide

/-- `hinfo` of `evaluate_with_monitor` -/
example : ∀ row ∈ ([[⟨1, true, [("tag", 1)]⟩]] : List (List (Raw Int))), ∀ i, i < 1 →
    (row.getD i ⟨0, false, []⟩).done = true →
    (["tag"].all fun k => (kvGet (row.getD i ⟨0, false, []⟩).info k).isSome) = true := by decide

/-- hypotheses of `load_results_in_order_partial`: two files, interleaved events -/
example : ([((1001 : Rat), 0), (1002, 1), (1003, 2)] : List (Rat × Nat)).Pairwise (fun a b => a.1 < b.1) := by
  simp only [List.pairwise_cons, List.mem_cons, List.not_mem_nil, or_false, forall_eq_or_imp, forall_eq,
    List.Pairwise.nil, and_true, IsEmpty.forall_iff, implies_true]
  norm_num

example : (absRows ([⟨1000, [(1, 0), (3, 2)]⟩, ⟨1001, [(1, 1)]⟩] : List (MFile Nat))).Perm
    [(1 + 1000, 0), (1 + 1001, 1), (3 + 1000, 2)] := by
  have : absRows ([⟨1000, [(1, 0), (3, 2)]⟩, ⟨1001, [(1, 1)]⟩] : List (MFile Nat)) =
      [(1 + 1000, 0), (3 + 1000, 2), (1 + 1001, 1)] := by simp [absRows]
  rw [this]
  exact List.Perm.cons _ (List.Perm.swap _ _ _)

/-- `hmono` of `load_results_single_file_partial` -/
example : ([((1 : Rat), 0), (3, 1), (7 / 2, 2)] : List (Rat × Nat)).Pairwise (fun a b => a.1 < b.1) := by
  simp only [List.pairwise_cons, List.mem_cons, List.not_mem_nil, or_false, forall_eq_or_imp, forall_eq,
    List.Pairwise.nil, and_true, IsEmpty.forall_iff, implies_true]
  norm_num

/-- `VecMonitor` on two envs with a mid-run `reset()`: env 0's partial episode (reward 1) is discarded -/
example : (VecMon.run 2 [] (VecMon.init 2) ([.reset, .step [⟨1, false, []⟩, ⟨10, true, []⟩], .reset,
    .step [⟨2, false, []⟩, ⟨20, false, []⟩], .step [⟨3, true, []⟩, ⟨30, true, []⟩]] : List (VOp Int))).2.map
      (fun o => o.map (fun e => e.map (fun x => (x.r, x.l)))) =
    [[], [none, some (10, 1)], [], [none, none], [some (5, 2), some (50, 2)]] := by decide

/-- hypothesis of `round6_exact` -/
example : ((1 : Rat) / 64) * 1000000 = ((15625 : Int) : Rat) := by norm_num

example : contributions 2 (colCalls 0 ([[⟨1, true, []⟩], [⟨2, true, []⟩], [⟨3, true, []⟩]] : List (List (Raw Int)))) = 2 := by
  decide

example : targets 10 4 = [2, 2, 3, 3] := by decide
example : targets 2 5 = [0, 0, 0, 1, 1] := by decide

end SB3Verif.C18
