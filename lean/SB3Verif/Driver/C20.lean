/-
Driver for C20: runs the executable model `SB3Verif.Logger` / `SB3Verif.Csv` on the operations the harness
(`/verif/harness/c20.py`) performed on the real `Logger` with CSV / JSON / human output formats.

ops (strings are JSON strings; `V` = {"t":"int","v":i} | {"t":"str","v":s} | {"t":"flt","v":q}            (mode "rat")
                                                                           | {"t":"flt","csv":s,"human":s,"json":s} (mode "tok"))
  {"op":"new","mode":"rat"|"tok","csv":b,"json":b,"human":b,"max_length":n}   → {"ok":true}
  {"op":"record","key":s,"val":V,"excl":[s]}                                  → {"pending":[[key,val,count,excl]]}
  {"op":"record_mean","key":s,"x":q|null,"excl":[s]}   (mode "rat" only)      → {"pending":…} | {"error":"typeError"}
  {"op":"dump","order":[s]}        → {"keys":[s],"csv":s,"json":s,"human":s} (whole file contents) | {"error":…}
  {"op":"read"}                    → {"csv":{"header":[s],"rows":[[cell]]}|null, "json":[[[key,jval]]]|null}
  {"op":"fmt","x":q}               → {"repr":s,"g3":s}        (`str(float)`, `f"{x:<8.3g}"`)
-/
import SB3Verif.Driver.Proto
import SB3Verif.Model.PyFloat

open Lean SB3Verif.Proto SB3Verif.Logger
open SB3Verif.Csv (Str Cell)

/-- mode "tok": a float-like value is carried as the three texts Python printed for it -/
structure Tok where
  csv : Str
  human : Str
  json : Str

def tokRender : Render Tok := { csv := (·.csv), human := (·.human), json := (·.json) }

inductive St where
  | none
  | rat (cfg : Config) (s : Sys Rat)
  | tok (cfg : Config) (s : Sys Tok)

def sJ (s : Str) : Json := Json.str (String.ofList s)
def getS (j : Json) (k : String) : Except String Str := (·.toList) <$> getStr j k
def asS (j : Json) : Except String Str := (·.toList) <$> asStr j

def valJ {α} (f : α → Json) : Val α → Json
  | .int i => Json.arr #[Json.str "i", intJ i]
  | .flt x => Json.arr #[Json.str "f", f x]
  | .str s => Json.arr #[Json.str "s", sJ s]

def pendingJ {α} (f : α → Json) (p : Pending α) : Json :=
  objJ [("pending", listJ (fun e => Json.arr #[sJ e.key, valJ f e.val, natJ e.count, listJ sJ e.excl]) p)]

def cellJ : Cell → Json
  | .missing => Json.null
  | .num t => Json.arr #[Json.str "n", sJ t]
  | .str s => Json.arr #[Json.str "s", sJ s]

def jvalJ : JVal → Json
  | .num t => Json.arr #[Json.str "n", sJ t]
  | .str s => Json.arr #[Json.str "s", sJ s]

def errName : Err → String
  | .typeError => "typeError"
  | .valueError => "valueError"
  | .badOrder => "badOrder"

def sysJ {α} (s : Sys α) : Json :=
  objJ [("keys", listJ sJ s.csv.keys), ("csv", sJ s.csv.data), ("json", sJ s.json), ("human", sJ s.human)]

def readJ {α} (s : Sys α) : Json :=
  let c := match SB3Verif.Csv.readCsv s.csv.data with
    | some t => objJ [("header", listJ sJ t.header), ("rows", listJ (listJ cellJ) t.rows)]
    | none => Json.null
  let j := match readJson s.json with
    | some rows => listJ (listJ (fun kv => Json.arr #[sJ kv.1, jvalJ kv.2])) rows
    | none => Json.null
  objJ [("csv", c), ("json", j)]

def parseValRat (j : Json) : Except String (Val Rat) := do
  let t ← getStr j "t"
  match t with
  | "int" => return .int (← getInt j "v")
  | "flt" => return .flt (← getRat j "v")
  | "str" => return .str (← getS j "v")
  | _ => throw s!"bad value type {t}"

def parseValTok (j : Json) : Except String (Val Tok) := do
  let t ← getStr j "t"
  match t with
  | "int" => return .int (← getInt j "v")
  | "flt" => return .flt ⟨← getS j "csv", ← getS j "human", ← getS j "json"⟩
  | "str" => return .str (← getS j "v")
  | _ => throw s!"bad value type {t}"

def stepC20 (st : St) (j : Json) : Except String (St × Json) := do
  let op ← getStr j "op"
  match op with
  | "new" =>
    let cfg : Config := { csv := ← getBool j "csv", json := ← getBool j "json", human := ← getBool j "human",
                          maxLen := ← getNat j "max_length" }
    let mode ← getStr j "mode"
    match mode with
    | "rat" => return (.rat cfg Sys.init, objJ [("ok", boolJ true)])
    | "tok" => return (.tok cfg Sys.init, objJ [("ok", boolJ true)])
    | _ => throw s!"bad mode {mode}"
  | "fmt" =>
    let x ← getRat j "x"
    return (st, objJ [("repr", sJ (pyFloatRepr x)), ("g3", sJ (g3 x))])
  | "record" =>
    let k ← getS j "key"
    let ex ← getList asS j "excl"
    match st with
    | .rat cfg s =>
      let v ← parseValRat (← fld j "val")
      match s.step ratRender cfg (.record k v ex) with
      | .ok s' => return (.rat cfg s', pendingJ ratJ s'.pending)
      | .error e => throw (errName e)
    | .tok cfg s =>
      let v ← parseValTok (← fld j "val")
      let s' := { s with pending := record k v ex s.pending }
      return (.tok cfg s', pendingJ (fun t => sJ t.csv) s'.pending)
    | .none => throw "no logger"
  | "record_mean" =>
    let k ← getS j "key"
    let ex ← getList asS j "excl"
    let xj ← fld j "x"
    let x : Option Rat ← (if xj.isNull then pure none else some <$> asRat xj)
    match st with
    | .rat cfg s =>
      match s.step ratRender cfg (.recordMean k x ex) with
      | .ok s' => return (.rat cfg s', pendingJ ratJ s'.pending)
      | .error e => throw (errName e)
    | .tok _ _ => throw "record_mean needs mode rat"
    | .none => throw "no logger"
  | "dump" =>
    let order ← getList asS j "order"
    match st with
    | .rat cfg s =>
      match s.step ratRender cfg (.dump order) with
      | .ok s' => return (.rat cfg s', sysJ s')
      | .error e => throw (errName e)
    | .tok cfg s =>
      match s.dump tokRender cfg order with
      | .ok s' => return (.tok cfg s', sysJ s')
      | .error e => throw (errName e)
    | .none => throw "no logger"
  | "read" =>
    match st with
    | .rat _ s => return (st, readJ s)
    | .tok _ s => return (st, readJ s)
    | .none => throw "no logger"
  | _ => throw s!"bad-op {op}"

def main : IO Unit := SB3Verif.Proto.run stepC20 St.none
