"""
C01 — VecEnv episode-boundary contract (auto-reset, terminal_observation, TimeLimit.truncated, reset_infos,
seed / options delivery) for DummyVecEnv and SubprocVecEnv.

Implementation under test: stable_baselines3.common.vec_env.{DummyVecEnv, SubprocVecEnv} (+ base_vec_env, util)
Model: lean/SB3Verif/Model/VecEnv.lean (driver lean/SB3Verif/Driver/C01.lean)

Two detectors:
  * oracle          — the property sentence, evaluated on what the real VecEnv returned against the scripted
                      sub-environments' own logs (ground truth); does not use the Lean model;
  * correspondence  — the same operations, with the sub-environments' logged answers as arguments, are run through the
                      Lean model (Dummy mechanism or Subproc mechanism, plus the single-environment specification) and
                      every output (obs tags, rewards, dones, infos, reset_infos, calls received, seeds) is diffed.
"""
from __future__ import annotations

from fractions import Fraction as F

import numpy as np

from harness.common import InfraError, guarded
from harness.envs import OBS_KINDS, ScriptedEnv, decode, decode_batch, encode, gen_script, make_tag

RULE = (
    "cases from one SplitMix64 stream: variant Dummy/Subproc (quick: fork + a few forkserver; thorough: fork, forkserver, "
    "spawn), n_envs 1..4 (widened: ..6), all nine observation-space kinds (box1, box2, image_hwc, image_chw, discrete, "
    "multidiscrete, multibinary, dict, tuple), five action-space kinds, per-environment scripts (styles mixed / length-1 / "
    "never-ending / terminated+truncated / truncation-only / termination-only), seven info-dict styles (plain, empty, rich, "
    "preset = the sub-environment itself already sets 'TimeLimit.truncated' and 'terminal_observation'; seeded_only / "
    "auto_only = reset info is {} for automatic resets and non-empty for seeded/explicit-with-options resets, and the "
    "reverse; falsy = step infos full of falsy values 0, '', False, None, [], {} and reset infos alternating {} / all-falsy), histories of 4..26 "
    "operations mixing seed(int|None), set_options(None|dict|list|empty dicts), reset (also twice in a row and mid-episode) "
    "and step (step() or step_async()+step_wait()). non-trivial = history contains at least one automatic reset; "
    "distinct = distinct canonical case"
)
STREAMS = {
    "step": "obs tags, rewards (exact), dones, infos (incl. terminal_observation tag), reset_infos, calls received by each "
            "sub-env during a step == Lean mechanism model (Dummy / Subproc)",
    "reset": "obs tags, reset_infos, reset(seed, options) call received by each sub-env == Lean mechanism model",
    "seed": "return value of seed() == model",
    "layout": "per key and per sub-environment, the batched observation the real VecEnv returned (Dict / Tuple / plain; "
              "DummyVecEnv buf_obs incl. stale rows, SubprocVecEnv _stack_obs) == the model's keyed arrays",
    "spec": "the mechanism model's answer == n independent copies of the single-environment specification (checked in "
            "the driver output on every operation; proved as history_is_product)",
}

JUNK_BASE = (1 << 20) - 1  # tag a 'preset' sub-environment stores under terminal_observation itself
ACT_RANGE = {"discrete": 4, "box": 33, "box_sym": 17, "multidiscrete": 6, "multibinary": 8}
INFO_STYLES = ["plain", "empty", "rich", "preset", "seeded_only", "auto_only", "falsy"]


def enc_action(k: int, act_kind: str):
    if act_kind == "discrete":
        return np.int64(k)
    if act_kind == "box":
        return np.array([-2.0 + k / 4.0, 1.0], dtype=np.float32)
    if act_kind == "box_sym":
        return np.array([-1.0 + k / 8.0, 0.5], dtype=np.float32)
    if act_kind == "multidiscrete":
        return np.array([k % 3, k // 3], dtype=np.int64)
    if act_kind == "multibinary":
        return np.array([(k >> j) & 1 for j in range(3)], dtype=np.int8)
    raise ValueError(act_kind)


def dec_action(a, act_kind: str) -> int:
    """logged action (nested lists / scalar) -> k, or -1 when it is not an encoding"""
    try:
        x = np.asarray(a, dtype=np.float64).reshape(-1)
        if act_kind == "discrete":
            k = int(x[0])
            return k if len(x) == 1 and x[0] == k else -1
        if act_kind == "box":
            k = int(round((x[0] + 2.0) * 4.0))
            return k if len(x) == 2 and x[1] == 1.0 and -2.0 + k / 4.0 == x[0] else -1
        if act_kind == "box_sym":
            k = int(round((x[0] + 1.0) * 8.0))
            return k if len(x) == 2 and x[1] == 0.5 and -1.0 + k / 8.0 == x[0] else -1
        if act_kind == "multidiscrete":
            return int(x[0]) + 3 * int(x[1]) if len(x) == 2 else -1
        if act_kind == "multibinary":
            return sum(int(x[j]) << j for j in range(3)) if len(x) == 3 else -1
    except Exception:  # noqa
        return -1
    return -1


def canon_val(v):
    """python value of an info dict -> VAL of the driver protocol (observations are handled by the caller)"""
    if v is None:
        return None
    if isinstance(v, (bool, np.bool_)):
        return {"b": bool(v)}
    if isinstance(v, (int, np.integer)):
        return {"i": int(v)}
    if isinstance(v, str):
        return {"s": v}
    if isinstance(v, dict):
        try:
            return {"d": [[str(k), int(x)] for k, x in v.items()]}
        except Exception:  # noqa
            return {"?": repr(v)[:80]}
    if isinstance(v, (list, tuple)):
        try:
            return {"l": [int(x) for x in v]}
        except Exception:  # noqa
            return {"?": repr(v)[:80]}
    return {"?": repr(v)[:80]}


def canon_opts(o):
    return None if o is None else [[str(k), int(v)] for k, v in o.items()]


class C01Env(ScriptedEnv):
    """ScriptedEnv with richer info dictionaries; logs, in canonical form, exactly what it answered to every call."""

    def __init__(self, info_style="plain", **kw):
        super().__init__(**kw)
        self.info_style = info_style

    def reset(self, *, seed=None, options=None):
        gym_reset = super(ScriptedEnv, self).reset  # gym.Env.reset: seeds np_random
        gym_reset(seed=seed)
        self.episode += 1
        self.step_in_ep = 0
        self.needs_reset = False
        tag = make_tag(self.env_id, self.episode, 0)
        st = self.info_style
        given = seed is not None or bool(options)
        if st == "empty":
            info = {}
        elif st == "seeded_only":
            # non-empty only for a seeded / explicit-with-options reset; `{}` for every automatic reset
            info = {"seeded_with": seed, "options": options} if given else {}
        elif st == "auto_only":
            # the reverse: `{}` when something was delivered, non-empty for argument-less resets
            info = {} if given else {"reset_tag": tag}
        elif st == "falsy":
            # alternates between `{}` and a dictionary whose values are all falsy
            info = {} if self.episode % 2 else {"zero": 0, "blank": "", "no": False, "nil": None, "nolist": [], "nodict": {}}
        else:
            info = {"reset_tag": tag, "seed": seed, "options": options}
        cinfo = [[k, canon_val(v)] for k, v in info.items()]
        self.log.append(["reset", seed, canon_opts(options), tag, cinfo])
        return encode(tag, self.obs_kind), info

    def step(self, action):
        rew, term, trunc = self.script[self.n_steps % len(self.script)]
        self.n_steps += 1
        self.step_in_ep += 1
        tag = make_tag(self.env_id, self.episode, self.step_in_ep)
        st = self.info_style
        if st == "empty":
            info, cinfo = {}, []
        else:
            info = {"tag": tag, "k": self.n_steps}
            cinfo = [["tag", {"i": tag}], ["k", {"i": self.n_steps}]]
            if st == "rich":
                info.update({"note": f"s{self.n_steps}", "flag": bool(self.n_steps % 2), "nil": None,
                             "extra": {"a": self.n_steps}})
                cinfo += [["note", {"s": f"s{self.n_steps}"}], ["flag", {"b": bool(self.n_steps % 2)}], ["nil", None],
                          ["extra", {"d": [["a", self.n_steps]]}]]
            elif st == "falsy":
                info = {"zero": 0, "blank": "", "no": False, "nil": None, "nolist": [], "nodict": {}, "k": self.n_steps % 2}
                cinfo = [["zero", {"i": 0}], ["blank", {"s": ""}], ["no", {"b": False}], ["nil", None], ["nolist", {"l": []}],
                         ["nodict", {"d": []}], ["k", {"i": self.n_steps % 2}]]
            elif st == "preset":
                junk = JUNK_BASE - self.env_id
                wrong = not (trunc and not term)
                info.update({"TimeLimit.truncated": wrong, "terminal_observation": encode(junk, self.obs_kind)})
                cinfo += [["TimeLimit.truncated", {"b": wrong}], ["terminal_observation", {"o": junk}]]
        self.log.append(["step", np.asarray(action).tolist(), tag, float(rew), bool(term), bool(trunc), cinfo])
        if term or trunc:
            self.needs_reset = True
        return encode(tag, self.obs_kind), float(rew), bool(term), bool(trunc), info

    def get_log_since(self, k):
        return self.log[k:]


class C01EnvFn:
    """picklable constructor (fork, forkserver, spawn)"""

    def __init__(self, **kw):
        self.kw = kw

    def __call__(self):
        return C01Env(**self.kw)


# ------------------------------------------------------------------------------------------------------------------
# generation


def gen_opts_dict(rng, allow_empty=True):
    if allow_empty and rng.chance(0.25):
        return {}
    keys = rng.sample(["a", "b", "c", "level"], rng.randint(1, 2))
    return {k: rng.randint(-3, 9) for k in keys}


def gen_ops(rng, n, act_kind, length, widen):
    ops = []

    def seed_op():
        if rng.chance(0.2):
            return ["seed", None, rng.randint(0, 2**31 - 1)]
        return ["seed", rng.randint(0, 100000), 0]

    def opts_op():
        kind = rng.weighted([("none", 1), ("dict", 3), ("list", 4)])
        if kind == "none":
            return ["opts", None]
        if kind == "dict":
            return ["opts", {"dict": gen_opts_dict(rng)}]
        return ["opts", {"list": [gen_opts_dict(rng) for _ in range(n)]}]

    def step_op():
        return ["step", [rng.randint(0, ACT_RANGE[act_kind] - 1) for _ in range(n)], rng.chance(0.25)]

    # prologue: what is pending at the first reset
    for _ in range(rng.weighted([(0, 3), (1, 3), (2, 2), (3, 1)])):
        ops.append(seed_op() if rng.chance(0.5) else opts_op())
    ops.append(["reset"])
    while len(ops) < length:
        what = rng.weighted([("step", 14), ("seed", 1.5), ("opts", 1.5), ("reset", 1.5), ("seed_reset", 0.7),
                             ("opts_reset", 0.7), ("reset_reset", 0.5)])
        if what == "step":
            ops.append(step_op())
        elif what == "seed":
            ops.append(seed_op())
        elif what == "opts":
            ops.append(opts_op())
        elif what == "reset":
            ops.append(["reset"])
        elif what == "seed_reset":
            ops += [seed_op(), ["reset"]]
        elif what == "opts_reset":
            ops += [opts_op(), ["reset"]]
        else:
            ops += [["reset"], ["reset"]]
    return ops


def gen_case(rng, variant, start, widen):
    n = rng.weighted([(1, 2), (2, 3), (3, 3), (4, 2)] + ([(5, 2), (6, 2)] if widen else []))
    obs_kind = rng.choice(OBS_KINDS)
    act_kind = rng.choice(list(ACT_RANGE))
    length = rng.randint(4, 26) if not widen else rng.randint(4, 60)
    style_all = rng.weighted([(None, 6), ("len1", 1), ("both", 1), ("never", 0.5)])
    scripts = [gen_script(rng, style=style_all) for _ in range(n)]
    if rng.chance(0.3):
        info_style = [rng.choice(INFO_STYLES)] * n
    else:
        info_style = [rng.choice(INFO_STYLES) for _ in range(n)]
    return {"variant": variant, "start": start, "n": n, "obs_kind": obs_kind, "act_kind": act_kind,
            "scripts": scripts, "info_style": info_style, "ops": gen_ops(rng, n, act_kind, length, widen)}


def gen_cases(ctx):
    rng = ctx.rng
    cases = []
    for _ in range(ctx.budget(480, 6000)):
        cases.append(gen_case(rng, "dummy", None, ctx.widen))
    for _ in range(ctx.budget(200, 2400)):
        cases.append(gen_case(rng, "subproc", "fork", ctx.widen))
    if ctx.thorough:
        for _ in range(ctx.budget(0, 36)):
            cases.append(gen_case(rng, "subproc", "forkserver", ctx.widen))
        for _ in range(ctx.budget(0, 36)):
            cases.append(gen_case(rng, "subproc", "spawn", ctx.widen))
    elif ctx.chunk == 0 and not ctx.widen:
        cases.append(gen_case(rng, "subproc", "forkserver", ctx.widen))
    return cases


def shrink_candidates(case):
    ops = case["ops"]
    first_reset = next(i for i, o in enumerate(ops) if o[0] == "reset")
    # shorter histories
    if len(ops) > first_reset + 1:
        c = dict(case)
        c["ops"] = ops[: max(first_reset + 1, len(ops) // 2)]
        yield c
        c = dict(case)
        c["ops"] = ops[:-1]
        yield c
    # one-entry scripts (every step of that sub-environment then has the same outcome)
    for e in range(case["n"]):
        sc = case["scripts"][e]
        if len(sc) > 1:
            seen_entries = []
            for ent in sc:
                key = [ent[1], ent[2]]
                if key in seen_entries:
                    continue
                seen_entries.append(key)
                c = dict(case)
                c["scripts"] = [s if j != e else [ent] for j, s in enumerate(case["scripts"])]
                yield c
    for i in range(len(ops)):
        if i == first_reset and not any(o[0] == "reset" for o in ops[:i]):
            nxt = next((j for j, o in enumerate(ops) if j > i and o[0] in ("reset", "step")), None)
            if nxt is None or ops[nxt][0] != "reset":
                continue
        c = dict(case)
        c["ops"] = ops[:i] + ops[i + 1:]
        if any(o[0] == "reset" for o in c["ops"]):
            yield c
    # fewer sub-environments
    n = case["n"]
    if n > 1:
        for e in range(n):
            c = dict(case)
            c["n"] = n - 1
            c["scripts"] = [s for j, s in enumerate(case["scripts"]) if j != e]
            c["info_style"] = [s for j, s in enumerate(case["info_style"]) if j != e]
            new_ops = []
            for o in ops:
                if o[0] == "step":
                    new_ops.append(["step", [a for j, a in enumerate(o[1]) if j != e], o[2]])
                elif o[0] == "opts" and o[1] is not None and "list" in o[1]:
                    new_ops.append(["opts", {"list": [d for j, d in enumerate(o[1]["list"]) if j != e]}])
                else:
                    new_ops.append(o)
            c["ops"] = new_ops
            yield c
    if case["variant"] == "subproc" and case.get("start") != "fork":
        c = dict(case)
        c["start"] = "fork"
        yield c
    if case["obs_kind"] != "box1":
        c = dict(case)
        c["obs_kind"] = "box1"
        yield c
    if any(s != "plain" for s in case["info_style"]):
        c = dict(case)
        c["info_style"] = ["plain"] * n
        yield c
    if case["act_kind"] != "discrete":
        c = dict(case)
        c["act_kind"] = "discrete"
        c["ops"] = [["step", [a % 4 for a in o[1]], o[2]] if o[0] == "step" else o for o in ops]
        yield c
    for e in range(n):
        if len(case["scripts"][e]) > 1:
            c = dict(case)
            c["scripts"] = [s if j != e else s[:-1] for j, s in enumerate(case["scripts"])]
            yield c


# ------------------------------------------------------------------------------------------------------------------
# running the implementation


def make_vec(case):
    from stable_baselines3.common.vec_env import DummyVecEnv, SubprocVecEnv

    fns = [C01EnvFn(env_id=i, obs_kind=case["obs_kind"], act_kind=case["act_kind"], script=case["scripts"][i],
                    info_style=case["info_style"][i]) for i in range(case["n"])]
    if case["variant"] == "dummy":
        return DummyVecEnv(fns)
    return SubprocVecEnv(fns, start_method=case.get("start") or "fork")


def canon_info(info, kind):
    """implementation info dict -> {key: VAL}; terminal_observation is decoded to its tag"""
    out = {}
    for k, v in info.items():
        if k == "terminal_observation":
            try:
                out[k] = {"o": decode(v, kind)}
            except Exception as e:  # noqa
                out[k] = {"?": f"undecodable terminal_observation: {e}"[:120]}
        else:
            out[k] = canon_val(v)
    return out


SUBKINDS = {"dict": {"vec": "box1", "img": "image_hwc", "disc": "discrete"}, "tuple": {"0": "box1", "1": "discrete"}}


def decode_keys(obs, kind, n):
    """batched observation -> per sub-environment [[key, tag]] in the key order of the returned structure
    (key "" for an unstructured space, names for Dict, positions for Tuple)"""
    if kind == "dict":
        return [[[str(k), decode(v[i], SUBKINDS["dict"][k])] for k, v in obs.items()] for i in range(n)]
    if kind == "tuple":
        return [[[str(j), decode(o[i], SUBKINDS["tuple"][str(j)])] for j, o in enumerate(obs)] for i in range(n)]
    return [[["", decode(obs[i], kind)]] for i in range(n)]


def space_keys(vec, kind):
    sp = vec.observation_space
    if kind == "dict":
        return [str(k) for k in sp.spaces.keys()]
    if kind == "tuple":
        return [str(j) for j in range(len(sp.spaces))]
    return [""]


def pairs_to_dict(pairs):
    """INFO of the protocol ([[k, VAL]]) -> {k: VAL}, nested option dicts as dicts (order-insensitive comparison)"""
    d = {}
    for k, v in pairs:
        if k in d:
            d[k + "#dup"] = v
        d[k] = {"d": dict((a, b) for a, b in v["d"])} if isinstance(v, dict) and "d" in v else v
    return d


def norm_info(d):
    return {k: ({"d": dict((a, b) for a, b in v["d"])} if isinstance(v, dict) and "d" in v else v) for k, v in d.items()}


def run_case(ctx, case):
    """Runs the history on the real VecEnv. Returns a list of per-op records (what was returned + log deltas)."""
    n, kind = case["n"], case["obs_kind"]
    vec = make_vec(case)
    recs = []
    try:
        seen = [0] * n

        def deltas():
            ds = [vec.env_method("get_log_since", seen[i], indices=[i])[0] for i in range(n)]
            for i in range(n):
                seen[i] += len(ds[i])
            return ds

        def tags_of(obs):
            try:
                return decode_batch(obs, kind, n), None
            except Exception as e:  # noqa
                return None, f"{type(e).__name__}: {e}"[:200]

        def krows_of(obs):
            try:
                return decode_keys(obs, kind, n)
            except Exception:  # noqa
                return None

        keys = space_keys(vec, kind)

        for op in case["ops"]:
            if op[0] == "seed":
                if op[1] is None:
                    np.random.seed(op[2])
                    exp = int(np.random.randint(0, np.iinfo(np.uint32).max, dtype=np.uint32))
                    np.random.seed(op[2])
                    ret = vec.seed(None)
                else:
                    exp = op[1]
                    ret = vec.seed(op[1])
                recs.append({"op": "seed", "s": exp, "ret": [None if x is None else int(x) for x in ret],
                             "reset_infos": [canon_info(d, kind) for d in vec.reset_infos], "deltas": deltas()})
            elif op[0] == "opts":
                arg = op[1]
                if arg is None:
                    vec.set_options(None)
                elif "dict" in arg:
                    # option values are handed over as mutable 0-d arrays and overwritten in place right after the call:
                    # what reaches the sub-environments is the value at set_options() time (seeded change C01-j)
                    given = {k: np.array(v) for k, v in arg["dict"].items()}
                    vec.set_options(given)
                    for a in given.values():
                        a[...] = -7
                else:
                    given = [{k: np.array(v) for k, v in d.items()} for d in arg["list"]]
                    vec.set_options(given)
                    for d in given:
                        for a in d.values():
                            a[...] = -7
                recs.append({"op": "opts", "arg": arg, "reset_infos": [canon_info(d, kind) for d in vec.reset_infos],
                             "deltas": deltas()})
            elif op[0] == "reset":
                obs = vec.reset()
                tags, err = tags_of(obs)
                recs.append({"op": "reset", "tags": tags, "decode_error": err, "krows": krows_of(obs), "keys": keys,
                             "reset_infos": [canon_info(d, kind) for d in vec.reset_infos], "deltas": deltas()})
            elif op[0] == "step":
                acts = np.stack([enc_action(k, case["act_kind"]) for k in op[1]])
                if op[2]:
                    vec.step_async(acts)
                    obs, rews, dones, infos = vec.step_wait()
                else:
                    obs, rews, dones, infos = vec.step(acts)
                tags, err = tags_of(obs)
                recs.append({"op": "step", "acts": list(op[1]), "tags": tags, "decode_error": err, "krows": krows_of(obs),
                             "keys": keys,
                             "rews": [float(x) for x in np.asarray(rews).reshape(-1)],
                             "rews_shape": list(np.asarray(rews).shape),
                             "dones": [bool(x) for x in np.asarray(dones).reshape(-1)],
                             "dones_shape": list(np.asarray(dones).shape),
                             "infos": [canon_info(d, kind) for d in infos],
                             "reset_infos": [canon_info(d, kind) for d in vec.reset_infos], "deltas": deltas()})
            else:
                raise InfraError(f"bad op {op}")
    finally:
        try:
            vec.close()
        except Exception:  # noqa
            pass
    return recs


# ------------------------------------------------------------------------------------------------------------------
# oracle: the property sentence against the sub-environments' own logs


def oracle(ctx, case, recs):
    """returns stats dict; reports at most one violation per case"""
    rep = ctx.report
    n, act_kind = case["n"], case["act_kind"]
    base = {"variant": case["variant"]}
    pend_seed = [None] * n
    pend_opts = [None] * n          # None = nothing pending (or empty dict)
    last_reset_info = [{} for _ in range(n)]
    stats = {"auto_resets": 0, "len1": 0, "both": 0, "trunc": 0, "term": 0, "cont": 0, "mid_episode_resets": 0}
    fresh = [False] * n             # sub-env i is at the first step of an episode
    in_episode = [False] * n

    def bad(what, check, opi, i, detail):
        sig = dict(base)
        sig.update({"check": check, "op": recs[opi]["op"]})
        d = {"op_index": opi, "env": i}
        d.update(detail)
        rep.violation(what, case, sig, d)
        return stats

    for opi, r in enumerate(recs):
        ds = r["deltas"]
        if r["op"] in ("seed", "opts"):
            for i in range(n):
                if ds[i]:
                    return bad("seed()/set_options() called a sub-environment", "calls", opi, i, {"calls": ds[i]})
                if norm_info(r["reset_infos"][i]) != last_reset_info[i]:
                    return bad("reset_infos changed without a reset", "reset_infos", opi, i, {"got": r["reset_infos"][i]})
            if r["op"] == "seed":
                if r["ret"] != [r["s"] + i for i in range(n)]:
                    return bad("seed() does not return seed + index", "seed_return", opi, None, {"got": r["ret"], "s": r["s"]})
                pend_seed = [r["s"] + i for i in range(n)]
            else:
                a = r["arg"]
                if a is None:
                    pend_opts = [None] * n
                elif "dict" in a:
                    pend_opts = [dict(a["dict"]) or None for _ in range(n)]
                else:
                    pend_opts = [dict(d) or None for d in a["list"]]
            continue
        if r["op"] == "reset":
            if r["tags"] is None:
                return bad("reset() returned an observation that is not the sub-environments' own", "obs_decode", opi, None,
                           {"error": r["decode_error"]})
            if len(r["reset_infos"]) != n:
                return bad("reset_infos has the wrong length", "shape", opi, None, {"len": len(r["reset_infos"])})
            for i in range(n):
                d = ds[i]
                if len(d) != 1 or d[0][0] != "reset":
                    return bad("reset() did not call reset() exactly once on each sub-environment", "calls", opi, i,
                               {"calls": d})
                _, seed, opts, tag, cinfo = d[0]
                if seed != pend_seed[i]:
                    return bad("seed not delivered to the matching sub-environment exactly once", "seed_delivery", opi, i,
                               {"received": seed, "expected": pend_seed[i]})
                want_opts = canon_opts(pend_opts[i])
                if (None if opts is None else dict(map(tuple, opts))) != (None if want_opts is None else dict(map(tuple, want_opts))):
                    return bad("options not delivered to the matching sub-environment exactly once", "options_delivery",
                               opi, i, {"received": opts, "expected": want_opts})
                if r["tags"][i] != tag:
                    return bad("reset() observation is not the sub-environment's own reset observation", "reset_obs", opi, i,
                               {"got": r["tags"][i], "expected": tag})
                if norm_info(r["reset_infos"][i]) != pairs_to_dict(cinfo):
                    return bad("reset_infos[i] is not the info returned by the sub-environment's reset", "reset_infos", opi, i,
                               {"got": r["reset_infos"][i], "expected": cinfo})
                last_reset_info[i] = pairs_to_dict(cinfo)
                if in_episode[i] and not fresh[i]:
                    stats["mid_episode_resets"] += 1
                fresh[i] = True
                in_episode[i] = True
            pend_seed = [None] * n
            pend_opts = [None] * n
            continue
        # ---- step -------------------------------------------------------------------------------------------
        if r["tags"] is None:
            return bad("step() returned an observation that is not the sub-environments' own", "obs_decode", opi, None,
                       {"error": r["decode_error"]})
        if r["rews_shape"] != [n] or r["dones_shape"] != [n] or len(r["infos"]) != n or len(r["reset_infos"]) != n:
            return bad("step() returned arrays of the wrong shape", "shape", opi, None,
                       {"rews": r["rews_shape"], "dones": r["dones_shape"], "infos": len(r["infos"])})
        for i in range(n):
            d = ds[i]
            if not d or d[0][0] != "step":
                return bad("step() did not call step() first on the sub-environment", "calls", opi, i, {"calls": d})
            _, act, tag, rew, term, trunc, cinfo = d[0]
            done = term or trunc
            if dec_action(act, act_kind) != r["acts"][i]:
                return bad("sub-environment received another action than its own", "action", opi, i,
                           {"received": act, "sent_code": r["acts"][i]})
            if done:
                ok_calls = len(d) == 2 and d[1][0] == "reset" and d[1][1] is None and d[1][2] is None
            else:
                ok_calls = len(d) == 1
            if not ok_calls:
                return bad("calls received during step() are not [step] / [step, reset()]", "calls", opi, i,
                           {"calls": d, "done": done})
            if F(r["rews"][i]) != F(rew):
                return bad("reward is not the sub-environment's own reward", "reward", opi, i,
                           {"got": r["rews"][i], "expected": rew})
            if r["dones"][i] != done:
                return bad("done != terminated or truncated", "done", opi, i,
                           {"got": r["dones"][i], "terminated": term, "truncated": trunc})
            info = norm_info(r["infos"][i])
            env_info = pairs_to_dict(cinfo)
            flag = info.get("TimeLimit.truncated", "missing")
            if flag != {"b": bool(trunc and not term)}:
                return bad("infos[i]['TimeLimit.truncated'] != truncated and not terminated", "truncated_flag", opi, i,
                           {"got": flag, "terminated": term, "truncated": trunc})
            if done:
                rtag, rinfo = d[1][3], pairs_to_dict(d[1][4])
                if r["tags"][i] != rtag:
                    return bad("observation after an episode end is not the first observation of the next episode",
                               "obs_after_done", opi, i, {"got": r["tags"][i], "expected": rtag, "terminal": tag})
                if info.get("terminal_observation") != {"o": tag}:
                    return bad("terminal_observation is not the last observation of the finished episode",
                               "terminal_observation", opi, i, {"got": info.get("terminal_observation"), "expected": tag})
                if norm_info(r["reset_infos"][i]) != rinfo:
                    return bad("reset_infos[i] is not the info of the automatic reset", "reset_infos_auto", opi, i,
                               {"got": r["reset_infos"][i], "expected": d[1][4]})
                last_reset_info[i] = rinfo
                stats["auto_resets"] += 1
                stats["both" if term and trunc else "term" if term else "trunc"] += 1
                if fresh[i]:
                    stats["len1"] += 1
                fresh[i] = True
            else:
                if r["tags"][i] != tag:
                    return bad("observation is not the sub-environment's own step observation", "obs", opi, i,
                               {"got": r["tags"][i], "expected": tag})
                if info.get("terminal_observation") != env_info.get("terminal_observation"):
                    return bad("terminal_observation present although the episode continues", "terminal_observation_spurious",
                               opi, i, {"got": info.get("terminal_observation")})
                if norm_info(r["reset_infos"][i]) != last_reset_info[i]:
                    return bad("reset_infos[i] changed although the episode continues", "reset_infos", opi, i,
                               {"got": r["reset_infos"][i], "expected": last_reset_info[i]})
                stats["cont"] += 1
                fresh[i] = False
            rest = {k: v for k, v in info.items() if k not in ("TimeLimit.truncated", "terminal_observation")}
            env_rest = {k: v for k, v in env_info.items() if k not in ("TimeLimit.truncated", "terminal_observation")}
            if rest != env_rest:
                return bad("info keys of the sub-environment were lost or altered", "info_passthrough", opi, i,
                           {"got": rest, "expected": env_rest})
    return stats


# ------------------------------------------------------------------------------------------------------------------
# model operations from the sub-environments' logs, and the comparison


def call_of_log(entry, act_kind):
    if entry[0] == "reset":
        return ["reset", entry[1], entry[2]]
    return ["step", dec_action(entry[1], act_kind)]


def model_ops(case, recs):
    """returns (ops, usable_upto): ops[0] is 'new'; ops[k+1] belongs to recs[k] for k < usable_upto"""
    n, act_kind = case["n"], case["act_kind"]
    ops = [{"op": "new", "kind": case["variant"], "n": n}]
    for r in recs:
        ds = r["deltas"]
        if r["op"] == "seed":
            ops.append({"op": "seed", "s": r["s"]})
        elif r["op"] == "opts":
            a = r["arg"]
            if a is None:
                arg = None
            elif "dict" in a:
                arg = {"dict": canon_opts(a["dict"])}
            else:
                arg = {"list": [canon_opts(d) for d in a["list"]]}
            ops.append({"op": "set_options", "arg": arg})
        elif r["op"] == "reset":
            if any(len(d) != 1 or d[0][0] != "reset" for d in ds):
                break
            ops.append({"op": "reset", "zs": [{"obs": d[0][3], "info": d[0][4]} for d in ds]})
        else:
            if any(len(d) not in (1, 2) or d[0][0] != "step" or (len(d) == 2 and d[1][0] != "reset") for d in ds):
                break
            xs = []
            for d in ds:
                _, act, tag, rew, term, trunc, cinfo = d[0]
                q = F(rew)
                xs.append({"obs": tag, "rew": [q.numerator, q.denominator], "term": term, "trunc": trunc, "info": cinfo,
                           "rst": None if len(d) == 1 else {"obs": d[1][3], "info": d[1][4]}})
            ops.append({"op": "step", "acts": r["acts"], "xs": xs})
    return ops, len(ops) - 1


def truth_tags(r):
    """the observation tag each sub-environment handed out last in this operation (from its own log), or None"""
    out = []
    for d in r["deltas"]:
        if not d:
            return None
        last = d[-1]
        out.append(last[3] if last[0] == "reset" else last[2])
    return out


def layout_op(case, recs):
    """one 'layout' model operation for the last observation-returning operation of the history (stale = the one before)"""
    idx = [k for k, r in enumerate(recs) if r["op"] in ("reset", "step")]
    if not idx:
        return None, None
    k = idx[-1]
    r = recs[k]
    tt = truth_tags(r)
    if tt is None or r.get("krows") is None:
        return None, None
    keys = r["keys"]
    stale = None
    if len(idx) > 1:
        st = truth_tags(recs[idx[-2]])
        if st is not None:
            stale = [[[key, t] for key in keys] for t in st]
    op = {"op": "layout", "keys": keys, "n": case["n"], "stale": stale, "obs": [[[key, t] for key in keys] for t in tt]}
    return op, k


def impl_view(case, r):
    """what the implementation did in one operation, in the shape of the driver's answer"""
    act_kind = case["act_kind"]
    calls = [[call_of_log(e, act_kind) for e in d] for d in r["deltas"]]
    ri = [norm_info(d) for d in r["reset_infos"]]
    if r["op"] == "seed":
        return {"seeds": r["ret"], "reset_infos": ri}
    if r["op"] == "opts":
        return {"reset_infos": ri}
    if r["op"] == "reset":
        return {"obs": r["tags"], "reset_infos": ri, "calls": calls}
    return {"obs": r["tags"], "rews": [[F(x).numerator, F(x).denominator] for x in r["rews"]], "dones": r["dones"],
            "infos": [norm_info(d) for d in r["infos"]], "reset_infos": ri, "calls": calls}


def norm_calls(calls):
    return [[[c[0], c[1], None if c[2] is None else dict(map(tuple, c[2]))] if c[0] == "reset" else list(c) for c in cs]
            for cs in calls]


def model_view(r, mo):
    """driver answer -> comparable shape (+ the per-environment specification view)"""
    out = {"reset_infos": [pairs_to_dict(d) for d in mo["reset_infos"]]}
    if r["op"] == "seed":
        out["seeds"] = mo["seeds"]
    if r["op"] in ("reset", "step"):
        out["obs"] = mo["obs"]
        out["calls"] = norm_calls(mo["calls"])
    if r["op"] == "step":
        out["rews"] = [None if q is None else [F(q[0], q[1]).numerator, F(q[0], q[1]).denominator] for q in mo["rews"]]
        out["dones"] = mo["dones"]
        out["infos"] = [pairs_to_dict(d) for d in mo["infos"]]
    return out


def spec_view(r, mo):
    """the same answer assembled from the n single-environment specification outputs"""
    sp = mo["spec"]
    out = {"reset_infos": [pairs_to_dict(e["reset_info"]) for e in sp]}
    if r["op"] == "seed":
        out["seeds"] = [e["seed"] for e in sp]
    if r["op"] in ("reset", "step"):
        out["obs"] = [e["obs"] for e in sp]
        out["calls"] = norm_calls([e["calls"] for e in sp])
    if r["op"] == "step":
        out["rews"] = [None if e["rew"] is None else [F(e["rew"][0], e["rew"][1]).numerator, F(e["rew"][0], e["rew"][1]).denominator]
                       for e in sp]
        out["dones"] = [e["done"] for e in sp]
        out["infos"] = [pairs_to_dict(e["info"]) if e["info"] is not None else None for e in sp]
    return out


def compare(ctx, case, recs, nusable, mouts):
    """mouts: driver answers for ops[1:1+nusable] (None entries in oracle-only mode)"""
    rep = ctx.report
    for k in range(nusable):
        mo = mouts[k]
        if mo is None:
            return
        r = recs[k]
        stream = {"seed": "seed", "opts": "reset", "reset": "reset", "step": "step"}[r["op"]]
        if "error" in mo:
            rep.disagree(stream, case, {"op_index": k, "impl": impl_view(case, r)}, mo)
            return
        iv = impl_view(case, r)
        iv["calls"] = norm_calls(iv["calls"]) if "calls" in iv else None
        if iv["calls"] is None:
            del iv["calls"]
        mv = model_view(r, mo)
        if iv != mv:
            diff = [f for f in iv if iv.get(f) != mv.get(f)]
            rep.disagree(stream, case, {"op_index": k, "fields": diff, "impl": {f: iv[f] for f in diff}},
                         {f: mv.get(f) for f in diff})
            return
        rep.agree()
        sv = spec_view(r, mo)
        if sv != mv:
            diff = [f for f in mv if sv.get(f) != mv.get(f)]
            rep.disagree("spec", case, {"op_index": k, "fields": diff, "mechanism": {f: mv[f] for f in diff}},
                         {f: sv.get(f) for f in diff})
            return
        rep.agree()
    if nusable < len(recs):
        # the sub-environments' logs do not have the shape of a VecEnv operation: nothing the model can be fed with
        rep.disagree("step" if recs[nusable]["op"] == "step" else "reset", case,
                     {"op_index": nusable, "calls": recs[nusable]["deltas"]},
                     {"error": "calls received by the sub-environments are outside the model's domain"})


def check_cases(ctx, cases):
    rep = ctx.report
    all_ops, plan = [], []
    for case in cases:
        rep.count(f"variant:{case['variant']}" + (f"/{case['start']}" if case.get("start") else ""))
        rep.count(f"obs:{case['obs_kind']}")
        rep.count(f"act:{case['act_kind']}")
        rep.count(f"n={case['n']}")
        for st in set(case["info_style"]):
            rep.count(f"info_style:{st}")
        for o in case["ops"]:
            if o[0] == "seed":
                rep.count("op:seed(None)" if o[1] is None else "op:seed(int)")
            elif o[0] == "opts":
                rep.count("op:set_options(" + ("None" if o[1] is None else "dict" if "dict" in o[1] else "list") + ")")
            elif o[0] == "step":
                rep.count("op:step_async+wait" if o[2] else "op:step")
            else:
                rep.count("op:reset")
        recs = guarded(ctx, case, lambda: run_case(ctx, case))
        if recs is None:
            rep.case(case, None)
            continue
        stats = oracle(ctx, case, recs)
        for k, v in stats.items():
            if v:
                rep.count(f"envsteps:{k}", v)
        rep.case(case, case if stats["auto_resets"] > 0 else None)
        ops, nusable = model_ops(case, recs)
        lop, lk = layout_op(case, recs)
        plan.append((case, recs, nusable, len(all_ops), lk))
        all_ops.extend(ops)
        if lop is not None:
            all_ops.append(lop)
    outs = ctx.lean.run(all_ops)
    for case, recs, nusable, off, lk in plan:
        new = outs[off]
        if new is not None and "error" in new:
            rep.disagree("reset", case, "new", new)
            continue
        compare(ctx, case, recs, nusable, outs[off + 1: off + 1 + nusable])
        if lk is not None:
            lo = outs[off + 1 + nusable]
            if lo is None:
                continue
            want = lo.get("dummy" if case["variant"] == "dummy" else "subproc") if "error" not in lo else lo
            if recs[lk]["krows"] != want:
                rep.disagree("layout", case, {"op_index": lk, "rows": recs[lk]["krows"]}, want)
            elif lo.get("dummy") != lo.get("subproc"):
                rep.disagree("layout", case, {"dummy_model": lo.get("dummy")}, {"subproc_model": lo.get("subproc")})
            else:
                rep.agree()
