"""
C08 — Target networks change only by the Polyak rule, at the configured cadence.

Implementation under test:
    stable_baselines3.common.utils.polyak_update
    DQN._on_step / SAC.train / TD3.train (DDPG = TD3 with policy_delay 1), the optimizers built in
    dqn/sac/td3 policies
Model: lean/SB3Verif/Model/Polyak.lean, lean/SB3Verif/Model/Cadence.lean (driver lean/SB3Verif/Driver/C08.lean)

Observation is by *effect* only: every tensor of the online and target networks (parameters, running statistics,
SAC's log_ent_coef) is snapshotted at the boundaries the public objects offer — before/after `_on_step()`,
before/after `train()`, at every `replay_buffer.sample()` (start of one gradient step) and before/after every
`optimizer.step()`. Nothing inside `polyak_update` is patched or counted, so a rewrite that keeps the behaviour
keeps the check quiet.
"""
from __future__ import annotations

import os
import shutil
import tempfile
from fractions import Fraction as F

import numpy as np

from harness.common import guarded, ratj, unratj

RULE = (
    "cases from one SplitMix64 stream: (kernel_exact) polyak_update on 0-4 tensors of 1-8 dyadic elements, tau in "
    "{0,1/8,1/4,1/2,3/4,1}, 20% with a different number of online and target tensors, lists or generators; every float32 "
    "intermediate is exact so the implementation and the Rat model must agree bit for bit; (kernel_float) random float32 "
    "tensors, tau in {0.005,0.01,0.1,0.9,0.995,random}, compared with the exact Rat model at 1e-6; (run) real DQN / SAC / "
    "TD3 / DDPG training runs on a scripted 3-dim Box env: n_envs 1-4, train_freq 1-5 steps or 1-2 episodes, "
    "gradient_steps in {-1,1,2,3,5}, target_update_interval 1-16 (and 1000), policy_delay 1-4, tau in "
    "{0,0.005,0.25,0.5,0.9,1}, learning_starts 0-5, batch-norm feature extractor in 35%, 1-2 learn() calls "
    "(reset_num_timesteps both ways), save/load between the calls in 15%, SAC with learned or fixed ent_coef and shared "
    "feature extractor. non-trivial = run with at least 3 moments at which a target tensor visibly changed and at least one "
    "candidate moment (environment step for DQN, gradient step otherwise) without update; distinct = distinct canonical case"
)
STREAMS = {
    "kernel_exact": "polyak_update result (or ValueError) == Rat model polyakUpdate, exactly",
    "kernel_float": "polyak_update result ~ Rat model (1e-6, float32 rounding)",
    "run_targets": "every target tensor after every environment step / gradient step ~ the model's store "
                   "(model fed with the optimizers' results only; tolerance 3e-7 per soft update)",
    "run_counters": "_n_calls / _n_updates after every _on_step / train() == the model's counters",
    "run_flags": "number of gradient steps per train() == number of iterations the model ran",
}

TAUS_EXACT = [F(0), F(1), F(1, 2), F(1, 4), F(3, 4), F(1, 8)]
TAUS_FLOAT = [0.005, 0.01, 0.1, 0.9, 0.995]
ALGOS = ["dqn", "sac", "td3", "ddpg"]


def f32_ok(q: F) -> bool:
    return F(float(np.float32(float(q)))) == q


# ------------------------------------------------------------------------------------------------
# generators
def gen_kernel(rng, widen, exact):
    n = rng.weighted([(0, 1), (1, 3), (2, 3), (3, 2), (4, 1)])
    shapes = []
    for _ in range(n):
        shapes.append(rng.choice([[1], [2], [3], [5], [8], [2, 2], [2, 3], [1, 4], [2, 1, 2]]))

    def val():
        if exact:
            return [rng.randint(-64, 64), 16]
        return float(np.float32((rng.random() - 0.5) * 8))

    def tens(shape):
        return [val() for _ in range(int(np.prod(shape)))]

    params = [tens(s) for s in shapes]
    targets = [tens(s) for s in shapes]
    pshapes, tshapes = list(shapes), list(shapes)
    mismatch = rng.chance(0.2 if not widen else 0.35)
    if mismatch:
        which = rng.choice(["drop_param", "drop_target", "extra_param", "extra_target"])
        if which == "drop_param" and params:
            k = rng.randint(0, len(params) - 1) if rng.chance(0.5) else len(params) - 1
            params.pop(k), pshapes.pop(k)
        elif which == "drop_target" and targets:
            k = rng.randint(0, len(targets) - 1) if rng.chance(0.5) else len(targets) - 1
            targets.pop(k), tshapes.pop(k)
        elif which == "extra_param":
            params.append(tens([2])), pshapes.append([2])
        else:
            targets.append(tens([2])), tshapes.append([2])
    if exact:
        tau = ratj(rng.choice(TAUS_EXACT))
    else:
        tau = float(rng.choice(TAUS_FLOAT)) if rng.chance(0.7) else float(rng.random())
    return {"kind": "kernel_exact" if exact else "kernel_float", "tau": tau, "params": params, "targets": targets,
            "pshapes": pshapes, "tshapes": tshapes, "as_gen": rng.chance(0.4), "as_param": rng.chance(0.5)}


def gen_run(rng, widen, thorough=False):
    algo = rng.weighted([("dqn", 3), ("sac", 3), ("td3", 3), ("ddpg", 1)])
    n_envs = rng.weighted([(1, 4), (2, 3), (3, 2), (4, 2)])
    if n_envs == 1 and rng.chance(0.25):
        train_freq = [rng.randint(1, 2), "episode"]
    else:
        train_freq = [rng.weighted([(1, 4), (2, 2), (3, 2), (5, 1)]), "step"]
    gradient_steps = rng.weighted([(-1, 3), (1, 4), (2, 2), (3, 2), (5, 1)])
    if algo == "dqn":
        interval = rng.weighted([(1, 1), (2, 2), (3, 2), (4, 2), (5, 2), (6, 1), (7, 2), (8, 1), (10, 2), (12, 1),
                                 (16, 1), (1000, 1)])
        tau = rng.weighted([(1.0, 5), (0.5, 2), (0.25, 1), (0.005, 1), (0.9, 1), (0.0, 0.3)])
    else:
        interval = rng.weighted([(1, 3), (2, 3), (3, 3), (4, 2), (5, 1), (7, 1)])
        tau = rng.weighted([(0.005, 3), (0.5, 3), (0.25, 2), (1.0, 2), (0.9, 1), (0.0, 0.3)])
    delay = rng.weighted([(1, 2), (2, 4), (3, 3), (4, 1)])
    n_learn = rng.weighted([(1, 3), (2, 2)])
    learns = []
    for i in range(n_learn):
        vec_steps = rng.randint(6, 22 if not thorough else 30)
        if gradient_steps == -1 or gradient_steps >= 3:
            vec_steps = min(vec_steps, 14)
        learns.append({"total": min(100, vec_steps * n_envs + rng.randint(0, n_envs - 1)),
                       "reset": True if i == 0 else rng.chance(0.5)})
    ep_len = rng.weighted([(1, 1), (2, 1), (3, 2), (5, 2), (8, 1), (1000, 1)])
    if train_freq[1] == "episode" and ep_len > 8:
        ep_len = 4  # a rollout of k episodes lasts until k episodes ended, whatever total_timesteps says
    bn = rng.chance(0.35)
    return {
        "kind": "run", "algo": algo, "n_envs": n_envs, "train_freq": train_freq, "gradient_steps": gradient_steps,
        "interval": interval, "delay": delay, "tau": tau, "learning_starts": rng.weighted([(0, 4), (2, 1), (5, 1), (12, 1)]),
        "pre_perturb": rng.chance(0.4),
        "batch_size": rng.randint(2, 4), "bn": bn, "learns": learns, "ep_len": ep_len,
        "lr": rng.choice([0.01, 0.03, 0.05]), "seed": rng.randint(0, 2**31 - 1),
        "ent_auto": rng.chance(0.6), "share": rng.chance(0.25), "n_critics": rng.weighted([(1, 1), (2, 2)]),
        # (a reloaded model with batch-norm statistics must keep copying them to the target: seeded change C08-h)
        "save_load": n_learn == 2 and rng.chance(0.5 if bn else (0.15 if not widen else 0.3)),
    }


def gen_cases(ctx):
    rng = ctx.rng
    cases = []
    for _ in range(ctx.budget(200, 4000)):
        cases.append(gen_kernel(rng, ctx.widen, True))
    for _ in range(ctx.budget(80, 1500)):
        cases.append(gen_kernel(rng, ctx.widen, False))
    for _ in range(ctx.budget(96, 2400)):
        cases.append(gen_run(rng, ctx.widen, ctx.thorough))
    return cases


def shrink_candidates(case):
    if case.get("kind") == "run":
        if len(case["learns"]) > 1:
            c = dict(case)
            c["learns"] = case["learns"][:1]
            c["save_load"] = False
            yield c
        if case.get("save_load"):
            c = dict(case)
            c["save_load"] = False
            yield c
        for i, l in enumerate(case["learns"]):
            if l["total"] > 4 * case["n_envs"]:
                c = dict(case)
                c["learns"] = [dict(x) for x in case["learns"]]
                c["learns"][i]["total"] = max(4 * case["n_envs"], l["total"] // 2)
                yield c
        if case["bn"]:
            c = dict(case)
            c["bn"] = False
            yield c
        if case["n_envs"] > 1:
            c = dict(case)
            c["n_envs"] = 1
            yield c
        if case["gradient_steps"] not in (1,):
            c = dict(case)
            c["gradient_steps"] = 1
            yield c
        if case["train_freq"] != [1, "step"]:
            c = dict(case)
            c["train_freq"] = [1, "step"]
            yield c
        if case["learning_starts"]:
            c = dict(case)
            c["learning_starts"] = 0
            yield c
        if case.get("share"):
            c = dict(case)
            c["share"] = False
            yield c
    else:
        n = min(len(case["params"]), len(case["targets"]))
        for k in range(n):
            c = dict(case)
            for f in ("params", "targets", "pshapes", "tshapes"):
                c[f] = [x for i, x in enumerate(case[f]) if i != k]
            yield c


# ------------------------------------------------------------------------------------------------
# kernel: polyak_update called directly
def _kval(x, exact):
    return float(unratj(x)) if exact else float(x)


def run_kernel(ctx, case):
    import torch as th
    from stable_baselines3.common.utils import polyak_update

    exact = case["kind"] == "kernel_exact"
    tau = float(unratj(case["tau"])) if exact else float(case["tau"])

    def mk(vals, shape):
        t = th.tensor([_kval(v, exact) for v in vals], dtype=th.float32).reshape(shape)
        return th.nn.Parameter(t) if case["as_param"] else t

    params = [mk(v, s) for v, s in zip(case["params"], case["pshapes"])]
    targets = [mk(v, s) for v, s in zip(case["targets"], case["tshapes"])]
    p0 = [p.detach().clone() for p in params]
    t0 = [t.detach().clone() for t in targets]
    err = None
    try:
        if case["as_gen"]:
            polyak_update((p for p in params), (t for t in targets), tau)
        else:
            polyak_update(params, targets, tau)
    except ValueError:
        err = "polyak-raises"
    except RuntimeError:
        # a tensor dropped in the middle misaligns the shapes: torch refuses the pair before zip_strict
        # reaches the end of the shorter list -- still "the call raises", but only legitimate on a length mismatch
        if len(params) == len(targets):
            raise
        err = "polyak-raises"
    return {"err": err, "params": params, "targets": targets, "p0": p0, "t0": t0, "tau": tau}


def kernel_op(case):
    exact = case["kind"] == "kernel_exact"
    if exact:
        return {"op": "polyak", "tau": case["tau"], "params": case["params"], "targets": case["targets"]}
    f = lambda v: ratj(F(float(v)))  # noqa: E731
    return {"op": "polyak", "tau": ratj(F(float(case["tau"]))), "params": [[f(x) for x in t] for t in case["params"]],
            "targets": [[f(x) for x in t] for t in case["targets"]]}


def cmp_kernel(ctx, case, r, mout):
    import torch as th

    rep = ctx.report
    exact = case["kind"] == "kernel_exact"
    mismatch = len(case["params"]) != len(case["targets"])
    sig = {"kind": "kernel", "exact": exact}
    # ---- oracle -----------------------------------------------------------------------------
    for p, p0 in zip(r["params"], r["p0"]):
        if not th.equal(p.detach(), p0):
            rep.violation("polyak_update changed an online tensor", case, dict(sig, what="online_touched"))
            return
    if mismatch:
        if r["err"] is None:
            rep.violation("polyak_update accepted a different number of online and target tensors", case,
                          dict(sig, what="length_mismatch_accepted"))
            return
    else:
        if r["err"] is not None:
            rep.violation("polyak_update raised on lists of equal length", case, dict(sig, what="raised"))
            return
        tauq = unratj(case["tau"]) if exact else F(float(case["tau"]))
        for k, (t, t0, p0) in enumerate(zip(r["targets"], r["t0"], r["p0"])):
            new = t.detach().reshape(-1).tolist()
            old = t0.reshape(-1).tolist()
            onl = p0.reshape(-1).tolist()
            if t.requires_grad != bool(case["as_param"]) or t.grad_fn is not None:
                rep.violation("polyak_update put the target into an autograd graph", case, dict(sig, what="autograd"))
                return
            for j in range(len(new)):
                want = (1 - tauq) * F(old[j]) + tauq * F(onl[j])
                if exact:
                    bad = F(new[j]) != want
                else:
                    bad = abs(new[j] - float(want)) > 1e-6 * max(1.0, abs(float(want)))
                if bad:
                    rep.violation("target element is not (1-tau)*target + tau*online", case,
                                  dict(sig, what="wrong_rule"),
                                  {"tensor": k, "elem": j, "impl": new[j], "want": str(want)})
                    return
    # ---- correspondence ---------------------------------------------------------------------
    if mout is None:
        return
    if r["err"] is not None or "error" in mout:
        impl = {"error": r["err"]} if r["err"] else "ok"
        if r["err"] is None or mout.get("error") != r["err"]:
            rep.disagree(case["kind"], case, impl, mout)
        else:
            rep.agree()
        return
    mt = mout["targets"]
    ok = len(mt) == len(r["targets"])
    if ok:
        for t, m in zip(r["targets"], mt):
            new = t.detach().reshape(-1).tolist()
            if len(new) != len(m):
                ok = False
                break
            for a, b in zip(new, m):
                bq = unratj(b)
                if exact:
                    ok = ok and F(a) == bq
                else:
                    ok = ok and abs(a - float(bq)) <= 1e-6 * max(1.0, abs(float(bq)))
    if ok:
        rep.agree()
    else:
        rep.disagree(case["kind"], case, [t.detach().reshape(-1).tolist() for t in r["targets"]], mout)


# ------------------------------------------------------------------------------------------------
# real training runs
_CACHE = {}


def _classes():
    if _CACHE:
        return _CACHE
    import gymnasium as gym
    import torch as th
    from gymnasium import spaces
    from stable_baselines3.common.torch_layers import BaseFeaturesExtractor

    class TinyEnv(gym.Env):
        """3-dim Box observations from a private generator, fixed episode length, reward from the observation."""

        metadata = {"render_modes": []}

        def __init__(self, env_id, seed, ep_len, discrete):
            super().__init__()
            self.observation_space = spaces.Box(-1.0, 1.0, (3,), np.float32)
            self.action_space = spaces.Discrete(3) if discrete else spaces.Box(-1.0, 1.0, (2,), np.float32)
            self.rs = np.random.RandomState((seed * 7 + env_id * 131 + 5) % (2**31 - 1))
            self.ep_len = ep_len + (env_id if ep_len < 1000 else 0)
            self.t = 0

        def _obs(self):
            return self.rs.uniform(-1, 1, size=3).astype(np.float32)

        def reset(self, *, seed=None, options=None):
            self.t = 0
            return self._obs(), {}

        def step(self, action):
            self.t += 1
            o = self._obs()
            term = self.t >= self.ep_len and (self.t % 2 == 0)
            trunc = self.t >= self.ep_len and not term
            return o, float(o[0]), bool(term), bool(trunc), {}

    class BNExtractor(BaseFeaturesExtractor):
        def __init__(self, observation_space):
            super().__init__(observation_space, features_dim=3)
            self.flatten = th.nn.Flatten()
            self.bn = th.nn.BatchNorm1d(3)

        def forward(self, observations):
            return self.bn(self.flatten(observations))

    _CACHE.update(TinyEnv=TinyEnv, BNExtractor=BNExtractor)
    return _CACHE


def make_env(case):
    from stable_baselines3.common.vec_env import DummyVecEnv

    cls = _classes()["TinyEnv"]
    discrete = case["algo"] == "dqn"

    def mk(i):
        return lambda: cls(i, case["seed"], case["ep_len"], discrete)

    return DummyVecEnv([mk(i) for i in range(case["n_envs"])])


def make_model(case, env):
    from stable_baselines3 import DDPG, DQN, SAC, TD3

    algo = case["algo"]
    pk = {"net_arch": [4]}
    if case["bn"]:
        pk["features_extractor_class"] = _classes()["BNExtractor"]
    common = dict(learning_rate=case["lr"], buffer_size=200, learning_starts=case["learning_starts"],
                  batch_size=case["batch_size"], tau=case["tau"], train_freq=tuple(case["train_freq"]),
                  gradient_steps=case["gradient_steps"], verbose=0, seed=case["seed"], device="cpu")
    if algo == "dqn":
        return DQN("MlpPolicy", env, target_update_interval=case["interval"], policy_kwargs=pk,
                   exploration_fraction=0.5, **common)
    pk["n_critics"] = case["n_critics"]
    if algo == "sac":
        if case["share"]:
            pk["share_features_extractor"] = True
        return SAC("MlpPolicy", env, target_update_interval=case["interval"], policy_kwargs=pk,
                   ent_coef="auto" if case["ent_auto"] else 0.1, **common)
    if algo == "td3":
        return TD3("MlpPolicy", env, policy_delay=case["delay"], policy_kwargs=pk, **common)
    pk["n_critics"] = 1
    return DDPG("MlpPolicy", env, policy_kwargs=pk, **common)


def load_model(case, path, env):
    from stable_baselines3 import DDPG, DQN, SAC, TD3

    cls = {"dqn": DQN, "sac": SAC, "td3": TD3, "ddpg": DDPG}[case["algo"]]
    return cls.load(path, env=env, device="cpu")


class Probe:
    """names every tensor of the online/target networks, snapshots them, wraps the observation points"""

    def __init__(self, case, model):
        self.case = case
        self.algo = case["algo"]
        self.events = []  # (label, info, flat snapshot)
        self.attach(model)

    # -- naming ------------------------------------------------------------------------------------
    def attach(self, model):
        import torch as th

        self.model = model
        pol = model.policy
        if self.algo == "dqn":
            mods = [("q_net", pol.q_net, False), ("q_net_target", pol.q_net_target, True)]
            pairs = [("q_net", "q_net_target")]
        elif self.algo == "sac":
            mods = [("actor", pol.actor, False), ("critic", pol.critic, False), ("critic_target", pol.critic_target, True)]
            pairs = [("critic", "critic_target")]
        else:
            mods = [("actor", pol.actor, False), ("actor_target", pol.actor_target, True),
                    ("critic", pol.critic, False), ("critic_target", pol.critic_target, True)]
            pairs = [("critic", "critic_target"), ("actor", "actor_target")]
        self.names, self.tensors, self.by_id = [], [], {}
        self.is_target, self.is_stat = {}, {}
        self.mod_params, self.mod_stats = {}, {}
        for mname, mod, is_t in mods:
            plist, slist = [], []
            for n, p in mod.named_parameters():
                plist.append(self._reg(f"{mname}.{n}", p, is_t, False))
            for n, b in mod.state_dict(keep_vars=True).items():
                if "running_" in n:
                    slist.append(self._reg(f"{mname}.{n}", b, is_t, True))
            self.mod_params[mname], self.mod_stats[mname] = plist, slist
        if self.algo == "sac" and getattr(model, "log_ent_coef", None) is not None:
            self._reg("log_ent_coef", model.log_ent_coef, False, False)
        # groups in program order: parameters with tau, then running statistics copied
        self.groups = [{"online": self.mod_params[o], "target": self.mod_params[t], "soft": True} for o, t in pairs]
        self.groups += [{"online": self.mod_stats[o], "target": self.mod_stats[t], "soft": False} for o, t in pairs]
        self.offsets, off = {}, 0
        for n, t in zip(self.names, self.tensors):
            self.offsets[n] = (off, off + t.numel())
            off += t.numel()
        self.size = off
        self.target_names = [n for n in self.names if self.is_target[n]]
        self.online_stat_names = [n for n in self.names if self.is_stat[n] and not self.is_target[n]]
        mk = lambda ns: th.tensor([i for n in ns for i in range(*self.offsets[n])], dtype=th.long)  # noqa: E731
        self.idx_target = mk(self.target_names)
        self.idx_ostat = mk(self.online_stat_names)
        # optimizers
        if self.algo == "dqn":
            opts = {"policy": pol.optimizer}
        else:
            opts = {"actor": pol.actor.optimizer, "critic": pol.critic.optimizer}
            if self.algo == "sac" and getattr(model, "ent_coef_optimizer", None) is not None:
                opts["ent"] = model.ent_coef_optimizer
        self.opts = opts
        self.owned, self.untracked = {}, []
        for oname, opt in opts.items():
            owned = []
            for g in opt.param_groups:
                for p in g["params"]:
                    if id(p) in self.by_id:
                        owned.append(self.by_id[id(p)])
                    else:
                        self.untracked.append(oname)
            self.owned[oname] = owned
        self.idx_owned = {o: mk(ns) for o, ns in self.owned.items()}
        self._wrap()

    def _reg(self, name, tensor, is_t, is_s):
        if id(tensor) in self.by_id:
            return self.by_id[id(tensor)]
        self.by_id[id(tensor)] = name
        self.names.append(name)
        self.tensors.append(tensor)
        self.is_target[name] = is_t
        self.is_stat[name] = is_s
        return name

    # -- snapshots ---------------------------------------------------------------------------------
    def snap(self):
        import torch as th

        return th.cat([t.detach().reshape(-1) for t in self.tensors]).clone()

    def rec(self, label, info=None):
        self.events.append((label, info, self.snap()))

    def _wrap(self):
        m = self.model
        probe = self
        orig_on_step = m._on_step
        orig_train = m.train
        orig_sample = m.replay_buffer.sample

        def on_step(*a, **k):
            probe.rec("on_step_pre")
            r = orig_on_step(*a, **k)
            probe.rec("on_step_post", {"n_calls": getattr(m, "_n_calls", None)})
            return r

        def train(*a, **k):
            probe.rec("train_pre", {"G": k.get("gradient_steps", a[0] if a else None)})
            r = orig_train(*a, **k)
            probe.rec("train_post", {"n_updates": getattr(m, "_n_updates", None)})
            return r

        def sample(*a, **k):
            probe.rec("sample")
            return orig_sample(*a, **k)

        m._on_step = on_step
        m.train = train
        m.replay_buffer.sample = sample
        for oname, opt in self.opts.items():
            self._wrap_opt(oname, opt)

    def _wrap_opt(self, oname, opt):
        probe = self
        orig = opt.step

        def step(*a, **k):
            probe.rec("opt_pre", oname)
            r = orig(*a, **k)
            probe.rec("opt_post", oname)
            return r

        opt.step = step

    def unwrap(self):
        m = self.model
        for attr in ("_on_step", "train"):
            if attr in m.__dict__:
                del m.__dict__[attr]
        if "sample" in m.replay_buffer.__dict__:
            del m.replay_buffer.__dict__["sample"]
        for opt in self.opts.values():
            if "step" in opt.__dict__:
                del opt.__dict__["step"]

    # -- helpers -----------------------------------------------------------------------------------
    def vals(self, flat, name):
        a, b = self.offsets[name]
        return flat[a:b]

    def store_json(self, flat, names=None):
        out = []
        arr = flat.double().tolist()
        for n in (names if names is not None else self.names):
            a, b = self.offsets[n]
            out.append([n, [ratj(F(x)) for x in arr[a:b]]])
        return out


def run_run(ctx, case):
    import torch as th

    th.set_num_threads(1)
    env = make_env(case)
    tmp = None
    try:
        model = make_model(case, env)
        if case.get("pre_perturb"):
            # online weights that arrive "some other way" than by gradient steps (set_parameters / load_state_dict of
            # trained weights into a fresh model): online and target differ BEFORE the first gradient step, so a target
            # update that is due during warm-up is observable (seeded change C08-i)
            g = th.Generator().manual_seed(int(case["seed"]) % (2**31) + 17)
            pol = model.policy
            online = [pol.q_net] if case["algo"] == "dqn" else [pol.actor, pol.critic]
            with th.no_grad():
                for mod in online:
                    for prm in mod.parameters():
                        prm.add_(th.randn(prm.shape, generator=g) * 0.25)
        probe = Probe(case, model)
        probe.rec("init")
        segments = []  # ("events", list) | ("reload", snapshot)
        for li, l in enumerate(case["learns"]):
            if li == 1 and case.get("save_load"):
                tmp = tempfile.mkdtemp(prefix="c08_")
                path = os.path.join(tmp, "m.zip")
                probe.unwrap()
                model.save(path)
                model = load_model(case, path, env)
                old_names = list(probe.names)
                probe.attach(model)
                if probe.names != old_names:
                    raise RuntimeError("tensor names changed across save/load")
                probe.rec("reload")
            probe.rec("learn_pre")
            model.learn(total_timesteps=l["total"], reset_num_timesteps=l["reset"], log_interval=None)
            probe.rec("learn_post")
        return {"probe": probe}
    finally:
        env.close()
        if tmp:
            shutil.rmtree(tmp, ignore_errors=True)


def analyse(ctx, case, probe):
    """oracle on the observed snapshots + the operations for the Lean model.

    Returns (ops, expectations) where expectations[i] describes how to compare the answer to ops[i]."""
    import torch as th

    rep = ctx.report
    algo = case["algo"]
    n = case["n_envs"]
    tau = float(case["tau"])
    I = case["interval"]
    delay = 1 if algo == "ddpg" else case["delay"]
    sig0 = {"kind": "run", "algo": algo}
    viol = []

    def violation(what, sigx, detail=None):
        if not viol:  # first one per case is enough (later ones are consequences)
            rep.violation(what, case, dict(sig0, **sigx), detail)
        viol.append(what)

    # structural: optimizers own online tensors only
    for oname, owned in probe.owned.items():
        bad = [x for x in owned if probe.is_target[x]]
        if bad:
            violation("an optimizer was built over target-network parameters", {"what": "optimizer_owns_target", "opt": oname},
                      {"names": bad[:4]})
    if probe.untracked:
        rep.note(f"optimizer parameters outside the tracked networks: {sorted(set(probe.untracked))}")

    ev = probe.events
    it = probe.idx_target
    K = 0  # _on_step calls so far (whole life of the model)
    J = 0  # gradient steps so far
    visible = 0
    idle = 0
    ops, exps = [], []
    init_flat = ev[0][2]
    ops.append({"op": "new", "algo": "td3" if algo == "ddpg" else algo, "n_envs": n, "interval": I, "delay": delay,
                "tau": ratj(F(tau)), "groups": probe.groups, "store": probe.store_json(init_flat), "n_calls": 0,
                "n_updates": 0, "watch": probe.target_names})
    exps.append(("new",))

    def changed(a, b, idx):
        return not th.equal(a[idx], b[idx])

    def names_changed(a, b):
        out = []
        for nm in probe.names:
            x, y = probe.offsets[nm]
            if not th.equal(a[x:y], b[x:y]):
                out.append(nm)
        return out

    def check_update(pre, post, should, where):
        """interval in which the target may be updated: nothing but targets may change; targets per the rule"""
        nonlocal visible, idle
        ch = names_changed(pre, post)
        for nm in ch:
            if not probe.is_target[nm]:
                violation("a target update changed a tensor of the online network", {"what": "online_touched", "where": where},
                          {"name": nm})
                return
        tch = [nm for nm in ch if probe.is_target[nm]]
        if not should:
            idle += 1
            if tch:
                violation("a target tensor changed at a moment that is not a configured update moment",
                          {"what": "unexpected_change", "where": where}, {"names": tch[:4], "K": K, "J": J})
            return
        if tch:
            visible += 1
        for g in probe.groups:
            coef = tau if g["soft"] else 1.0
            for o, t in zip(g["online"], g["target"]):
                old = probe.vals(pre, t).double()
                onl = probe.vals(pre, o).double()
                new = probe.vals(post, t).double()
                want = (1.0 - coef) * old + coef * onl
                if g["soft"]:
                    tol = 4e-7 * th.maximum(old.abs(), onl.abs()) + 1e-30
                    bad = bool(((new - want).abs() > tol).any())
                else:
                    bad = not th.equal(new, onl)
                if bad:
                    same = th.equal(new, old)
                    violation("target not updated at a configured update moment" if same else
                              "target update is not (1-tau)*target + tau*online (running statistics: exact copy)",
                              {"what": "missed_update" if same else "wrong_rule", "where": where,
                               "group": "params" if g["soft"] else "stats"},
                              {"target": t, "K": K, "J": J, "new": new[:3].tolist(), "want": want[:3].tolist()})
                    return
        if len(probe.groups[0]["online"]) != len(probe.groups[0]["target"]):
            violation("online and target networks have a different number of tensors", {"what": "length"})

    def check_frozen(pre, post, where, allow_ostat, owned_idx=None, oname=None):
        """interval in which no update may happen"""
        if changed(pre, post, it):
            nm = [x for x in names_changed(pre, post) if probe.is_target[x]]
            if owned_idx is not None:
                violation("an optimizer step changed a target tensor", {"what": "optimizer_touched_target", "opt": oname},
                          {"names": nm[:4]})
            else:
                violation("a target tensor changed at a moment that is not a configured update moment",
                          {"what": "unexpected_change", "where": where}, {"names": nm[:4], "K": K, "J": J})

    i = 1
    in_train = False
    cur_iters = None
    cur_iter = None
    last_flat = ev[0][2]
    train_start_flat = None
    after_critic = False

    def add_write(owned, pre, post):
        nonlocal cur_iter
        ch = [nm for nm in owned if not th.equal(probe.vals(pre, nm), probe.vals(post, nm))]
        if not ch:
            return
        w = {"owned": list(owned), "vals": probe.store_json(post, ch)}
        (cur_iter["delayed"] if (after_critic and algo in ("td3", "ddpg")) else cur_iter["pre"]).append(w)

    iter_end_flats = []
    while i < len(ev):
        label, info, flat = ev[i]
        prev_label, prev_info, prev = ev[i - 1]
        if label == "reload":
            ops.append({"op": "reload", "store": probe.store_json(flat)})
            exps.append(("reload",))
        elif label in ("learn_pre", "learn_post", "on_step_pre", "train_pre"):
            # outside any gradient step: nothing at all may change
            if prev_label != "reload" and label != "reload":
                ch = names_changed(prev, flat)
                if ch:
                    t_ch = [x for x in ch if probe.is_target[x]]
                    if t_ch:
                        violation("a target tensor changed at a moment that is not a configured update moment",
                                  {"what": "unexpected_change", "where": f"before_{label}"}, {"names": t_ch[:4]})
                    else:
                        rep.note(f"online tensors changed outside train(): {ch[:3]} before {label}")
            if label == "train_pre":
                in_train = True
                cur_iters = []
                cur_iter = None
                iter_end_flats = []
                train_G = info["G"]
        elif label == "on_step_post":
            K += 1
            if algo == "dqn":
                period = max(n, I - I % n)  # I rounded down to whole vectorised steps, at least one
                should = (K * n) % period == 0
            else:
                should = False
            check_update(prev, flat, should, "on_step")
            ops.append({"op": "env"})
            exps.append(("env", flat, info))
        elif label == "sample" or label == "train_post":
            if cur_iter is not None:
                # tail of the previous gradient step: the only place where an update may happen
                if algo == "dqn":
                    should = False
                elif algo == "sac":
                    should = J % I == 0
                else:
                    should = (J + 1) % delay == 0
                check_update(prev, flat, should, "gradient_step")
                J += 1
                cur_iters.append(cur_iter)
                iter_end_flats.append(flat)
                cur_iter = None
            else:
                check_frozen(prev, flat, "train_head", False)
            if label == "sample":
                cur_iter = {"pre": [], "delayed": []}
                after_critic = False
            else:
                in_train = False
                if train_G is not None and train_G != len(cur_iters):
                    rep.note(f"train(gradient_steps={train_G}) sampled the buffer {len(cur_iters)} times")
                ops.append({"op": "train", "iters": cur_iters})
                exps.append(("train", iter_end_flats, info))
        elif label == "opt_pre":
            # forward / backward passes: only running statistics of online networks may move
            check_frozen(prev, flat, "forward", True)
            if cur_iter is not None:
                add_write(probe.online_stat_names, prev, flat)
                others = [x for x in names_changed(prev, flat) if not probe.is_target[x] and not probe.is_stat[x]]
                if others:
                    rep.note(f"online parameters changed outside optimizer.step: {others[:3]}")
                    add_write(others, prev, flat)
        elif label == "opt_post":
            oname = info
            check_frozen(prev, flat, "optimizer", False, probe.idx_owned.get(oname), oname)
            ch = names_changed(prev, flat)
            stray = [x for x in ch if x not in probe.owned[oname] and not probe.is_target[x]]
            if stray:
                rep.note(f"optimizer {oname} changed tensors outside its param_groups: {stray[:3]}")
            if cur_iter is not None:
                add_write(probe.owned[oname] + stray, prev, flat)
            if oname == "critic":
                after_critic = True
        i += 1
    return ops, exps, {"visible": visible, "idle": idle, "K": K, "J": J, "violated": bool(viol)}


def cmp_run(ctx, case, probe, ops, exps, outs, stats):
    """model answers vs implementation snapshots"""
    rep = ctx.report
    if outs is None or any(o is None for o in outs):
        return
    nt = len(probe.target_names)
    idx = probe.idx_target
    sizes = [probe.offsets[nm][1] - probe.offsets[nm][0] for nm in probe.target_names]
    model_t = None  # float64 numpy vector of the model's targets in watch order
    soft = 0

    def to_vec(w):
        return np.array([float(F(x[0], x[1])) for t in w for x in t], dtype=np.float64)

    def cmp_targets(flat, where):
        impl = flat[idx].double().numpy()
        tol = 3e-7 * (soft + 2) * np.maximum(1.0, np.abs(model_t))
        bad = np.abs(impl - model_t) > tol
        if bad.any():
            j = int(np.argmax(bad))
            k, acc = 0, 0
            while k < nt and acc + sizes[k] <= j:
                acc += sizes[k]
                k += 1
            rep.disagree("run_targets", case, {"where": where, "tensor": probe.target_names[k], "impl": float(impl[j])},
                         {"model": float(model_t[j])})
            return False
        rep.agree()
        return True

    for op, exp, out in zip(ops, exps, outs):
        if "error" in out:
            rep.disagree("run_targets", case, "ok", out, note=op["op"])
            return
        if exp[0] == "new":
            init = probe.events[0][2]
            model_t = init[idx].double().numpy().copy()
        elif exp[0] == "reload":
            flat = [e for e in probe.events if e[0] == "reload"][0][2]
            model_t = flat[idx].double().numpy().copy()
        elif exp[0] == "env":
            _, flat, info = exp
            if out["watch"] is not None:
                model_t = to_vec(out["watch"])
                if float(case["tau"]) not in (0.0, 1.0):
                    soft += 1
            if not cmp_targets(flat, "on_step"):
                return
            if info and info.get("n_calls") is not None and case["algo"] == "dqn":
                if info["n_calls"] != out["n_calls"]:
                    rep.disagree("run_counters", case, {"n_calls": info["n_calls"]}, {"n_calls": out["n_calls"]})
                    return
                rep.agree()
        elif exp[0] == "train":
            _, flats, info = exp
            if len(out["fired"]) != len(flats):
                rep.disagree("run_flags", case, len(flats), out["fired"])
                return
            for gi, flat in enumerate(flats):
                if out["after"][gi] is not None:
                    model_t = to_vec(out["after"][gi])
                    if float(case["tau"]) not in (0.0, 1.0):
                        soft += 1
                if not cmp_targets(flat, f"gradient_step {gi}"):
                    return
            if info and info.get("n_updates") is not None:
                if info["n_updates"] != out["n_updates"]:
                    rep.disagree("run_counters", case, {"n_updates": info["n_updates"]}, {"n_updates": out["n_updates"]})
                    return
                rep.agree()


# ------------------------------------------------------------------------------------------------
def check_cases(ctx, cases):
    rep = ctx.report
    ops, plan = [], []
    for case in cases:
        k = case["kind"]
        rep.count(f"kind:{k}")
        if k in ("kernel_exact", "kernel_float"):
            r = guarded(ctx, case, lambda: run_kernel(ctx, case))
            mismatch = len(case["params"]) != len(case["targets"])
            rep.case(case, None)
            rep.count("kernel:" + ("mismatch" if mismatch else f"tensors={len(case['params'])}"))
            rep.count("kernel_tau=" + (str(unratj(case["tau"])) if k == "kernel_exact" else "float"))
            if r is None:
                continue
            plan.append((case, r, len(ops), 1))
            ops.append(kernel_op(case))
        elif k == "run":
            r = guarded(ctx, case, lambda: run_run(ctx, case))
            rep.count(f"algo:{case['algo']}")
            rep.count(f"n_envs={case['n_envs']}")
            rep.count(f"tau={case['tau']}")
            rep.count(f"gradient_steps={case['gradient_steps']}")
            rep.count("train_freq:" + case["train_freq"][1])
            rep.count("bn" if case["bn"] else "no_bn")
            if case.get("pre_perturb"):
                rep.count("online_weights_replaced_before_learn")
            if case.get("save_load"):
                rep.count("save_load")
            if len(case["learns"]) > 1:
                rep.count("two_learn_calls")
            if r is None:
                rep.case(case, None)
                continue
            probe = r["probe"]
            o, e, stats = analyse(ctx, case, probe)
            nontrivial = stats["visible"] >= 3 and stats["idle"] >= 1
            small = {kk: vv for kk, vv in case.items()}
            rep.case(case, case if nontrivial else None, sample=small)
            rep.count("run:visible_updates", stats["visible"])
            rep.count("run:candidate_moments_without_update", stats["idle"])
            rep.count("run:gradient_steps", stats["J"])
            rep.count("run:env_steps", stats["K"])
            if case["algo"] == "dqn" and case["n_envs"] > 1 and case["interval"] % case["n_envs"]:
                rep.count("dqn:interval_not_multiple_of_n_envs")
            plan.append((case, (probe, o, e, stats), len(ops), len(o)))
            ops.extend(o)
    outs = ctx.lean.run(ops)
    for case, r, i, k in plan:
        if case["kind"] == "run":
            probe, o, e, stats = r
            mo = outs[i:i + k]
            cmp_run(ctx, case, probe, o, e, None if (mo and mo[0] is None) else mo, stats)
        else:
            cmp_kernel(ctx, case, r, outs[i])
