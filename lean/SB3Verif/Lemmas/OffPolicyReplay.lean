/-
End-to-end composition of the off-policy collection model (C04, `SB3Verif/Model/OffPolicy.lean`) with the
replay-buffer model (C03, `SB3Verif/Model/Replay.lean`, read-only here): the adapter that turns the rows the
collection hands to `replay_buffer.add` into C03's `Op.add` operations, and the lemma that identifies what C03's
history holds at `(add a, env e)` with the sub-environment's own transition.

C03's payloads are opaque tags (`Nat`); the collection model's are vectors / scalars over `α`. The adapter is
generic in a `Tagging` (any three functions into `Nat`): every statement holds for every tagging, and reads as
"the sampled tag is the tag of the environment's value" — with an injective tagging the tag determines the value.
-/
import SB3Verif.Lemmas.OffPolicy
import SB3Verif.Lemmas.Replay

set_option linter.unusedSectionVars false
set_option linter.unusedVariables false

namespace SB3Verif.Lemmas.OffPolicyReplay

open SB3Verif.OffPolicy SB3Verif.Lemmas.OffPolicy

/-- how observations, stored actions and rewards are named by C03's tags -/
structure Tagging (α : Type) where
  obs : List α → Nat
  act : List α → Nat
  rew : α → Nat

section

variable {α : Type} [Add α] [Sub α] [Mul α] [Div α] [Neg α] [One α] [LT α] [DecidableLT α]

/-- column `e` of one `replay_buffer.add` call, as C03's `Trans` -/
def toTrans (T : Tagging α) (r : Row α) (e : Nat) : Replay.Trans :=
  { obs := T.obs (r.obs.getD e []), next := T.obs (r.nextObs.getD e []), act := T.act (r.action.getD e []),
    rew := ((r.reward[e]?).map T.rew).getD 0, done := r.done.getD e false, timeout := r.timeout.getD e false }

/-- one `replay_buffer.add` call as C03's `Row` (one `Trans` per entry of `dones`) -/
def toRow (T : Tagging α) (r : Row α) : Replay.Row := (List.range r.done.length).map (toTrans T r)

/-- the collection's add log as a C03 history -/
def toOps (T : Tagging α) (rows : List (Row α)) : List Replay.Op := rows.map fun r => Replay.Op.add (toRow T r)

/-- what the replay buffer *should* hold for the sub-environment's own transition `t` stored with action `b` -/
def transOf (T : Tagging α) (post : List α → List α) (t : Transition α) (b : List α) : Replay.Trans :=
  { obs := T.obs (post t.obs), next := T.obs (post t.next), act := T.act b, rew := T.rew t.rew,
    done := t.term || t.trunc, timeout := t.trunc && !t.term }

theorem histOf_toOps_aux (T : Tagging α) (rows : List (Row α)) (H : List Replay.Row) :
    (toOps T rows).foldl Replay.histStep H = H ++ rows.map (toRow T) := by
  induction rows generalizing H with
  | nil => simp [toOps]
  | cons r rs ih =>
    simp only [toOps, List.map_cons, List.foldl_cons, Replay.histStep] at ih ⊢
    rw [ih]
    simp

theorem histOf_toOps (T : Tagging α) (rows : List (Row α)) :
    Replay.histOf (toOps T rows) = rows.map (toRow T) := by
  unfold Replay.histOf
  rw [histOf_toOps_aux]
  simp

theorem toOps_wf (T : Tagging α) (rows : List (Row α)) (n : Nat) (h : ∀ r ∈ rows, r.done.length = n) :
    (toOps T rows).all (Replay.Op.wf n) = true := by
  simp only [toOps, List.all_map, List.all_eq_true]
  intro r hr
  simp [Replay.Op.wf, toRow, h r hr]

/-- **The cell lemma**: in a state satisfying the collection invariant, what C03's history holds for add number
`a`, column `e` is the tagged version of sub-environment `e`'s own `a`-th transition (with the action stored next
to the one the environment received). -/
theorem cell_eq (T : Tagging α) (cfg : Cfg α) (s : Sys α) (hi : Inv cfg s) (a e : Nat)
    (ha : a < s.w.log.length) (he : e < cfg.nEnvs) :
    ∃ ts t o, s.w.log[a]? = some ts ∧ ts[e]? = some t ∧ s.st.trace[a]? = some o ∧ o ∈ s.st.trace ∧
      o.action[e]? = some t.action ∧
      Replay.cellOf (s.st.buffer.map (toRow T)) a e = transOf T cfg.post t (o.row.action.getD e []) := by
  have hlen : s.st.trace.length = s.w.log.length := by
    have := congrArg List.length hi.rows
    simpa using this
  have ha' : a < s.st.trace.length := by omega
  have hts : s.w.log[a] ∈ s.w.log := List.getElem_mem ha
  have htl : (s.w.log[a]).length = cfg.nEnvs := hi.logLen _ hts
  have he' : e < (s.w.log[a]).length := by omega
  refine ⟨s.w.log[a], (s.w.log[a])[e], s.st.trace[a], List.getElem?_eq_getElem ha, List.getElem?_eq_getElem he',
    List.getElem?_eq_getElem ha', List.getElem_mem ha', ?_, ?_⟩
  · have h := congrArg (fun l => l[a]?) hi.acts
    simp only [List.getElem?_map, List.getElem?_eq_getElem ha, List.getElem?_eq_getElem ha', Option.map_some,
      Option.some.injEq] at h
    rw [h]
    simp [List.getElem?_map, List.getElem?_eq_getElem he']
  · have h := congrArg (fun l => l[a]?) hi.rows
    simp only [List.getElem?_map, List.getElem?_eq_getElem ha, List.getElem?_eq_getElem ha', Option.map_some,
      Option.some.injEq] at h
    simp only [Row.core, specCore, Core.mk.injEq] at h
    obtain ⟨h1, h2, h3, h4, h5⟩ := h
    have hd : (s.st.trace[a]).row.done.length = cfg.nEnvs := by rw [h4, List.length_map, htl]
    unfold Replay.cellOf
    have hrow : (s.st.buffer.map (toRow T)).getD a [] = toRow T (s.st.trace[a]).row := by
      simp [St.buffer, List.getD_eq_getElem?_getD, List.getElem?_map, List.getElem?_eq_getElem ha']
    rw [hrow]
    have hcell : (toRow T (s.st.trace[a]).row).getD e default = toTrans T (s.st.trace[a]).row e := by
      have : e < (s.st.trace[a]).row.done.length := by omega
      simp [toRow, List.getD_eq_getElem?_getD, this]
    rw [hcell]
    simp only [toTrans, transOf, h1, h2, h3, h4, h5, List.getD_eq_getElem?_getD, List.getElem?_map,
      List.getElem?_eq_getElem he', Option.map_some, Option.getD_some]

end

/-! ### Concrete data for the non-vacuity examples of `Props/C04C03.lean` -/

/-- integers (the examples use integer-valued observations / rewards, dyadic stored actions):
`q ↦ 2·|4q| + [q < 0]` is injective on the quarter-integers used -/
def exTagQ (q : ℚ) : Nat := 2 * (4 * q).num.natAbs + (if q < 0 then 1 else 0)

/-- first coordinate (the example observations / actions are one-dimensional) -/
def exTag : Tagging ℚ := ⟨fun o => exTagQ (o.headD 0), fun a => exTagQ (a.headD 0), exTagQ⟩

/-- two envs, box actions in `[-2, 6]`, no `VecNormalize`, `train_freq = 2` steps, two `learn()` calls (the second
continues without reset): 5 vectorised steps; env 0 terminates at step 1, env 1 is truncated at step 0 and ends
with `terminated ∧ truncated` at step 3 -/
def e2eCfg : Cfg ℚ := ⟨2, .box [-2] [6], 2, 2, false, false, false, id⟩
def e2eCalls : List (Call ℚ) :=
  [ ⟨true, 6, [[0], [100]], none,
      [ ⟨[[2], [6]], none, [⟨[1], 1, false, false, [], none⟩, ⟨[101], 2, false, true, [200], none⟩], none⟩,
        ⟨[[0], [-2]], none, [⟨[2], 3, true, false, [10], none⟩, ⟨[201], -1, false, false, [], none⟩], none⟩,
        ⟨[[2], [4]], none, [⟨[11], 0, false, false, [], some [2]⟩, ⟨[202], 5, false, false, [], none⟩], none⟩,
        ⟨[[6], [2]], none, [⟨[12], 1, false, false, [], none⟩, ⟨[203], 0, true, true, [300], none⟩], none⟩ ]⟩,
    ⟨false, 2, [[999], [999]], none,
      [ ⟨[[-2], [0]], none, [⟨[13], 2, false, false, [], none⟩, ⟨[301], 7, false, false, [], none⟩], none⟩ ]⟩ ]

/-- `buffer_size = 7`, two envs: capacity `7 // 2 = 3 < 5` adds — the ring wraps; timeout handling on -/
def e2eBuf : Replay.Cfg := ⟨7, 2, false, true, false⟩
/-- memory-optimised, capacity 3 -/
def e2eMem : Replay.Cfg := ⟨6, 2, true, false, false⟩

end SB3Verif.Lemmas.OffPolicyReplay
