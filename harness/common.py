"""
Shared machinery for the correspondence harnesses (one module per property: harness/cXX.py).

A harness module exposes

    RULE            : str   -- how cases are generated and what makes one non-trivial (goes to evidence)
    STREAMS         : dict  -- optional, names of the correspondence streams it checks
    gen_cases(ctx)  -> list of JSON-serialisable case dicts (all random choices from ctx.rng)
    check_cases(ctx, cases) -> None
        runs the *real* stable-baselines3 code (imported from /repo's working tree) on every case,
        runs the Lean model through ctx.lean on the same inputs, and records
          ctx.report.case(case, nontrivial_key)        every case explored
          ctx.report.disagree(stream, case, impl, model)   model and implementation differ
          ctx.report.violation(what, case, signature)  the property oracle fails on the implementation
    shrink_candidates(case) -> iterable of smaller cases      (optional)

The worker (harness/worker.py) calls them for one chunk of the budget; `/verif/check` merges the
chunks, applies the known-findings file and decides.
"""
from __future__ import annotations

import hashlib
import json
import os
import subprocess
import sys
import time
import traceback
from collections import Counter
from fractions import Fraction

VERIF = os.path.dirname(os.path.dirname(os.path.abspath(__file__)))
LEAN_DIR = os.path.join(VERIF, "lean")
REPO = os.environ.get("SB3_REPO", "/repo")

MASK = (1 << 64) - 1


class Rng:
    """SplitMix64: the single source of randomness of a run (seeded from VERIF_SEED)."""

    def __init__(self, seed: int):
        self.s = seed & MASK

    def next(self) -> int:
        self.s = (self.s + 0x9E3779B97F4A7C15) & MASK
        z = self.s
        z = ((z ^ (z >> 30)) * 0xBF58476D1CE4E5B9) & MASK
        z = ((z ^ (z >> 27)) * 0x94D049BB133111EB) & MASK
        return z ^ (z >> 31)

    def randint(self, a: int, b: int) -> int:
        """uniform integer in [a, b] (inclusive)"""
        assert b >= a
        return a + self.next() % (b - a + 1)

    def random(self) -> float:
        return (self.next() >> 11) / float(1 << 53)

    def chance(self, p: float) -> bool:
        return self.random() < p

    def choice(self, seq):
        return seq[self.next() % len(seq)]

    def weighted(self, pairs):
        """pairs: [(item, weight)]"""
        tot = sum(w for _, w in pairs)
        x = self.random() * tot
        for it, w in pairs:
            x -= w
            if x < 0:
                return it
        return pairs[-1][0]

    def shuffle(self, lst):
        for i in range(len(lst) - 1, 0, -1):
            j = self.next() % (i + 1)
            lst[i], lst[j] = lst[j], lst[i]
        return lst

    def perm(self, n: int):
        return self.shuffle(list(range(n)))

    def sample(self, seq, k):
        l = list(seq)
        self.shuffle(l)
        return l[:k]

    def fork(self, label: str) -> "Rng":
        h = hashlib.sha256(f"{self.s}:{label}".encode()).digest()
        return Rng(int.from_bytes(h[:8], "big"))


def canon(x):
    """Canonical JSON-able form: tuples -> lists, numpy scalars -> python, Fractions -> [num, den]."""
    try:
        import numpy as np
    except Exception:  # pragma: no cover
        np = None
    if isinstance(x, Fraction):
        return [x.numerator, x.denominator]
    if isinstance(x, dict):
        return {str(k): canon(v) for k, v in sorted(x.items(), key=lambda kv: str(kv[0]))}
    if isinstance(x, (list, tuple)):
        return [canon(v) for v in x]
    if np is not None:
        if isinstance(x, np.ndarray):
            return canon(x.tolist())
        if isinstance(x, np.bool_):
            return bool(x)
        if isinstance(x, np.integer):
            return int(x)
        if isinstance(x, np.floating):
            return float(x)
    return x


def digest(x) -> str:
    return hashlib.sha256(json.dumps(canon(x), sort_keys=True).encode()).hexdigest()[:16]


def frac_of_float(x) -> Fraction:
    """exact rational value of a float (float32/float64 are dyadic rationals)"""
    return Fraction(float(x))


def ratj(q) -> list:
    q = Fraction(q)
    return [q.numerator, q.denominator]


def unratj(j) -> Fraction:
    if isinstance(j, int):
        return Fraction(j)
    return Fraction(j[0], j[1])


class LeanDriver:
    """Runs `lake env lean --run SB3Verif/Driver/<prop>.lean` on a batch of operation lines."""

    def __init__(self, prop: str):
        self.prop = prop
        self.path = os.path.join("SB3Verif", "Driver", f"{prop}.lean")
        self.calls = 0
        self.lines = 0

    def run(self, ops: list) -> list:
        if not ops:
            return []
        data = "\n".join(json.dumps(canon(o), separators=(",", ":")) for o in ops) + "\n"
        t0 = time.time()
        p = subprocess.run(
            ["lake", "env", "lean", "--run", self.path],
            cwd=LEAN_DIR,
            input=data.encode(),
            stdout=subprocess.PIPE,
            stderr=subprocess.PIPE,
            timeout=1800,
        )
        self.calls += 1
        self.lines += len(ops)
        if p.returncode != 0:
            raise InfraError(f"lean driver {self.prop} exited {p.returncode}: {p.stderr.decode()[-2000:]}")
        outs = [json.loads(l) for l in p.stdout.decode().splitlines() if l.strip()]
        if len(outs) != len(ops):
            raise InfraError(f"lean driver {self.prop}: {len(ops)} ops but {len(outs)} answers; stderr={p.stderr.decode()[-1000:]}")
        self.last_wall = time.time() - t0
        return outs


class InfraError(Exception):
    pass


class Report:
    MAX_KEEP = 40
    MAX_PER_SHAPE = 4
    MAX_TOTAL = 400

    def __init__(self):
        self.evaluations = 0
        self.nontrivial = set()
        self.samples = []
        self.disagreements = []
        self.violations = []
        self.hist = Counter()
        self.n_disagreements = 0
        self.n_violations = 0
        self.compared = 0  # individual model-vs-implementation comparisons made
        self.notes = []
        self._per_shape = {}

    # -- recording -------------------------------------------------------------------------
    def case(self, case, nontrivial_key=None, sample=None):
        self.evaluations += 1
        if nontrivial_key is not None:
            self.nontrivial.add(digest(nontrivial_key))
        if len(self.samples) < 3:
            self.samples.append(canon(sample if sample is not None else case))

    def count(self, key, n=1):
        self.hist[key] += n

    def agree(self, n=1):
        self.compared += n

    def disagree(self, stream, case, impl, model, note=""):
        self.n_disagreements += 1
        self.compared += 1
        if len(self.disagreements) < self.MAX_KEEP:
            self.disagreements.append(
                {"stream": stream, "case": canon(case), "impl": canon(impl), "model": canon(model), "note": note}
            )

    def violation(self, what, case, signature=None, detail=None):
        """Keep at most MAX_PER_SHAPE violations per distinct (what, signature) so that many hits of one
        shape (e.g. a known finding) can never crowd a differently-shaped violation out of the kept list."""
        self.n_violations += 1
        sig = canon(signature or {})
        key = digest([what, sig])
        k = self._per_shape.get(key, 0)
        self._per_shape[key] = k + 1
        if k < self.MAX_PER_SHAPE and len(self.violations) < self.MAX_TOTAL:
            self.violations.append({"what": what, "case": canon(case), "signature": sig, "detail": canon(detail)})

    def note(self, s):
        if len(self.notes) < 20:
            self.notes.append(s)

    # -- (de)serialisation -----------------------------------------------------------------
    def to_json(self):
        return {
            "evaluations": self.evaluations,
            "nontrivial": sorted(self.nontrivial),
            "samples": self.samples,
            "disagreements": self.disagreements,
            "violations": self.violations,
            "hist": dict(self.hist),
            "n_disagreements": self.n_disagreements,
            "n_violations": self.n_violations,
            "compared": self.compared,
            "notes": self.notes,
        }

    def merge_json(self, j):
        self.evaluations += j["evaluations"]
        self.nontrivial.update(j["nontrivial"])
        for s in j["samples"]:
            if len(self.samples) < 3:
                self.samples.append(s)
        self.disagreements.extend(j["disagreements"])
        self.violations.extend(j["violations"])
        self.hist.update(j["hist"])
        self.n_disagreements += j["n_disagreements"]
        self.n_violations += j["n_violations"]
        self.compared += j["compared"]
        self.notes.extend(j.get("notes", []))


class Ctx:
    def __init__(self, prop, tier, seed, chunk=0, nchunks=1, widen=False):
        self.prop = prop
        self.tier = tier
        self.seed = seed
        self.chunk = chunk
        self.nchunks = nchunks
        self.widen = widen
        self.rng = Rng(seed).fork(f"{prop}:{tier}:{chunk}/{nchunks}:{'w' if widen else 'n'}")
        self.lean = LeanDriver(prop)
        self.report = Report()

    def budget(self, quick: int, thorough: int) -> int:
        """number of cases *this chunk* should generate"""
        total = thorough if self.tier == "thorough" else quick
        if self.widen:
            total *= 2
        return max(1, -(-total // self.nchunks))

    @property
    def thorough(self):
        return self.tier == "thorough"


def setup_repo_import():
    """Make `import stable_baselines3` resolve to /repo's *working tree* (not an installed copy)."""
    if REPO not in sys.path:
        sys.path.insert(0, REPO)
    os.environ.setdefault("OMP_NUM_THREADS", "1")
    os.environ.setdefault("MKL_NUM_THREADS", "1")
    import stable_baselines3  # noqa

    got = os.path.realpath(os.path.dirname(os.path.dirname(stable_baselines3.__file__)))
    if got != os.path.realpath(REPO):
        raise InfraError(f"stable_baselines3 imported from {got}, expected {REPO}")
    try:
        import torch

        torch.set_num_threads(1)
    except Exception:
        pass


def guarded(ctx, case, fn, what="unexpected exception from the implementation on a valid input"):
    """Run fn(); an exception raised by the implementation on a valid case is a failing input."""
    try:
        return fn()
    except InfraError:
        raise
    except Exception as e:  # noqa
        tb = traceback.format_exc()
        ctx.report.violation(what, case, {"exception": type(e).__name__}, detail=tb[-1500:])
        return None
