/-
End-to-end composition of the off-policy collection model (C04, `SB3Verif/Model/OffPolicy.lean`, read-only
here) with the HER replay-buffer model (C16, `SB3Verif/Model/Her.lean`): the adapter that turns the rows the
collection hands to `replay_buffer.add` into the `Her.Op.add` operations, and the lemmas that identify entry `a`
of column `e`'s ghost history with sub-environment `e`'s own `a`-th transition — in particular the ghost flag
`last` (the episode boundaries of the HER segments) with the environment's own `terminated ∨ truncated`.

The HER model's payloads are opaque tags (`Nat`); the collection model's are vectors / scalars over `α`. The
adapter is generic in an `HTagging`: any naming of the three parts of a goal observation (`observation`,
`achieved_goal`, `desired_goal`, all read off the same flat observation vector), of stored actions and of
rewards. Every statement holds for every tagging; with an injective tagging the tag determines the value.
-/
import SB3Verif.Lemmas.OffPolicy
import SB3Verif.Lemmas.Her

set_option linter.unusedSectionVars false
set_option linter.unusedVariables false

namespace SB3Verif.Lemmas.OffPolicyHer

open SB3Verif.OffPolicy SB3Verif.Lemmas.OffPolicy SB3Verif.Her

/-- how the parts of a goal observation, stored actions and rewards are named by the HER model's tags -/
structure HTagging (α : Type) where
  obs : List α → Nat
  ach : List α → Nat
  dg : List α → Nat
  act : List α → Nat
  rew : α → Int

section

variable {α : Type} [Add α] [Sub α] [Mul α] [Div α] [Neg α] [One α] [LT α] [DecidableLT α]

/-- column `e` of one `replay_buffer.add` call, as the HER model's `Trans` -/
def toTrans (T : HTagging α) (r : Row α) (e : Nat) : Trans :=
  { obs := T.obs (r.obs.getD e []), ach := T.ach (r.obs.getD e []), dg := T.dg (r.obs.getD e []),
    act := T.act (r.action.getD e []),
    nobs := T.obs (r.nextObs.getD e []), nach := T.ach (r.nextObs.getD e []), ndg := T.dg (r.nextObs.getD e []),
    rew := ((r.reward[e]?).map T.rew).getD 0, done := r.done.getD e false, timeout := r.timeout.getD e false,
    info := 0 }

/-- one `replay_buffer.add` call as a HER row (one `Trans` per entry of `dones`) -/
def toRow (T : HTagging α) (r : Row α) : List Trans := (List.range r.done.length).map (toTrans T r)

/-- the collection's add log as a HER history -/
def toOps (T : HTagging α) (rows : List (Row α)) : List Op := rows.map fun r => Op.add (toRow T r)

/-- what the HER buffer *should* store for the sub-environment's own transition `t` kept with action `b`:
`done = terminated ∨ truncated`, stored timeout `= handle_timeout_termination ∧ truncated ∧ ¬terminated` -/
def envTrans (T : HTagging α) (hTT : Bool) (post : List α → List α) (t : Transition α) (b : List α) : Trans :=
  { obs := T.obs (post t.obs), ach := T.ach (post t.obs), dg := T.dg (post t.obs), act := T.act b,
    nobs := T.obs (post t.next), nach := T.ach (post t.next), ndg := T.dg (post t.next), rew := T.rew t.rew,
    done := t.term || t.trunc, timeout := hTT && (t.trunc && !t.term), info := 0 }

/-- sub-environment `e`'s own record of vectorised step `a`, and the action stored next to the one it received -/
def EnvTransAt (s : Sys α) (e a : Nat) (t : Transition α) (b : List α) : Prop :=
  ∃ ts o, s.w.log[a]? = some ts ∧ ts[e]? = some t ∧ s.st.trace[a]? = some o ∧ o.action[e]? = some t.action ∧
    b = o.row.action.getD e []

/-- did sub-environment `e` end an episode (`terminated ∨ truncated`) at vectorised step `k`? -/
def envDone (log : List (List (Transition α))) (e k : Nat) : Bool :=
  match log[k]? with
  | some ts => (match ts[e]? with
    | some t => t.term || t.trunc
    | none => false)
  | none => false

/-- the environment episode containing step `a` of sub-environment `e` ends at step `ee` (inside the run):
no `terminated ∨ truncated` of that env in `[a, ee)`, one at `ee` -/
def EnvEndsAt (log : List (List (Transition α))) (e a ee : Nat) : Prop :=
  a ≤ ee ∧ ee < log.length ∧ envDone log e ee = true ∧ ∀ k, a ≤ k → k < ee → envDone log e k = false

/-! ### the ghost history of an add-only history -/

theorem ghost_adds_aux (hTT : Bool) (ts : List Trans) (cg : Col × List Rec) :
    ((ts.map COp.add).foldl (stepG hTT) cg).2 =
      cg.2 ++ ts.map (fun t => Rec.mk (SB3Verif.Her.Lemmas.stored hTT t) t.done) := by
  induction ts generalizing cg with
  | nil => simp
  | cons t rest ih =>
    simp only [List.map_cons, List.foldl_cons]
    rw [ih]
    simp [stepG, ghostStep, SB3Verif.Her.Lemmas.stored]

theorem ghost_adds (hTT : Bool) (cap : Nat) (ts : List Trans) :
    (runG hTT cap (ts.map COp.add)).2 = ts.map (fun t => Rec.mk (SB3Verif.Her.Lemmas.stored hTT t) t.done) := by
  unfold runG
  rw [ghost_adds_aux]
  simp

theorem ghostOf_toOps (T : HTagging α) (hTT : Bool) (cap : Nat) (rows : List (Row α)) (e : Nat) :
    ghostOf hTT cap (toOps T rows) e =
      rows.map (fun r => Rec.mk (SB3Verif.Her.Lemmas.stored hTT ((toRow T r).getD e default))
        ((toRow T r).getD e default).done) := by
  unfold ghostOf toOps
  have : (rows.map fun r => Op.add (toRow T r)).map (Op.proj e) =
      (rows.map fun r => (toRow T r).getD e default).map COp.add := by
    simp [List.map_map, Op.proj, Function.comp_def]
  rw [this, ghost_adds, List.map_map]
  rfl

/-- **The cell lemma**: in a state satisfying the collection invariant, entry `a` of column `e`'s ghost history is
sub-environment `e`'s own `a`-th transition (as the HER buffer stores it), and its `last` flag is the
environment's own `terminated ∨ truncated`. -/
theorem ghost_cell (T : HTagging α) (hTT : Bool) (cap : Nat) (cfg : Cfg α) (s : Sys α) (hi : Inv cfg s) (a e : Nat)
    (ha : a < s.w.log.length) (he : e < cfg.nEnvs) :
    ∃ t b, EnvTransAt s e a t b ∧
      (ghostOf hTT cap (toOps T s.st.buffer) e).getD a default =
        Rec.mk (envTrans T hTT cfg.post t b) (t.term || t.trunc) ∧
      envDone s.w.log e a = (t.term || t.trunc) := by
  have hlen : s.st.trace.length = s.w.log.length := by
    have := congrArg List.length hi.rows
    simpa using this
  have ha' : a < s.st.trace.length := by omega
  have hts : s.w.log[a] ∈ s.w.log := List.getElem_mem ha
  have htl : (s.w.log[a]).length = cfg.nEnvs := hi.logLen _ hts
  have he' : e < (s.w.log[a]).length := by omega
  refine ⟨(s.w.log[a])[e], (s.st.trace[a]).row.action.getD e [],
    ⟨s.w.log[a], s.st.trace[a], List.getElem?_eq_getElem ha, List.getElem?_eq_getElem he',
      List.getElem?_eq_getElem ha', ?_, rfl⟩, ?_, ?_⟩
  · have h := congrArg (fun l => l[a]?) hi.acts
    simp only [List.getElem?_map, List.getElem?_eq_getElem ha, List.getElem?_eq_getElem ha', Option.map_some,
      Option.some.injEq] at h
    rw [h]
    simp [List.getElem?_map, List.getElem?_eq_getElem he']
  · have h := congrArg (fun l => l[a]?) hi.rows
    simp only [List.getElem?_map, List.getElem?_eq_getElem ha, List.getElem?_eq_getElem ha', Option.map_some,
      Option.some.injEq] at h
    simp only [Row.core, specCore, Core.mk.injEq] at h
    obtain ⟨h1, h2, h3, h4, h5⟩ := h
    have hd : (s.st.trace[a]).row.done.length = cfg.nEnvs := by rw [h4, List.length_map, htl]
    rw [ghostOf_toOps]
    have hrow : (s.st.buffer.map (fun r => Rec.mk (SB3Verif.Her.Lemmas.stored hTT ((toRow T r).getD e default))
        ((toRow T r).getD e default).done)).getD a default =
        Rec.mk (SB3Verif.Her.Lemmas.stored hTT ((toRow T (s.st.trace[a]).row).getD e default))
          ((toRow T (s.st.trace[a]).row).getD e default).done := by
      simp [St.buffer, List.getD_eq_getElem?_getD, List.getElem?_map, List.getElem?_eq_getElem ha']
    rw [hrow]
    have hcell : (toRow T (s.st.trace[a]).row).getD e default = toTrans T (s.st.trace[a]).row e := by
      have : e < (s.st.trace[a]).row.done.length := by omega
      simp [toRow, List.getD_eq_getElem?_getD, this]
    rw [hcell]
    simp only [toTrans, envTrans, SB3Verif.Her.Lemmas.stored, h1, h2, h3, h4, h5, List.getD_eq_getElem?_getD,
      List.getElem?_map, List.getElem?_eq_getElem he', Option.map_some, Option.getD_some]
  · simp [envDone, List.getElem?_eq_getElem ha, List.getElem?_eq_getElem he']

theorem ghost_length (T : HTagging α) (hTT : Bool) (cap : Nat) (cfg : Cfg α) (s : Sys α) (hi : Inv cfg s) (e : Nat) :
    (ghostOf hTT cap (toOps T s.st.buffer) e).length = s.w.log.length := by
  rw [ghostOf_toOps, List.length_map]
  have := congrArg List.length hi.rows
  simpa [St.buffer] using this

/-- **Episode boundaries coincide**: the HER segments' notion "the episode of add `a` ends at add `ee`" on
column `e`'s ghost history is the environment's own: sub-environment `e`'s first `terminated ∨ truncated` at or
after step `a` is at step `ee`. -/
theorem endsAt_iff_env (T : HTagging α) (hTT : Bool) (cap : Nat) (cfg : Cfg α) (s : Sys α) (hi : Inv cfg s)
    (e a ee : Nat) (he : e < cfg.nEnvs) :
    endsAt (ghostOf hTT cap (toOps T s.st.buffer) e) a ee ↔ EnvEndsAt s.w.log e a ee := by
  have hl := ghost_length T hTT cap cfg s hi e
  have hflag : ∀ k, k < s.w.log.length →
      ((ghostOf hTT cap (toOps T s.st.buffer) e).getD k default).last = envDone s.w.log e k := by
    intro k hk
    obtain ⟨t, b, -, h2, h3⟩ := ghost_cell T hTT cap cfg s hi k e hk he
    rw [h2, h3]
  unfold endsAt EnvEndsAt
  rw [hl]
  constructor
  · rintro ⟨h1, h2, h3, h4⟩
    exact ⟨h1, h2, by rw [← hflag ee h2]; exact h3, fun k hk1 hk2 => by rw [← hflag k (by omega)]; exact h4 k hk1 hk2⟩
  · rintro ⟨h1, h2, h3, h4⟩
    exact ⟨h1, h2, by rw [hflag ee h2]; exact h3, fun k hk1 hk2 => by rw [hflag k (by omega)]; exact h4 k hk1 hk2⟩

end

/-! ### Concrete data for the non-vacuity examples of `Props/C16C04.lean` -/

/-- goal observations are vectors `[observation, achieved_goal, desired_goal]` of integers; tags are the values -/
def exHTag : HTagging ℚ :=
  ⟨fun o => (o.getD 0 0).num.natAbs, fun o => (o.getD 1 0).num.natAbs, fun o => (o.getD 2 0).num.natAbs,
   fun a => (a.headD 0).num.natAbs, fun r => r.num⟩

/-- two envs, discrete actions, no `VecNormalize`, `train_freq = 1` step, one `learn()` call of 5 vectorised steps.
Env 0: an episode of 2 steps (terminated at step 1), an episode of 2 steps (terminated at step 3), an open step.
Env 1: one episode of 4 steps — longer than the HER ring of 3 — truncated at step 3, then an open step. -/
def herCfg : Cfg ℚ := ⟨2, .discrete, 0, 1, false, false, false, id⟩
def herCalls : List (Call ℚ) :=
  [ ⟨true, 10, [[0, 1, 9], [100, 101, 909]], none,
      [ ⟨[[1], [0]], none, [⟨[10, 11, 9], 1, false, false, [], none⟩, ⟨[110, 111, 909], 1, false, false, [], none⟩], none⟩,
        ⟨[[0], [1]], none, [⟨[20, 21, 9], 2, true, false, [30, 31, 8], none⟩, ⟨[120, 121, 909], 2, false, false, [], none⟩], none⟩,
        ⟨[[1], [1]], none, [⟨[40, 41, 8], 3, false, false, [], none⟩, ⟨[130, 131, 909], 3, false, false, [], none⟩], none⟩,
        ⟨[[0], [0]], none, [⟨[50, 51, 8], 4, true, false, [60, 61, 7], none⟩, ⟨[140, 141, 909], 4, false, true, [150, 151, 808], none⟩], none⟩,
        ⟨[[1], [0]], none, [⟨[70, 71, 7], 5, false, false, [], none⟩, ⟨[160, 161, 808], 5, false, false, [], none⟩], none⟩ ]⟩ ]

/-- the HER buffer fed by that run: `buffer_size = 7`, two envs: ring `7 // 2 = 3 < 5` adds — it wraps -/
def herBuf : Her := Her.run (ringSize 7 2) 2 true (toOps exHTag (run herCfg herCalls).st.buffer)

end SB3Verif.Lemmas.OffPolicyHer
