"""
C14 — Action distributions are mathematically consistent.

Implementation under test: stable_baselines3.common.distributions (DiagGaussianDistribution,
SquashedDiagGaussianDistribution, CategoricalDistribution, MultiCategoricalDistribution,
BernoulliDistribution, StateDependentNoiseDistribution, TanhBijector, sum_independent_dims)
Model: lean/SB3Verif/Model/Dist.lean (driver lean/SB3Verif/Driver/C14.lean, executed at Float32 and Float)

Two detectors:
  * correspondence: the parameters / actions / observed noise handed to the real Distribution objects are
    sent (as IEEE-754 bit patterns) to the Lean driver, which evaluates the *same generic definitions the
    theorems are about* at Float32 and at Float; log_prob, entropy, mode, sample, *_from_params are
    compared at a declared tolerance (first-order float32 forward-error bound, see `Tol`).
  * oracle (independent of the model): NumPy float64 closed forms of the log density / mass (exact change
    of variables: no epsilon, no clamp), analytic entropies, mode = maximiser, normalisation (sum over
    all discrete actions, numerical integration of exp(log_prob) in 1-D), samples in the support,
    log_prob_from_params == log_prob(returned sample); history independence (log_prob / mode / entropy after any call
    sequence, and after re-parametrising the same object, equal those of a fresh object and the closed form); fixed-seed goodness of fit (KS / chi-square at
    significance 1e-6 on 50 000 draws; 24 cases in the quick tier, 240 in the thorough tier).
"""
from __future__ import annotations

import itertools
import math
import struct

import numpy as np

from harness.common import guarded

RULE = (
    "cases from one SplitMix64 stream, eight kinds: diag (batch 1-8 or un-batched rank-1 parameters, dim 1-6, means "
    "in [-3,3] / large / 0, log-stds in [-20,2] weighted to [-3,1] with both extremes plus legal values beyond that range "
    "(2.5, 3, 5, 8, -21, -25, -30; mean 0 or action = mean when the std is below float32 resolution), shared or "
    "per-sample log_std, "
    "actions = mean + std*z, arbitrary, or the mean), squashed (same parameters; actions tanh(g), +-(1-1e-7), "
    "+-0.99999994, exactly +-1, 0; pre-squash values up to |g|=12 so that samples saturate), cat (2-8 logits per row, "
    "uniform / peaked +-40 / ties / equal), multicat (1-4 blocks of 1-5), bern (1-6 logits incl. 0 and +-40), gsde "
    "(latent 1-5 x action 1-4, full_std x use_expln x squash, log-std entries in [-20,2], latent incl. 0, one shared "
    "or per-row exploration matrices), bijector (TanhBijector on +-1, +-(1-eps/2), random), sumdims (rank 1/2 "
    "integer-valued tensors), gof (50 000 seeded draws of one parameter setting per distribution: KS per dimension / "
    "chi-square over the joint support, significance 1e-6), history (every distribution class: proba_distribution, then "
    "1-5 of sample / mode / get_actions(det or not) / log_prob(x) / entropy / sample_weights in random order, optionally "
    "proba_distribution again with other parameters on the same object, then log_prob(y) for independent in-support "
    "actions of the same batch shape and - one-row parameters - of another batch shape; compared with a fresh object, "
    "the closed form and the model). Every float is a float32 value. non-trivial = batch >= 2 and dim >= 2 (continuous), "
    "a peaked or tied row (discrete), >= 2 blocks (multicat), squashed action beyond 0.999, or gsde with latent >= 2; "
    "distinct = distinct canonical case"
)
STREAMS = {
    "f32": "log_prob / entropy / mode / sample / *_from_params of the real objects ~ Float32 evaluation of the model",
    "f64": "the same observables ~ Float (double) evaluation of the model",
    "exact": "integer modes, error kinds, sum_independent_dims on integer-valued tensors == model, exactly",
}

EPS32 = float(np.finfo(np.float32).eps)
EPSILON = 1e-6
LOG2PI = math.log(2.0 * math.pi)
RTOL = 1e-5
ATOL = 1e-6


# ------------------------------------------------------------------------------------------------
# bit patterns
def bits(x) -> int:
    return struct.unpack("<Q", struct.pack("<d", float(x)))[0]


def unbits(n: int) -> float:
    return struct.unpack("<d", struct.pack("<Q", int(n)))[0]


def enc(a):
    if isinstance(a, np.ndarray):
        a = a.tolist()
    if isinstance(a, (list, tuple)):
        return [enc(x) for x in a]
    return bits(a)


def dec(j):
    if isinstance(j, list):
        return [dec(x) for x in j]
    return unbits(j)


def f32(x) -> float:
    return float(np.float32(x))


def A(x):
    """float64 array holding float32 values"""
    return np.asarray(x, dtype=np.float64)


def T(x):
    import torch as th

    return th.tensor(np.asarray(x, dtype=np.float32))


def N(t):
    return t.detach().cpu().numpy().astype(np.float64)


# ------------------------------------------------------------------------------------------------
# generators
def g_mean(rng):
    k = rng.weighted([("u", 6), ("zero", 1), ("big", 1), ("small", 1)])
    if k == "zero":
        return 0.0
    if k == "big":
        return f32((rng.random() - 0.5) * 20)
    if k == "small":
        return f32((rng.random() - 0.5) * 1e-3)
    return f32((rng.random() - 0.5) * 6)


# legal log-stds outside the range policies usually keep them in (SAC clips its actor's output to [-20, 2], the
# distribution classes themselves accept any real): exp(-30) = 9.4e-14 and exp(8)^2 = 8.9e6 are ordinary float32 numbers
LOGSTD_BEYOND = [2.5, 3.0, 5.0, 8.0, -21.0, -25.0, -30.0]


def g_logstd(rng, lo=-20.0, beyond=False):
    k = rng.weighted([("typ", 7), ("lo", 1), ("hi", 1), ("zero", 1), ("wide", 2), ("beyond", 3 if beyond else 0)])
    if k == "beyond":
        return float(rng.choice(LOGSTD_BEYOND))
    if k == "lo":
        return lo
    if k == "hi":
        return 2.0
    if k == "zero":
        return 0.0
    if k == "wide":
        return f32(lo + rng.random() * (2.0 - lo))
    return f32(-3.0 + rng.random() * 4.0)


def g_logits(rng, n):
    k = rng.weighted([("u", 5), ("peak", 2), ("tie", 1), ("equal", 1), ("wide", 1)])
    if k == "equal":
        v = f32((rng.random() - 0.5) * 6)
        return [v] * n, k
    row = [f32((rng.random() - 0.5) * 6) for _ in range(n)]
    if k == "peak":
        row = [f32(-40 * rng.random()) for _ in range(n)]
        row[rng.randint(0, n - 1)] = 40.0
        if rng.chance(0.3):
            row[rng.randint(0, n - 1)] = -40.0
    elif k == "tie" and n >= 2:
        i, j = rng.sample(range(n), 2)
        row[j] = row[i] = max(row)
    elif k == "wide":
        row = [f32((rng.random() - 0.5) * 80) for _ in range(n)]
    return row, k


def gen_diag(rng, squashed=False):
    unb = (not squashed) and rng.chance(0.15)
    B = 1 if unb else rng.randint(1, 8)
    D = rng.randint(1, 6)
    lo = -20.0
    shared = rng.chance(0.5)
    mean = [[g_mean(rng) for _ in range(D)] for _ in range(B)]
    if squashed:
        # the pre-squash mean mostly inside the region where float32 tanh is not saturated
        mean = [[f32(m if abs(m) < 4 or rng.chance(0.3) else m / 4) for m in r] for r in mean]
    # squashed: keep the inverse path informative (atanh(a) is only known to ~1e-7, tiny stds are uninformative)
    floor = squashed and rng.chance(0.7)

    def one_ls():
        s = g_logstd(rng, lo, beyond=True)
        return max(s, f32(-5.0 + rng.random())) if floor else s

    if shared:
        ls = [one_ls() for _ in range(D)]
        log_std = [list(ls) for _ in range(B)]
    else:
        log_std = [[one_ls() for _ in range(D)] for _ in range(B)]
    actions = []
    for b in range(B):
        row = []
        for d in range(D):
            m, s = mean[b][d], math.exp(log_std[b][d])
            if s < 4 * EPS32 * abs(m) and rng.chance(0.5):
                # std below the float32 resolution around the mean: mean + std*z is only representable at mean 0
                mean[b][d] = m = 0.0
            k = rng.weighted([("z", 6), ("arb", 2), ("mean", 1), ("far", 1)])
            if k == "z":
                g = m + s * (rng.random() - 0.5) * 8
            elif k == "arb":
                g = (rng.random() - 0.5) * 8
            elif k == "mean":
                g = m
            else:
                g = m + (rng.random() - 0.5) * 24
            if squashed:
                k2 = rng.weighted([("tanh", 8), ("edge", 2), ("half", 1), ("one", 1), ("zero", 1), ("near", 2)])
                if k2 == "tanh":
                    row.append(f32(math.tanh(max(-12.0, min(12.0, g)))))
                elif k2 == "edge":
                    row.append(f32(rng.choice([-1, 1]) * (1 - 1e-7)))
                elif k2 == "half":
                    row.append(rng.choice([-1, 1]) * (1.0 - EPS32 / 2))
                elif k2 == "one":
                    row.append(float(rng.choice([-1, 1])))
                elif k2 == "zero":
                    row.append(0.0)
                else:
                    row.append(f32(rng.choice([-1, 1]) * (1 - 10 ** (-2 - 4 * rng.random()))))
            else:
                row.append(f32(g))
        actions.append(row)
    case = {"kind": "squashed" if squashed else "diag", "mean": mean, "log_std": log_std, "shared": shared,
            "actions": actions, "tseed": rng.randint(0, 2**31 - 1)}
    if not squashed:
        case["unbatched"] = unb
    return case


def gen_cat(rng):
    B = rng.randint(1, 8)
    n = rng.randint(2, 8)
    rows, kinds = [], []
    for _ in range(B):
        r, k = g_logits(rng, n)
        rows.append(r)
        kinds.append(k)
    return {"kind": "cat", "logits": rows, "rowkinds": kinds, "actions": [rng.randint(0, n - 1) for _ in range(B)],
            "tseed": rng.randint(0, 2**31 - 1)}


def gen_multicat(rng):
    B = rng.randint(1, 6)
    nvec = [rng.randint(1, 5) for _ in range(rng.randint(1, 4))]
    rows, kinds = [], []
    for _ in range(B):
        r, ks = [], []
        for n in nvec:
            x, k = g_logits(rng, n)
            r += x
            ks.append(k)
        rows.append(r)
        kinds.append(ks)
    return {"kind": "multicat", "nvec": nvec, "logits": rows, "rowkinds": kinds,
            "actions": [[rng.randint(0, n - 1) for n in nvec] for _ in range(B)], "tseed": rng.randint(0, 2**31 - 1)}


def gen_bern(rng):
    B = rng.randint(1, 8)
    D = rng.randint(1, 6)

    def lg():
        k = rng.weighted([("u", 6), ("zero", 1), ("big", 2), ("tiny", 1)])
        if k == "zero":
            return 0.0
        if k == "big":
            return float(rng.choice([-40.0, 40.0, -15.0, 15.0]))
        if k == "tiny":
            return f32((rng.random() - 0.5) * 1e-4)
        return f32((rng.random() - 0.5) * 8)

    return {"kind": "bern", "logits": [[lg() for _ in range(D)] for _ in range(B)],
            "actions": [[float(rng.randint(0, 1)) for _ in range(D)] for _ in range(B)], "tseed": rng.randint(0, 2**31 - 1)}


def gen_gsde(rng):
    B = rng.randint(1, 8)
    L = rng.randint(1, 5)
    n = rng.randint(1, 4)
    full_std, use_expln, squash = rng.chance(0.6), rng.chance(0.5), rng.chance(0.5)
    cols = n if full_std else 1
    log_std = [[g_logstd(rng) for _ in range(cols)] for _ in range(L)]
    if rng.chance(0.6):  # the regime policies are in: log_std around its initial value -2 .. 1
        log_std = [[f32(-3.0 + rng.random() * 4.5) for _ in range(cols)] for _ in range(L)]

    def lat():
        k = rng.weighted([("u", 6), ("zero", 1), ("one", 1)])
        return 0.0 if k == "zero" else (float(rng.choice([-1.0, 1.0])) if k == "one" else f32((rng.random() - 0.5) * 4))

    latent = [[lat() for _ in range(L)] for _ in range(B)]
    mean = [[f32((rng.random() - 0.5) * (3 if squash else 6)) for _ in range(n)] for _ in range(B)]
    return {"kind": "gsde", "full_std": full_std, "use_expln": use_expln, "squash": squash, "log_std": log_std,
            "latent": latent, "mean": mean, "z": [[f32((rng.random() - 0.5) * 7) for _ in range(n)] for _ in range(B)],
            "wbatch": rng.choice([B, B, 1, B + 1]), "tseed": rng.randint(0, 2**31 - 1)}


def gen_bijector(rng):
    ys = [1.0, -1.0, 1.0 - EPS32 / 2, -(1.0 - EPS32 / 2), 1.0 - EPS32, -(1.0 - EPS32), 0.0]
    ys += [f32(math.tanh((rng.random() - 0.5) * 16)) for _ in range(rng.randint(1, 6))]
    ys += [f32(rng.choice([-1, 1]) * (1 - 10 ** (-1 - 6 * rng.random()))) for _ in range(rng.randint(0, 4))]
    xs = [f32((rng.random() - 0.5) * 24) for _ in range(rng.randint(1, 6))] + [0.0]
    return {"kind": "bijector", "y": ys, "x": xs}


def gen_sumdims(rng):
    rank = rng.choice([1, 2, 2, 2])
    if rank == 1:
        t = [float(rng.randint(-9, 9)) for _ in range(rng.randint(1, 7))]
    else:
        B, D = rng.randint(1, 6), rng.randint(1, 6)
        t = [[float(rng.randint(-9, 9)) for _ in range(D)] for _ in range(B)]
    return {"kind": "sumdims", "tensor": t}


GOF_DISTS = ["gsde", "squashed", "diag", "cat", "multicat", "bern"]


def gen_gof(rng, k=None):
    k = k or rng.choice(GOF_DISTS)
    if k == "diag" or k == "squashed":
        D = rng.randint(1, 3)
        ls = [f32(-2 + rng.random() * 2.5) for _ in range(D)]
        mean = [f32((rng.random() - 0.5) * 3) for _ in range(D)]
        if k == "diag":
            # empirical sample std at legal extremes too (tiny stds at mean 0, where float32 resolves them)
            for d in range(D):
                if rng.chance(0.4):
                    ls[d] = float(rng.choice(LOGSTD_BEYOND))
                    if ls[d] < 0:
                        mean[d] = 0.0
        return {"kind": "gof", "dist": k, "mean": mean, "log_std": ls, "tseed": rng.randint(0, 2**31 - 1)}
    if k == "cat":
        r, _ = g_logits(rng, rng.randint(2, 6))
        return {"kind": "gof", "dist": k, "logits": r, "tseed": rng.randint(0, 2**31 - 1)}
    if k == "multicat":
        nvec = [rng.randint(1, 4) for _ in range(rng.randint(1, 3))]
        return {"kind": "gof", "dist": k, "nvec": nvec, "logits": sum((g_logits(rng, n)[0] for n in nvec), []),
                "tseed": rng.randint(0, 2**31 - 1)}
    if k == "bern":
        return {"kind": "gof", "dist": k, "logits": [f32((rng.random() - 0.5) * 6) for _ in range(rng.randint(1, 4))],
                "tseed": rng.randint(0, 2**31 - 1)}
    L, n = rng.randint(1, 4), rng.randint(1, 3)
    full_std = rng.chance(0.5)
    return {"kind": "gof", "dist": k, "full_std": full_std, "use_expln": rng.chance(0.5), "squash": rng.chance(0.5),
            "log_std": [[f32(-2.5 + rng.random() * 3) for _ in range(n if full_std else 1)] for _ in range(L)],
            "latent": [f32((rng.random() - 0.5) * 3) for _ in range(L)],
            "mean": [f32((rng.random() - 0.5) * 2) for _ in range(n)], "tseed": rng.randint(0, 2**31 - 1)}


GENS = [("diag", gen_diag, 320, 3200), ("squashed", lambda r: gen_diag(r, True), 400, 4000), ("cat", gen_cat, 240, 2400),
        ("multicat", gen_multicat, 200, 2000), ("bern", gen_bern, 200, 2000), ("gsde", gen_gsde, 400, 4000),
        ("bijector", gen_bijector, 40, 300), ("sumdims", gen_sumdims, 48, 300)]


def gen_cases(ctx):
    cases = []
    for _, g, q, t in GENS:
        for _ in range(ctx.budget(q, t)):
            cases.append(g(ctx.rng))
    # fixed-seed goodness of fit (50 000 draws each; deterministic given the case): a few in the quick tier too,
    # because the scale of the sampler's noise is not observable in any single deterministic comparison
    for i in range(ctx.budget(24, 240)):
        cases.append(gen_gof(ctx.rng, GOF_DISTS[i % len(GOF_DISTS)]))
    for i in range(ctx.budget(360, 3600)):
        cases.append(gen_history(ctx.rng, HIST_DISTS[i % len(HIST_DISTS)]))
    return cases


def shrink_candidates(case):
    k = case.get("kind")
    if k == "history":
        for i in range(len(case["ops"])):
            if len(case["ops"]) > 1:
                c = dict(case)
                c["ops"] = case["ops"][:i] + case["ops"][i + 1:]
                yield c
        if case["reparam"]:
            c = dict(case)
            c["reparam"] = False
            yield c
        if case.get("y2") is not None:
            c = dict(case)
            c["y2"] = None
            yield c
        return
    rowfields = {"diag": ["mean", "log_std", "actions"], "squashed": ["mean", "log_std", "actions"],
                 "cat": ["logits", "actions", "rowkinds"], "multicat": ["logits", "actions", "rowkinds"],
                 "bern": ["logits", "actions"], "gsde": ["latent", "mean", "z"]}.get(k)
    if not rowfields:
        return
    B = len(case[rowfields[0]])
    if B > 1 and not case.get("unbatched"):
        for b in range(B):
            c = dict(case)
            for f in rowfields:
                c[f] = [r for i, r in enumerate(case[f]) if i != b]
            if k == "gsde":
                c["wbatch"] = B - 1 if case["wbatch"] == B else case["wbatch"]
            yield c
    if k in ("diag", "squashed", "bern"):
        colfields = rowfields
        D = len(case[colfields[0]][0])
        if D > 1:
            for d in range(D):
                c = dict(case)
                for f in colfields:
                    c[f] = [[x for j, x in enumerate(r) if j != d] for r in case[f]]
                yield c


# ------------------------------------------------------------------------------------------------
# float64 closed forms (the oracle's own; independent of the Lean model)
def o_normal_terms(mu, sigma, a):
    with np.errstate(all="ignore"):
        q = -((a - mu) ** 2) / (2.0 * sigma * sigma)
        ls = np.log(sigma)
    lp = q - ls - 0.5 * LOG2PI
    scale = np.abs(q) + np.abs(ls) + 0.5 * LOG2PI
    return lp, scale


def o_normal_entropy(sigma):
    return 0.5 + 0.5 * LOG2PI + np.log(sigma)


def o_atanh_err(ac):
    """first-order bound on the float32 error of 0.5*(log1p(y) - log1p(-y))"""
    with np.errstate(all="ignore"):
        return 4.0 * EPS32 * 0.5 * (np.abs(np.log1p(ac)) + np.abs(np.log1p(-ac))) + 2.0 * EPS32 * np.abs(np.arctanh(ac))


def o_logsumexp(x):
    m = np.max(x)
    return m + math.log(float(np.sum(np.exp(x - m))))


class Tol:
    """declared tolerance: RTOL * (sum of magnitudes of the terms) + ATOL + conditioning term"""

    @staticmethod
    def ok(x, ref, scale, cond=0.0, k=1.0):
        x, ref = float(x), float(ref)
        if math.isnan(x) or math.isnan(ref):
            return False
        if math.isinf(x) or math.isinf(ref):
            return x == ref
        return abs(x - ref) <= k * (RTOL * float(scale) + ATOL) + float(cond)


def finite(x):
    return bool(np.all(np.isfinite(np.asarray(x, dtype=np.float64))))


# ------------------------------------------------------------------------------------------------
class NoiseSpy:
    """records the standard-normal draws of torch.distributions.Normal.rsample"""

    def __init__(self):
        self.draws = []

    def __enter__(self):
        import torch.distributions.normal as tdn

        self.mod = tdn
        self.orig = tdn._standard_normal

        def spy(*a, **k):
            z = self.orig(*a, **k)
            self.draws.append(N(z))
            return z

        tdn._standard_normal = spy
        return self

    def __exit__(self, *a):
        self.mod._standard_normal = self.orig


# deviations recorded in known_findings.json (K-C14-a/b/c): only the first few per process are reported as
# violations (the report keeps 40 violations per chunk and new ones must never be crowded out); all are counted
KNOWN_CAUSES = ("squash_regulariser", "gsde_variance_epsilon", "squashed_mode_is_tanh_of_mean")
MAX_KNOWN_PER_CAUSE = 2
_known_seen = {}


def V(rep, what, case, dist, field, cause, detail=None):
    if cause in KNOWN_CAUSES:
        rep.count(f"known:{cause}:{dist}:{field}")
        _known_seen[cause] = _known_seen.get(cause, 0) + 1
        if _known_seen[cause] > MAX_KNOWN_PER_CAUSE:
            return
    rep.violation(what, case, {"dist": dist, "field": field, "cause": cause}, detail)


# ------------------------------------------------------------------------------------------------
# DiagGaussian
def run_diag(ctx, case):
    import torch as th
    from stable_baselines3.common.distributions import DiagGaussianDistribution

    rep = ctx.report
    mean, ls, act = A(case["mean"]), A(case["log_std"]), A(case["actions"])
    B, D = mean.shape
    unb = case.get("unbatched", False)
    dist = DiagGaussianDistribution(D)
    if unb:
        tm, tl, ta = T(mean[0]), T(ls[0]), T(act[0])
    else:
        tm, tl, ta = T(mean), (T(ls[0]) if case["shared"] else T(ls)), T(act)
    dist.proba_distribution(tm, tl)
    lp = N(dist.log_prob(ta))
    ent = N(dist.entropy())
    mode = N(dist.mode())
    lp_mode = N(dist.log_prob(dist.mode()))
    th.manual_seed(case["tseed"])
    with NoiseSpy() as spy:
        a_fp, lp_fp = dist.log_prob_from_params(tm, tl)
    a_fp, lp_fp = N(a_fp), N(lp_fp)
    lp_again = N(dist.log_prob(T(a_fp)))
    det = N(dist.actions_from_params(tm, tl, deterministic=True))
    z = spy.draws[0] if len(spy.draws) == 1 and spy.draws[0].shape == a_fp.shape else None
    rep.count("diag:noise_observed" if z is not None else "diag:noise_unobserved")
    # ---------------- oracle ----------------
    sig = np.exp(ls)
    terms, sc = o_normal_terms(mean, sig, act)
    o_lp, o_sc = terms.sum(axis=1), sc.sum(axis=1)
    o_ent = o_normal_entropy(sig).sum(axis=1)
    o_ent_sc = (np.abs(ls) + 1.5).sum(axis=1)
    if unb:
        if lp.shape != () or ent.shape != ():
            V(rep, "un-batched log_prob/entropy is not a scalar", case, "diag", "shape", "sum_axis", {"lp": lp.shape})
            return None
        lp, ent, lp_mode, lp_fp, lp_again = (np.reshape(x, (1,)) for x in (lp, ent, lp_mode, lp_fp, lp_again))
        mode, a_fp, det = mode.reshape(1, D), a_fp.reshape(1, D), det.reshape(1, D)
        if z is not None:
            z = z.reshape(1, D)
    if lp.shape != (B,) or ent.shape != (B,) or mode.shape != (B, D) or a_fp.shape != (B, D):
        V(rep, "log_prob/entropy must have one entry per batch row", case, "diag", "shape", "sum_axis",
          {"lp": lp.shape, "ent": ent.shape})
        return None
    for b in range(B):
        if not Tol.ok(lp[b], o_lp[b], o_sc[b]):
            V(rep, "DiagGaussian log_prob differs from the log density of independent Gaussians", case, "diag",
              "log_prob", "formula", {"row": b, "impl": lp[b], "closed_form": o_lp[b]})
            return None
        if not Tol.ok(ent[b], o_ent[b], o_ent_sc[b]):
            V(rep, "DiagGaussian entropy differs from sum_i (1/2 + 1/2 log 2pi + log sigma_i)", case, "diag", "entropy",
              "formula", {"row": b, "impl": ent[b], "closed_form": o_ent[b]})
            return None
        if lp_mode[b] < lp[b] - (RTOL * o_sc[b] + ATOL):
            V(rep, "an action has larger log_prob than mode()", case, "diag", "mode", "not_argmax",
              {"row": b, "lp_mode": lp_mode[b], "lp_action": lp[b]})
            return None
    if not np.array_equal(mode, mean) or not np.array_equal(det, mean):
        V(rep, "mode() / deterministic actions differ from the mean", case, "diag", "mode", "not_mean")
        return None
    if not finite(a_fp):
        V(rep, "sample outside the support (non-finite)", case, "diag", "sample", "support")
        return None
    if z is not None:
        # the sampler's scale: sample = mean + z * exp(log_std) for the observed standard-normal draw z
        exp_s = mean + z * sig
        if np.any(np.abs(a_fp - exp_s) > 8 * EPS32 * (np.abs(mean) + np.abs(z) * sig) + 1e-30):
            V(rep, "sample differs from mean + z * exp(log_std) for the standard-normal draw z it consumed", case, "diag",
              "sample", "sample_scale", {"impl": a_fp, "closed_form": exp_s})
            return None
    t2, sc2 = o_normal_terms(mean, sig, a_fp)
    for b in range(B):
        if not Tol.ok(lp_fp[b], lp_again[b], sc2.sum(axis=1)[b], k=0.1) or not Tol.ok(lp_fp[b], t2.sum(axis=1)[b], sc2.sum(axis=1)[b]):
            V(rep, "log_prob_from_params differs from log_prob of the returned sample", case, "diag", "from_params",
              "inconsistent", {"row": b, "from_params": lp_fp[b], "log_prob(sample)": lp_again[b]})
            return None
    # 1-D: numerical integration of exp(log_prob)
    if D == 1 and not unb:
        m0, s0 = mean[0, 0], sig[0, 0]
        if abs(m0) < 1e4 * s0 and s0 > 1e-6:
            xs = np.float32(m0 + s0 * np.linspace(-9, 9, 1801)).astype(np.float64)
            d1 = DiagGaussianDistribution(1)
            d1.proba_distribution(T(np.full((len(xs), 1), m0)), T(np.full((len(xs), 1), ls[0, 0])))
            p = np.exp(N(d1.log_prob(T(xs.reshape(-1, 1)))))
            integ = float(np.sum(0.5 * (p[1:] + p[:-1]) * np.diff(xs)))
            coarse = float(np.sum(0.5 * (p[2::2] + p[:-2:2]) * (xs[2::2] - xs[:-2:2])))
            if abs(integ - coarse) < 1e-4:
                rep.count("diag:integrated")
                if abs(integ - 1.0) > 1e-3:
                    V(rep, "exp(log_prob) does not integrate to 1", case, "diag", "log_prob", "normalisation",
                      {"integral": integ, "quadrature_error_estimate": abs(integ - coarse)})
                    return None
            else:
                rep.count("diag:integration_skipped_unresolved")
    op = {"op": "diag", "mean": enc(mean), "log_std": enc(ls), "actions": enc(act), "unbatched": bool(unb)}
    if z is not None:
        op["noise"] = enc(z)
    impl = {"log_prob": lp.reshape(()) if unb else lp, "entropy": ent.reshape(()) if unb else ent, "mode": mode}
    scales = {"log_prob": o_sc.reshape(()) if unb else o_sc, "entropy": o_ent_sc.reshape(()) if unb else o_ent_sc,
              "mode": np.abs(mean) + 1e-30}
    if z is not None:
        impl["sample"] = a_fp
        impl["sample_log_prob"] = lp_fp
        scales["sample"] = np.abs(mean) + np.abs(z) * sig
        # d lp / d a = -(a - mu)/sigma^2; the sample itself is only reproduced to ~eps32*|sample|
        da = 2 * EPS32 * scales["sample"]
        scales["sample_log_prob"] = sc2.sum(axis=1) + ((np.abs(a_fp - mean) * da + da * da) / (sig * sig)).sum(axis=1) / RTOL
    return {"ops": [op], "impl": impl, "scales": scales, "unb": unb}


# ------------------------------------------------------------------------------------------------
# SquashedDiagGaussian
def sq_exact(mean, sig, a):
    """exact log density of tanh(X) at a (|a| < 1): row sums, scale, and per-row conditioning"""
    with np.errstate(all="ignore"):
        g = np.arctanh(a)
        terms, sc = o_normal_terms(mean, sig, g)
        corr = np.log((1.0 - a) * (1.0 + a))
    return (terms - corr).sum(axis=1), (sc + np.abs(corr)).sum(axis=1)


def sq_reg(mean, sig, a, eps_corr=EPSILON, clamp=True):
    """the documented regularised form: clamp to +-(1 - eps32) before atanh, epsilon inside the log"""
    ac = np.clip(a, -1.0 + EPS32, 1.0 - EPS32) if clamp else a
    with np.errstate(all="ignore"):
        g = np.arctanh(ac)
        terms, sc = o_normal_terms(mean, sig, g)
        corr = np.log(1.0 - a * a + eps_corr)
    dg = o_atanh_err(ac)
    cond = ((np.abs(g - mean) * dg + dg * dg / 2) / (sig * sig) + 4 * EPS32 / (1.0 - a * a + eps_corr)).sum(axis=1)
    return (terms - corr).sum(axis=1), (sc + np.abs(corr)).sum(axis=1), cond


def sq_given(mean, sig, a, g, eps_corr=EPSILON):
    terms, sc = o_normal_terms(mean, sig, g)
    with np.errstate(all="ignore"):
        corr = np.log(1.0 - a * a + eps_corr)
    cond = (4 * EPS32 / (1.0 - a * a + eps_corr)).sum(axis=1)
    return (terms - corr).sum(axis=1), (sc + np.abs(corr)).sum(axis=1), cond


def better_than_tanh_mean(m, s):
    """argmax over x of -(x-m)^2/(2 s^2) - log(1 - tanh(x)^2): the pre-squash value of the true mode
    (largest stationary point on the side of the mean), float64, by bisection on the derivative"""
    f = lambda x: -(x - m) / (s * s) + 2.0 * math.tanh(x)  # noqa: E731
    if m == 0.0:
        if s * s * 2.0 <= 1.0:
            return 0.0
        lo, hi = 1e-9, 2 * s * s + 1.0
    elif m > 0:
        lo, hi = m, m + 2 * s * s + 1e-12
    else:
        lo, hi = m - 2 * s * s - 1e-12, m
    # f(lo) and f(hi) bracket a root: for m>0 f(m)=2tanh(m)>0, f(m+2s^2) = -2+2tanh(..) < 0
    flo = f(lo)
    for _ in range(200):
        mid = 0.5 * (lo + hi)
        fm = f(mid)
        if (fm > 0) == (flo > 0):
            lo, flo = mid, fm
        else:
            hi = mid
    return 0.5 * (lo + hi)


def run_squashed(ctx, case):
    import torch as th
    from stable_baselines3.common.distributions import SquashedDiagGaussianDistribution

    rep = ctx.report
    mean, ls, act = A(case["mean"]), A(case["log_std"]), A(case["actions"])
    B, D = mean.shape
    dist = SquashedDiagGaussianDistribution(D)
    tm, tl, ta = T(mean), (T(ls[0]) if case["shared"] else T(ls)), T(act)
    dist.proba_distribution(tm, tl)
    lp = N(dist.log_prob(ta))
    ent = dist.entropy()
    mode = N(dist.mode())
    lp_mode = N(dist.log_prob(dist.mode(), dist.gaussian_actions))
    th.manual_seed(case["tseed"])
    with NoiseSpy() as spy:
        a_fp, lp_fp = dist.log_prob_from_params(tm, tl)
    g_fp = N(dist.gaussian_actions)
    a_fp, lp_fp = N(a_fp), N(lp_fp)
    lp_again = N(dist.log_prob(T(a_fp)))
    det = N(dist.actions_from_params(tm, tl, deterministic=True))
    z = spy.draws[0] if len(spy.draws) == 1 and spy.draws[0].shape == a_fp.shape else None
    rep.count("squashed:noise_observed" if z is not None else "squashed:noise_unobserved")
    sig = np.exp(ls)
    if lp.shape != (B,) or mode.shape != (B, D) or a_fp.shape != (B, D) or lp_fp.shape != (B,):
        V(rep, "log_prob must have one entry per batch row", case, "squashed", "shape", "sum_axis", {"lp": lp.shape})
        return None
    if ent is not None:
        V(rep, "squashed Gaussian reports an entropy although none is analytic", case, "squashed", "entropy", "not_none")
        return None
    if not finite(lp) or not finite(lp_fp) or not finite(lp_again):
        V(rep, "log_prob is not finite for an action of the closed support [-1, 1]", case, "squashed", "log_prob",
          "non_finite", {"lp": lp, "from_params": lp_fp, "log_prob(sample)": lp_again})
        return None
    # ---- log_prob(actions): exact change of variables first, the regularised closed form second
    inside = np.all(np.abs(act) < 1.0, axis=1)
    r_lp, r_sc, r_cond = sq_reg(mean, sig, act)
    with np.errstate(all="ignore"):
        e_lp, e_sc = sq_exact(mean, sig, act)
    n_reg = 0
    for b in range(B):
        if inside[b] and Tol.ok(lp[b], e_lp[b], e_sc[b], r_cond[b]):
            continue
        if Tol.ok(lp[b], r_lp[b], r_sc[b], r_cond[b]):
            if inside[b]:
                n_reg += 1
                rep.count("squashed:logprob_off_exact_density_by_regulariser")
                V(rep, "squashed log_prob differs from the exact log density of tanh(X): explained by the epsilon in "
                  "log(1 - a^2 + epsilon) / the clamp of TanhBijector.inverse", case, "squashed", "log_prob",
                  "squash_regulariser", {"row": b, "impl": lp[b], "exact": e_lp[b], "regularised": r_lp[b]})
            continue
        V(rep, "squashed log_prob differs from the change-of-variables log density", case, "squashed", "log_prob",
          "formula", {"row": b, "impl": lp[b], "exact": e_lp[b], "regularised": r_lp[b], "tol_cond": r_cond[b]})
        return None
    # ---- mode
    tanh_mean = np.tanh(mean)
    if np.max(np.abs(mode - tanh_mean)) > 4 * EPS32 or np.max(np.abs(det - tanh_mean)) > 4 * EPS32:
        V(rep, "mode() differs from tanh(mean)", case, "squashed", "mode", "not_tanh_mean")
        return None
    xs = np.array([[better_than_tanh_mean(mean[b, d], sig[b, d]) for d in range(D)] for b in range(B)])
    xs32 = A(np.float32(xs))
    cand = np.tanh(xs32)
    ok_rows = np.all(np.abs(xs32) < 6.0, axis=1) & np.all(np.abs(mean) < 6.0, axis=1)
    lp_cand = N(dist.log_prob(T(cand), T(xs32)))
    g_sc = sq_given(mean, sig, A(np.float32(cand)), xs32)
    for b in range(B):
        if ok_rows[b] and lp_cand[b] > lp_mode[b] + 4 * (RTOL * g_sc[1][b] + ATOL) + 2 * g_sc[2][b]:
            rep.count("squashed:mode_not_argmax")
            V(rep, "mode() = tanh(mean) is not the maximiser of log_prob in action space", case, "squashed", "mode",
              "squashed_mode_is_tanh_of_mean", {"row": b, "lp_mode": lp_mode[b], "lp_other": lp_cand[b],
                                                "other_presquash": xs32[b].tolist()})
            break
    # ---- samples, from_params
    if not finite(a_fp) or np.max(np.abs(a_fp)) > 1.0:
        V(rep, "sample outside [-1, 1]", case, "squashed", "sample", "support")
        return None
    if z is not None:
        exp_g = mean + z * sig
        if np.any(np.abs(g_fp - exp_g) > 8 * EPS32 * (np.abs(mean) + np.abs(z) * sig) + 1e-30):
            V(rep, "pre-squash sample differs from mean + z * exp(log_std) for the standard-normal draw z it consumed", case,
              "squashed", "sample", "sample_scale", {"impl": g_fp, "closed_form": exp_g})
            return None
    if np.max(np.abs(a_fp - np.tanh(g_fp))) > 4 * EPS32:
        V(rep, "returned action is not tanh of the cached gaussian action", case, "squashed", "sample", "cache")
        return None
    q_lp, q_sc, q_cond = sq_given(mean, sig, a_fp, g_fp)
    x_lp, x_sc, _ = sq_given(mean, sig, a_fp, g_fp, eps_corr=0.0)
    rr_lp, rr_sc, rr_cond = sq_reg(mean, sig, a_fp)
    # the float32 action cannot carry tanh(g) exactly: re-deriving g from it is off by ~ulp(a)/(1 - a^2)
    dq = EPS32 * np.abs(a_fp) / np.maximum(1.0 - a_fp * a_fp, EPS32)
    condq = ((np.abs(g_fp - mean) * dq + dq * dq / 2) / (sig * sig)).sum(axis=1)
    for b in range(B):
        unsat = np.all(np.abs(a_fp[b]) < 1.0)
        if not Tol.ok(lp_fp[b], q_lp[b], q_sc[b], q_cond[b]):
            V(rep, "log_prob_from_params differs from the density of the cached pre-squash sample", case, "squashed",
              "from_params", "formula", {"row": b, "impl": lp_fp[b], "closed_form": q_lp[b]})
            return None
        if unsat and not Tol.ok(lp_fp[b], x_lp[b], x_sc[b], q_cond[b]):
            rep.count("squashed:from_params_off_exact_by_regulariser")
            V(rep, "log_prob_from_params differs from the exact log density of the sample: explained by the epsilon in "
              "log(1 - a^2 + epsilon)", case, "squashed", "from_params", "squash_regulariser",
              {"row": b, "impl": lp_fp[b], "exact": x_lp[b]})
        if not Tol.ok(lp_again[b], lp_fp[b], q_sc[b] + rr_sc[b], q_cond[b] + rr_cond[b] + condq[b]):
            if Tol.ok(lp_again[b], rr_lp[b], rr_sc[b], rr_cond[b]) and np.any(np.abs(a_fp[b]) > 1.0 - EPS32):
                rep.count("squashed:from_params_vs_logprob_clamped")
                V(rep, "log_prob(sample) differs from log_prob_from_params for a saturated sample: TanhBijector.inverse "
                  "clamps the action before inverting", case, "squashed", "from_params", "squash_regulariser",
                  {"row": b, "from_params": lp_fp[b], "log_prob(sample)": lp_again[b]})
            else:
                V(rep, "log_prob_from_params differs from log_prob of the returned sample", case, "squashed",
                  "from_params", "inconsistent", {"row": b, "from_params": lp_fp[b], "log_prob(sample)": lp_again[b]})
                return None
    # ---- 1-D: numerical integration, in the pre-squash variable x (a = tanh x is an exact change of variables:
    # the integral over a of p_a equals the integral over x of p_a(tanh x) (1 - tanh^2 x)); the grid is the set of distinct
    # float32 actions, mapped back with artanh in float64; asserted only when the quadrature error estimate
    # (all points vs every other point) is below 1e-4
    if D == 1:
        m0, s0 = mean[0, 0], sig[0, 0]
        if abs(m0) + 10 * s0 <= 6.0 and s0 > 1e-4:
            xg = m0 + s0 * np.linspace(-10, 10, 4001)
            ys = np.unique(np.float32(np.tanh(xg)).astype(np.float64))
            ys = ys[np.abs(ys) < 1.0]
            if len(ys) >= 400:
                xs_ = np.arctanh(ys)
                jac = (1.0 - ys) * (1.0 + ys)
                d1 = SquashedDiagGaussianDistribution(1)
                d1.proba_distribution(T(np.full((len(ys), 1), m0)), T(np.full((len(ys), 1), ls[0, 0])))
                f = np.exp(N(d1.log_prob(T(ys.reshape(-1, 1))))) * jac

                def trap(v, x):
                    return float(np.sum(0.5 * (v[1:] + v[:-1]) * np.diff(x)))

                integ, coarse = trap(f, xs_), trap(f[::2], xs_[::2])
                # what the documented regulariser makes of a normalised density: each value is divided by 1 + eps/(1-a^2)
                gauss = np.exp(-((xs_ - m0) ** 2) / (2 * s0 * s0)) / (s0 * math.sqrt(2 * math.pi))
                expect_reg = trap(gauss * jac / (jac + EPSILON), xs_)
                if abs(integ - coarse) < 1e-4 and abs(trap(gauss, xs_) - 1.0) < 1e-4:
                    rep.count("squashed:integrated")
                    if abs(integ - 1.0) > 1e-3:
                        if abs(integ - expect_reg) <= 2e-4:
                            rep.count("squashed:integral_below_one_by_regulariser")
                            V(rep, "exp(log_prob) integrates to less than 1 over the action interval: explained by the "
                              "epsilon in log(1 - a^2 + epsilon)", case, "squashed", "log_prob", "squash_regulariser",
                              {"integral": integ, "with_regulariser": expect_reg})
                        else:
                            V(rep, "exp(log_prob) does not integrate to 1 over the action interval", case, "squashed",
                              "log_prob", "normalisation", {"integral": integ, "with_regulariser": expect_reg,
                                                            "quadrature_error_estimate": abs(integ - coarse)})
                            return None
                    elif abs(integ - expect_reg) > 1e-3:
                        V(rep, "exp(log_prob) does not integrate to 1 over the action interval", case, "squashed",
                          "log_prob", "normalisation", {"integral": integ, "with_regulariser": expect_reg})
                        return None
                else:
                    rep.count("squashed:integration_skipped_unresolved")
    op = {"op": "squashed", "mean": enc(mean), "log_std": enc(ls), "actions": enc(act), "epsilon": bits(EPSILON),
          "eps": bits(EPS32)}
    impl = {"log_prob": lp, "mode": mode}
    scales = {"log_prob": r_sc + r_cond / RTOL, "mode": np.full_like(mean, 1.0)}
    if z is not None:
        op["noise"] = enc(z)
        impl.update({"gaussian": g_fp, "sample": a_fp, "sample_log_prob": lp_fp})
        gs = np.abs(mean) + np.abs(z) * sig
        dg = 2 * EPS32 * gs
        scales.update({"gaussian": gs, "sample": np.full_like(mean, 1.0),
                       "sample_log_prob": q_sc + (q_cond + ((np.abs(g_fp - mean) * dg + dg * dg) / (sig * sig)
                                                            + 2 * dg / (1 - a_fp * a_fp + EPSILON)).sum(axis=1)) / RTOL})
    return {"ops": [op], "impl": impl, "scales": scales}


# ------------------------------------------------------------------------------------------------
# Categorical / MultiCategorical / Bernoulli
def cat_closed(row):
    lse = o_logsumexp(row)
    logp = row - lse
    p = np.exp(logp)
    return logp, p, float(-(p * logp).sum()), float(np.abs(row).max() + abs(lse))


def run_cat(ctx, case):
    import torch as th
    from stable_baselines3.common.distributions import CategoricalDistribution

    rep = ctx.report
    logits = A(case["logits"])
    B, n = logits.shape
    acts = np.asarray(case["actions"], dtype=np.int64)
    dist = CategoricalDistribution(n)
    tl = T(logits)
    dist.proba_distribution(tl)
    lp = N(dist.log_prob(th.tensor(acts)))
    ent = N(dist.entropy())
    mode_t = dist.mode()
    mode = mode_t.numpy().astype(np.int64)
    all_lp = np.stack([N(dist.log_prob(th.full((B,), a, dtype=th.int64))) for a in range(n)], axis=1)
    th.manual_seed(case["tseed"])
    a_fp, lp_fp = dist.log_prob_from_params(tl)
    lp_again = N(dist.log_prob(a_fp))
    det = dist.actions_from_params(tl, deterministic=True).numpy()
    if lp.shape != (B,) or ent.shape != (B,) or mode.shape != (B,) or tuple(a_fp.shape) != (B,):
        V(rep, "one log_prob / entropy / mode / sample per batch row expected", case, "cat", "shape", "sum_axis")
        return None
    a_np = a_fp.numpy()
    if a_fp.dtype != th.int64 or np.any(a_np < 0) or np.any(a_np >= n):
        V(rep, "sample outside the support {0..n-1}", case, "cat", "sample", "support", {"sample": a_np})
        return None
    scs = []
    for b in range(B):
        logp, p, H, sc = cat_closed(logits[b])
        scs.append(sc)
        if not all(Tol.ok(all_lp[b, a], logp[a], sc) for a in range(n)) or not Tol.ok(lp[b], logp[acts[b]], sc):
            V(rep, "Categorical log_prob differs from log softmax", case, "cat", "log_prob", "formula",
              {"row": b, "impl": all_lp[b], "closed_form": logp})
            return None
        tot = float(np.exp(all_lp[b]).sum())
        if abs(tot - 1.0) > 1e-5:
            V(rep, "masses over all actions do not sum to 1", case, "cat", "log_prob", "normalisation", {"row": b, "sum": tot})
            return None
        if not Tol.ok(ent[b], H, 1.0 + sc * float((p * np.abs(logp)).sum() > 0)):
            V(rep, "Categorical entropy differs from -sum p log p", case, "cat", "entropy", "formula",
              {"row": b, "impl": ent[b], "closed_form": H})
            return None
        if not (0 <= mode[b] < n) or all_lp[b, mode[b]] < all_lp[b].max() - (RTOL * sc + ATOL) or det[b] != mode[b]:
            V(rep, "mode() is not a maximiser of log_prob", case, "cat", "mode", "not_argmax",
              {"row": b, "mode": int(mode[b]), "log_probs": all_lp[b]})
            return None
        if not Tol.ok(N(lp_fp)[b], lp_again[b], sc, k=0.1) or not Tol.ok(N(lp_fp)[b], logp[a_np[b]], sc):
            V(rep, "log_prob_from_params differs from log_prob of the returned sample", case, "cat", "from_params",
              "inconsistent", {"row": b})
            return None
    op = {"op": "cat", "logits": enc(logits), "actions": acts.tolist()}
    return {"ops": [op], "impl": {"log_prob": lp, "entropy": ent, "probs": N(dist.distribution.probs)},
            "scales": {"log_prob": np.array(scs), "entropy": 1.0 + np.array(scs), "probs": np.ones_like(logits)},
            "modes": mode.tolist(), "all_lp": all_lp, "sc": scs}


def run_multicat(ctx, case):
    import torch as th
    from stable_baselines3.common.distributions import MultiCategoricalDistribution

    rep = ctx.report
    nvec = case["nvec"]
    logits = A(case["logits"])
    B = logits.shape[0]
    acts = np.asarray(case["actions"], dtype=np.int64).reshape(B, len(nvec))
    dist = MultiCategoricalDistribution(list(nvec))
    tl = T(logits)
    dist.proba_distribution(tl)
    lp = N(dist.log_prob(th.tensor(acts)))
    ent = N(dist.entropy())
    mode = dist.mode().numpy().astype(np.int64)
    th.manual_seed(case["tseed"])
    a_fp, lp_fp = dist.log_prob_from_params(tl)
    lp_again = N(dist.log_prob(a_fp))
    a_np = a_fp.numpy()
    if lp.shape != (B,) or ent.shape != (B,) or mode.shape != (B, len(nvec)) or a_np.shape != (B, len(nvec)):
        V(rep, "one log_prob / entropy per row and one mode / sample component per block expected", case, "multicat",
          "shape", "sum_axis", {"lp": lp.shape, "mode": mode.shape})
        return None
    if np.any(a_np < 0) or np.any(a_np >= np.array(nvec)[None, :]):
        V(rep, "sample component outside its block's support", case, "multicat", "sample", "support", {"sample": a_np})
        return None
    offs = np.concatenate([[0], np.cumsum(nvec)])
    tuples = list(itertools.product(*[range(k) for k in nvec]))
    all_lp = None
    if len(tuples) <= 130:
        all_lp = np.stack([N(dist.log_prob(th.tensor(np.tile(np.array(t, dtype=np.int64), (B, 1))))) for t in tuples], axis=1)
    scs = []
    for b in range(B):
        blocks = [cat_closed(logits[b, offs[k]:offs[k + 1]]) for k in range(len(nvec))]
        sc = sum(bl[3] for bl in blocks)
        scs.append(sc)
        o_lp = sum(blocks[k][0][acts[b, k]] for k in range(len(nvec)))
        if not Tol.ok(lp[b], o_lp, sc):
            V(rep, "MultiCategorical log_prob differs from the sum of the blocks' log softmax", case, "multicat",
              "log_prob", "formula", {"row": b, "impl": lp[b], "closed_form": o_lp})
            return None
        H = sum(bl[2] for bl in blocks)
        if not Tol.ok(ent[b], H, len(nvec) + sc):
            V(rep, "MultiCategorical entropy differs from the sum of the blocks' entropies", case, "multicat", "entropy",
              "formula", {"row": b, "impl": ent[b], "closed_form": H})
            return None
        for k in range(len(nvec)):
            lpk = blocks[k][0]
            if not (0 <= mode[b, k] < nvec[k]) or lpk[mode[b, k]] < lpk.max() - (RTOL * blocks[k][3] + ATOL):
                V(rep, "a component of mode() does not maximise its block", case, "multicat", "mode", "not_argmax",
                  {"row": b, "block": k, "mode": int(mode[b, k])})
                return None
        if all_lp is not None:
            tot = float(np.exp(all_lp[b]).sum())
            if abs(tot - 1.0) > 1e-5 * len(nvec):
                V(rep, "masses over the whole product space do not sum to 1", case, "multicat", "log_prob",
                  "normalisation", {"row": b, "sum": tot})
                return None
            lpm = float(N(dist.log_prob(th.tensor(mode)))[b])
            if lpm < all_lp[b].max() - (RTOL * sc + ATOL):
                V(rep, "mode() is not a maximiser of the joint log_prob", case, "multicat", "mode", "not_argmax", {"row": b})
                return None
        o_fp = sum(blocks[k][0][a_np[b, k]] for k in range(len(nvec)))
        if not Tol.ok(N(lp_fp)[b], lp_again[b], sc, k=0.1) or not Tol.ok(N(lp_fp)[b], o_fp, sc):
            V(rep, "log_prob_from_params differs from log_prob of the returned sample", case, "multicat", "from_params",
              "inconsistent", {"row": b})
            return None
    if all_lp is not None:
        rep.count("multicat:summed_over_product_space")
    op = {"op": "multicat", "nvec": list(nvec), "logits": enc(logits), "actions": acts.tolist()}
    return {"ops": [op], "impl": {"log_prob": lp, "entropy": ent},
            "scales": {"log_prob": np.array(scs), "entropy": len(nvec) + np.array(scs)}, "modes": mode.tolist(),
            "offs": offs.tolist()}


def run_bern(ctx, case):
    import torch as th
    from stable_baselines3.common.distributions import BernoulliDistribution

    rep = ctx.report
    logits, acts = A(case["logits"]), A(case["actions"])
    B, D = logits.shape
    dist = BernoulliDistribution(D)
    tl = T(logits)
    dist.proba_distribution(tl)
    lp = N(dist.log_prob(T(acts)))
    ent = N(dist.entropy())
    mode = N(dist.mode())
    lp_mode = N(dist.log_prob(dist.mode()))
    th.manual_seed(case["tseed"])
    a_fp, lp_fp = dist.log_prob_from_params(tl)
    lp_again = N(dist.log_prob(a_fp))
    a_np = N(a_fp)
    if lp.shape != (B,) or ent.shape != (B,) or mode.shape != (B, D) or a_np.shape != (B, D):
        V(rep, "one log_prob / entropy per row, one mode / sample component per dimension expected", case, "bern", "shape",
          "sum_axis", {"lp": lp.shape})
        return None
    if not np.all((a_np == 0) | (a_np == 1)):
        V(rep, "sample outside {0,1}", case, "bern", "sample", "support", {"sample": a_np})
        return None
    with np.errstate(all="ignore"):
        ls1 = -np.logaddexp(0.0, -logits)  # log sigma(l)
        ls0 = -np.logaddexp(0.0, logits)  # log (1 - sigma(l))
        p = 1.0 / (1.0 + np.exp(-logits))
    sc = (np.abs(logits) + 1.0).sum(axis=1)
    o_lp = (acts * ls1 + (1 - acts) * ls0).sum(axis=1)
    o_ent = (-(p * ls1 + (1 - p) * ls0)).sum(axis=1)
    o_mode = (logits > 0).astype(np.float64)
    o_lp_best = np.maximum(ls1, ls0).sum(axis=1)
    o_fp = (a_np * ls1 + (1 - a_np) * ls0).sum(axis=1)
    if D <= 6:
        allv = [np.array(t, dtype=np.float64) for t in itertools.product([0.0, 1.0], repeat=D)]
        all_lp = np.stack([N(dist.log_prob(T(np.tile(v, (B, 1))))) for v in allv], axis=1)
    for b in range(B):
        if not Tol.ok(lp[b], o_lp[b], sc[b]):
            V(rep, "Bernoulli log_prob differs from sum a log sigma + (1-a) log(1-sigma)", case, "bern", "log_prob",
              "formula", {"row": b, "impl": lp[b], "closed_form": o_lp[b]})
            return None
        if not Tol.ok(ent[b], o_ent[b], sc[b]):
            V(rep, "Bernoulli entropy differs from -sum p log p + (1-p) log(1-p)", case, "bern", "entropy", "formula",
              {"row": b, "impl": ent[b], "closed_form": o_ent[b]})
            return None
        if not Tol.ok(lp_mode[b], o_lp_best[b], sc[b]) or not np.all((mode[b] == 0) | (mode[b] == 1)):
            V(rep, "mode() is not a maximiser of log_prob", case, "bern", "mode", "not_argmax",
              {"row": b, "mode": mode[b], "lp_mode": lp_mode[b], "best": o_lp_best[b]})
            return None
        if D <= 6:
            tot = float(np.exp(all_lp[b]).sum())
            if abs(tot - 1.0) > 1e-5 * D:
                V(rep, "masses over all binary vectors do not sum to 1", case, "bern", "log_prob", "normalisation",
                  {"row": b, "sum": tot})
                return None
            if lp_mode[b] < all_lp[b].max() - (RTOL * sc[b] + ATOL):
                V(rep, "mode() is not a maximiser of log_prob", case, "bern", "mode", "not_argmax", {"row": b})
                return None
        if not Tol.ok(N(lp_fp)[b], lp_again[b], sc[b], k=0.1) or not Tol.ok(N(lp_fp)[b], o_fp[b], sc[b]):
            V(rep, "log_prob_from_params differs from log_prob of the returned sample", case, "bern", "from_params",
              "inconsistent", {"row": b})
            return None
    op = {"op": "bern", "logits": enc(logits), "actions": enc(acts)}
    # components whose probability is within rounding of 1/2 may legitimately round either way
    free = np.abs(logits) < 8 * EPS32
    return {"ops": [op], "impl": {"log_prob": lp, "entropy": ent}, "scales": {"log_prob": sc, "entropy": sc},
            "bmode": mode, "free": free, "o_mode": o_mode}


# ------------------------------------------------------------------------------------------------
# gSDE
def gsde_std64(case, log_std, eps=EPSILON):
    if case["use_expln"]:
        with np.errstate(all="ignore"):
            std = np.where(log_std <= 0, np.exp(log_std), np.log1p(np.maximum(log_std, 0.0) + eps) + 1.0)
    else:
        std = np.exp(log_std)
    return std


def make_gsde(case, n, L):
    from stable_baselines3.common.distributions import StateDependentNoiseDistribution

    dist = StateDependentNoiseDistribution(n, full_std=case["full_std"], use_expln=case["use_expln"],
                                           squash_output=case["squash"], learn_features=False, epsilon=EPSILON)
    dist.proba_distribution_net(latent_dim=L, log_std_init=-2.0)
    return dist


def gs_lp(mean, var, a, squash, eps_var, eps_corr, clamp):
    """closed form of the gSDE log-probability; returns (row sums, scales, conditioning)"""
    sig = np.sqrt(var + eps_var)
    if squash:
        ac = np.clip(a, -1.0 + EPS32, 1.0 - EPS32) if clamp else a
        with np.errstate(all="ignore"):
            g = np.arctanh(ac)
            corr = np.log(1.0 - np.tanh(g) ** 2 + eps_corr)
        dg = o_atanh_err(ac)
        terms, sc = o_normal_terms(mean, sig, g)
        with np.errstate(all="ignore"):
            cond = ((np.abs(g - mean) * dg + dg * dg / 2) / (sig * sig)
                    + (4 * EPS32 + 4 * dg) / (1.0 - ac * ac + eps_corr)).sum(axis=1)
        return (terms - corr).sum(axis=1), (sc + np.abs(corr)).sum(axis=1), cond
    terms, sc = o_normal_terms(mean, sig, a)
    return terms.sum(axis=1), sc.sum(axis=1), np.zeros(mean.shape[0])


def run_gsde(ctx, case):
    import torch as th

    rep = ctx.report
    log_std, latent, mean, zz = A(case["log_std"]), A(case["latent"]), A(case["mean"]), A(case["z"])
    B, n = mean.shape
    L = latent.shape[1]
    squash = case["squash"]
    dist = make_gsde(case, n, L)
    tls, tlat, tm = T(log_std), T(latent), T(mean)
    th.manual_seed(case["tseed"])
    dist.sample_weights(tls, batch_size=case["wbatch"])
    std_impl = N(dist.get_std(tls))
    dist.proba_distribution(tm, tls, tlat)
    scale_impl = N(dist.distribution.scale)
    # actions: mean + scale*z (pre-squash), squashed if needed
    pre = A(np.float32(mean + scale_impl * zz))
    act = A(np.float32(np.tanh(pre))) if squash else pre
    lp = N(dist.log_prob(T(act)))
    ent_t = dist.entropy()
    mode = N(dist.mode())
    smp = N(dist.sample())
    lp_smp = N(dist.log_prob(T(smp)))
    Wmat = N(dist.exploration_mat)
    Wmats = N(dist.exploration_matrices)
    if B == 1 or B != len(Wmats):
        Ws = np.stack([Wmat] * B)
    else:
        Ws = Wmats
    th.manual_seed(case["tseed"] + 1)
    a_fp, lp_fp = dist.log_prob_from_params(tm, tls, tlat)
    a_fp, lp_fp = N(a_fp), N(lp_fp)
    lp_fp_again = N(dist.log_prob(T(a_fp)))
    det = N(dist.actions_from_params(tm, tls, tlat, deterministic=True))
    # ---------------- oracle ----------------
    std = gsde_std64(case, log_std)
    std0 = gsde_std64(case, log_std, eps=0.0)
    if not case["full_std"]:
        std, std0 = np.repeat(std, n, axis=1), np.repeat(std0, n, axis=1)
    if std_impl.shape != (L, n) or np.any(std_impl <= 0) or not finite(std_impl):
        V(rep, "get_std must be a positive (latent, action) matrix", case, "gsde", "std", "positivity",
          {"shape": std_impl.shape})
        return None
    if np.max(np.abs(std_impl - std) / std) > 1e-5:
        # the 1e-6 inside log1p of expln is part of the std parametrisation, not of the density
        V(rep, "get_std differs from exp / expln of log_std", case, "gsde", "std", "formula",
          {"impl": std_impl, "closed_form": std})
        return None
    var = (latent ** 2) @ (std ** 2)
    if lp.shape != (B,) or mode.shape != (B, n) or smp.shape != (B, n) or scale_impl.shape != (B, n):
        V(rep, "one log_prob per batch row, one mode / sample component per action dimension expected", case, "gsde",
          "shape", "sum_axis", {"lp": lp.shape})
        return None
    if not finite(lp) or not finite(lp_smp) or not finite(lp_fp) or not finite(lp_fp_again):
        V(rep, "log_prob is not finite on the support", case, "gsde", "log_prob", "non_finite")
        return None
    inside = np.all(np.abs(act) < 1.0, axis=1) if squash else np.ones(B, dtype=bool)
    full = gs_lp(mean, var, act, squash, EPSILON, EPSILON, True)
    with np.errstate(all="ignore"):
        exact = gs_lp(mean, var, act, squash, 0.0, 0.0, False)
        only_var = gs_lp(mean, var, act, squash, EPSILON, 0.0, False)
        only_sq = gs_lp(mean, var, act, squash, 0.0, EPSILON, True)
    for b in range(B):
        cond = full[2][b]
        if inside[b] and np.all(var[b] > 0) and Tol.ok(lp[b], exact[0][b], exact[1][b], cond):
            continue
        if not Tol.ok(lp[b], full[0][b], full[1][b], cond):
            V(rep, "gSDE log_prob differs from the Gaussian (change-of-variables) log density", case, "gsde", "log_prob",
              "formula", {"row": b, "impl": lp[b], "closed_form": full[0][b], "exact": exact[0][b]})
            return None
        if not inside[b]:
            continue
        det_ = {"row": b, "impl": lp[b], "exact": exact[0][b], "variance": var[b].tolist()}
        var_explains = np.all(var[b] > 0) and Tol.ok(lp[b], only_var[0][b], only_var[1][b], cond)
        sq_explains = squash and np.all(var[b] > 0) and Tol.ok(lp[b], only_sq[0][b], only_sq[1][b], cond)
        if not sq_explains:
            rep.count("gsde:logprob_off_exact_by_variance_epsilon")
            V(rep, "gSDE log_prob is the log density of N(mean, variance + 1e-6), not of the sampled action's "
              "N(mean, variance): the difference is visible because the noise variance is comparable to epsilon", case,
              "gsde", "log_prob", "gsde_variance_epsilon", det_)
        if squash and not var_explains:
            rep.count("gsde:logprob_off_exact_by_squash_regulariser")
            V(rep, "gSDE squashed log_prob differs from the exact change of variables: explained by the epsilon in "
              "log(1 - tanh^2 + epsilon) / the clamp of TanhBijector.inverse", case, "gsde", "log_prob",
              "squash_regulariser", det_)
    # entropy
    if squash:
        if ent_t is not None:
            V(rep, "squashed gSDE reports an entropy although none is analytic", case, "gsde", "entropy", "not_none")
            return None
        ent = None
    else:
        ent = N(ent_t)
        e_full = o_normal_entropy(np.sqrt(var + EPSILON)).sum(axis=1)
        e_sc = (np.abs(np.log(np.sqrt(var + EPSILON))) + 1.5).sum(axis=1)
        with np.errstate(all="ignore"):
            e_exact = o_normal_entropy(np.sqrt(var)).sum(axis=1)
        for b in range(B):
            if np.all(var[b] > 0) and Tol.ok(ent[b], e_exact[b], e_sc[b]):
                continue
            if Tol.ok(ent[b], e_full[b], e_sc[b]):
                rep.count("gsde:entropy_off_exact_by_variance_epsilon")
                V(rep, "gSDE entropy is the entropy of N(mean, variance + 1e-6), not of the sampled action's "
                  "N(mean, variance)", case, "gsde", "entropy", "gsde_variance_epsilon",
                  {"row": b, "impl": ent[b], "exact": e_exact[b]})
                continue
            V(rep, "gSDE entropy differs from the Gaussian entropy", case, "gsde", "entropy", "formula",
              {"row": b, "impl": ent[b], "closed_form": e_full[b]})
            return None
    # mode
    o_mode = np.tanh(mean) if squash else mean
    if np.max(np.abs(mode - o_mode)) > 4 * EPS32 or np.max(np.abs(det - o_mode)) > 4 * EPS32:
        V(rep, "mode() differs from the (squashed) mean", case, "gsde", "mode", "not_mean")
        return None
    if not squash:
        lp_mode = N(dist.log_prob(T(mode)))
        for b in range(B):
            if lp_mode[b] < lp[b] - (RTOL * full[1][b] + ATOL):
                V(rep, "an action has larger log_prob than mode()", case, "gsde", "mode", "not_argmax", {"row": b})
                return None
    else:
        sig_c = np.sqrt(var + EPSILON)
        xs = A(np.float32([[better_than_tanh_mean(mean[b, d], sig_c[b, d]) for d in range(n)] for b in range(B)]))
        ok_rows = np.all(np.abs(xs) < 5.0, axis=1)
        cand = A(np.float32(np.tanh(xs)))
        lp_cand = N(dist.log_prob(T(cand)))
        lp_mode = N(dist.log_prob(T(mode)))
        c_full = gs_lp(mean, var, cand, True, EPSILON, EPSILON, True)
        m_full = gs_lp(mean, var, A(np.float32(mode)), True, EPSILON, EPSILON, True)
        for b in range(B):
            slack = 4 * (RTOL * (c_full[1][b] + m_full[1][b]) + ATOL) + 2 * (c_full[2][b] + m_full[2][b])
            if ok_rows[b] and lp_cand[b] > lp_mode[b] + slack:
                rep.count("gsde:mode_not_argmax")
                V(rep, "mode() = tanh(mean) is not the maximiser of log_prob in action space", case, "gsde", "mode",
                  "squashed_mode_is_tanh_of_mean", {"row": b, "lp_mode": lp_mode[b], "lp_other": lp_cand[b]})
                break
    # samples: mean + latent @ W
    noise = np.einsum("bl,bln->bn", latent, Ws)
    o_pre = mean + noise
    o_smp = np.tanh(o_pre) if squash else o_pre
    s_sc = np.abs(mean) + np.einsum("bl,bln->bn", np.abs(latent), np.abs(Ws))
    if not finite(smp) or (squash and np.max(np.abs(smp)) > 1.0) or not finite(a_fp) or (squash and np.max(np.abs(a_fp)) > 1.0):
        V(rep, "sample outside the support", case, "gsde", "sample", "support")
        return None
    if np.any(np.abs(smp - o_smp) > 8 * EPS32 * (s_sc if not squash else np.maximum(1.0, s_sc)) + 1e-7):
        V(rep, "sample differs from (tanh of) mean + latent @ exploration matrix", case, "gsde", "sample", "noise",
          {"impl": smp, "closed_form": o_smp})
        return None
    fp_full = gs_lp(mean, var, a_fp, squash, EPSILON, EPSILON, True)
    for b in range(B):
        if not Tol.ok(lp_fp[b], lp_fp_again[b], fp_full[1][b], 2 * fp_full[2][b], k=0.1) or \
                not Tol.ok(lp_fp[b], fp_full[0][b], fp_full[1][b], fp_full[2][b]):
            V(rep, "log_prob_from_params differs from log_prob of the returned sample", case, "gsde", "from_params",
              "inconsistent", {"row": b, "from_params": lp_fp[b], "log_prob(sample)": lp_fp_again[b],
                               "closed_form": fp_full[0][b]})
            return None
    op = {"op": "gsde", "full_std": case["full_std"], "use_expln": case["use_expln"], "squash": squash,
          "epsilon": bits(EPSILON), "eps": bits(EPS32), "action_dim": n, "log_std": enc(log_std), "mean": enc(mean),
          "latent": enc(latent), "actions": enc(act), "W": enc(Ws)}
    impl = {"std": std_impl, "scale": scale_impl, "log_prob": lp, "mode": mode, "sample": smp}
    scales = {"std": std, "scale": np.sqrt(var + EPSILON), "log_prob": full[1] + full[2] / RTOL,
              "mode": np.maximum(np.abs(mean), 1e-30) if not squash else np.ones_like(mean),
              "sample": s_sc if not squash else np.maximum(1.0, s_sc)}
    if ent is not None:
        impl["entropy"] = ent
        scales["entropy"] = e_sc
    return {"ops": [op], "impl": impl, "scales": scales, "ent_none": ent is None}


# ------------------------------------------------------------------------------------------------
def run_bijector(ctx, case):
    from stable_baselines3.common.distributions import TanhBijector

    rep = ctx.report
    y, x = A(case["y"]), A(case["x"])
    bij = TanhBijector(EPSILON)
    inv = N(TanhBijector.inverse(T(y)))
    ath = N(TanhBijector.atanh(T(y)))
    fwd = N(TanhBijector.forward(T(x)))
    corr = N(bij.log_prob_correction(T(x)))
    if not finite(inv):
        V(rep, "TanhBijector.inverse is not finite on [-1, 1]", case, "bijector", "inverse", "non_finite", {"inverse": inv})
        return None
    for i in range(len(y)):
        if abs(y[i]) <= 1.0 - EPS32:
            ref = math.atanh(y[i])
            if abs(inv[i] - ref) > 2 * float(o_atanh_err(y[i])) + 1e-7:
                V(rep, "TanhBijector.inverse differs from artanh inside the clamp window", case, "bijector", "inverse",
                  "formula", {"y": y[i], "impl": inv[i], "artanh": ref})
                return None
            if abs(math.tanh(inv[i]) - y[i]) > 8 * EPS32:
                V(rep, "forward(inverse(y)) != y", case, "bijector", "inverse", "roundtrip", {"y": y[i]})
                return None
    if np.max(np.abs(fwd - np.tanh(x))) > 4 * EPS32:
        V(rep, "TanhBijector.forward differs from tanh", case, "bijector", "forward", "formula")
        return None
    t = np.tanh(x)
    ref = np.log(1.0 - t * t + EPSILON)
    if np.any(np.abs(corr - ref) > RTOL * np.abs(ref) + ATOL + 8 * EPS32 / (1.0 - t * t + EPSILON)):
        V(rep, "log_prob_correction differs from log(1 - tanh^2 + epsilon)", case, "bijector", "correction", "formula",
          {"impl": corr, "closed_form": ref})
        return None
    op = {"op": "bijector", "y": enc(y), "x": enc(x), "epsilon": bits(EPSILON), "eps": bits(EPS32)}
    yc = np.clip(y, -1 + EPS32, 1 - EPS32)
    with np.errstate(all="ignore"):
        inv_sc = (np.abs(np.log1p(yc)) + np.abs(np.log1p(-yc))) * 4
        ath_sc = (np.abs(np.log1p(y)) + np.abs(np.log1p(-y))) * 4
    return {"ops": [op], "impl": {"inverse": inv, "atanh": ath, "forward": fwd, "correction": corr},
            "scales": {"inverse": inv_sc, "atanh": ath_sc, "forward": np.ones_like(x) * 4,
                       "correction": np.abs(ref) + 8 * EPS32 / (1.0 - t * t + EPSILON) / RTOL}}


def run_sumdims(ctx, case):
    from stable_baselines3.common.distributions import sum_independent_dims

    rep = ctx.report
    t = A(case["tensor"])
    out = N(sum_independent_dims(T(t)))
    ref = t.sum(axis=1) if t.ndim > 1 else t.sum()
    if out.shape != np.shape(ref) or not np.array_equal(out, ref):
        V(rep, "sum_independent_dims must sum over the action dimension (rank 2) or everything (rank 1)", case, "sumdims",
          "sum", "sum_axis", {"impl": out, "expected": ref})
        return None
    return {"ops": [{"op": "sum_dims", "tensor": enc(t)}], "impl": {"out": out}, "exact": True}


# ------------------------------------------------------------------------------------------------
# goodness of fit (thorough tier only; deterministic given the case)
N_GOF = 50000
Z_1E6 = 4.7534  # standard normal quantile of 1 - 1e-6


def ks_fail(x, cdf):
    x = np.sort(x)
    n = len(x)
    F = cdf(x)
    d = max(np.max(np.arange(1, n + 1) / n - F), np.max(F - np.arange(0, n) / n))
    return d > math.sqrt(-0.5 * math.log(1e-6 / 2)) / math.sqrt(n), d


def chi2_fail(counts, probs):
    n = counts.sum()
    exp = probs * n
    order = np.argsort(exp)
    c, e, cc, ee = [], [], 0.0, 0.0
    for i in order:
        cc += counts[i]
        ee += exp[i]
        if ee >= 5:
            c.append(cc)
            e.append(ee)
            cc = ee = 0.0
    if ee > 0 and e:
        c[-1] += cc
        e[-1] += ee
    k = len(e) - 1
    if k < 1:
        return False, 0.0
    stat = float(sum((a - b) ** 2 / b for a, b in zip(c, e)))
    crit = k * (1 - 2 / (9 * k) + Z_1E6 * math.sqrt(2 / (9 * k))) ** 3 * 1.1
    return stat > crit, stat


def ncdf(x, m, s):
    return 0.5 * (1.0 + np.vectorize(math.erf)((x - m) / (s * math.sqrt(2.0))))


def run_gof(ctx, case):
    import torch as th
    from stable_baselines3.common import distributions as D

    rep = ctx.report
    k = case["dist"]
    rep.count(f"gof:{k}")
    th.manual_seed(case["tseed"])
    if k in ("diag", "squashed"):
        mean, ls = A(case["mean"]), A(case["log_std"])
        d = (D.SquashedDiagGaussianDistribution if k == "squashed" else D.DiagGaussianDistribution)(len(mean))
        a = N(d.actions_from_params(T(np.tile(mean, (N_GOF, 1))), T(ls)))
        for j in range(len(mean)):
            x = np.arctanh(np.clip(a[:, j], -1 + 1e-12, 1 - 1e-12)) if k == "squashed" else a[:, j]
            bad, dstat = ks_fail(x, lambda v: ncdf(v, mean[j], math.exp(ls[j])))
            if bad:
                V(rep, "samples do not follow the density (Kolmogorov-Smirnov, significance 1e-6)", case, k, "sample",
                  "distribution", {"dim": j, "D": dstat})
                return None
    elif k == "cat":
        lg = A(case["logits"])
        d = D.CategoricalDistribution(len(lg))
        a = d.actions_from_params(T(np.tile(lg, (N_GOF, 1)))).numpy()
        bad, stat = chi2_fail(np.bincount(a, minlength=len(lg)).astype(np.float64), cat_closed(lg)[1])
        if bad:
            V(rep, "samples do not follow the masses (chi-square, significance 1e-6)", case, k, "sample", "distribution",
              {"chi2": stat})
    elif k == "multicat":
        lg, nvec = A(case["logits"]), case["nvec"]
        d = D.MultiCategoricalDistribution(list(nvec))
        a = d.actions_from_params(T(np.tile(lg, (N_GOF, 1)))).numpy()
        offs = np.concatenate([[0], np.cumsum(nvec)])
        probs = [cat_closed(lg[offs[i]:offs[i + 1]])[1] for i in range(len(nvec))]
        joint = np.array([math.prod(probs[i][t[i]] for i in range(len(nvec))) for t in itertools.product(*[range(n) for n in nvec])])
        idx = np.zeros(N_GOF, dtype=np.int64)
        for i, n in enumerate(nvec):
            idx = idx * n + a[:, i]
        bad, stat = chi2_fail(np.bincount(idx, minlength=len(joint)).astype(np.float64), joint)
        if bad:
            V(rep, "samples do not follow the joint masses (chi-square, significance 1e-6)", case, k, "sample",
              "distribution", {"chi2": stat})
    elif k == "bern":
        lg = A(case["logits"])
        d = D.BernoulliDistribution(len(lg))
        a = N(d.actions_from_params(T(np.tile(lg, (N_GOF, 1)))))
        p = 1 / (1 + np.exp(-lg))
        joint = np.array([math.prod(p[i] if t[i] else 1 - p[i] for i in range(len(lg))) for t in itertools.product([0, 1], repeat=len(lg))])
        idx = np.zeros(N_GOF, dtype=np.int64)
        for i in range(len(lg)):
            idx = idx * 2 + a[:, i].astype(np.int64)
        bad, stat = chi2_fail(np.bincount(idx, minlength=len(joint)).astype(np.float64), joint)
        if bad:
            V(rep, "samples do not follow the joint masses (chi-square, significance 1e-6)", case, k, "sample",
              "distribution", {"chi2": stat})
    else:
        log_std, latent, mean = A(case["log_std"]), A(case["latent"]), A(case["mean"])
        n, L = len(mean), len(latent)
        d = make_gsde(case, n, L)
        th.manual_seed(case["tseed"])
        d.sample_weights(T(log_std), batch_size=N_GOF)
        a = N(d.actions_from_params(T(np.tile(mean, (N_GOF, 1))), T(log_std), T(np.tile(latent, (N_GOF, 1)))))
        std = gsde_std64(case, log_std)
        if not case["full_std"]:
            std = np.repeat(std, n, axis=1)
        var = (latent ** 2) @ (std ** 2)
        for j in range(n):
            if var[j] <= 0:
                continue
            x = np.arctanh(np.clip(a[:, j], -1 + 1e-12, 1 - 1e-12)) if case["squash"] else a[:, j]
            bad, dstat = ks_fail(x, lambda v: ncdf(v, mean[j], math.sqrt(var[j])))
            if bad:
                V(rep, "samples do not follow N(mean, latent^2 @ std^2) (Kolmogorov-Smirnov, significance 1e-6)", case,
                  "gsde", "sample", "distribution", {"dim": j, "D": dstat})
                return None
    return {"ops": [], "impl": {}}



# ------------------------------------------------------------------------------------------------
# call-history cases: the value of log_prob(y) must not depend on what was called on the object before
HIST_DISTS = ["squashed", "gsde", "diag", "cat", "multicat", "bern"]
HIST_OPS = ["sample", "mode", "get_actions_det", "get_actions_sto", "log_prob_x", "entropy"]


def gen_hist_params(rng, kind, B, shape):
    """one parameter set of the given dimensions (moderate regime: log_prob(y) is well conditioned)"""
    if kind in ("diag", "squashed"):
        D = shape["D"]
        return {"mean": [[f32((rng.random() - 0.5) * 4) for _ in range(D)] for _ in range(B)],
                "log_std": [f32(-2.0 + rng.random() * 2.5) for _ in range(D)]}
    if kind == "cat":
        return {"logits": [g_logits(rng, shape["n"])[0] for _ in range(B)]}
    if kind == "multicat":
        return {"logits": [sum((g_logits(rng, n)[0] for n in shape["nvec"]), []) for _ in range(B)]}
    if kind == "bern":
        return {"logits": [[f32((rng.random() - 0.5) * 8) for _ in range(shape["D"])] for _ in range(B)]}
    L, n, cols = shape["L"], shape["n"], shape["cols"]
    return {"log_std": [[f32(-2.5 + rng.random() * 3) for _ in range(cols)] for _ in range(L)],
            "latent": [[f32((rng.random() - 0.5) * 4) for _ in range(L)] for _ in range(B)],
            "mean": [[f32((rng.random() - 0.5) * 3) for _ in range(n)] for _ in range(B)]}


def gen_hist_actions(rng, kind, rows, shape, squash=False):
    if kind in ("diag", "squashed") or kind == "gsde":
        D = shape["D"] if kind != "gsde" else shape["n"]
        if kind == "squashed" or (kind == "gsde" and squash):
            return [[f32(math.tanh((rng.random() - 0.5) * 5)) for _ in range(D)] for _ in range(rows)]
        return [[f32((rng.random() - 0.5) * 6) for _ in range(D)] for _ in range(rows)]
    if kind == "cat":
        return [rng.randint(0, shape["n"] - 1) for _ in range(rows)]
    if kind == "multicat":
        return [[rng.randint(0, n - 1) for n in shape["nvec"]] for _ in range(rows)]
    return [[float(rng.randint(0, 1)) for _ in range(shape["D"])] for _ in range(rows)]


def gen_history(rng, kind=None):
    kind = kind or rng.choice(HIST_DISTS)
    B = 1 if rng.chance(0.35) else rng.randint(2, 5)
    shape = {"D": rng.randint(1, 4), "n": rng.randint(2, 5), "nvec": [rng.randint(1, 4) for _ in range(rng.randint(1, 3))],
             "L": rng.randint(1, 4)}
    case = {"kind": "history", "dist": kind, "shape": shape, "tseed": rng.randint(0, 2**31 - 1)}
    if kind == "gsde":
        case.update({"full_std": rng.chance(0.6), "use_expln": rng.chance(0.5), "squash": rng.chance(0.6)})
        shape["cols"] = shape["n"] if case["full_std"] else 1
    sq = case.get("squash", False)
    case["reparam"] = rng.chance(0.4)
    case["p1"] = gen_hist_params(rng, kind, B, shape)
    case["p2"] = gen_hist_params(rng, kind, B, shape)
    ops = [rng.choice(HIST_OPS + (["sample_weights"] if kind == "gsde" else [])) for _ in range(rng.randint(1, 4))]
    if rng.chance(0.5):  # the histories that leave something cached: a sample / mode right before log_prob(y)
        ops.append(rng.choice(["sample", "mode", "get_actions_sto", "get_actions_det"]))
    case["ops"] = ops
    case["x"] = gen_hist_actions(rng, kind, B, shape, sq)
    case["y"] = gen_hist_actions(rng, kind, B, shape, sq)  # independent actions of the same batch shape
    # actions of a different batch shape (possible when the parameters have one row and broadcast)
    case["y2"] = gen_hist_actions(rng, kind, rng.randint(2, 4), shape, sq) if B == 1 else None
    return case


def hist_make(case):
    from stable_baselines3.common import distributions as Dm

    k, sh = case["dist"], case["shape"]
    if k == "diag":
        return Dm.DiagGaussianDistribution(sh["D"])
    if k == "squashed":
        return Dm.SquashedDiagGaussianDistribution(sh["D"])
    if k == "cat":
        return Dm.CategoricalDistribution(sh["n"])
    if k == "multicat":
        return Dm.MultiCategoricalDistribution(list(sh["nvec"]))
    if k == "bern":
        return Dm.BernoulliDistribution(sh["D"])
    return make_gsde(case, sh["n"], sh["L"])


def hist_set(obj, case, p):
    k = case["dist"]
    if k in ("diag", "squashed"):
        obj.proba_distribution(T(p["mean"]), T(p["log_std"]))
    elif k == "gsde":
        obj.proba_distribution(T(p["mean"]), T(p["log_std"]), T(p["latent"]))
    else:
        obj.proba_distribution(T(p["logits"]))


def hist_act(case, a):
    import torch as th

    if case["dist"] in ("cat", "multicat"):
        return th.tensor(np.asarray(a, dtype=np.int64))
    return T(a)


def hist_closed(case, p, y):
    """closed form (float64) of log_prob(y) under parameters p, rows of p broadcast to the rows of y"""
    k, sh = case["dist"], case["shape"]
    R = len(y)

    def rows(m):
        m = A(m)
        return np.broadcast_to(m, (R, m.shape[1])) if m.shape[0] != R else m

    if k in ("diag", "squashed"):
        mean, sig, ya = rows(p["mean"]), np.exp(rows([p["log_std"]])), A(y)
        if k == "diag":
            t, sc = o_normal_terms(mean, sig, ya)
            return t.sum(axis=1), sc.sum(axis=1), np.zeros(R)
        return sq_reg(mean, sig, ya)
    if k == "cat":
        lg = rows(p["logits"])
        cl = [cat_closed(lg[b]) for b in range(R)]
        return np.array([cl[b][0][y[b]] for b in range(R)]), np.array([c[3] for c in cl]), np.zeros(R)
    if k == "multicat":
        lg = rows(p["logits"])
        offs = np.concatenate([[0], np.cumsum(sh["nvec"])])
        lp, sc = [], []
        for b in range(R):
            bl = [cat_closed(lg[b, offs[j]:offs[j + 1]]) for j in range(len(sh["nvec"]))]
            lp.append(sum(bl[j][0][y[b][j]] for j in range(len(bl))))
            sc.append(sum(x[3] for x in bl))
        return np.array(lp), np.array(sc), np.zeros(R)
    if k == "bern":
        lg, ya = rows(p["logits"]), A(y)
        ls1, ls0 = -np.logaddexp(0.0, -lg), -np.logaddexp(0.0, lg)
        return (ya * ls1 + (1 - ya) * ls0).sum(axis=1), (np.abs(lg) + 1.0).sum(axis=1), np.zeros(R)
    std = gsde_std64(case, A(p["log_std"]))
    if not case["full_std"]:
        std = np.repeat(std, sh["n"], axis=1)
    var = rows((A(p["latent"]) ** 2) @ (std ** 2))
    return gs_lp(rows(p["mean"]), var, A(y), case["squash"], EPSILON, EPSILON, True)


def hist_model_op(case, p, y):
    k, sh = case["dist"], case["shape"]
    R = len(y)

    def rows(m):
        m = A(m)
        return np.broadcast_to(m, (R, m.shape[1])) if m.shape[0] != R else m

    if k in ("diag", "squashed"):
        op = {"op": k, "mean": enc(rows(p["mean"])), "log_std": enc(rows([p["log_std"]])), "actions": enc(A(y))}
        if k == "diag":
            op["unbatched"] = False
        else:
            op.update({"epsilon": bits(EPSILON), "eps": bits(EPS32)})
        return op
    if k == "cat":
        return {"op": "cat", "logits": enc(rows(p["logits"])), "actions": [int(v) for v in y]}
    if k == "multicat":
        return {"op": "multicat", "nvec": list(sh["nvec"]), "logits": enc(rows(p["logits"])),
                "actions": [[int(v) for v in r] for r in y]}
    if k == "bern":
        return {"op": "bern", "logits": enc(rows(p["logits"])), "actions": enc(A(y))}
    W0 = np.zeros((R, sh["L"], sh["n"]))
    return {"op": "gsde", "full_std": case["full_std"], "use_expln": case["use_expln"], "squash": case["squash"],
            "epsilon": bits(EPSILON), "eps": bits(EPS32), "action_dim": sh["n"], "log_std": enc(A(p["log_std"])),
            "mean": enc(rows(p["mean"])), "latent": enc(rows(p["latent"])), "actions": enc(A(y)), "W": enc(W0)}


def run_history(ctx, case):
    import torch as th

    rep = ctx.report
    k = case["dist"]
    final = case["p2"] if case["reparam"] else case["p1"]
    th.manual_seed(case["tseed"])
    obj = hist_make(case)
    if k == "gsde":
        obj.sample_weights(T(case["p1"]["log_std"]), batch_size=len(case["p1"]["mean"]))
    hist_set(obj, case, case["p1"])
    half = len(case["ops"]) // 2 if case["reparam"] else None
    for i, o in enumerate(case["ops"]):
        if half is not None and i == half:
            hist_set(obj, case, case["p2"])  # same object, new parameters: nothing of the first set may survive
        if o == "sample":
            obj.sample()
        elif o == "mode":
            obj.mode()
        elif o == "get_actions_det":
            obj.get_actions(deterministic=True)
        elif o == "get_actions_sto":
            obj.get_actions(deterministic=False)
        elif o == "log_prob_x":
            obj.log_prob(hist_act(case, case["x"]))
        elif o == "entropy":
            obj.entropy()
        elif o == "sample_weights":
            obj.sample_weights(T(final["log_std"]), batch_size=rep_batch(case))
    if half is not None and half >= len(case["ops"]):
        hist_set(obj, case, case["p2"])
    fresh = hist_make(case)
    hist_set(fresh, case, final)
    ops_out, impl_all, scales_all = [], None, None
    for name in ("y", "y2"):
        y = case.get(name)
        if y is None:
            continue
        lp_h = N(obj.log_prob(hist_act(case, y)))
        lp_f = N(fresh.log_prob(hist_act(case, y)))
        c_lp, c_sc, c_cond = hist_closed(case, final, y)
        if lp_h.shape != (len(y),):
            V(rep, "one log_prob per row of the evaluated actions expected", case, k, "shape", "sum_axis", {"lp": lp_h.shape})
            return None
        for b in range(len(y)):
            if not Tol.ok(lp_h[b], lp_f[b], c_sc[b], 0.0, k=0.1):
                V(rep, "log_prob(y) depends on what was called on the distribution object before: it differs from "
                  "log_prob(y) of a fresh object with the same parameters", case, k, "log_prob", "history_dependent",
                  {"actions": name, "row": b, "after_history": lp_h[b], "fresh": lp_f[b], "closed_form": c_lp[b],
                   "ops": case["ops"], "reparam": case["reparam"]})
                return None
            if not Tol.ok(lp_h[b], c_lp[b], c_sc[b], c_cond[b]):
                V(rep, "log_prob(y) after a call history differs from the closed-form log density / mass of the current "
                  "parameters", case, k, "log_prob", "formula",
                  {"actions": name, "row": b, "after_history": lp_h[b], "closed_form": c_lp[b]})
                return None
        if name == "y":
            ops_out.append(hist_model_op(case, final, y))
            impl_all = {"log_prob": lp_h}
            scales_all = {"log_prob": c_sc + c_cond / RTOL}
    # mode / entropy are functions of the parameters only
    m_h, m_f = obj.mode(), fresh.mode()
    if not np.array_equal(N(m_h), N(m_f)):
        V(rep, "mode() depends on the call history", case, k, "mode", "history_dependent")
        return None
    e_h, e_f = obj.entropy(), fresh.entropy()
    if (e_h is None) != (e_f is None) or (e_h is not None and not np.array_equal(N(e_h), N(e_f))):
        V(rep, "entropy() depends on the call history", case, k, "entropy", "history_dependent")
        return None
    return {"ops": ops_out, "impl": impl_all, "scales": scales_all}


def rep_batch(case):
    return len(case["p1"]["mean"])


RUNNERS = {"diag": run_diag, "squashed": run_squashed, "cat": run_cat, "multicat": run_multicat, "bern": run_bern,
           "gsde": run_gsde, "bijector": run_bijector, "sumdims": run_sumdims, "gof": run_gof, "history": run_history}


# ------------------------------------------------------------------------------------------------
def nontrivial(case):
    k = case["kind"]
    if k == "diag":
        return len(case["mean"]) >= 2 and len(case["mean"][0]) >= 2
    if k == "squashed":
        return any(abs(a) > 0.999 for r in case["actions"] for a in r)
    if k == "cat":
        return any(x in ("peak", "tie", "equal") for x in case["rowkinds"])
    if k == "multicat":
        return len(case["nvec"]) >= 2
    if k == "bern":
        return any(abs(l) >= 15 or l == 0 for r in case["logits"] for l in r)
    if k == "gsde":
        return len(case["log_std"]) >= 2
    if k == "history":
        return len(case["ops"]) >= 2 or case["reparam"]
    return False


DIAG = None  # set to a dict by calibration scripts: max |impl - model| / tolerance per (stream, kind, observable)


def flat(x):
    return np.asarray(x, dtype=np.float64).reshape(-1)


def compare_float(rep, case, stream, r, mout, k):
    """every float observable of the implementation against the model's, at the declared tolerance"""
    for name, iv in r["impl"].items():
        if name not in mout:
            rep.disagree(stream, case, {name: "present"}, {name: "absent"})
            return False
        mv = dec(mout[name])
        iv_f, mv_f = flat(iv), flat(mv)
        if iv_f.shape != mv_f.shape or np.shape(iv) != np.shape(np.asarray(mv)):
            rep.disagree(stream, case, {name: list(np.shape(iv))}, {name: list(np.shape(np.asarray(mv)))}, "shape")
            return False
        if r.get("exact"):
            if not np.array_equal(iv_f, mv_f):
                rep.disagree(stream, case, {name: iv_f.tolist()}, {name: mv_f.tolist()})
                return False
            continue
        sc = np.broadcast_to(np.asarray(r["scales"][name], dtype=np.float64), np.shape(iv)).reshape(-1)
        if DIAG is not None:
            with np.errstate(all="ignore"):
                ratio = np.abs(iv_f - mv_f) / (RTOL * sc + ATOL)
            ratio = ratio[np.isfinite(ratio)]
            if len(ratio):
                key = (stream, case["kind"], name)
                DIAG[key] = max(DIAG.get(key, 0.0), float(ratio.max()))
        for i in range(len(iv_f)):
            if not Tol.ok(iv_f[i], mv_f[i], sc[i], k=k):
                rep.disagree(stream, case, {name: iv_f.tolist()}, {name: mv_f.tolist()},
                             f"entry {i}: |diff|={abs(iv_f[i] - mv_f[i]):.3e} scale={sc[i]:.3e}")
                return False
    return True


def compare_exact(rep, case, r, mout):
    k = case["kind"]
    if k == "cat":
        for b, (mi, mm) in enumerate(zip(r["modes"], mout["mode"])):
            if mi != mm:
                # a tie up to rounding: both must be maximisers
                al, sc = r["all_lp"][b], r["sc"][b]
                if abs(al[mi] - al[mm]) > RTOL * sc + ATOL:
                    rep.disagree("exact", case, {"mode": r["modes"]}, {"mode": mout["mode"]})
                    return False
    elif k == "multicat":
        logits = A(case["logits"])
        offs = r["offs"]
        for b, (mi, mm) in enumerate(zip(r["modes"], mout["mode"])):
            for j, (x, y) in enumerate(zip(mi, mm)):
                if x != y:
                    blk = logits[b, offs[j]:offs[j + 1]]
                    if abs(blk[x] - blk[y]) > RTOL * (abs(blk[x]) + abs(blk[y])) + ATOL:
                        rep.disagree("exact", case, {"mode": r["modes"]}, {"mode": mout["mode"]})
                        return False
    elif k == "bern":
        mm = np.asarray(dec(mout["mode"]))
        if mm.shape != r["bmode"].shape or np.any((mm != r["bmode"]) & ~r["free"]):
            rep.disagree("exact", case, {"mode": r["bmode"].tolist()}, {"mode": mm.tolist()})
            return False
    elif k == "gsde":
        if r["ent_none"] != (mout.get("entropy") is None):
            rep.disagree("exact", case, {"entropy_none": r["ent_none"]}, {"entropy": mout.get("entropy")})
            return False
    return True


def check_cases(ctx, cases):
    rep = ctx.report
    ops, plan = [], []
    for case in cases:
        k = case["kind"]
        rep.count(f"kind:{k}")
        rep.case(case, case if nontrivial(case) else None)
        if k in ("diag", "squashed", "gsde"):
            rep.count(f"{k}:batch={len(case['mean'])}")
            rep.count(f"{k}:dim={len(case['mean'][0])}")
        if k == "gsde":
            rep.count(f"gsde:full_std={int(case['full_std'])},expln={int(case['use_expln'])},squash={int(case['squash'])}")
        if k == "diag" and case.get("unbatched"):
            rep.count("diag:unbatched")
        if k == "history":
            rep.count(f"history:{case['dist']}")
            rep.count(f"history:last_op={case['ops'][-1]}")
            rep.count("history:reparam" if case["reparam"] else "history:single_params")
            rep.count("history:other_batch_shape" if case.get("y2") is not None else "history:same_batch_shape")
        if k == "squashed":
            aa = [abs(a) for r_ in case["actions"] for a in r_]
            rep.count("squashed:has_exact_one" if 1.0 in aa else "squashed:has_beyond_clamp" if max(aa) > 1 - EPS32
                      else "squashed:has_near_one" if max(aa) > 0.999 else "squashed:moderate")
        if k in ("cat", "multicat"):
            for rk in case["rowkinds"]:
                for x in (rk if isinstance(rk, list) else [rk]):
                    rep.count(f"{k}:row={x}")
        r = guarded(ctx, case, lambda: RUNNERS[k](ctx, case))
        if r is None or not r["ops"]:
            continue
        o32 = dict(r["ops"][0], prec=32)
        o64 = dict(r["ops"][0], prec=64)
        plan.append((case, r, len(ops)))
        ops.extend([o32, o64])
    outs = ctx.lean.run(ops)
    for case, r, i in plan:
        m32, m64 = outs[i], outs[i + 1]
        if m32 is None or m64 is None:
            continue
        if "error" in m32 or "error" in m64:
            rep.disagree("exact", case, "ok", {"f32": m32, "f64": m64})
            continue
        ok = compare_float(rep, case, "f32", r, m32, 1.0) and compare_float(rep, case, "f64", r, m64, 1.0) \
            and compare_exact(rep, case, r, m32) and compare_exact(rep, case, r, m64)
        if ok:
            rep.agree(2)
