/-
C05 — GAE advantages/returns match their definition; minibatches partition the rollout.

Property theorems only (helper lemmas are in `SB3Verif/Lemmas/Rollout.lean`).
All statements are about the executable model `SB3Verif/Model/Rollout.lean`, whose definitions the
driver `SB3Verif/Driver/C05.lean` runs against the real `RolloutBuffer`.
-/
import SB3Verif.Lemmas.Rollout

namespace SB3Verif.C05

open SB3Verif.Rollout

variable {α : Type} [CommRing α]

/-- **GAE closed form** (every horizon `T = ss.length`, every step `t`, every `γ λ`, every reward /
value / episode-start / last-value / final-done pattern, any commutative ring):
the advantage the backward loop stores at step `t` is
`Σ_{l=0}^{T-1-t} (γλ)^l · (Π_{j<l} nnt (t+j)) · δ (t+l)` with
`δ k = r k + γ · nextV k · nnt k − v k`, where `nnt k`/`nextV k` come from `episode_starts[k+1]` /
`values[k+1]`, or from the final `dones` / `last_values` for the last step. -/
theorem gae_closed_form (γ lam lastV lastNnt : α) (ss : List (Step α)) (t : ℕ) (_ht : t < ss.length) :
    (gaeCol γ lam lastV lastNnt ss).getD t 0 =
      ∑ l ∈ Finset.range (ss.length - t),
        (γ * lam) ^ l * (∏ j ∈ Finset.range l, nntAt lastV lastNnt ss (t + j)) *
          deltaAt γ lastV lastNnt ss (t + l) :=
  Lemmas.gaeCol_getD_closed γ lam lastV lastNnt ss t

/-- **Cut at episode boundaries**: a term of the sum whose span `[t, t+l)` contains a step after
which the episode ended (`nnt = 0`) contributes nothing, so the sum stops at the environment's
episode end. -/
theorem gae_cut_at_boundary (γ lam lastV lastNnt : α) (ss : List (Step α)) (t l j : ℕ)
    (hj : j < l) (hb : nntAt lastV lastNnt ss (t + j) = 0) :
    (γ * lam) ^ l * (∏ j ∈ Finset.range l, nntAt lastV lastNnt ss (t + j)) *
        deltaAt γ lastV lastNnt ss (t + l) = 0 := by
  have : (∏ j ∈ Finset.range l, nntAt lastV lastNnt ss (t + j)) = 0 :=
    Finset.prod_eq_zero (Finset.mem_range.mpr hj) hb
  rw [this]; ring

/-- **No boundary, full weight**: if no episode ended inside the span (`nnt = 1` throughout) the
product of non-terminal flags is `1`. -/
theorem gae_weight_inside_episode (lastV lastNnt : α) (ss : List (Step α)) (t l : ℕ)
    (h : ∀ j, j < l → nntAt lastV lastNnt ss (t + j) = 1) :
    (∏ j ∈ Finset.range l, nntAt lastV lastNnt ss (t + j)) = 1 :=
  Finset.prod_eq_one (fun j hj => h j (Finset.mem_range.mp hj))

/-- **Bootstrap**: the last step's `δ` uses the supplied last value, weighted by `1 - done`:
it is present unless the final step ended an episode. -/
theorem gae_bootstrap_last (γ lastV lastNnt : α) (ss : List (Step α)) (s : Step α) :
    deltaAt γ lastV lastNnt (ss ++ [s]) ss.length = s.r + γ * lastV * lastNnt - s.v :=
  Lemmas.deltaAt_last γ lastV lastNnt ss s

/-- Interior steps use the next stored value and `1 - episode_starts[k+1]`. -/
theorem gae_delta_interior (γ lastV lastNnt : α) (ss : List (Step α)) (s s' : Step α) (rest : List (Step α)) :
    deltaAt γ lastV lastNnt (ss ++ s :: s' :: rest) ss.length = s.r + γ * s'.v * (1 - s'.start) - s.v :=
  Lemmas.deltaAt_interior γ lastV lastNnt ss s s' rest

/-- **return = advantage + value**, slot by slot. -/
theorem returns_eq (adv : List α) (ss : List (Step α)) (t : ℕ) (h1 : t < adv.length) (h2 : t < ss.length) :
    (returnsCol adv ss)[t]'(by simp [returnsCol]; omega) = adv[t] + ss[t].v := by
  simp [returnsCol]

/-- **returns are the TD(λ) targets**: with `R_t = advantage_t + value_t` (what `compute_returns_and_advantage` stores in
`returns`), every step satisfies the λ-return recursion
`R_t = r_t + γ · nnt_t · ((1 − λ) · V_{t+1} + λ · R_{t+1})`, where for the last step of the rollout `V_{t+1}` is the supplied
last value and `R_{t+1}` is that same last value (the bootstrap), and `nnt_t` masks everything behind an episode end.
(All `γ`, `λ`, all value/reward/start patterns, any horizon, any commutative ring.) -/
theorem returns_td_lambda (γ lam lastV lastNnt : α) (s : Step α) (rest : List (Step α)) :
    (gaeCol γ lam lastV lastNnt (s :: rest)).headD 0 + s.v =
      s.r + γ * (nextOf lastV lastNnt rest).2 *
        ((1 - lam) * (nextOf lastV lastNnt rest).1 +
          lam * ((nextOf lastV lastNnt rest).1 + (gaeCol γ lam lastV lastNnt rest).headD 0)) := by
  simp only [gaeCol, List.headD_cons, Rollout.delta]
  ring

/-- … and for an interior step `V_{t+1} + A_{t+1}` is exactly the stored return of step `t + 1` -/
theorem returns_td_lambda_next (γ lam lastV lastNnt : α) (s' : Step α) (rest : List (Step α)) :
    (nextOf lastV lastNnt (s' :: rest)).1 + (gaeCol γ lam lastV lastNnt (s' :: rest)).headD 0 =
      (returnsCol (gaeCol γ lam lastV lastNnt (s' :: rest)) (s' :: rest)).headD 0 := by
  simp [nextOf, gaeCol, returnsCol, add_comm]

/-- λ = 1: the return is the discounted Monte-Carlo sum bootstrapped with the last value (one unfolding) -/
theorem returns_lambda_one (γ lastV lastNnt : α) (s : Step α) (rest : List (Step α)) :
    (gaeCol γ 1 lastV lastNnt (s :: rest)).headD 0 + s.v =
      s.r + γ * (nextOf lastV lastNnt rest).2 *
        ((nextOf lastV lastNnt rest).1 + (gaeCol γ 1 lastV lastNnt rest).headD 0) := by
  have := returns_td_lambda γ 1 lastV lastNnt s rest
  rw [this]; ring

/-- λ = 0: the return is the one-step TD target `r + γ · nnt · V_{t+1}` -/
theorem returns_lambda_zero (γ lastV lastNnt : α) (s : Step α) (rest : List (Step α)) :
    (gaeCol γ 0 lastV lastNnt (s :: rest)).headD 0 + s.v =
      s.r + γ * (nextOf lastV lastNnt rest).2 * (nextOf lastV lastNnt rest).1 := by
  have := returns_td_lambda γ 0 lastV lastNnt s rest
  rw [this]; ring

/-- The advantage list has one entry per step. -/
theorem gae_length (γ lam lastV lastNnt : α) (ss : List (Step α)) :
    (gaeCol γ lam lastV lastNnt ss).length = ss.length :=
  Lemmas.gaeCol_length γ lam lastV lastNnt ss

/-- **Environments do not influence each other**: column `e` of the vectorised result is the
per-column loop run on column `e` of the inputs only. -/
theorem gae_env_independent [Inhabited α] (γ lam : α) (n : ℕ) (rew val start : List (List α))
    (lastV lastDone : List α) (e : ℕ) (he : e < n) :
    (gae γ lam n rew val start lastV lastDone)[e]'(by simp [gae]; exact he) =
      gaeCol γ lam (lastV.getD e default) (1 - lastDone.getD e default)
        ((List.zip (column rew e) (List.zip (column val e) (column start e))).map
          (fun x => Step.mk x.1 x.2.1 x.2.2)) := by
  simp [gae]

/-! ### Flattening and minibatches -/

/-- `swap_and_flatten` puts sample `(t, e)` of a rectangular `T × n` table at flat index `e*T + t` —
the same map for every field, since it does not depend on the content. -/
theorem swapFlatten_index {β : Type} [Inhabited β] (n : ℕ) (rows : List (List β))
    (hrect : ∀ row ∈ rows, row.length = n) (t e : ℕ) (ht : t < rows.length) (he : e < n) :
    (swapFlatten n rows).getD (e * rows.length + t) default = (rows.getD t default).getD e default :=
  Lemmas.swapFlatten_getD n rows hrect t e ht he

/-- The flat index map is a bijection between `{(t,e) | t < T, e < n}` and `{i | i < T*n}`. -/
theorem unflat_flat (T t e : ℕ) (ht : t < T) : unflat T (e * T + t) = (t, e) :=
  Lemmas.unflat_flat T t e ht

theorem flat_unflat (T n i : ℕ) (hi : i < T * n) :
    (unflat T i).2 * T + (unflat T i).1 = i ∧ (unflat T i).1 < T ∧ (unflat T i).2 < n :=
  Lemmas.flat_unflat T n i hi

/-- **Minibatches partition the pass**: for every list of indices and every batch size `b ≥ 1` the
concatenation of the yielded slices is the whole index list, in order. -/
theorem chunks_flatten {β : Type} (b : ℕ) (hb : 0 < b) (l : List β) : (chunks b l).flatten = l :=
  Lemmas.chunks_flatten b hb l

/-- Every slice has at most `b` elements and is non-empty (no empty trailing batch). -/
theorem chunks_sizes {β : Type} (b : ℕ) (hb : 0 < b) (l : List β) :
    ∀ c ∈ chunks b l, 0 < c.length ∧ c.length ≤ b :=
  Lemmas.chunks_sizes b hb l

/-- **Each pass yields every `(step, env)` exactly once**: when `perm` is a permutation of
`0 … T*n-1`, the concatenated minibatches are a permutation of all `(t, e)` pairs
(`e` outer, `t` inner — the order is irrelevant, `List.Perm` is multiset equality). -/
theorem getBatches_perm (T n : ℕ) (perm : List ℕ) (batch : Option ℕ)
    (hperm : perm.Perm (List.range (T * n))) (hb : ∀ b, batch = some b → 0 < b) (hTn : 0 < T * n) :
    ((getBatches T n perm batch).flatten).Perm
      ((List.range n).flatMap fun e => (List.range T).map fun t => (t, e)) :=
  Lemmas.getBatches_perm T n perm batch hperm hb hTn

/-! ### Non-vacuity: the hypotheses above are met by concrete non-trivial data -/

example : (gaeCol (2 : ℤ) 3 5 1 [⟨1, 2, 1⟩, ⟨3, 4, 0⟩, ⟨5, 6, 1⟩]).length = 3 := by decide

/-- a 3-step column with an episode boundary between steps 1 and 2 and a non-done last step -/
example : gaeCol (2 : ℤ) 3 5 1 [⟨1, 2, 1⟩, ⟨3, 4, 0⟩, ⟨5, 6, 1⟩] = [1, -1, 9] := by decide

example : [2, 0, 3, 1, 5, 4].Perm (List.range (3 * 2)) := by decide

example : getBatches 3 2 [2, 0, 3, 1, 5, 4] (some 4) = [[(2, 0), (0, 0), (0, 1), (1, 0)], [(2, 1), (1, 1)]] := by
  decide

end SB3Verif.C05
