/-
C07 — each training update applies the gradient of the algorithm's published objective.

The theorems are about the executable definitions of `SB3Verif/Model/Objective.lean` — the same ones
`Driver/C07.lean` runs at `Float` on the real minibatches — instantiated at ℝ.  For every algorithm they say:
the cotangent list the driver returns (∂ loss / ∂ network output, per sample) IS the derivative of the loss the
driver evaluates, for every batch size, every sample index and all values of the outputs, away from the kinks of
`min` / `clamp` (a null set; the Huber loss has none).  The harness pushes exactly these cotangents through the
real networks with `torch.autograd.grad` and compares with the gradients captured at `optimizer.step`.

Outside the theorems (trusted / correspondence only): the chain rule through the networks (PyTorch autograd),
float32 arithmetic, the optimizers, which batch is drawn.
-/
import SB3Verif.Lemmas.Objective

namespace SB3Verif.C07

open SB3Verif.Objective SB3Verif.Lemmas.Objective

/-! ### PPO -/

/-- Away from the kinks `ratio = 1 ± ε`, `surrGrad` is the derivative of the clipped surrogate
`min (A·r) (A·clamp r (1-ε) (1+ε))`, `r = exp (logp - oldLogp)`, with respect to `logp`:
`A·r` where the unclipped term is active, `0` where the clip is. -/
theorem ppo_surrogate_hasDerivAt (ε A o x₀ : ℝ) (hε : 0 ≤ ε)
    (h1 : ratio x₀ o ≠ 1 - ε) (h2 : ratio x₀ o ≠ 1 + ε) :
    HasDerivAt (fun x => surr ε A (ratio x o)) (surrGrad ε A o x₀) x₀ :=
  surr_hasDerivAt ε A o x₀ hε h1 h2

/-- inside the clip range the cotangent is `A·r`; -/
example : surrGrad (1 / 5 : ℝ) 3 0 0 = 3 := by
  norm_num [surrGrad_real]
/-- hypotheses of `ppo_surrogate_hasDerivAt` are met inside the range … -/
example : ratio (0 : ℝ) 0 ≠ 1 - 1 / 5 ∧ ratio (0 : ℝ) 0 ≠ 1 + 1 / 5 := by
  simp [ratio_real]; norm_num
/-- … and in the clipped branch (`r = e > 1.2`, `A > 0`), where the cotangent is `0`. -/
example : ratio (1 : ℝ) 0 ≠ 1 - 1 / 5 ∧ ratio (1 : ℝ) 0 ≠ 1 + 1 / 5 ∧ surrGrad (1 / 5 : ℝ) 3 0 1 = 0 := by
  have h : (2 : ℝ) < Real.exp 1 := by
    have := Real.add_one_lt_exp (x := 1) (by norm_num); linarith
  refine ⟨?_, ?_, ?_⟩
  · simp only [ratio_real, sub_zero]; intro h'; linarith
  · simp only [ratio_real, sub_zero]; intro h'; linarith
  · simp only [surrGrad_real, sub_zero]
    rw [if_neg]
    rw [max_eq_left (by linarith), min_eq_right (by linarith)]
    intro h'; linarith

/-- **PPO, log-probabilities.**  `(ppoCotLogp c S)[j]` is the partial derivative of the whole PPO loss
(`policy_loss + ent_coef * entropy_loss + vf_coef * value_loss`, each a batch mean) with respect to the
log-probability of sample `j`: `-(surrGrad)/B`, plus `ent_coef/B` when the entropy is estimated by `-log_prob`. -/
theorem ppo_loss_hasDerivAt_logp (c : PGConfig ℝ) (S : List (PGSample ℝ)) (j : ℕ) (hj : j < S.length)
    (hε : 0 ≤ c.clip) (h1 : ratio S[j].logp S[j].oldLogp ≠ 1 - c.clip)
    (h2 : ratio S[j].logp S[j].oldLogp ≠ 1 + c.clip) :
    HasDerivAt (fun x => ppoLoss c (S.set j { S[j] with logp := x }))
      ((ppoCotLogp c S)[j]'(by simpa using hj)) S[j].logp := by
  have hp := ppoPolicyLoss_hasDerivAt_logp S j hj c.clip hε h1 h2
  have he := (entropyLoss_hasDerivAt_logp S j hj c.hasEntropy).const_mul c.entCoef
  have hv := (valueLoss_hasDerivAt_logp S j hj c.clipVf).const_mul c.vfCoef
  refine hasDerivAt_of_eq ((hp.add he).add hv) (fun _ => rfl) ?_
  simp only [ppoCotLogp, entLogpCot, List.getElem_map, zero_real, one_real, ofNat_real]
  simp

/-- **PPO / A2C, values.**  `(valueCot …)[j]` is the partial derivative of the PPO loss with respect to the value
prediction of sample `j` (clipped variant: zero where `|v - v_old| > clip_range_vf`), away from the clamp's kinks. -/
theorem ppo_loss_hasDerivAt_value (c : PGConfig ℝ) (S : List (PGSample ℝ)) (j : ℕ) (hj : j < S.length)
    (hk : ∀ cv, c.clipVf = some cv →
      0 ≤ cv ∧ S[j].value - S[j].oldValue ≠ cv ∧ S[j].value - S[j].oldValue ≠ -cv) :
    HasDerivAt (fun x => ppoLoss c (S.set j { S[j] with value := x }))
      ((valueCot c.vfCoef c.clipVf S)[j]'(by simpa using hj)) S[j].value := by
  have hp := ppoPolicyLoss_hasDerivAt_value S j hj c.clip
  have he := (entropyLoss_hasDerivAt_value S j hj c.hasEntropy).const_mul c.entCoef
  have hv := (valueLoss_hasDerivAt_value S j hj c.clipVf hk).const_mul c.vfCoef
  refine hasDerivAt_of_eq ((hp.add he).add hv) (fun _ => rfl) ?_
  simp [valueCot]

/-- **PPO, entropies.**  `(entropyCot c S)[j] = -ent_coef/B`: raising the entropy lowers the loss. -/
theorem ppo_loss_hasDerivAt_entropy (c : PGConfig ℝ) (S : List (PGSample ℝ)) (j : ℕ) (hj : j < S.length) :
    HasDerivAt (fun x => ppoLoss c (S.set j { S[j] with entropy := x }))
      ((entropyCot c S)[j]'(by simpa using hj)) S[j].entropy := by
  have hp := ppoPolicyLoss_hasDerivAt_entropy S j hj c.clip
  have he := (entropyLoss_hasDerivAt_entropy S j hj c.hasEntropy).const_mul c.entCoef
  have hv := (valueLoss_hasDerivAt_entropy S j hj c.clipVf).const_mul c.vfCoef
  refine hasDerivAt_of_eq ((hp.add he).add hv) (fun _ => rfl) ?_
  simp only [entropyCot, List.getElem_map, zero_real, one_real, ofNat_real]
  simp

/-- a two-sample batch whose second sample is strictly inside the value-clip range meets the hypotheses -/
example : ∀ cv, (some (1 / 5 : ℝ)) = some cv →
    0 ≤ cv ∧ (1 / 10 : ℝ) - 0 ≠ cv ∧ (1 / 10 : ℝ) - 0 ≠ -cv := by
  intro cv h; cases h; norm_num

/-! ### A2C -/

/-- **A2C, log-probabilities**: `-(A_j)/B` (+ the entropy estimate term). -/
theorem a2c_loss_hasDerivAt_logp (c : PGConfig ℝ) (S : List (PGSample ℝ)) (j : ℕ) (hj : j < S.length) :
    HasDerivAt (fun x => a2cLoss c (S.set j { S[j] with logp := x }))
      ((a2cCotLogp c S)[j]'(by simpa using hj)) S[j].logp := by
  have hp := a2cPolicyLoss_hasDerivAt_logp S j hj
  have he := (entropyLoss_hasDerivAt_logp S j hj c.hasEntropy).const_mul c.entCoef
  have hv := (valueLoss_hasDerivAt_logp S j hj none).const_mul c.vfCoef
  refine hasDerivAt_of_eq ((hp.add he).add hv) (fun _ => rfl) ?_
  simp only [a2cCotLogp, entLogpCot, List.getElem_map, zero_real, one_real, ofNat_real]
  simp

theorem a2c_loss_hasDerivAt_value (c : PGConfig ℝ) (S : List (PGSample ℝ)) (j : ℕ) (hj : j < S.length) :
    HasDerivAt (fun x => a2cLoss c (S.set j { S[j] with value := x }))
      ((valueCot c.vfCoef none S)[j]'(by simpa using hj)) S[j].value := by
  have hp := a2cPolicyLoss_hasDerivAt_value S j hj
  have he := (entropyLoss_hasDerivAt_value S j hj c.hasEntropy).const_mul c.entCoef
  have hv := (valueLoss_hasDerivAt_value S j hj none (fun _ h => by cases h)).const_mul c.vfCoef
  refine hasDerivAt_of_eq ((hp.add he).add hv) (fun _ => rfl) ?_
  simp [valueCot]

theorem a2c_loss_hasDerivAt_entropy (c : PGConfig ℝ) (S : List (PGSample ℝ)) (j : ℕ) (hj : j < S.length) :
    HasDerivAt (fun x => a2cLoss c (S.set j { S[j] with entropy := x }))
      ((entropyCot c S)[j]'(by simpa using hj)) S[j].entropy := by
  have hp := a2cPolicyLoss_hasDerivAt_entropy S j hj
  have he := (entropyLoss_hasDerivAt_entropy S j hj c.hasEntropy).const_mul c.entCoef
  have hv := (valueLoss_hasDerivAt_entropy S j hj none).const_mul c.vfCoef
  refine hasDerivAt_of_eq ((hp.add he).add hv) (fun _ => rfl) ?_
  simp only [entropyCot, List.getElem_map, zero_real, one_real, ofNat_real]
  simp

/-! ### distributions without an analytic entropy (`hasEntropy = false`: `evaluate_actions` returned `entropy = None`,
e.g. gSDE with the tanh bijector): the objective uses the Monte-Carlo estimate `-mean (log π_θ(a|s))` of the CURRENT
policy, so the entropy term is a function of `logp` and contributes `+ent_coef/B` to its cotangent -/

/-- The cotangent w.r.t. `logp_j` the driver returns, spelled out: the surrogate's `-(surrGrad)/B`, plus
`ent_coef/B` exactly when the entropy is estimated from the log-probabilities (PPO), `-(A_j)/B` plus the same (A2C). -/
theorem cot_logp_entropy_estimate (c : PGConfig ℝ) (S : List (PGSample ℝ)) (j : ℕ) (hj : j < S.length) :
    (ppoCotLogp c S)[j]'(by simpa using hj) =
      -(surrGrad c.clip S[j].adv S[j].oldLogp S[j].logp / (S.length : ℝ))
        + (if c.hasEntropy then 0 else c.entCoef / (S.length : ℝ))
    ∧ (a2cCotLogp c S)[j]'(by simpa using hj) =
      -(S[j].adv / (S.length : ℝ)) + (if c.hasEntropy then 0 else c.entCoef / (S.length : ℝ)) := by
  constructor <;>
  · simp only [ppoCotLogp, a2cCotLogp, entLogpCot, List.getElem_map, zero_real, one_real, ofNat_real]
    split_ifs <;> simp [div_eq_mul_inv]

/-- **Entropy estimated from `logp`.**  With `hasEntropy = false` the entropy term `ent_coef * (-mean (-logp))` alone has
derivative `ent_coef/B` in `logp_j` (it would be `0` if the constant `old_log_prob` were used instead), and raising
`logp_j` — lowering the estimated entropy — raises that term when `ent_coef > 0`. -/
theorem entropy_estimate_term_hasDerivAt (ec : ℝ) (S : List (PGSample ℝ)) (j : ℕ) (hj : j < S.length) :
    HasDerivAt (fun x => ec * entropyLoss false (S.set j { S[j] with logp := x })) (ec / (S.length : ℝ)) S[j].logp := by
  have h := (entropyLoss_hasDerivAt_logp S j hj false).const_mul ec
  refine hasDerivAt_of_eq h (fun _ => rfl) ?_
  simp [div_eq_mul_inv]

/-! ### the loss is affine in the coefficients; the entropy bonus has the right sign -/

theorem loss_linear_in_coefs (c : PGConfig ℝ) (S : List (PGSample ℝ)) :
    ppoLoss c S = ppoLoss { c with entCoef := 0, vfCoef := 0 } S
      + c.entCoef * entropyLoss c.hasEntropy S + c.vfCoef * valueLoss c.clipVf S
    ∧ a2cLoss c S = a2cLoss { c with entCoef := 0, vfCoef := 0 } S
      + c.entCoef * entropyLoss c.hasEntropy S + c.vfCoef * valueLoss none S := by
  constructor <;> simp [ppoLoss, a2cLoss]

/-- With a positive entropy coefficient, a larger entropy on any sample gives a strictly smaller loss. -/
theorem entropy_increases_lowers_loss (c : PGConfig ℝ) (S : List (PGSample ℝ)) (j : ℕ) (hj : j < S.length)
    (hc : 0 < c.entCoef) (he : c.hasEntropy = true) (x x' : ℝ) (hx : x < x') :
    ppoLoss c (S.set j { S[j] with entropy := x' }) < ppoLoss c (S.set j { S[j] with entropy := x }) := by
  have hB : (0 : ℝ) < S.length := by
    have : 0 < S.length := Nat.lt_of_le_of_lt (Nat.zero_le _) hj
    exact_mod_cast this
  have hp : ∀ y, ppoPolicyLoss c.clip (S.set j { S[j] with entropy := y }) = ppoPolicyLoss c.clip S := by
    intro y; simp only [ppoPolicyLoss]
    rw [meanMap_set_eq (surrTerm c.clip) S j hj { S[j] with entropy := y } rfl]
  have hv : ∀ y, valueLoss c.clipVf (S.set j { S[j] with entropy := y }) = valueLoss c.clipVf S := by
    intro y; simp only [valueLoss]
    rw [meanMap_set_eq (valueTerm c.clipVf) S j hj { S[j] with entropy := y } (by cases c.clipVf <;> rfl)]
  have hent : ∀ y, entropyLoss true (S.set j { S[j] with entropy := y })
      = -(((S.map fun s => s.entropy).sum - S[j].entropy + y) / (S.length : ℝ)) := by
    intro y
    simp only [entropyLoss, if_true, meanMap_real, List.length_set]
    rw [sum_map_set (fun s : PGSample ℝ => s.entropy) S j hj]
  simp only [ppoLoss, hp, hv, he, hent]
  have : ((S.map fun s => s.entropy).sum - S[j].entropy + x) / (S.length : ℝ)
      < ((S.map fun s => s.entropy).sum - S[j].entropy + x') / (S.length : ℝ) :=
    div_lt_div_of_pos_right (by linarith) hB
  nlinarith

/-- normalised advantages sum to zero (what `(A - mean A) / (std A + 1e-8)` must satisfy whatever the divisor) -/
theorem normalized_advantages_sum_zero (l : List ℝ) (h : l ≠ []) : (normAdv l).sum = 0 :=
  normAdv_sum_zero l h

/-! ### DQN -/

/-- The Huber loss (β = 1) is differentiable everywhere, with derivative `clamp x (-1) 1`. -/
theorem smoothL1_hasDerivAt (x : ℝ) : HasDerivAt smoothL1 (smoothL1Grad x) x :=
  SB3Verif.Lemmas.Objective.smoothL1_hasDerivAt x

/-- **DQN.**  `(dqnCot γ S)[j]` is the partial derivative of `mean_i huber(q_i - y_i)`,
`y_i = r_i + (1 - d_i)·γ·max_a Q'(s'_i, a)`, with respect to `q_j` — no exception set. -/
theorem dqn_loss_hasDerivAt (γ : ℝ) (S : List (QSample ℝ)) (j : ℕ) (hj : j < S.length) :
    HasDerivAt (fun x => dqnLoss γ (S.set j { S[j] with q := x }))
      ((dqnCot γ S)[j]'(by simpa using hj)) S[j].q := by
  have h := dqnLoss_hasDerivAt γ S j hj
  refine hasDerivAt_of_eq h (fun _ => rfl) ?_
  simp [dqnCot]

/-- A terminal transition (`done = 1`) does not bootstrap: the target is the reward (all three TD targets). -/
theorem td_target_done_masks_bootstrap (γ r boot : ℝ) : tdTarget γ r 1 boot = r := by
  simp [tdTarget_real]

/-- and a non-terminal one bootstraps with weight `γ` -/
theorem td_target_not_done (γ r boot : ℝ) : tdTarget γ r 0 boot = r + γ * boot := by
  simp [tdTarget_real]

/-! ### SAC -/

/-- **SAC critics.**  `((sacCriticCot …)[j])[k] = (q_{k,j} - y_j)/B` is the partial derivative of
`0.5 · Σ_k mean_i (q_{k,i} - y_i)²` with respect to the output of critic `k` on sample `j`
(the target `y` carries no cotangent: it is a constant of the objective). -/
theorem sac_critic_hasDerivAt (γ αc : ℝ) (nc : ℕ) (S : List (CriticSample ℝ)) (j : ℕ) (hj : j < S.length)
    (k : ℕ) (hk : k < nc) (hkq : k < S[j].qs.length) :
    HasDerivAt (fun x => sacCriticLoss γ αc nc (S.set j { S[j] with qs := S[j].qs.set k x }))
      (((sacCriticCot γ αc nc S)[j]'(by simpa using hj)).getD k 0) (S[j].qs.getD k 0) := by
  have h := (criticSum_hasDerivAt S j hj k (sacTarget γ αc) nc hk hkq (fun _ => rfl)).const_mul (half : ℝ)
  refine hasDerivAt_of_eq h (fun _ => rfl) ?_
  simp [sacCriticCot, List.getD_eq_getElem?_getD, hk]

/-- **TD3 / DDPG critics**: `2 (q_{k,j} - y_j)/B` for `Σ_k mean_i (q_{k,i} - y_i)²`. -/
theorem td3_critic_hasDerivAt (γ : ℝ) (nc : ℕ) (S : List (CriticSample ℝ)) (j : ℕ) (hj : j < S.length)
    (k : ℕ) (hk : k < nc) (hkq : k < S[j].qs.length) :
    HasDerivAt (fun x => td3CriticLoss γ nc (S.set j { S[j] with qs := S[j].qs.set k x }))
      (((td3CriticCot γ nc S)[j]'(by simpa using hj)).getD k 0) (S[j].qs.getD k 0) := by
  have h := criticSum_hasDerivAt S j hj k (td3Target γ) nc hk hkq (fun _ => rfl)
  refine hasDerivAt_of_eq h (fun _ => rfl) ?_
  simp [td3CriticCot, List.getD_eq_getElem?_getD, hk]

/-- The bootstrap `min_i Q'_i` never exceeds any single target critic (clipped double-Q). -/
theorem min_le_each_critic (qs : List ℝ) (q : ℝ) (hq : q ∈ qs) : minList qs ≤ q :=
  minList_le_mem qs q hq

/-- … and it is one of them. -/
theorem min_is_some_critic (qs : List ℝ) (h : qs ≠ []) : minList qs ∈ qs := minList_mem qs h

/-- **SAC actor, log-probabilities**: `α/B`. -/
theorem sac_actor_hasDerivAt_logp (αc : ℝ) (S : List (ActorSample ℝ)) (j : ℕ) (hj : j < S.length) :
    HasDerivAt (fun x => sacActorLoss αc (S.set j { S[j] with logp := x }))
      ((sacActorCotLogp αc S)[j]'(by simpa using hj)) S[j].logp := by
  refine hasDerivAt_of_eq (sacActorLoss_hasDerivAt_logp αc S j hj) (fun _ => rfl) ?_
  simp [sacActorCotLogp]

/-- **SAC actor, critic outputs.**  When the minimum over the critics on sample `j` is not tied at critic `k`
(`k` is the strict arg-min, or some other critic is strictly smaller), `((sacActorCotQ S)[j])[k]` — `-1/B` for the
arg-min critic, `0` for the others — is the partial derivative of `mean_i (α·logπ_i - min_k q_{k,i})`. -/
theorem sac_actor_hasDerivAt_q (αc : ℝ) (S : List (ActorSample ℝ)) (j : ℕ) (hj : j < S.length)
    (k : ℕ) (hk : k < S[j].qpis.length)
    (hno_tie : (∀ i (hi : i < S[j].qpis.length), i ≠ k → S[j].qpis[k] < S[j].qpis[i]) ∨
      (∃ i, ∃ hi : i < S[j].qpis.length, S[j].qpis[i] < S[j].qpis[k])) :
    HasDerivAt (fun x => sacActorLoss αc (S.set j { S[j] with qpis := S[j].qpis.set k x }))
      (((sacActorCotQ S)[j]'(by simpa using hj)).getD k 0) S[j].qpis[k] := by
  rcases hno_tie with hmin | ⟨i₀, hi₀, hlt⟩
  · refine hasDerivAt_of_eq (sacActorLoss_hasDerivAt_q_min αc S j hj k hk hmin) (fun _ => rfl) ?_
    have ha := argminFirst_eq_of_strict_min S[j].qpis k hk hmin
    simp [sacActorCotQ, List.getD_eq_getElem?_getD, hk, ha]
    ring
  · refine hasDerivAt_of_eq (sacActorLoss_hasDerivAt_q_other αc S j hj k hk i₀ hi₀ hlt) (fun _ => rfl) ?_
    have ha := argminFirst_ne_of_other_smaller S[j].qpis k hk i₀ hi₀ hlt
    simp [sacActorCotQ, List.getD_eq_getElem?_getD, hk, Ne.symm ha]

/-- two critics that disagree on a sample: critic 0 is the strict arg-min -/
example : ∀ i (hi : i < [(1 : ℝ), 2].length), i ≠ 0 → [(1 : ℝ), 2][0] < [(1 : ℝ), 2][i] := by
  intro i hi h
  have : i = 1 := by simp at hi; omega
  subst this; norm_num

/-- **SAC temperature.**  `sacAlphaCot = -mean (logπ + H̄)` is the derivative of
`-mean (log α · (logπ + H̄))` with respect to `log α` (log-probabilities detached). -/
theorem sac_alpha_hasDerivAt (H : ℝ) (lps : List ℝ) (logα : ℝ) :
    HasDerivAt (sacAlphaLoss H lps) (sacAlphaCot H lps) logα :=
  sacAlphaLoss_hasDerivAt H lps logα

/-! ### TD3 / DDPG -/

/-- **TD3 actor**: `-1/B` for `-mean Q_1(s, π(s))`. -/
theorem td3_actor_hasDerivAt (q1s : List ℝ) (j : ℕ) (hj : j < q1s.length) :
    HasDerivAt (fun x => td3ActorLoss (q1s.set j x)) ((td3ActorCot q1s)[j]'(by simpa using hj)) q1s[j] := by
  refine hasDerivAt_of_eq (td3ActorLoss_hasDerivAt q1s j hj) (fun _ => rfl) ?_
  simp [td3ActorCot]

/-- The smoothed target action stays in the action box and its noise within `±c`. -/
theorem td3_next_action_bounded (c π n : ℝ) (hc : 0 ≤ c) :
    -1 ≤ td3NextAction c π n ∧ td3NextAction c π n ≤ 1 ∧ |clamp (-c) c n| ≤ c := by
  rw [td3NextAction_real, clamp_real]
  refine ⟨?_, min_le_right _ _, ?_⟩
  · exact le_min (le_max_right _ _) (by norm_num)
  · rw [abs_le]
    exact ⟨le_min (le_max_right _ _) (by linarith), min_le_right _ _⟩

/-- DDPG (`target_noise_clip = 0`): no smoothing, the target action is the target actor's, clamped. -/
theorem ddpg_next_action (π n : ℝ) : td3NextAction 0 π n = clamp (-1) 1 π := by
  rw [td3NextAction_real, clamp_real]
  have : min (max n (-0 : ℝ)) 0 = 0 := by
    rw [neg_zero]; exact min_eq_right (le_max_right _ _)
  rw [this, add_zero]

/-- The actor is updated exactly on the gradient steps whose running count is a multiple of `policy_delay`;
DDPG (`policy_delay = 1`) updates it on every step. -/
theorem td3_actor_due_iff (n delay : ℕ) : td3ActorDue n delay = true ↔ delay ∣ n := by
  simp [td3ActorDue, Nat.dvd_iff_mod_eq_zero]

theorem ddpg_actor_always_due (n : ℕ) : td3ActorDue n 1 = true := by
  simp [td3ActorDue, Nat.mod_one]

/-! ### gradient-norm clipping -/

/-- `‖clip g‖ ≤ max_norm` -/
theorem clip_norm_le (m : ℝ) (hm : 0 ≤ m) (g : List ℝ) : l2norm (clipGradNorm m g) ≤ m :=
  l2norm_clip_le m hm g

/-- clipping is a rescaling by one factor in `[0, 1]` (the direction of the gradient is kept) -/
theorem clip_norm_parallel (m : ℝ) (hm : 0 ≤ m) (g : List ℝ) :
    ∃ c : ℝ, 0 ≤ c ∧ c ≤ 1 ∧ clipGradNorm m g = g.map fun x => x * c :=
  ⟨clipCoef m (l2norm g), clipCoef_nonneg m _ hm (l2norm_nonneg g), clipCoef_le_one m _, rfl⟩

/-- a gradient within the bound is not changed -/
theorem clip_id_of_small (m : ℝ) (g : List ℝ) (h : l2norm g + 1 / 1000000 ≤ m) : clipGradNorm m g = g :=
  SB3Verif.Lemmas.Objective.clip_id_of_small m g h

example : l2norm [(3 : ℝ) / 10, 4 / 10] + 1 / 1000000 ≤ 1 := by
  have : l2norm [(3 : ℝ) / 10, 4 / 10] = 1 / 2 := by
    rw [l2norm_real]
    have : ([(3 : ℝ) / 10, 4 / 10].map fun x => x * x).sum = 1 / 2 * (1 / 2) := by norm_num
    rw [this, Real.sqrt_mul_self (by norm_num)]
  rw [this]; norm_num

/-! ### learning-rate schedule -/

/-- the progress handed to the schedule is in `[0, 1]`, `1` at the start and `0` from `total_timesteps` on -/
theorem progress_remaining_bounds (num total : ℕ) (ht : 0 < total) :
    0 ≤ (progressRemaining num total : ℝ) ∧ (progressRemaining num total : ℝ) ≤ 1
    ∧ (progressRemaining 0 total : ℝ) = 1
    ∧ (total ≤ num → (progressRemaining num total : ℝ) = 0) := by
  have hT : (0 : ℝ) < total := by exact_mod_cast ht
  have hq : (0 : ℝ) ≤ (num : ℝ) / total := div_nonneg (by positivity) hT.le
  simp only [progressRemaining, max'_real, one_real, zero_real, ofNat_real]
  refine ⟨le_max_right _ _, max_le (by linarith) (by norm_num), ?_, ?_⟩
  · simp
  · intro h
    apply max_eq_right
    have : (1 : ℝ) ≤ (num : ℝ) / total := by
      rw [le_div_iff₀ hT]; simpa using (by exact_mod_cast h : (total : ℝ) ≤ num)
    linarith

/-- a linear schedule stays between `0` and its initial value -/
theorem lr_linear_bounds (lr0 p : ℝ) (h0 : 0 ≤ lr0) (hp0 : 0 ≤ p) (hp1 : p ≤ 1) :
    0 ≤ lrAt (.linear lr0) p ∧ lrAt (.linear lr0) p ≤ lr0 ∧ lrAt (.const lr0) p = lr0 := by
  simp only [lrAt]
  exact ⟨mul_nonneg hp0 h0, by nlinarith, trivial⟩

end SB3Verif.C07
